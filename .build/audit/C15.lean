import JrpcVerif.Theorems.C15
import JrpcVerif.Theorems.C15Codes
#print axioms Jrpc.Gen.c15_translator_ok
#print axioms Jrpc.Gen.c15_code_rt_int
#print axioms Jrpc.Gen.c15_code_rt_named
#print axioms Jrpc.Gen.c15_code_rt_server
#print axioms Jrpc.Gen.c15_code_rt_kind
#print axioms Jrpc.Gen.c15_codes_injective
#print axioms Jrpc.c15_id_rt
#print axioms Jrpc.c15_id_bytes
#print axioms Jrpc.c15_subid_rt
#print axioms Jrpc.c15_id_kind_preserved
