import JrpcVerif.Theorems.C15
import JrpcVerif.Theorems.C15Codes
import JrpcVerif.Theorems.C15Wire
import JrpcVerif.Theorems.TextCore
#print axioms Jrpc.Gen.c15_translator_ok
#print axioms Jrpc.Gen.c15_code_rt_int
#print axioms Jrpc.Gen.c15_code_rt_named
#print axioms Jrpc.Gen.c15_code_rt_server
#print axioms Jrpc.Gen.c15_code_rt_kind
#print axioms Jrpc.Gen.c15_codes_injective
#print axioms Jrpc.c15_id_rt
#print axioms Jrpc.c15_id_bytes
#print axioms Jrpc.c15_subid_rt
#print axioms Jrpc.c15_id_kind_preserved
#print axioms Jrpc.stable_encodeErrObj
#print axioms Jrpc.c15_response_rt
#print axioms Jrpc.c15_emitted_valid
#print axioms Jrpc.c15_request_rt
#print axioms Jrpc.c15_notification_rt
#print axioms Jrpc.c15_parser_rejects_duplicates
#print axioms Jrpc.c15_parser_requires
#print axioms Jrpc.c15_parser_ignores_unknown
#print axioms Jrpc.c15_parser_jsonrpc
#print axioms Jrpc.stable_encodeNat
#print axioms Jrpc.stable_encodeInt
#print axioms Jrpc.stable_object
#print axioms Jrpc.decodeI32_encodeInt
#print axioms Jrpc.c15_error_rt
#print axioms Jrpc.text_slice_stable
#print axioms Jrpc.text_doc_stable
#print axioms Jrpc.text_elements_stable
#print axioms Jrpc.text_members_stable
#print axioms Jrpc.text_fuel_independent
