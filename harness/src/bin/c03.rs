//! C03 — client: each call completes with exactly the response bearing its own id.
//! Real `Client` on the mock transport; k concurrent operations, then the server's answers as
//! permutations with duplications / omissions, interleaved with subscription notifications, plain
//! notifications and batch arrays; both id kinds; answers with the wrong id type.
use jrpc_harness::client_mock::*;
use jrpc_harness::client_spell::*;
use jrpc_harness::common::*;
use serde_json::Value;
use std::collections::BTreeMap;

// ---------------------------------------------------------------------------------------------
// oracle: plain bookkeeping on what went over the wire, independent of the Lean model

#[derive(Debug, Clone, PartialEq)]
enum Kind {
	Call,
	Subscribe,
	Batch,
	Reg,
}

#[derive(Default)]
struct Oracle {
	/// op -> kind, in script order
	kinds: Vec<Kind>,
	/// ops whose request has not been seen on the wire yet, in FIFO order of the send task
	unsent: Vec<usize>,
	/// op -> id (as JSON value) the operation wrote on the wire
	wire_id: BTreeMap<usize, Value>,
	/// ops already completed
	done: BTreeMap<usize, String>,
	/// texts delivered so far
	delivered: Vec<String>,
	/// completions seen before the request reached the wire (gate shut): (op, id of the completing response)
	deferred: Vec<(usize, Value)>,
	/// batch op -> the ids of its entries, as written on the wire
	batch_ids: BTreeMap<usize, Vec<Value>>,
	/// every request id on the wire that has not been answered yet (calls, subscribe / unsubscribe calls, batch entries)
	inflight: InFlight,
	/// operations whose future the application dropped before the answer (`cl abandon <op>`): the request stays
	/// registered, its late answer is absorbed — it completes nothing and does not disturb the connection
	abandoned: Vec<usize>,
}

fn canon(s: &str) -> String {
	serde_json::from_str::<Value>(s).map(|v| v.to_string()).unwrap_or_else(|_| s.to_string())
}

impl Oracle {
	fn front_op(&mut self, k: Kind) {
		let op = self.kinds.len();
		if k != Kind::Reg {
			self.unsent.push(op);
		}
		self.kinds.push(k);
	}

	/// every wire text that is a call/subscribe request (object with id+method) or a batch array
	/// tells us the id of the oldest operation not yet sent
	fn see_wire(&mut self, text: &str) -> Result<(), String> {
		let v: Value = serde_json::from_str(text).map_err(|e| format!("client wrote invalid JSON: {e}"))?;
		let id = match &v {
			Value::Object(o) if o.contains_key("method") && o.contains_key("id") => {
				if o.get("method").and_then(|m| m.as_str()) == Some("unsub") {
					return Ok(()); // internal unsubscribe: no ticket
				}
				o.get("id").cloned()
			}
			Value::Array(a) => a.first().and_then(|e| e.get("id")).cloned(),
			_ => None,
		};
		if let Some(id) = id {
			if self.unsent.is_empty() {
				return Err(format!("a request appeared on the wire that no operation accounts for: {text}"));
			}
			let op = self.unsent.remove(0);
			if let Value::Array(a) = &v {
				self.batch_ids.insert(op, a.iter().filter_map(|e| e.get("id").cloned()).collect());
			}
			if self.wire_id.values().any(|x| *x == id) {
				return Err(format!("request id {id} written twice"));
			}
			for (dop, got) in &self.deferred {
				if *dop == op && *got != id {
					return Err(format!("call {op} wrote id {id} but had been completed by the response with id {got}"));
				}
			}
			self.wire_id.insert(op, id);
		}
		Ok(())
	}

	/// the property for one completion observed while `delivered_now` was being handled
	fn check_completion(&mut self, op: usize, comp: &Comp, delivered_now: Option<&str>) -> Result<(), String> {
		if let Some(prev) = self.done.get(&op) {
			return Err(format!("operation {op} completed twice: first {prev}, now {}", comp.render()));
		}
		self.done.insert(op, comp.render());
		let kind = self.kinds.get(op).cloned().ok_or("completion of an unknown op")?;
		match (kind, comp) {
			(Kind::Call, Comp::Ok(_)) | (Kind::Call, Comp::CallErr { .. }) | (Kind::Subscribe, Comp::Sub(_)) | (Kind::Subscribe, Comp::CallErr { .. }) => {
				let text = delivered_now.ok_or("a call completed although no text was delivered")?;
				let v: Value = serde_json::from_str(text).map_err(|_| "completed by a non-JSON text".to_string())?;
				let Value::Object(o) = &v else {
					return Err(format!("call {op} completed by a text that is not a single response object: {text}"));
				};
				let got_id = o.get("id").ok_or("completed by an object without id")?;
				match self.wire_id.get(&op) {
					Some(want) => {
						if got_id != want {
							return Err(format!("call {op} wrote id {want} but was completed by the response with id {got_id}"));
						}
					}
					// the send task still holds the request behind the shut gate: compare when it appears
					None => self.deferred.push((op, got_id.clone())),
				}
				// payload must be exactly what that response carried
				match comp {
					Comp::Ok(val) => {
						let r = o.get("result").ok_or("completed Ok by a response without result")?;
						if canon(val) != r.to_string() {
							return Err(format!("call {op}: value {val} is not the result {r} of the response"));
						}
					}
					Comp::Sub(sid) => {
						let r = o.get("result").ok_or("subscribed by a response without result")?;
						let expect = match r {
							Value::Number(n) => format!("n:{n}"),
							Value::String(s) => format!("s:{}", hexs(s)),
							_ => "?".into(),
						};
						if *sid != expect {
							return Err(format!("subscribe {op}: got subscription id {sid}, response carried {r}"));
						}
					}
					Comp::CallErr { code, msg, data } => {
						let e = o.get("error").ok_or("completed Err by a response without error")?;
						let ok = e.get("code").and_then(|c| c.as_i64()) == Some(*code as i64)
							&& e.get("message").and_then(|m| m.as_str()) == Some(msg.as_str())
							&& e.get("data").filter(|d| !d.is_null()).map(|d| d.to_string()) == data.as_ref().map(|d| canon(d));
						if !ok {
							return Err(format!("call {op}: error object {comp:?} is not the one of the response {e}"));
						}
					}
					_ => {}
				}
				Ok(())
			}
			(Kind::Batch, Comp::Batch { .. }) => Ok(()), // C12
			(Kind::Reg, Comp::Reg) | (Kind::Reg, Comp::E(_)) => Ok(()),
			(_, Comp::E(_)) => Ok(()), // failed operations (occupied, parse, invalid sub id …): no response value handed out
			(k, c) => Err(format!("operation {op} of kind {k:?} completed with {c:?}")),
		}
	}
}

fn run_one(out: &mut Out, lines: &[String]) {
	let mut orc = Oracle::default();
	let mut recs: Vec<(String, String, Result<(), String>, bool)> = vec![];
	run_case(lines, |line, obs| {
		let w: Vec<&str> = line.split(' ').collect();
		let mut verdict: Result<(), String> = Ok(());
		let mut nontrivial = false;
		if w[0] == "cl" && obs.literal.is_none() {
			match w[1] {
				"call" => orc.front_op(Kind::Call),
				"subscribe" => orc.front_op(Kind::Subscribe),
				"batch" | "tbatch" => orc.front_op(Kind::Batch),
				"regnotif" => orc.front_op(Kind::Reg),
				"notify" => {}
				"abandon" => {
					if let Ok(op) = w[2].parse::<usize>() {
						if !orc.done.contains_key(&op) {
							orc.abandoned.push(op);
						}
					}
				}
				_ => {}
			}
			// the operation a delivered single response answers: the one that wrote this id and is not finished yet
			let answered_op: Option<usize> = if w[1] == "deliver" {
				String::from_utf8(unhex(w[2])).ok().and_then(|d| serde_json::from_str::<Value>(&d).ok()).and_then(|v| {
					if v.is_object() && msg_kind(&v) == MsgKind::Response {
						let id = v.get("id").cloned()?;
						orc.wire_id.iter().find(|(op, x)| **x == id && !orc.done.contains_key(*op) && matches!(orc.kinds[**op], Kind::Call | Kind::Subscribe)).map(|(op, _)| *op)
					} else {
						None
					}
				})
			} else {
				None
			};
			// … and the abandoned batch a delivered array answers completely
			let answered_abandoned_batch: Option<usize> = if w[1] == "deliver" {
				String::from_utf8(unhex(w[2])).ok().and_then(|d| serde_json::from_str::<Value>(&d).ok()).and_then(|v| {
					let a = v.as_array()?;
					let mut y: Vec<String> = a.iter().filter(|e| msg_kind(e) == MsgKind::Response).filter_map(|e| e.get("id").map(|i| i.to_string())).collect();
					y.sort();
					orc.batch_ids.iter().find(|(op, ids)| {
						let mut x: Vec<String> = ids.iter().map(|v| v.to_string()).collect();
						x.sort();
						x == y && orc.abandoned.contains(*op) && !orc.done.contains_key(*op)
					}).map(|(op, _)| *op)
				})
			} else {
				None
			};
			let delivered = if w[1] == "deliver" || w[1] == "deliverx" { String::from_utf8(unhex(w[2])).ok() } else { None };
			// two requests in flight must never bear the same id — otherwise "the response bearing its id" means nothing
			if let Some(d) = &delivered {
				orc.inflight.on_deliver(d);
			}
			for wt in &obs.wires {
				if let Err(e) = orc.inflight.on_wire(wt) {
					out.count("oracle.shared-wire-id");
					verdict = Err(e);
				}
			}
			if obs.fatal.is_some() {
				orc.inflight.clear();
			}
			for wt in &obs.wires {
				// notifications carry no id and are skipped by see_wire
				if let Err(e) = orc.see_wire(wt) {
					verdict = Err(e);
				}
			}
			if w[1] == "deliverx" {
				// not a legal message of any kind: it must complete nothing and the client must not carry on as if
				// nothing had happened
				nontrivial = true;
				out.count("near-miss.delivered");
				if obs.fatal.is_none() {
					verdict = Err(format!("a text that is no legal message was accepted: {:?} -> {}", delivered, obs.render()));
				}
			}
			if let Some(d) = &delivered {
				orc.delivered.push(d.clone());
			}
			for (op, comp) in &obs.comps {
				nontrivial = true;
				out.count(match comp {
					Comp::Ok(_) => "complete.call.ok",
					Comp::CallErr { .. } => "complete.err",
					Comp::Sub(_) => "complete.sub",
					Comp::Batch { .. } => "complete.batch",
					Comp::Reg => "complete.reg",
					Comp::E(_) => "complete.E",
				});
				if let Err(e) = orc.check_completion(*op, comp, delivered.as_deref()) {
					verdict = Err(e);
				}
				// the bytes of a binary frame that are no UTF-8 are no JSON text: whatever completes from them carries a value
				// the server never sent
				if delivered.is_none() && matches!(w[1], "deliver" | "deliverx") && !matches!(comp, Comp::E(_)) {
					verdict = Err(format!(
						"operation {op} completed with {} from a binary frame whose bytes {} are no UTF-8: the value is not what the server sent",
						comp.render(),
						w[2]
					));
				}
			}
			// the answer to an operation: a live one completes with it (check_completion: with exactly its payload); one the
			// application has abandoned stays registered until answered, so the late answer is absorbed: nothing completes
			// and the connection goes on (the calls issued since then get their own answers)
			if let Some(op) = answered_op {
				nontrivial = true;
				let mine = obs.comps.iter().any(|(o, _)| *o == op);
				if orc.abandoned.contains(&op) {
					out.count("answer.late.to-abandoned");
					if (obs.fatal.is_some() || !obs.comps.is_empty()) && verdict.is_ok() {
						verdict = Err(format!(
							"the late answer to operation {op}, which the application had abandoned but which is still registered, was not absorbed quietly: {}",
							obs.render()
						));
					}
					orc.done.insert(op, "absorbed".into());
				} else {
					out.count("answer.to-live");
					if (obs.fatal.is_some() || !mine) && verdict.is_ok() {
						verdict = Err(format!("operation {op} is pending and was answered, but did not complete with its answer: {}", obs.render()));
					}
				}
			}
			if let Some(op) = answered_abandoned_batch {
				nontrivial = true;
				out.count("answer.late.to-abandoned-batch");
				if (obs.fatal.is_some() || !obs.comps.is_empty()) && verdict.is_ok() {
					verdict = Err(format!("the late reply to the abandoned batch {op} was not absorbed quietly: {}", obs.render()));
				}
				orc.done.insert(op, "absorbed".into());
			}
			// arrays: every element has the effect it would have alone, or the whole array is refused
			if let (Some(d), true, None) = (&delivered, w[1] == "deliver", answered_abandoned_batch) {
				if array_has_response(d) {
					nontrivial = true;
					let batch_done = obs.comps.iter().any(|(op, _)| orc.kinds.get(*op) == Some(&Kind::Batch));
					if obs.fatal.is_none() && !batch_done && verdict.is_ok() {
						verdict = Err(format!("the responses inside the array {d} took no effect: no batch completed and the connection was not given up"));
					}
					// a complete answer to a pending batch (each of its ids once), everything else in the array a server push:
					// that batch completes
					if let Ok(Value::Array(a)) = serde_json::from_str::<Value>(d) {
						let rids: Vec<Value> = a.iter().filter(|e| msg_kind(e) == MsgKind::Response).filter_map(|e| e.get("id").cloned()).collect();
						let rest_pushes = a.iter().all(|e| msg_kind(e) != MsgKind::Other);
						for (op, ids) in &orc.batch_ids {
							let mut x: Vec<String> = ids.iter().map(|v| v.to_string()).collect();
							let mut y: Vec<String> = rids.iter().map(|v| v.to_string()).collect();
							x.sort();
							y.sort();
							let completed_now = obs.comps.iter().any(|(o, _)| o == op);
							if x == y && rest_pushes && (completed_now || !orc.done.contains_key(op)) {
								out.count(if a.len() > rids.len() { "mixed.complete-reply-with-pushes" } else { "mixed.complete-reply-alone" });
								if !obs.comps.iter().any(|(o, c)| o == op && matches!(c, Comp::Batch { .. } | Comp::E(_))) && verdict.is_ok() {
									verdict = Err(format!("batch {op} was answered completely by {d} (its responses share the array with server pushes) but did not complete: {}", obs.render()));
								}
							}
						}
					}
				}
			}
			if let Some(f) = &obs.fatal {
				nontrivial = true;
				out.count(if f.starts_with("notpending") { "fatal.notpending" } else { "fatal.other" });
				// a response whose id matches nothing pending completes no call — observed as: nothing completed
				if !obs.comps.is_empty() {
					verdict = Err("a fatal message also completed something".into());
				}
			}
		}
		recs.push((line.to_string(), obs.render(), verdict, nontrivial));
	});
	for (l, o, v, nt) in recs {
		out.line(l, o, v, nt);
	}
}

// ---------------------------------------------------------------------------------------------
// generator

fn permutations(n: usize) -> Vec<Vec<usize>> {
	fn go(cur: &mut Vec<usize>, used: &mut Vec<bool>, n: usize, out: &mut Vec<Vec<usize>>) {
		if cur.len() == n {
			out.push(cur.clone());
			return;
		}
		for i in 0..n {
			if !used[i] {
				used[i] = true;
				cur.push(i);
				go(cur, used, n, out);
				cur.pop();
				used[i] = false;
			}
		}
	}
	let mut out = vec![];
	go(&mut vec![], &mut vec![false; n], n, &mut out);
	out
}

fn idj(n: u64, str_ids: bool) -> String {
	if str_ids { format!("\"{n}\"") } else { n.to_string() }
}

fn answer(rng: &mut Rng, id: &str, tag: u64) -> String {
	let ws = |rng: &mut Rng| if rng.chance(1, 10) { " " } else { "" };
	let j = if rng.chance(1, 10) { "".to_string() } else { format!("\"jsonrpc\":{}\"2.0\",", ws(rng)) };
	match rng.below(10) {
		8 => format!("{{{j}\"id\":{id},\"result\":{}}}", odd_result(rng)),
		9 => format!("{{{j}\"id\":{id},\"error\":{}}}", odd_error(rng)),
		0 => format!("{{{j}\"id\":{id},\"error\":{{\"code\":-32000,\"message\":\"e{tag}\"}}}}"),
		1 => format!("{{{j}\"id\":{id},\"error\":{{\"code\":{tag},\"message\":\"m\",\"data\":{{\"k\":[{tag}]}}}}}}"),
		2 => format!("{{{j}\"result\":{{\"v\": {tag}}},\"id\":{id}}}"),
		3 => format!("{}{{{j}\"id\":{id},\"result\":[{tag}, null]}}{}", ws(rng), ws(rng)),
		_ => format!("{{{j}\"id\":{id},\"result\":\"r{tag}\"}}"),
	}
}

#[derive(Clone)]
enum Open {
	Call { id: u64 },
	Sub { id: u64, op: usize },
	Batch { start: u64, n: u64 },
}

/// The text that correctly answers an open operation.
/// returns the text and, for an accepted subscribe, the JSON text of its subscription id
fn correct_answer(rng: &mut Rng, o: &Open, str_ids: bool, subs: &mut Vec<String>) -> (String, Option<String>) {
	match o {
		Open::Call { id } => (answer(rng, &idj(*id, str_ids), *id), None),
		Open::Sub { id, .. } => {
			// the second time: sometimes the server hands out an id it has used before
			let sid = if !subs.is_empty() && rng.chance(1, 6) { rng.pick(subs).clone() } else { format!("S{}", id) };
			subs.push(sid.clone());
			if rng.chance(1, 6) {
				(format!("{{\"jsonrpc\":\"2.0\",\"id\":{},\"error\":{{\"code\":-32001,\"message\":\"refused\"}}}}", idj(*id, str_ids)), None)
			} else if rng.chance(1, 8) {
				(format!("{{\"jsonrpc\":\"2.0\",\"id\":{},\"result\":{}}}", idj(*id, str_ids), id), Some(id.to_string()))
			} else {
				(format!("{{\"jsonrpc\":\"2.0\",\"id\":{},\"result\":\"{sid}\"}}", idj(*id, str_ids)), Some(format!("\"{sid}\"")))
			}
		}
		Open::Batch { start, n } => {
			let mut es: Vec<String> = (0..*n).map(|i| answer(rng, &idj(start + i, str_ids), start + i)).collect();
			for i in (1..es.len()).rev() {
				let j = rng.below(i as u64 + 1) as usize;
				es.swap(i, j);
			}
			if rng.chance(1, 3) {
				// the reply shares its array with server pushes (subscription / close / method notifications)
				let sids: Vec<String> = subs.iter().map(|s| format!("\"{s}\"")).collect();
				es = mix_pushes(rng, es, &sids);
			}
			(format!("[{}]", es.join(",")), None)
		}
	}
}

fn noise(rng: &mut Rng, subs: &[String], next_id: u64, str_ids: bool, lethal: bool) -> String {
	// kinds 5..=7 name an id nothing waits on: the client abandons the connection (C03 clause 2)
	let pick = if lethal { *rng.pick(&[5u64, 6, 7, 9, 10]) } else if rng.chance(1, 12) { *rng.pick(&[5u64, 6, 7, 9, 10]) } else { *rng.pick(&[0u64, 1, 2, 3, 4, 8, 11, 12]) };
	match pick {
		0 => "{\"jsonrpc\":\"2.0\",\"method\":\"other\",\"params\":[1,2]}".into(),
		1 => "{\"jsonrpc\":\"2.0\",\"method\":\"nparams\"}".into(),
		2 | 3 => {
			let s = if subs.is_empty() || rng.chance(1, 4) { "nobody".to_string() } else { rng.pick(subs).clone() };
			format!("{{\"jsonrpc\":\"2.0\",\"method\":\"sub\",\"params\":{{\"subscription\":\"{s}\",\"result\":{}}}}}", rng.below(100))
		}
		4 => {
			let s = if subs.is_empty() { "nobody".to_string() } else { rng.pick(subs).clone() };
			format!(
				"[{{\"jsonrpc\":\"2.0\",\"method\":\"sub\",\"params\":{{\"subscription\":\"{s}\",\"result\":1}}}},{{\"jsonrpc\":\"2.0\",\"method\":\"other\",\"params\":null}}]"
			)
		}
		5 => {
			// response with the wrong id *type* for some plausible id
			let n = rng.below(next_id.max(1));
			answer(rng, &idj(n, !str_ids), 777)
		}
		6 => {
			// response for an id that was never allocated / already answered
			let n = if rng.chance(1, 2) { next_id + rng.below(3) } else { rng.below(next_id.max(1)) };
			answer(rng, &idj(n, str_ids), 888)
		}
		7 => answer(rng, "null", 999),
		9 => {
			// the number of a pending id spelled as another string: "+1", "01", "1 ", "", "1.0"
			let n = rng.below(next_id.max(1));
			let spelled = match rng.below(5) {
				0 => format!("\"+{n}\""),
				1 => format!("\"0{n}\""),
				2 => format!("\"{n} \""),
				3 => "\"\"".to_string(),
				_ => format!("\"{n}.0\""),
			};
			answer(rng, &spelled, 666)
		}
		10 => {
			// a pending id inside an array of one (a batch nobody sent)
			let n = rng.below(next_id.max(1));
			format!("[{}]", answer(rng, &idj(n + 1000, str_ids), 555))
		}
		11 => {
			// notifications with every shape of `params`
			let p = *rng.pick(&["", ",\"params\":null", ",\"params\":[]", ",\"params\":{}", ",\"params\":[1,[2],{\"three\":3}]", ",\"params\":{\"subscription\":true,\"result\":1}", ",\"params\":\"text\"", ",\"params\":7"]);
			format!("{{\"jsonrpc\":\"2.0\",\"method\":\"other\"{p}}}")
		}
		12 => {
			// subscription notification with the members of `params` in the other order / with extras
			let s = if subs.is_empty() { "nobody".to_string() } else { rng.pick(subs).clone() };
			match rng.below(3) {
				0 => format!("{{\"method\":\"sub\",\"params\":{{\"result\":{},\"subscription\":\"{s}\"}},\"jsonrpc\":\"2.0\"}}", rng.below(100)),
				1 => format!("{{\"jsonrpc\":\"2.0\",\"method\":\"anything\",\"params\":{{\"subscription\":\"{s}\",\"extra\":[1],\"result\":{}}}}}", rng.below(100)),
				_ => format!("{{\"jsonrpc\":\"2.0\",\"method\":\"sub\",\"params\":{{\"subscription\":\"{s}\",\"result\":{}}}}}", odd_result(rng)),
			}
		}
		_ => {
			let s = if subs.is_empty() { "nobody".to_string() } else { rng.pick(subs).clone() };
			format!("{{\"jsonrpc\":\"2.0\",\"method\":\"sub\",\"params\":{{\"subscription\":\"{s}\",\"error\":\"closed\"}}}}")
		}
	}
}


/// Late answers to abandoned operations — a deterministic family.  `kinds[i]` is the kind of operation i (0 call, 1 batch
/// of two, 2 subscribe); the operations in `abandon` are given up by the application (their futures dropped), either
/// right after they were issued or after all were issued; then one more call is issued; then every operation is answered,
/// the abandoned ones late, in the order `order` (a permutation of all k+1 answers).  An abandoned operation stays
/// registered: its answer is absorbed, completes nothing and does not disturb the connection; every live operation
/// completes with its own answer (seeded mutant C03-R8 purged abandoned calls when the next call was registered: the
/// late answer then "matches nothing pending", the connection is given up and the live calls get RestartNeeded).
fn gen_abandon_case(rng: &mut Rng, out: &mut Out, caseno: u64, kinds: &[u8], abandon: &[usize], at_once: bool, order: &[usize]) -> Vec<String> {
	let str_ids = rng.chance(1, 3);
	let mut lines = vec![format!("case {caseno} client {} 2 64", if str_ids { "str" } else { "num" })];
	let mut next_id = 0u64;
	let mut open: Vec<Open> = vec![];
	let mut subs: Vec<String> = vec![];
	for (op, k) in kinds.iter().enumerate() {
		match k {
			0 => {
				lines.push("cl call".into());
				open.push(Open::Call { id: next_id });
				next_id += 1;
			}
			1 => {
				lines.push("cl batch 2".into());
				open.push(Open::Batch { start: next_id, n: 2 });
				next_id += 2;
			}
			_ => {
				lines.push("cl subscribe".into());
				open.push(Open::Sub { id: next_id, op });
				next_id += 2;
			}
		}
		if at_once && abandon.contains(&op) {
			lines.push(format!("cl abandon {op}"));
		}
	}
	if !at_once {
		for op in abandon {
			lines.push(format!("cl abandon {op}"));
		}
	}
	// one more call, issued after the others were given up
	lines.push("cl call".into());
	open.push(Open::Call { id: next_id });
	next_id += 1;
	for i in order {
		let (text, _) = correct_answer(rng, &open[*i], str_ids, &mut subs);
		lines.push(deliver_line(rng, &text, |k| out.count(k)));
	}
	// the connection still works
	lines.push("cl call".into());
	let last = answer(rng, &idj(next_id, str_ids), next_id);
	lines.push(deliver_line(rng, &last, |k| out.count(k)));
	lines.push("cl connected".into());
	lines
}

/// all cases of the family for `k` operations
fn gen_abandon_family(rng: &mut Rng, out: &mut Out, caseno: &mut u64, k: usize, lines: &mut Vec<String>) {
	for mask in 1u32..(1 << k) {
		let abandon: Vec<usize> = (0..k).filter(|i| mask >> i & 1 == 1).collect();
		if abandon.len() > 3 {
			continue;
		}
		for variant in 0..3u8 {
			// abandoned operations rotate through call / batch / subscribe, the others are calls
			let kinds: Vec<u8> = (0..k).map(|i| if abandon.contains(&i) { (i as u8 + variant) % 3 } else { 0 }).collect();
			for at_once in [true, false] {
				for order in permutations(k + 1) {
					*caseno += 1;
					out.count("family.late-answers-to-abandoned");
					lines.extend(gen_abandon_case(rng, out, *caseno, &kinds, &abandon, at_once, &order));
				}
			}
		}
	}
}

fn gen_case(rng: &mut Rng, out: &mut Out, caseno: u64, perm: Option<Vec<usize>>) -> Vec<String> {
	let str_ids = rng.chance(1, 3);
	let cap = rng.range(1, 4);
	let fcap = if perm.is_some() { 64 } else { pick_fcap(rng, |k| out.count(k)) };
	let opts = case_opts(rng, |k| out.count(k));
	let mut lines = vec![format!("case {caseno} client {} {cap} {fcap}{opts}", if str_ids { "str" } else { "num" })];
	let mut next_id = 0u64;
	let mut next_op = 0usize;
	let mut open: Vec<Open> = vec![];
	let mut subs: Vec<String> = vec![];
	let k = match &perm {
		Some(p) => p.len() as u64,
		None => rng.range(1, 6),
	};
	let gate_shut = perm.is_none() && rng.chance(1, 10);
	if gate_shut {
		lines.push("cl gate shut".into());
	}
	if rng.chance(1, 10) {
		lines.push("cl connected".into());
	}
	for _ in 0..k {
		match if perm.is_some() { rng.below(6) } else { rng.below(13) } {
			0..=5 => {
				lines.push("cl call".into());
				open.push(Open::Call { id: next_id });
				next_id += 1;
				next_op += 1;
			}
			6 | 7 => {
				lines.push("cl subscribe".into());
				open.push(Open::Sub { id: next_id, op: next_op });
				next_id += 2;
				next_op += 1;
			}
			8 => {
				let n = rng.range(1, 3);
				lines.push(format!("cl batch {n}"));
				open.push(Open::Batch { start: next_id, n });
				next_id += n;
				next_op += 1;
				if rng.chance(1, 4) {
					// the second time: an identical batch right behind the first
					out.count("second.identical-batch");
					lines.push(format!("cl batch {n}"));
					open.push(Open::Batch { start: next_id, n });
					next_id += n;
					next_op += 1;
				}
			}
			9 => {
				lines.push("cl notify".into());
				next_id += 1;
			}
			10 => {
				// subscribe_to_method next to subscriptions, also for the method name subscription notifications carry
				out.count("api.subscribe_to_method");
				let m = *rng.pick(&["sub", "other", "m"]);
				lines.push(format!("cl regnotif {}", hexs(m)));
				next_op += 1;
			}
			11 => {
				out.count("api.typed-batch");
				let n = rng.range(1, 3);
				lines.push(format!("cl tbatch {} {n}", rng.pick(&TYPED_KINDS)));
				open.push(Open::Batch { start: next_id, n });
				next_id += n;
				next_op += 1;
			}
			_ => {
				lines.push("cl connected".into());
			}
		}
		if perm.is_none() && rng.chance(1, 8) {
			let t = noise(rng, &subs, next_id, str_ids, false);
			lines.push(deliver_line(rng, &t, |k| out.count(k)));
		}
	}
	if gate_shut && rng.chance(2, 3) {
		lines.push("cl gate open".into());
	}
	// the order in which the open operations are answered
	let order: Vec<usize> = match perm {
		Some(p) if p.len() == open.len() => p,
		_ => {
			let mut v: Vec<usize> = (0..open.len()).collect();
			for i in (1..v.len()).rev() {
				let j = rng.below(i as u64 + 1) as usize;
				v.swap(i, j);
			}
			v
		}
	};
	for i in order {
		if rng.chance(1, 12) {
			continue; // omission
		}
		if rng.chance(1, 4) {
			let t = noise(rng, &subs, next_id, str_ids, false);
			lines.push(deliver_line(rng, &t, |k| out.count(k)));
		}
		let o = open[i].clone();
		let (text, accepted) = correct_answer(rng, &o, str_ids, &mut subs);
		lines.push(deliver_line(rng, &text, |k| out.count(k)));
		if rng.chance(1, 25) {
			lines.push(format!("cl deliver {}", hexs(&text))); // duplicated answer (kills the connection)
		}
		// the stream of an accepted subscription: items, then unsubscribe / drop, the server's answer, and again
		if let (Some(sid), Open::Sub { id, op }, false) = (&accepted, &o, gate_shut) {
			if rng.chance(1, 3) {
				out.count("api.stream-ops");
				if rng.chance(1, 2) {
					let t = format!("{{\"jsonrpc\":\"2.0\",\"method\":\"sub\",\"params\":{{\"subscription\":{sid},\"result\":{}}}}}", odd_result(rng));
					lines.push(deliver_line(rng, &t, |k| out.count(k)));
					lines.push(format!("cl next {op}"));
				}
				lines.push(format!("cl {} {op}", if rng.chance(1, 2) { "unsub" } else { "drop" }));
				if rng.chance(2, 3) {
					let payload = if rng.chance(1, 3) { format!("\"error\":{}", odd_error(rng)) } else { "\"result\":true".to_string() };
					let t = format!("{{\"jsonrpc\":\"2.0\",\"id\":{},{payload}}}", idj(id + 1, str_ids));
					lines.push(deliver_line(rng, &t, |k| out.count(k)));
				}
				if rng.chance(1, 2) {
					// the second time: subscribe again, the server reuses the subscription id
					out.count("second.resubscribe");
					lines.push("cl subscribe".into());
					let t = format!("{{\"jsonrpc\":\"2.0\",\"id\":{},\"result\":{sid}}}", idj(next_id, str_ids));
					next_id += 2;
					next_op += 1;
					lines.push(deliver_line(rng, &t, |k| out.count(k)));
				}
			}
		}
		if rng.chance(1, 10) {
			lines.push("cl call".into());
			open.push(Open::Call { id: next_id });
			next_id += 1;
			next_op += 1;
		}
	}
	if gate_shut {
		lines.push("cl gate open".into());
	}
	// finally, half of the cases: a message for an id nothing waits on, or a text that is no message at all;
	// then the API once more on the connection the client has given up
	if rng.chance(1, 2) {
		if rng.chance(1, 2) {
			lines.push(format!("cl deliver {}", hexs(&noise(rng, &subs, next_id, str_ids, true))));
		} else {
			let pending_call = open.iter().find_map(|o| if let Open::Call { id } = o { Some(*id) } else { None });
			let pending = pending_call.unwrap_or(if next_id > 0 { rng.below(next_id) } else { 0 });
			if rng.chance(1, 3) {
				// a binary frame whose bytes are no UTF-8: a well-formed answer (to a pending call if there is one) or
				// notification with one damaged character inside a string
				out.count(if pending_call.is_some() { "utf8.for-pending-call" } else { "utf8.for-no-pending-call" });
				let sid = subs.first().cloned().unwrap_or("\"S\"".to_string());
				let place = rng.below(UTF8_PLACES as u64) as usize;
				let bytes = utf8_corruption(rng, place, &idj(pending, str_ids), &sid, |k| out.count(k));
				lines.push(format!("cl deliverx {} bin", hex(&bytes)));
			} else {
				let (name, text) = near_miss(rng, &idj(pending, str_ids));
				out.count(name);
				lines.push(format!("cl deliverx {}", hexs(&text)));
			}
		}
		lines.push("cl call".into());
		for _ in 0..rng.below(3) {
			out.count("second.api-after-connection-given-up");
			lines.push(match rng.below(6) {
				0 => "cl connected".to_string(),
				1 => "cl batch 2".to_string(),
				2 => "cl subscribe".to_string(),
				3 => "cl notify".to_string(),
				4 => format!("cl regnotif {}", hexs("m")),
				_ => "cl call".to_string(),
			});
		}
	}
	let _ = next_op;
	lines
}

fn main() {
	let a = args();
	let mut out = Out::new();
	let mut lines: Vec<String> = vec![];
	if let Some(r) = &a.replay {
		lines = read_case_lines(r);
	} else {
		lines.extend(corpus_lines("C03"));
		let n = a.cases.unwrap_or(if a.tier == "thorough" { 50000 } else { 3000 });
		let mut rng = Rng::new(a.seed);
		let mut caseno = 0u64;
		// all answer orders for k concurrent operations: k <= 4 (quick), k <= 5 (thorough)
		let max_k = if a.tier == "thorough" { 5 } else { 4 };
		for k in 1..=max_k {
			for p in permutations(k) {
				caseno += 1;
				lines.extend(gen_case(&mut rng, &mut out, caseno, Some(p)));
			}
		}
		// late answers to 1-3 abandoned calls / batches / subscribes among k operations, every answer order: k <= 3 (thorough 4)
		let mut fam_no = 3_000_000u64;
		for k in 1..=(if a.tier == "thorough" { 4 } else { 3 }) {
			gen_abandon_family(&mut rng, &mut out, &mut fam_no, k, &mut lines);
		}
		for _ in 0..n {
			caseno += 1;
			lines.extend(gen_case(&mut rng, &mut out, caseno, None));
		}
	}
	for case in split_cases(&lines) {
		run_one(&mut out, &case);
	}
	out.write(&a.out);
	if a.replay.is_some() {
		for i in 0..out.ops.len() {
			println!("op:     {}\nimpl:   {}\noracle: {}", out.ops[i], out.impl_[i], out.oracle[i]);
		}
	}
}
