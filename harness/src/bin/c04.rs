//! C04 — server: a subscription's notifications are its own, ordered, and stop at close.
//!
//! Same environment and scripts as C06 (see `subs_env`), weighted towards accepted subscriptions
//! that send, return closing values and get unsubscribed / disconnected / stopped, one case in
//! three on the harness-owned bounded queue (capacity 1..4, writer stepped frame by frame).
//! Oracle (independent of the Lean model), evaluated on the frame streams the peers receive:
//! 1 own id / method / connection, 2 after the accepting response, 3 per-subscription FIFO = the
//! successful sends, 4 nothing for never-accepted subscriptions, 5 sends on a closed subscription
//! fail (and are therefore never delivered) and the sink reports closed, 6 at most one closing
//! notification, equal to what the handler returned, only for accepted subscriptions.
use jrpc_harness::common::*;
use jrpc_harness::subs_env::*;

fn main() {
	install_quiet_panic_hook();
	let a = args();
	let mut out = Out::new();
	let pf = Profile { check_c06: false, check_c04: true, w_accept: 9, w_send: 8, w_ret: 3, w_wstep: 7, typed_ids: 2, reuse_ids: 0, w_burst: 4, tail: false };
	if let Some(r) = &a.replay {
		for case in split_cases(read_case_lines(r)) {
			run_fixed(&mut out, &case, &pf);
		}
	} else {
		for case in split_cases(corpus_lines("C04")) {
			run_fixed(&mut out, &case, &pf);
			out.count("corpus.cases");
		}
		let thorough = a.tier == "thorough";
		let n = a.cases.unwrap_or(if thorough { 8000 } else { 600 });
		let mut rng = Rng::new(a.seed);
		let mut caseno = 0u64;
		let mut bases: Vec<Vec<String>> = vec![];
		for i in 0..n {
			caseno += 1;
			let nconns = rng.range(1, 3) as usize;
			let nops = rng.range(8, 40);
			let (mode, cap, qcap) = pick_config(&mut rng, 3, &[1, 2, 2, 3, 3, u32::MAX]);
			let eager = mode != "manual";
			let lines = run_generated(&mut out, &mut rng, caseno, mode, nconns, cap, qcap, nops, &pf);
			if eager && bases.len() < (if thorough { 200 } else { 8 }) && i % 2 == 0 {
				bases.push(lines);
			}
		}
		// fault (disconnect / stop) inserted at every position of the base scripts
		for base in &bases {
			let hdr: Vec<&str> = base[0].split_whitespace().collect();
			let nconns: usize = hdr[6].strip_prefix("conns=").unwrap().parse().unwrap();
			for pos in 1..base.len() {
				let mut faults = vec!["ss stop".to_string()];
				for c in 0..nconns {
					faults.push(format!("ss connclose {c} {}", ["abrupt", "graceful", "dropfut"][(pos + c) % 3]));
				}
				for fault in faults {
					caseno += 1;
					let mut v = base.clone();
					v[0] = format!("case {caseno} {}", hdr[2..].join(" "));
					v.insert(pos, fault);
					run_fixed(&mut out, &v, &pf);
					out.count("fault-injection.variants");
				}
			}
		}
	}
	out.write(&a.out);
	if a.replay.is_some() {
		for i in 0..out.ops.len() {
			println!("op:     {}\nimpl:   {}\noracle: {}", out.ops[i], out.impl_[i], out.oracle[i]);
		}
	}
}
