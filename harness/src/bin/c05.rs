//! C05 — client: a subscription stream yields exactly its own notifications, in order.
//! Real `Client` on the mock transport.  Pushes for live / closed / unknown subscription ids, close
//! notifications, method notifications, each delivered singly or grouped into arrays in every way;
//! subscribe / unsubscribe / drop at every position; buffer sizes 1..4; numeric and string ids.
use jrpc_harness::client_mock::*;
use jrpc_harness::client_spell::*;
use jrpc_harness::common::*;
use serde_json::Value;
use std::collections::BTreeMap;

// ---------------------------------------------------------------------------------------------
// oracle

#[derive(Debug, Clone, PartialEq)]
enum Ended {
	No,
	Dropped,
	Unsubscribed,
}

#[derive(Debug, Clone)]
struct StreamInfo {
	/// canonical JSON of the subscription id (None for method streams)
	sid: Option<String>,
	method: Option<String>,
	/// payloads of notifications naming this stream's id/method delivered after it was accepted
	sent: Vec<String>,
	yielded: Vec<String>,
	/// oracle's own bounded-buffer simulation (only used to attribute failures and to check `lagged`)
	occupancy: usize,
	lag_seen: bool,
	accepted_after_lag: bool,
	closed_by_server: bool,
	consumer: Ended,
	unsub_wires: usize,
	/// unsubscribed by the drop of a STALE handle of an earlier subscription with the same id (known finding)
	killed_by_stale_drop: bool,
	/// the gate was shut at some point while this stream was live (the send task may have been blocked)
	gate_was_shut: bool,
	/// the consumer ended the stream (drop / unsubscribe) while the send task was free
	ended_with_gate_open: bool,
	/// a notification for the stream arrived after the consumer had dropped it
	notified_after_end: bool,
	routing: bool,
	saw_end: bool,
	/// item type of a typed stream (`cl subscribe <ty>`): `sent` / `yielded` then hold what the harness prints for a
	/// decoded item, or `<bad>` for a payload that is no value of the type (the stream yields `Some(Err(_))` for it)
	ty: Option<String>,
}

const BAD: &str = "<bad>";

/// What a stream of item type `ty` makes of the payload `v`, judged from the JSON value alone: the text the harness
/// prints for the decoded item, or None when the payload is no value of the type.
fn typed_expect(ty: &str, v: &Value) -> Option<String> {
	let u = |x: &Value| if x.is_u64() { x.as_u64() } else { None };
	match ty {
		"u64" => u(v).map(|n| n.to_string()),
		"str" => v.as_str().map(|s| s.to_string()),
		"bool" => v.as_bool().map(|b| b.to_string()),
		"optu64" => {
			if v.is_null() {
				Some("none".into())
			} else {
				u(v).map(|n| format!("some:{n}"))
			}
		}
		// `#[derive(Deserialize)] struct Pt { x: u64, y: u64 }`: by name (other members ignored) or by position (exactly two)
		"pt" => match v {
			Value::Object(o) => match (o.get("x").and_then(u), o.get("y").and_then(u)) {
				(Some(x), Some(y)) => Some(format!("{x},{y}")),
				_ => None,
			},
			Value::Array(a) if a.len() == 2 => match (u(&a[0]), u(&a[1])) {
				(Some(x), Some(y)) => Some(format!("{x},{y}")),
				_ => None,
			},
			_ => None,
		},
		_ => None,
	}
}

#[derive(Default)]
struct Oracle {
	cap: usize,
	streams: BTreeMap<usize, StreamInfo>,
	n_ops: usize,
	sub_ops: Vec<usize>,
	gate_open: bool,
	ever_shut: bool,
	/// subscribe_to_method calls not acknowledged yet (the send task is blocked): (op, method)
	pending_regs: Vec<(usize, String)>,
	/// item type of the typed subscribe calls, by op
	sub_types: BTreeMap<usize, String>,
}

fn canon(s: &str) -> String {
	serde_json::from_str::<Value>(s).map(|v| v.to_string()).unwrap_or_else(|_| s.to_string())
}

/// (subscription id, Some(result) | None for close) of a subscription notification object
fn sub_notif(v: &Value) -> Option<(String, Option<String>)> {
	let o = v.as_object()?;
	if msg_kind(v) != MsgKind::Notification {
		return None; // a response (whatever else it carries) or nothing at all
	}
	// `SubscriptionPayload` is a derived struct: by name, or by position `[subscription, result]`
	if let Some(a) = o.get("params").and_then(|p| p.as_array()) {
		if a.len() == 2 && (a[0].is_u64() || a[0].is_string()) {
			return Some((a[0].to_string(), Some(a[1].to_string())));
		}
		return None;
	}
	let p = o.get("params")?.as_object()?;
	let sid = p.get("subscription")?;
	if !(sid.is_u64() || sid.is_string()) {
		return None;
	}
	if let Some(r) = p.get("result") {
		Some((sid.to_string(), Some(r.to_string())))
	} else if p.contains_key("error") {
		Some((sid.to_string(), None))
	} else {
		None
	}
}

impl Oracle {
	/// process the notifications contained in a delivered text, in order
	fn deliver(&mut self, text: &str) {
		let Ok(v) = serde_json::from_str::<Value>(text) else { return };
		let elems: Vec<Value> = match v {
			Value::Array(a) => a,
			other => vec![other],
		};
		for e in elems {
			if let Some((sid, payload)) = sub_notif(&e) {
				for s in self.streams.values_mut() {
					if s.sid.as_deref() == Some(sid.as_str()) && s.routing {
						match &payload {
							Some(p) => {
								if s.consumer == Ended::Dropped {
									s.notified_after_end = true;
								}
								s.sent.push(match &s.ty {
									None => p.clone(),
									Some(ty) => serde_json::from_str::<Value>(p).ok().and_then(|v| typed_expect(ty, &v)).unwrap_or_else(|| BAD.to_string()),
								});
								if s.consumer == Ended::No || s.consumer == Ended::Unsubscribed {
									if s.occupancy < self.cap {
										s.occupancy += 1;
										if s.lag_seen {
											s.accepted_after_lag = true;
										}
									} else {
										s.lag_seen = true;
									}
								}
							}
							None => {
								s.closed_by_server = true;
								s.routing = false;
							}
						}
					}
				}
			} else if let Some(o) = e.as_object() {
				if let (Some(Value::String(m)), true) = (o.get("method"), msg_kind(&e) == MsgKind::Notification) {
					let payload = o.get("params").filter(|p| !p.is_null()).map(|p| p.to_string()).unwrap_or("null".into());
					for s in self.streams.values_mut() {
						if s.method.as_deref() == Some(m.as_str()) && s.routing {
							s.sent.push(payload.clone());
							if s.consumer == Ended::Unsubscribed {
								// `unsubscribe()` is under way while the send task is blocked: the receiver still exists (the future
								// owns it: waiting for room in the request queue, or already draining), so the handler may well
								// stay registered until the back end gets to the UnregisterNotification — the name counts as taken
							} else if s.occupancy < self.cap && s.consumer == Ended::No {
								s.occupancy += 1;
							} else {
								s.lag_seen = s.lag_seen || s.consumer == Ended::No;
								s.routing = false; // handler removed on full / closed
							}
						}
					}
				}
			}
		}
	}

	fn wire(&mut self, text: &str) {
		let Ok(v) = serde_json::from_str::<Value>(text) else { return };
		if v.get("method").and_then(|m| m.as_str()) == Some("unsub") {
			let sid = v.get("params").and_then(|p| p.get(0)).map(|s| s.to_string()).unwrap_or_default();
			// attribute to the oldest stream with that id that has no unsubscribe yet and is not closed by the server
			let mut hit = false;
			for s in self.streams.values_mut() {
				if s.sid.as_deref() == Some(sid.as_str()) && s.unsub_wires == 0 && !s.closed_by_server && !hit {
					s.unsub_wires += 1;
					s.routing = false;
					hit = true;
				}
			}
			if !hit {
				// second unsubscribe for the same stream (or for nobody): recorded on the newest stream with that id
				if let Some(s) = self.streams.values_mut().filter(|s| s.sid.as_deref() == Some(sid.as_str())).last() {
					s.unsub_wires += 1;
				}
			}
		}
	}

	fn is_prefix(a: &[String], b: &[String], exact: bool) -> bool {
		a.len() <= b.len() && a.iter().zip(b.iter()).all(|(x, y)| if exact { x == y } else { canon(x) == canon(y) })
	}

	/// the prefix property for one stream; failures that the lag-gap matcher accepts become `KF …`
	fn check_prefix(&self, op: usize) -> Result<(), String> {
		let s = &self.streams[&op];
		if Self::is_prefix(&s.yielded, &s.sent, s.ty.is_some()) {
			return Ok(());
		}
		let msg = match &s.ty {
			None => format!("stream {op} yielded {:?} which is not a prefix of what was sent for it {:?}", s.yielded, s.sent),
			Some(ty) => format!(
				"typed stream {op} (items of type {ty}) yielded {:?}; one item per notification, in order, would be {:?} ({BAD} = an Err item for a payload that is no {ty})",
				s.yielded, s.sent
			),
		};
		// pre-fix (F-14, fixed in /repo f2384ab) a stream could resume behind a lag gap: yields 1,3 of 1,2,3
		Err(msg)
	}
}

fn run_one(out: &mut Out, lines: &[String], fam: &mut BTreeMap<u64, Vec<(usize, Vec<String>)>>) {
	let Some((_, cap, _)) = parse_case_header(&lines[0]) else {
		for l in lines {
			out.line(l.clone(), "bad-op".into(), Ok(()), false);
		}
		return;
	};
	let caseno: u64 = lines[0].split(' ').nth(1).and_then(|x| x.parse().ok()).unwrap_or(0);
	let mut orc = Oracle { cap, gate_open: true, ..Default::default() };
	let mut recs: Vec<(String, String, Result<(), String>, bool)> = vec![];
	let mut dead = false;
	run_case(lines, |line, obs| {
		let w: Vec<&str> = line.split(' ').collect();
		let mut verdict: Result<(), String> = Ok(());
		let mut nontrivial = false;
		// names held by method streams before this line takes effect (queued messages are processed in order when
		// the gate opens, so a registration queued before an unsubscribe is still refused legitimately)
		let names_before: Vec<String> = orc.streams.values().filter(|s| s.routing).filter_map(|s| s.method.clone()).collect();
		if w[0] == "cl" && obs.literal.is_none() && !dead {
			match w[1] {
				"call" | "batch" | "tbatch" => orc.n_ops += 1,
				"subscribe" => {
					orc.sub_ops.push(orc.n_ops);
					if let Some(ty) = w.get(2) {
						orc.sub_types.insert(orc.n_ops, ty.to_string());
					}
					orc.n_ops += 1;
				}
				"regnotif" => {
					let m = String::from_utf8(unhex(w[2])).unwrap_or_default();
					let op = orc.n_ops;
					orc.n_ops += 1;
					// registration is acknowledged in the same op when the send task is not blocked
					if obs.comps.iter().any(|(k, c)| *k == op && *c == Comp::Reg) {
						orc.streams.insert(op, new_stream(None, Some(m), !orc.gate_open));
					} else if !obs.comps.iter().any(|(k, _)| *k == op) {
						// (also when the caller abandons it later: the entry may exist with nobody listening,
						// so the name counts as taken for the rest of the case)
						orc.pending_regs.push((op, m));
					}
				}
				"gate" => {
					orc.gate_open = w[2] == "open";
					if orc.gate_open {
						// explicit unsubscribe() of a method stream waits for the queue and goes through now
						for s in orc.streams.values_mut() {
							if s.method.is_some() && s.consumer == Ended::Unsubscribed {
								s.routing = false;
							}
						}
					}
					if !orc.gate_open {
						orc.ever_shut = true;
						for s in orc.streams.values_mut() {
							if s.consumer == Ended::No && !s.closed_by_server {
								s.gate_was_shut = true;
							}
						}
					}
				}
				_ => {}
			}
			if w[1] == "deliverx" {
				nontrivial = true;
				out.count("near-miss.delivered");
				if obs.fatal.is_none() || obs.next.is_some() || !obs.comps.is_empty() {
					verdict = Err(format!("a text that is no legal message was accepted: {}", obs.render()));
				}
				dead = true;
			}
			if w[1] == "deliver" {
				let text = String::from_utf8(unhex(w[2])).unwrap_or_default();
				// whatever the server says in a well-formed notification (about a stream that is live, ending, ended or unknown),
				// the connection survives it
				if let Ok(v) = serde_json::from_str::<Value>(&text) {
					if v.is_object() && msg_kind(&v) == MsgKind::Notification {
						out.count("notification.survived.checked");
						if let Some(f) = &obs.fatal {
							verdict = Err(format!("the well-formed notification {text} ended the connection ({f})"));
						}
					}
				}
				// acceptance of a subscribe in this very line: routing starts after it
				orc.deliver(&text);
				// the responses of an array are handed to the batch code together with the pushes around them being
				// delivered: a batch completes or the whole array is refused, they never just vanish
				if array_has_response(&text) {
					nontrivial = true;
					out.count("mixed.array-with-responses");
					if obs.fatal.is_none() && !obs.comps.iter().any(|(_, c)| matches!(c, Comp::Batch { .. } | Comp::E(_))) {
						verdict = Err(format!("the responses inside the array {text} took no effect: no batch completed and the connection was not given up"));
					}
				}
			}
			// a handle whose stream ended earlier on (its unsubscribe request went out, or the server closed it) is
			// dropped now: nothing may be sent for it any more
			let stale_drop: Option<(usize, String)> = if w[1] == "drop" {
				let op: usize = w[2].parse().unwrap_or(0);
				orc.streams.get(&op).and_then(|s| match &s.sid {
					Some(sid) if s.consumer == Ended::No && (s.unsub_wires >= 1 || s.closed_by_server) => Some((op, sid.clone())),
					_ => None,
				})
			} else {
				None
			};
			// what the client wrote as a consequence comes after what it received
			for wt in &obs.wires {
				orc.wire(wt);
			}
			if let Some((op, sid)) = &stale_drop {
				let names_sid = obs.wires.iter().any(|wt| {
					serde_json::from_str::<Value>(wt).ok().map(|v| v.get("method").and_then(|m| m.as_str()) == Some("unsub") && v.get("params").and_then(|p| p.get(0)).map(|x| x.to_string()).as_deref() == Some(sid.as_str())).unwrap_or(false)
				});
				let victim = orc.streams.iter().find(|(j, s)| **j != *op && s.sid.as_deref() == Some(sid.as_str()) && s.consumer == Ended::No && !s.closed_by_server).map(|(j, _)| *j);
				if let (true, Some(j)) = (names_sid, victim) {
					if let Some(v) = orc.streams.get_mut(&j) {
						v.killed_by_stale_drop = true;
					}
					if verdict.is_ok() {
						verdict = Err(format!(
							"KF stale-handle-drop-unsubscribes-newer-subscription stream {op} had ended (its unsubscribe was sent / the server closed it); dropping its handle sent an unsubscribe request for id {sid}, which now belongs to the live stream {j}"
						));
					}
				}
			}
			if w[1] == "deliver" {
				for (op, comp) in &obs.comps {
					if let Comp::Sub(sid) = comp {
						let sidj = if let Some(n) = sid.strip_prefix("n:") { n.to_string() } else { Value::String(String::from_utf8(unhex(&sid[2..])).unwrap_or_default()).to_string() };
						let mut st = new_stream(Some(sidj), None, !orc.gate_open);
						st.ty = orc.sub_types.get(op).cloned();
						out.count(&match &st.ty {
							Some(ty) => format!("stream.accepted.typed.{ty}"),
							None => "stream.accepted".to_string(),
						});
						orc.streams.insert(*op, st);
					}
				}
				if obs.fatal.is_some() {
					dead = true;
				}
			}
			// a refused registration: some earlier handler of that name must still be (possibly) registered
			for (op, comp) in &obs.comps {
				if *comp != Comp::E("already".into()) {
					continue;
				}
				let mut k = 0usize;
				let mut name: Option<String> = None;
				for l in lines.iter().skip(1) {
					let ww: Vec<&str> = l.split(' ').collect();
					if matches!(ww.get(1), Some(&"call") | Some(&"batch") | Some(&"tbatch") | Some(&"subscribe") | Some(&"regnotif")) {
						if k == *op && ww[1] == "regnotif" {
							name = String::from_utf8(unhex(ww[2])).ok();
						}
						k += 1;
					}
				}
				let Some(m) = name else { continue };
				let taken = names_before.contains(&m)
					|| orc.streams.values().any(|s| s.method.as_deref() == Some(m.as_str()) && s.routing)
					|| orc.pending_regs.iter().any(|(k, n)| k != op && *n == m);
				out.count(if taken { "reg.refused.taken" } else { "reg.refused.free" });
				if !taken && verdict.is_ok() {
					verdict = Err(format!(
						"subscribe_to_method({m:?}) refused although every earlier stream for that method has ended: the new stream can never get its notifications"
					));
				}
			}
			orc.pending_regs.retain(|(k, _)| !obs.comps.iter().any(|(c, x)| c == k && *x != Comp::Reg));
			// late registration acknowledgements (gate was shut)
			for (op, comp) in &obs.comps {
				if *comp == Comp::Reg && !orc.streams.contains_key(op) {
					// find the method from the script: the k-th front op
					// (only needed when the gate was shut at registration time)
					let mut k = 0usize;
					for l in lines.iter().skip(1) {
						let ww: Vec<&str> = l.split(' ').collect();
						if matches!(ww.get(1), Some(&"call") | Some(&"batch") | Some(&"tbatch") | Some(&"subscribe") | Some(&"regnotif")) {
							if k == *op && ww[1] == "regnotif" {
								let m = String::from_utf8(unhex(ww[2])).unwrap_or_default();
								orc.streams.insert(*op, new_stream(None, Some(m), true));
							}
							k += 1;
						}
					}
				}
			}
			match (w[1], &obs.next) {
				("next", Some(r)) => {
					let op: usize = w[2].parse().unwrap_or(0);
					if let Some(s) = orc.streams.get_mut(&op) {
						match r {
							NextRes::Item(_) | NextRes::Bad => {
								nontrivial = true;
								let p = match r {
									NextRes::Item(p) => p.clone(),
									_ => BAD.to_string(),
								};
								out.count(match (&s.ty, p == BAD) {
									(None, _) => "next.item",
									(Some(_), false) => "next.item.typed.ok",
									(Some(_), true) => "next.item.typed.err",
								});
								let raw_bad = s.ty.is_none() && p == BAD;
								s.yielded.push(p);
								if s.occupancy > 0 {
									s.occupancy -= 1;
								}
								verdict = orc.check_prefix(op);
								if raw_bad {
									verdict = Err(format!("stream {op} of raw JSON items yielded an Err item"));
								}
							}
							NextRes::Pending => {
								out.count("next.pending");
								// everything sent for a stream that never was full is in its buffer
								if !s.lag_seen && s.yielded.len() < s.sent.len() {
									verdict = Err(format!(
										"stream {op} has nothing to yield although {} of its notifications arrived and only {} were yielded (never full)",
										s.sent.len(),
										s.yielded.len()
									));
								}
							}
							NextRes::End { lagged } => {
								nontrivial = true;
								out.count(if *lagged { "next.end.lagged" } else { "next.end.closed" });
								s.saw_end = true;
								// the stream ends only on close notification or lag (connection end is excluded: not dead here)
								if !s.closed_by_server && !s.lag_seen && s.killed_by_stale_drop {
									verdict = Err(format!("KF stale-handle-drop-unsubscribes-newer-subscription stream {op} ended although the server did not close it and it never lagged: it was unsubscribed by the drop of a stale handle of an earlier subscription with the same id"));
								} else if !s.closed_by_server && !s.lag_seen {
									verdict = Err(format!("stream {op} ended although the server did not close it and it never lagged"));
								} else if *lagged != s.lag_seen {
									verdict = Err(format!("stream {op}: close_reason lagged={lagged} but buffer-full was {}", s.lag_seen));
								}
							}
						}
					}
				}
				("drop", _) => {
					let op: usize = w[2].parse().unwrap_or(0);
					if let Some(s) = orc.streams.get_mut(&op) {
						s.consumer = Ended::Dropped;
						s.ended_with_gate_open = orc.gate_open;
						out.count("stream.drop");
						// a method stream tells the back end at once when the request queue has room
						if s.method.is_some() && orc.gate_open {
							s.routing = false;
						}
					}
				}
				("unsub", _) => {
					let op: usize = w[2].parse().unwrap_or(0);
					if let Some(s) = orc.streams.get_mut(&op) {
						s.consumer = Ended::Unsubscribed;
						s.occupancy = 0;
						out.count("stream.unsub");
						if s.method.is_some() && orc.gate_open {
							s.routing = false;
						}
					}
				}
				_ => {}
			}
			// at most one unsubscribe per stream, at every moment
			for (op, s) in &orc.streams {
				if s.unsub_wires > 1 && verdict.is_ok() {
					verdict = Err(format!("stream {op}: {} unsubscribe requests on the wire", s.unsub_wires));
				}
			}
		}
		recs.push((line.to_string(), obs.render(), verdict, nontrivial));
	});
	// end of case: exactly-one clauses (only when the connection is alive and the send task never was blocked,
	// i.e. the client's request queue always had room)
	if !dead && (!orc.ever_shut || orc.gate_open) {
		for (op, s) in &orc.streams {
			if s.sid.is_none() {
				continue;
			}
			// with the send task blocked at some point: `Drop` may have found the request queue full (then the next
			// notification for the stream triggers the unsubscribe); everything else is queued with back-pressure and
			// has gone out by the time the gate is open again
			let dropped_for_sure = s.consumer == Ended::Dropped && (!orc.ever_shut || s.ended_with_gate_open || s.notified_after_end);
			let want_one = (s.consumer == Ended::Unsubscribed || dropped_for_sure || s.lag_seen) && !s.closed_by_server;
			// if the server closed it first, nothing needs to be sent; if the close came after our unsubscribe, one was sent
			if want_one && s.unsub_wires != 1 {
				let last = recs.len() - 1;
				if recs[last].2.is_ok() {
					recs[last].2 = Err(format!(
						"stream {op} ({:?}, lagged={}) ended on the client side but {} unsubscribe requests were sent",
						s.consumer, s.lag_seen, s.unsub_wires
					));
				}
			}
		}
	}
	// packing family: all members must yield the same per-stream sequences
	if caseno >= 2_000_000 {
		let fam_id = caseno / 1000;
		let mut ys: Vec<String> = vec![];
		for (op, s) in &orc.streams {
			ys.push(format!("{op}:{}", s.yielded.iter().map(|y| canon(y)).collect::<Vec<_>>().join("|")));
		}
		let entry = fam.entry(fam_id).or_default();
		if let Some((first_case, first)) = entry.first() {
			if *first != ys {
				let last = recs.len() - 1;
				if recs[last].2.is_ok() {
					recs[last].2 = Err(format!("packing changes what the streams yield: singles (case {first_case}) {first:?} vs this grouping {ys:?}"));
				}
			}
		}
		entry.push((caseno as usize, ys));
	}
	for (l, o, v, nt) in recs {
		out.line(l, o, v, nt);
	}
}

fn new_stream(sid: Option<String>, method: Option<String>, gate_shut: bool) -> StreamInfo {
	StreamInfo {
		sid,
		method,
		sent: vec![],
		yielded: vec![],
		occupancy: 0,
		lag_seen: false,
		accepted_after_lag: false,
		closed_by_server: false,
		consumer: Ended::No,
		unsub_wires: 0,
		killed_by_stale_drop: false,
		gate_was_shut: gate_shut,
		ended_with_gate_open: false,
		notified_after_end: false,
		routing: true,
		saw_end: false,
		ty: None,
	}
}

// ---------------------------------------------------------------------------------------------
// generator

fn idj(n: u64, str_ids: bool) -> String {
	if str_ids { format!("\"{n}\"") } else { n.to_string() }
}

fn push(sid: &str, v: u64) -> String {
	format!("{{\"jsonrpc\":\"2.0\",\"method\":\"sub\",\"params\":{{\"subscription\":{sid},\"result\":{v}}}}}")
}
fn close(sid: &str) -> String {
	format!("{{\"jsonrpc\":\"2.0\",\"method\":\"sub\",\"params\":{{\"subscription\":{sid},\"error\":\"bye\"}}}}")
}
fn mnotif(m: &str, v: Option<u64>) -> String {
	match v {
		Some(v) => format!("{{\"jsonrpc\":\"2.0\",\"method\":\"{m}\",\"params\":[{v}]}}"),
		None => format!("{{\"jsonrpc\":\"2.0\",\"method\":\"{m}\"}}"),
	}
}
/// a method notification whose `params` has one of the other legal shapes
fn mnotif_shaped(rng: &mut Rng, m: &str, v: u64) -> String {
	let p = match rng.below(8) {
		0 => "null".to_string(),
		1 => "[]".to_string(),
		2 => "{}".to_string(),
		3 => format!("{{\"v\":{v},\"extra\":[1,2]}}"),
		4 => format!("[{v},{v},{v}]"),
		5 => format!("\"text {v}\""),
		6 => format!("{{\"subscription\":true,\"result\":{v}}}"),
		_ => odd_result(rng),
	};
	format!("{{\"jsonrpc\":\"2.0\",\"method\":\"{m}\",\"params\":{p}}}")
}
/// a subscription notification spelled in one of the other legal ways: members of `params` in the other order,
/// extra members inside `params`, another `method`, the payload by position
fn push_shaped(rng: &mut Rng, sid: &str, v: u64) -> String {
	match rng.below(5) {
		0 => format!("{{\"jsonrpc\":\"2.0\",\"method\":\"sub\",\"params\":{{\"result\":{v},\"subscription\":{sid}}}}}"),
		1 => format!("{{\"jsonrpc\":\"2.0\",\"method\":\"sub\",\"params\":{{\"subscription\":{sid},\"extra\":{{\"result\":0}},\"result\":{v},\"x\":1,\"x\":2}}}}"),
		2 => format!("{{\"jsonrpc\":\"2.0\",\"method\":\"whatever\",\"params\":{{\"subscription\":{sid},\"result\":{v}}}}}"),
		3 => format!("{{\"jsonrpc\":\"2.0\",\"method\":\"sub\",\"params\":[{sid},{v}]}}"),
		_ => format!("{{\"params\":{{\"subscription\":{sid},\"result\":{}}},\"method\":\"sub\",\"jsonrpc\":\"2.0\"}}", odd_result(rng)),
	}
}

#[derive(Clone)]
struct GStream {
	op: usize,
	sid: String, // JSON text of the id
	live: bool,  // the harness still holds the Subscription object
	ty: Option<&'static str>,
}

/// a payload for a stream of item type `ty`: a value of the type in one of its spellings, or legal JSON of another type
fn typed_payload(rng: &mut Rng, ty: &str, v: u64, good: bool) -> String {
	if good {
		match ty {
			"u64" => match rng.below(4) {
				0 => "0".into(),
				1 => "18446744073709551615".into(),
				_ => v.to_string(),
			},
			"str" => match rng.below(4) {
				0 => "\"\"".into(),
				1 => format!("\"{v}\""),
				_ => format!("\"t{v} \\u00e9\\n\""),
			},
			"bool" => if v % 2 == 0 { "true".into() } else { "false".into() },
			"pt" => match rng.below(4) {
				0 => format!("[{v},{}]", v + 1),
				1 => format!("{{\"y\":{},\"x\":{v}}}", v + 1),
				2 => format!("{{\"x\":{v},\"z\":[null],\"y\":{}}}", v + 1),
				_ => format!("{{\"x\":{v},\"y\":{}}}", v + 1),
			},
			_ => if rng.chance(1, 3) { "null".into() } else { v.to_string() },
		}
	} else {
		let menu: &[&str] = match ty {
			"u64" => &["null", "\"7\"", "-1", "1.5", "[7]", "{\"x\":7}", "true", "18446744073709551616", "\"\"", "1e2"],
			"str" => &["null", "7", "[\"a\"]", "{\"s\":\"a\"}", "false", "[]"],
			"bool" => &["null", "0", "1", "\"true\"", "[true]", "{}"],
			"pt" => &["null", "7", "[7]", "[1,2,3]", "[]", "{\"x\":1}", "{\"y\":2}", "{}", "{\"x\":\"1\",\"y\":2}", "{\"x\":1,\"y\":-2}", "[1,\"2\"]", "\"1,2\"", "{\"X\":1,\"Y\":2}"],
			_ => &["\"7\"", "-1", "[]", "true", "{}", "1.5", "[null]", "\"null\""],
		};
		(*rng.pick(menu)).to_string()
	}
}
fn push_raw(sid: &str, payload: &str) -> String {
	format!("{{\"jsonrpc\":\"2.0\",\"method\":\"sub\",\"params\":{{\"subscription\":{sid},\"result\":{payload}}}}}")
}

struct Gen {
	str_ids: bool,
	next_id: u64,
	next_op: usize,
	streams: Vec<GStream>,
	mstreams: Vec<(usize, String, bool)>,
	counter: u64,
	sid_counter: u64,
	/// names of the generator branches taken (distribution counters)
	counts: Vec<&'static str>,
}

impl Gen {
	fn value(&mut self) -> u64 {
		self.counter += 1;
		self.counter
	}
	fn new_sid(&mut self, rng: &mut Rng) -> String {
		self.sid_counter += 1;
		if rng.chance(1, 2) { format!("\"S{}\"", self.sid_counter) } else { format!("{}", 100 + self.sid_counter) }
	}
	fn subscribe(&mut self, rng: &mut Rng, lines: &mut Vec<String>, accept: bool) {
		// one stream in three is typed: its items are values of a Rust type, not raw JSON
		let ty: Option<&'static str> = if rng.chance(1, 3) { Some(*rng.pick(&TYPED_KINDS)) } else { None };
		match ty {
			Some(t) => {
				self.counts.push("api.subscribe.typed");
				lines.push(format!("cl subscribe {t}"));
			}
			None => lines.push("cl subscribe".into()),
		}
		let id = self.next_id;
		self.next_id += 2;
		let op = self.next_op;
		self.next_op += 1;
		if accept {
			// the second time: the server hands out an id again — preferably one whose stream the client has ended
			let ended: Vec<String> = self.streams.iter().filter(|s| !s.live).map(|s| s.sid.clone()).collect();
			let sid = if !ended.is_empty() && rng.chance(1, 4) {
				self.counts.push("second.resubscribe-same-sid");
				rng.pick(&ended).clone()
			} else if !self.streams.is_empty() && rng.chance(1, 15) {
				self.streams[rng.below(self.streams.len() as u64) as usize].sid.clone()
			} else {
				self.new_sid(rng)
			};
			let dup = self.streams.iter().any(|s| s.sid == sid && s.live);
			lines.push(format!("cl deliver {}", hexs(&format!("{{\"jsonrpc\":\"2.0\",\"id\":{},\"result\":{sid}}}", idj(id, self.str_ids)))));
			if !dup {
				self.streams.push(GStream { op, sid, live: true, ty });
			}
		} else {
			lines.push(format!(
				"cl deliver {}",
				hexs(&format!("{{\"jsonrpc\":\"2.0\",\"id\":{},\"error\":{{\"code\":-32000,\"message\":\"no\"}}}}", idj(id, self.str_ids)))
			));
		}
	}
	/// one server message (not a response)
	fn message(&mut self, rng: &mut Rng) -> String {
		let known: Vec<String> = self.streams.iter().map(|s| s.sid.clone()).collect();
		match rng.below(12) {
			0..=6 if !known.is_empty() => {
				let sid = rng.pick(&known).clone();
				let v = self.value();
				// the newest stream with that id decides what the server sends: for a typed stream mostly values of its
				// type, one in three something else that is legal JSON
				if let Some(ty) = self.streams.iter().rev().find(|s| s.sid == sid).and_then(|s| s.ty) {
					let good = rng.chance(2, 3);
					self.counts.push(if good { "typed.payload.well-typed" } else { "typed.payload.wrong-typed" });
					return push_raw(&sid, &typed_payload(rng, ty, v, good));
				}
				if rng.chance(1, 4) {
					self.counts.push("spell.subscription-notification-shaped");
					push_shaped(rng, &sid, v)
				} else {
					push(&sid, v)
				}
			}
			7 => push(if rng.chance(1, 2) { "\"nobody\"" } else { "424242" }, self.value()),
			8 if !known.is_empty() => {
				let sid = rng.pick(&known).clone();
				close(&sid)
			}
			9 | 10 => {
				let m = if self.mstreams.is_empty() || rng.chance(1, 4) { "stranger".to_string() } else { self.mstreams[rng.below(self.mstreams.len() as u64) as usize].1.clone() };
				let v = if rng.chance(1, 5) { None } else { Some(self.value()) };
				if rng.chance(1, 4) {
					self.counts.push("spell.notification-params-shaped");
					let x = self.value();
					mnotif_shaped(rng, &m, x)
				} else {
					mnotif(&m, v)
				}
			}
			_ => push("\"nobody\"", self.value()),
		}
	}
}

fn gen_random_case(rng: &mut Rng, out: &mut Out, caseno: u64) -> Vec<String> {
	let str_ids = rng.chance(1, 3);
	let cap = rng.range(1, 4);
	let fcap = pick_fcap(rng, |k| out.count(k));
	let opts = case_opts(rng, |k| out.count(k));
	let mut lines = vec![format!("case {caseno} client {} {cap} {fcap}{opts}", if str_ids { "str" } else { "num" })];
	let mut g = Gen { str_ids, next_id: 0, next_op: 0, streams: vec![], mstreams: vec![], counter: 0, sid_counter: 0, counts: vec![] };
	let mut gate_open = true;
	g.subscribe(rng, &mut lines, true);
	let n = rng.range(6, 18);
	for _ in 0..n {
		match rng.below(24) {
			20 => {
				out.count("api.notification");
				lines.push("cl notify".into());
				g.next_id += 1;
			}
			21 => {
				out.count("api.batch");
				let n = rng.range(1, 3);
				if rng.chance(1, 2) { lines.push(format!("cl batch {n}")) } else { lines.push(format!("cl tbatch {} {n}", rng.pick(&TYPED_KINDS))) }
				if gate_open && rng.chance(2, 3) {
					let mut es: Vec<String> = (0..n).map(|i| format!("{{\"jsonrpc\":\"2.0\",\"id\":{},\"result\":{i}}}", idj(g.next_id + i, str_ids))).collect();
					if rng.chance(1, 2) {
						// the batch reply shares its array with notifications for the live streams
						out.count("mixed.batch-reply-with-pushes");
						for _ in 0..rng.range(1, 3) {
							let pos = rng.below(es.len() as u64 + 1) as usize;
							let m = g.message(rng);
							es.insert(pos, m);
						}
					}
					lines.push(format!("cl deliver {}", hexs(&format!("[{}]", es.join(",")))));
				}
				g.next_id += n;
				g.next_op += 1;
			}
			22 | 23 => {
				out.count("api.is_connected");
				lines.push("cl connected".into());
			}
			0 => {
				let acc = rng.chance(5, 6);
				g.subscribe(rng, &mut lines, acc)
			}
			1 => {
				// (also a handler for the method name the server's subscription notifications carry)
				let m = (*rng.pick(&["m0", "m1", "sub"])).to_string();
				lines.push(format!("cl regnotif {}", hexs(&m)));
				if !g.mstreams.iter().any(|x| x.1 == m && x.2) && gate_open {
					g.mstreams.push((g.next_op, m, true));
				}
				g.next_op += 1;
			}
			2..=7 => {
				let m = g.message(rng);
				lines.push(format!("cl deliver {}", hexs(&m)));
			}
			8..=10 => {
				let k = rng.range(1, 4);
				let ms: Vec<String> = (0..k).map(|_| g.message(rng)).collect();
				lines.push(format!("cl deliver {}", hexs(&format!("[{}]", ms.join(",")))));
			}
			11..=14 => {
				let live: Vec<usize> = g.streams.iter().filter(|s| s.live).map(|s| s.op).chain(g.mstreams.iter().filter(|m| m.2).map(|m| m.0)).collect();
				if !live.is_empty() {
					let op = *rng.pick(&live);
					for _ in 0..rng.range(1, 3) {
						lines.push(format!("cl next {op}"));
					}
				}
			}
			15 => {
				let live: Vec<usize> = g.streams.iter().filter(|s| s.live).map(|s| s.op).collect();
				if !live.is_empty() {
					let op = *rng.pick(&live);
					lines.push(format!("cl {} {op}", if rng.chance(1, 2) { "drop" } else { "unsub" }));
					for s in g.streams.iter_mut() {
						if s.op == op {
							s.live = false;
						}
					}
				}
			}
			16 => {
				let live: Vec<usize> = g.mstreams.iter().filter(|m| m.2).map(|m| m.0).collect();
				if !live.is_empty() && rng.chance(1, 2) {
					let op = *rng.pick(&live);
					lines.push(format!("cl {} {op}", if rng.chance(1, 2) { "drop" } else { "unsub" }));
					for m in g.mstreams.iter_mut() {
						if m.0 == op {
							m.2 = false;
						}
					}
				}
			}
			17 => {
				if gate_open {
					// block the send task: shut the gate and give it something to send
					lines.push("cl gate shut".into());
					lines.push("cl call".into());
					g.next_id += 1;
					g.next_op += 1;
					gate_open = false;
				} else {
					lines.push("cl gate open".into());
					gate_open = true;
				}
			}
			18 => {
				// extra front-end traffic (fills the request queue when the gate is shut)
				lines.push("cl call".into());
				g.next_id += 1;
				g.next_op += 1;
			}
			_ => {
				let m = g.message(rng);
				lines.push(format!("cl deliver {}", hexs(&m)));
			}
		}
	}
	if !gate_open {
		lines.push("cl gate open".into());
	}
	for c in g.counts.drain(..) {
		out.count(c);
	}
	// one case in eight ends on a text that is no message at all
	if rng.chance(1, 8) {
		let pending = rng.below(g.next_id.max(1));
		let live_raw = g.streams.iter().find(|s| s.live && s.ty.is_none()).map(|s| s.sid.clone());
		if let (Some(sid), true) = (live_raw, rng.chance(1, 2)) {
			// a binary frame whose bytes are no UTF-8: a well-formed notification for a live stream (or answer) with one
			// damaged character inside a string — nothing of it may reach a stream
			let place = *rng.pick(&[7usize, 7, 7, 8, 4, 5, 0]);
			let bytes = utf8_corruption(rng, place, &idj(pending, str_ids), &sid, |k| out.count(k));
			lines.push(format!("cl deliverx {} bin", hex(&bytes)));
			// (the stream would show it)
			if let Some(s) = g.streams.iter().find(|s| s.live && s.ty.is_none()) {
				lines.push(format!("cl next {}", s.op));
			}
		} else {
			let (name, text) = near_miss(rng, &idj(pending, str_ids));
			out.count(name);
			lines.push(format!("cl deliverx {}", hexs(&text)));
		}
		lines.push("cl connected".into());
		return lines;
	}
	// drain what is left
	let live: Vec<usize> = g.streams.iter().filter(|s| s.live).map(|s| s.op).chain(g.mstreams.iter().filter(|m| m.2).map(|m| m.0)).collect();
	for op in live {
		for _ in 0..cap + 2 {
			lines.push(format!("cl next {op}"));
		}
	}
	lines
}

/// A subscription ends on the client side while the send task is blocked and the request queue is full — dropped
/// (the `SubscriptionClosed` of `Drop` is lost, the next notification for it has to trigger the unsubscribe) or
/// lag-closed (the read task parks the message) — and exactly one unsubscribe request must follow once the gate opens.
fn gen_full_queue_sub_case(rng: &mut Rng, caseno: u64) -> Vec<String> {
	let str_ids = rng.chance(1, 3);
	let cap = rng.range(1, 3);
	let fcap = rng.range(1, 2);
	let mut lines = vec![format!("case {caseno} client {} {cap} {fcap}", if str_ids { "str" } else { "num" })];
	let sid = if rng.chance(1, 2) { "\"Q\"".to_string() } else { "77".to_string() };
	lines.push("cl subscribe".into());
	lines.push(format!("cl deliver {}", hexs(&format!("{{\"jsonrpc\":\"2.0\",\"id\":{},\"result\":{sid}}}", idj(0, str_ids)))));
	let mut v = 0u64;
	if rng.chance(1, 2) {
		v += 1;
		lines.push(format!("cl deliver {}", hexs(&push(&sid, v))));
		lines.push("cl next 0".into());
	}
	lines.push("cl gate shut".into());
	for _ in 0..fcap + 1 + rng.below(2) {
		lines.push(if rng.chance(1, 4) { "cl notify".to_string() } else { "cl call".to_string() });
	}
	let by_lag = rng.chance(1, 2);
	if by_lag {
		// overflow the buffer while the queue is full; sometimes nothing more arrives for the stream afterwards
		for _ in 0..cap + 1 {
			v += 1;
			lines.push(format!("cl deliver {}", hexs(&push(&sid, v))));
		}
	} else {
		lines.push("cl drop 0".into());
		if rng.chance(1, 2) {
			v += 1;
			lines.push(format!("cl deliver {}", hexs(&push(&sid, v))));
		}
	}
	lines.push("cl gate open".into());
	for _ in 0..if by_lag { rng.below(2) } else { 1 + rng.below(2) } {
		v += 1;
		lines.push(format!("cl deliver {}", hexs(&push(&sid, v))));
	}
	if by_lag {
		for _ in 0..cap + 2 {
			lines.push("cl next 0".into());
		}
	}
	lines.push("cl connected".into());
	lines
}

/// A method stream ends (dropped with the request queue full / with room / explicit unsubscribe), one more
/// notification for the method arrives, and a new stream for the same method must get exactly what follows.
fn gen_replacement_case(rng: &mut Rng, caseno: u64) -> Vec<String> {
	let str_ids = rng.chance(1, 3);
	let cap = rng.range(1, 4);
	let fcap = rng.range(1, 2);
	let mut lines = vec![format!("case {caseno} client {} {cap} {fcap}", if str_ids { "str" } else { "num" })];
	let m = format!("m{}", rng.below(2));
	let mut v = 0u64;
	let mut note = |lines: &mut Vec<String>| {
		v += 1;
		lines.push(format!("cl deliver {}", hexs(&mnotif(&m, Some(v)))));
	};
	let mut op = 0usize;
	let rounds = rng.range(1, 3);
	for _ in 0..rounds {
		lines.push(format!("cl regnotif {}", hexs(&m)));
		let a = op;
		op += 1;
		for _ in 0..rng.below(3) {
			note(&mut lines);
			if rng.chance(1, 2) {
				lines.push(format!("cl next {a}"));
			}
		}
		let how = rng.below(4);
		if how <= 1 {
			// the back end cannot be told: send task blocked, queue full (how == 1: queue has room)
			lines.push("cl gate shut".into());
			let ncalls = if how == 0 { fcap + 1 } else { 1 };
			for _ in 0..ncalls {
				lines.push("cl call".into());
				op += 1;
			}
			lines.push(format!("cl drop {a}"));
			if rng.chance(1, 3) {
				note(&mut lines);
			}
			lines.push("cl gate open".into());
		} else {
			lines.push(format!("cl {} {a}", if how == 2 { "drop" } else { "unsub" }));
		}
		note(&mut lines);
		// successor
		lines.push(format!("cl regnotif {}", hexs(&m)));
		let b = op;
		op += 1;
		let k = rng.range(1, cap);
		for _ in 0..k {
			note(&mut lines);
		}
		for _ in 0..k + 1 {
			lines.push(format!("cl next {b}"));
		}
		lines.push(format!("cl {} {b}", if rng.chance(1, 2) { "drop" } else { "unsub" }));
	}
	lines
}


/// Typed streams: `len` notifications, each well- or wrong-typed as the bits of `mask` say, delivered singly or in one
/// array, read one by one (sometimes in between): the stream yields one item per notification, `Ok` or `Err`, in order.
fn gen_typed_case(rng: &mut Rng, caseno: u64, ty: &str, len: usize, mask: u64) -> Vec<String> {
	let str_ids = rng.chance(1, 3);
	let cap = 4.max(len as u64);
	let mut lines = vec![format!("case {caseno} client {} {cap} 64", if str_ids { "str" } else { "num" })];
	let sid = if rng.chance(1, 2) { "\"T\"".to_string() } else { "31".to_string() };
	lines.push(format!("cl subscribe {ty}"));
	lines.push(format!("cl deliver {}", hexs(&format!("{{\"jsonrpc\":\"2.0\",\"id\":{},\"result\":{sid}}}", idj(0, str_ids)))));
	let msgs: Vec<String> = (0..len).map(|i| push_raw(&sid, &typed_payload(rng, ty, 10 + i as u64, mask >> i & 1 == 0))).collect();
	let mut reads = 0;
	match rng.below(3) {
		0 => lines.push(format!("cl deliver {}", hexs(&format!("[{}]", msgs.join(","))))),
		1 => {
			for m in &msgs {
				lines.push(format!("cl deliver {}", hexs(m)));
			}
		}
		_ => {
			for m in &msgs {
				lines.push(format!("cl deliver {}", hexs(m)));
				if rng.chance(1, 2) {
					lines.push("cl next 0".into());
					reads += 1;
				}
			}
		}
	}
	for _ in reads..len + 1 {
		lines.push("cl next 0".into());
	}
	// the stream goes on after an Err item
	lines.push(format!("cl deliver {}", hexs(&push_raw(&sid, &typed_payload(rng, ty, 99, true)))));
	lines.push("cl next 0".into());
	if rng.chance(1, 2) {
		lines.push(format!("cl deliver {}", hexs(&close(&sid))));
		lines.push("cl next 0".into());
	} else {
		lines.push(format!("cl {} 0", if rng.chance(1, 2) { "unsub" } else { "drop" }));
	}
	lines
}

/// Between the client's unsubscribe request and the server's answer to it the server still talks about that
/// subscription id: (a) its close notification, (b) notifications in flight, (c) the id handed out again to a new
/// subscribe — in every order; then the answer, and the connection must still work: the new holder of the id gets what
/// is sent for it from then on, the old stream nothing.
fn gen_between_case(rng: &mut Rng, out: &mut Out, caseno: u64) -> Vec<String> {
	let str_ids = rng.chance(1, 3);
	let cap = rng.range(1, 4);
	let mut lines = vec![format!("case {caseno} client {} {cap} 64", if str_ids { "str" } else { "num" })];
	let sid = if rng.chance(1, 2) { "\"B\"".to_string() } else { "55".to_string() };
	let accept = |id: u64| format!("{{\"jsonrpc\":\"2.0\",\"id\":{},\"result\":{sid}}}", idj(id, str_ids));
	let ty: Option<&str> = if rng.chance(1, 3) { Some(*rng.pick(&TYPED_KINDS)) } else { None };
	let sub_line = |ty: Option<&str>| match ty {
		Some(t) => format!("cl subscribe {t}"),
		None => "cl subscribe".to_string(),
	};
	let mut v = 0u64;
	let mut note = |rng: &mut Rng, ty: Option<&str>| {
		v += 1;
		match ty {
			Some(t) => {
				let good = rng.chance(2, 3);
				push_raw(&sid, &typed_payload(rng, t, v, good))
			}
			None => push(&sid, v),
		}
	};
	lines.push(sub_line(ty));
	lines.push(format!("cl deliver {}", hexs(&accept(0))));
	let mut next_id = 2u64;
	let mut next_op = 1usize;
	for _ in 0..rng.below(3) {
		let m = note(rng, ty);
		lines.push(format!("cl deliver {}", hexs(&m)));
		if rng.chance(1, 2) {
			lines.push("cl next 0".into());
		}
	}
	let how = rng.below(3);
	match how {
		0 => lines.push("cl unsub 0".into()),
		1 => lines.push("cl drop 0".into()),
		_ => {
			for _ in 0..cap + 1 {
				let m = note(rng, ty);
				lines.push(format!("cl deliver {}", hexs(&m)));
			}
		}
	}
	out.count(["between.ended-by.unsub", "between.ended-by.drop", "between.ended-by.lag"][how as usize]);
	let mut events: Vec<u8> = vec![];
	if rng.chance(3, 4) {
		events.push(b'a');
	}
	for _ in 0..rng.below(3) {
		events.push(b'b');
	}
	if rng.chance(1, 2) {
		events.push(b'c');
	}
	if rng.chance(1, 4) {
		events.push(b'a');
	}
	if events.is_empty() {
		events.push(b'a');
	}
	for i in (1..events.len()).rev() {
		let j = rng.below(i as u64 + 1) as usize;
		events.swap(i, j);
	}
	out.count(&format!("between.first.{}", events[0] as char));
	for k in [b'a', b'b', b'c'] {
		if events.contains(&k) {
			out.count(&format!("between.has.{}", k as char));
		}
	}
	if events.iter().position(|e| *e == b'c').zip(events.iter().rposition(|e| *e == b'a')).map(|(c, a)| c < a).unwrap_or(false) {
		out.count("between.close-after-resubscribe");
	}
	let mut acks: Vec<u64> = vec![1];
	let mut holder: Option<(usize, u64, Option<&str>)> = None;
	let mut finished: Vec<usize> = vec![];
	for e in events {
		match e {
			b'a' => {
				lines.push(format!("cl deliver {}", hexs(&close(&sid))));
				if let Some((c_op, _, _)) = holder.take() {
					finished.push(c_op);
				}
			}
			b'b' => {
				let m = note(rng, holder.and_then(|h| h.2).or(ty));
				lines.push(format!("cl deliver {}", hexs(&m)));
				if let (Some((c_op, _, _)), true) = (holder, rng.chance(2, 3)) {
					lines.push(format!("cl next {c_op}"));
				}
			}
			_ => {
				if let Some((c_op, c_id, _)) = holder.take() {
					lines.push(format!("cl drop {c_op}"));
					acks.push(c_id + 1);
				}
				let cty: Option<&str> = if rng.chance(1, 3) { Some(*rng.pick(&TYPED_KINDS)) } else { None };
				lines.push(sub_line(cty));
				lines.push(format!("cl deliver {}", hexs(&accept(next_id))));
				holder = Some((next_op, next_id, cty));
				next_id += 2;
				next_op += 1;
			}
		}
		// the old stream gets nothing of all this (lag-ended: it still holds what was buffered, then ends)
		if how == 2 && rng.chance(1, 3) {
			lines.push("cl next 0".into());
		}
	}
	// the answer to the unsubscribe call(s), then the connection still works
	for a in &acks {
		lines.push(format!("cl deliver {}", hexs(&format!("{{\"jsonrpc\":\"2.0\",\"id\":{},\"result\":true}}", idj(*a, str_ids)))));
	}
	lines.push("cl call".into());
	lines.push(format!("cl deliver {}", hexs(&format!("{{\"jsonrpc\":\"2.0\",\"id\":{},\"result\":\"alive\"}}", idj(next_id, str_ids)))));
	if let Some((c_op, _, cty)) = holder {
		let m = note(rng, cty);
		lines.push(format!("cl deliver {}", hexs(&m)));
		for _ in 0..cap + 2 {
			lines.push(format!("cl next {c_op}"));
		}
	}
	for op in finished {
		for _ in 0..cap + 2 {
			lines.push(format!("cl next {op}"));
		}
	}
	if how == 2 {
		for _ in 0..cap + 2 {
			lines.push("cl next 0".into());
		}
	}
	lines.push("cl connected".into());
	lines
}

/// every `cl deliver` line of a case, half of them in another spelling
fn respell_delivers(rng: &mut Rng, lines: Vec<String>, out: &mut Out) -> Vec<String> {
	lines
		.into_iter()
		.map(|l| match l.strip_prefix("cl deliver ") {
			Some(h) => {
				let text = String::from_utf8(unhex(h)).unwrap_or_default();
				deliver_line(rng, &text, |k| out.count(k))
			}
			None => l,
		})
		.collect()
}

/// all compositions of `n` (ordered ways to write n as a sum of positive parts)
fn compositions(n: usize) -> Vec<Vec<usize>> {
	if n == 0 {
		return vec![vec![]];
	}
	let mut out = vec![];
	for first in 1..=n {
		for mut rest in compositions(n - first) {
			let mut v = vec![first];
			v.append(&mut rest);
			out.push(v);
		}
	}
	out
}

/// A family of cases: the same push sequence delivered under every grouping; member 0 = all singles.
fn gen_packing_family(rng: &mut Rng, fam_id: u64, lines: &mut Vec<String>, max_len: u64) {
	let str_ids = rng.chance(1, 3);
	let cap = rng.range(1, 4);
	let len = rng.range(2, max_len) as usize;
	// two accepted subscriptions and one method handler, then `len` messages
	let sids = ["\"A\"".to_string(), "7".to_string()];
	let mut msgs: Vec<String> = vec![];
	let mut v = 0u64;
	for _ in 0..len {
		v += 1;
		msgs.push(match rng.below(10) {
			0..=3 => push(&sids[0], v),
			4..=5 => push(&sids[1], v),
			6 => push("\"nobody\"", v),
			7 => close(&sids[rng.below(2) as usize]),
			8 => mnotif("m0", Some(v)),
			_ => mnotif("stranger", None),
		});
	}
	let mut comps = compositions(len);
	// all singles first
	comps.sort_by_key(|c| std::cmp::Reverse(c.len()));
	for (idx, comp) in comps.iter().enumerate() {
		let caseno = fam_id * 1000 + idx as u64;
		lines.push(format!("case {caseno} client {} {cap} 64", if str_ids { "str" } else { "num" }));
		lines.push("cl subscribe".into());
		lines.push(format!("cl deliver {}", hexs(&format!("{{\"jsonrpc\":\"2.0\",\"id\":{},\"result\":{}}}", idj(0, str_ids), sids[0]))));
		lines.push("cl subscribe".into());
		lines.push(format!("cl deliver {}", hexs(&format!("{{\"jsonrpc\":\"2.0\",\"id\":{},\"result\":{}}}", idj(2, str_ids), sids[1]))));
		lines.push(format!("cl regnotif {}", hexs("m0")));
		let mut i = 0;
		for part in comp {
			let group = &msgs[i..i + part];
			i += part;
			// a group of one is sent as a single message (member 0) — other members sometimes wrap it in an array
			if *part == 1 && (idx == 0 || rng.chance(2, 3)) {
				lines.push(format!("cl deliver {}", hexs(&group[0])));
			} else {
				lines.push(format!("cl deliver {}", hexs(&format!("[{}]", group.join(",")))));
			}
		}
		for op in 0..3 {
			for _ in 0..cap + 2 {
				lines.push(format!("cl next {op}"));
			}
		}
	}
}

fn main() {
	let a = args();
	let mut out = Out::new();
	let mut lines: Vec<String> = vec![];
	if let Some(r) = &a.replay {
		lines = read_case_lines(r);
	} else {
		lines.extend(corpus_lines("C05"));
		let n = a.cases.unwrap_or(if a.tier == "thorough" { 40000 } else { 3000 });
		let mut rng = Rng::new(a.seed);
		// packing families (case numbers >= 2_000_000): every grouping of one push sequence
		let fams = if a.tier == "thorough" { 400 } else { 40 };
		for f in 0..fams {
			let mut fl: Vec<String> = vec![];
			gen_packing_family(&mut rng, 2000 + f, &mut fl, if a.tier == "thorough" { 6 } else { 5 });
			lines.extend(respell_delivers(&mut rng, fl, &mut out));
		}
		for i in 0..n {
			let ls = gen_random_case(&mut rng, &mut out, i + 1);
			lines.extend(respell_delivers(&mut rng, ls, &mut out));
		}
		for i in 0..n / 6 {
			let ls = gen_replacement_case(&mut rng, 1_500_000 + i);
			lines.extend(respell_delivers(&mut rng, ls, &mut out));
		}
		// typed streams: every item type x every pattern of well-/wrong-typed payloads of length 1..3 (thorough: ..5)
		let mut k = 0u64;
		for ty in TYPED_KINDS {
			for len in 1..=(if a.tier == "thorough" { 5usize } else { 3 }) {
				for mask in 0..(1u64 << len) {
					k += 1;
					out.count("family.typed-stream-patterns");
					let ls = gen_typed_case(&mut rng, 1_700_000 + k, ty, len, mask);
					lines.extend(respell_delivers(&mut rng, ls, &mut out));
				}
			}
		}
		for i in 0..n / 4 {
			out.count("family.between-unsubscribe-and-ack");
			let ls = gen_between_case(&mut rng, &mut out, 1_800_000 + i);
			lines.extend(respell_delivers(&mut rng, ls, &mut out));
		}
		for i in 0..n / 6 {
			out.count("family.full-queue-subscription-end");
			let ls = gen_full_queue_sub_case(&mut rng, 1_600_000 + i);
			lines.extend(respell_delivers(&mut rng, ls, &mut out));
		}
	}
	let mut fam = BTreeMap::new();
	for case in split_cases(&lines) {
		run_one(&mut out, &case, &mut fam);
	}
	out.write(&a.out);
	if a.replay.is_some() {
		for i in 0..out.ops.len() {
			println!("op:     {}\nimpl:   {}\noracle: {}", out.ops[i], out.impl_[i], out.oracle[i]);
		}
	}
}
