//! C06 — server: subscription bookkeeping is exact and respects the per-connection cap.
//!
//! Drives the real per-connection machinery (see `subs_env`): every case is a scripted history of
//! subscribe / accept / reject / drop-pending / send / sink clone+drop / handler return /
//! unsubscribe (own, foreign connection, foreign method, stale, unknown) / connection drop /
//! server stop over 1..3 connections and caps 0..3.  Oracle (independent of the Lean model): the
//! truth table of every unsubscribe answer and of every `is_closed`/`send` result recomputed from
//! the script, cap never exceeded, refusal exactly at the cap (so k ended subscriptions make room
//! for exactly k new ones — the tail of every case fills each connection up to its cap again).
use jrpc_harness::common::*;
use jrpc_harness::subs_env::*;

fn main() {
	install_quiet_panic_hook();
	let a = args();
	let mut out = Out::new();
	let pf = Profile { check_c06: true, check_c04: false, w_accept: 6, w_send: 3, w_ret: 2, w_wstep: 5, typed_ids: 3, reuse_ids: 3, w_burst: 1, tail: true };
	if let Some(r) = &a.replay {
		for case in split_cases(read_case_lines(r)) {
			run_fixed(&mut out, &case, &pf);
		}
	} else {
		for case in split_cases(corpus_lines("C06")) {
			run_fixed(&mut out, &case, &pf);
			out.count("corpus.cases");
		}
		let thorough = a.tier == "thorough";
		let n = a.cases.unwrap_or(if thorough { 10000 } else { 800 });
		let mut rng = Rng::new(a.seed);
		let mut caseno = 0u64;
		let mut bases: Vec<Vec<String>> = vec![];
		for i in 0..n {
			caseno += 1;
			let nconns = match rng.below(10) {
				0..=3 => 1,
				4..=8 => 2,
				_ => 3,
			};
			let nops = rng.range(8, 40);
			// one case in six on the harness-owned bounded queue, a quarter of the rest on `ws::connect`
			let (mode, cap, qcap) = pick_config(&mut rng, 6, &[0, 1, 1, 2, 2, 3, u32::MAX]);
			let eager = mode != "manual";
			let lines = run_generated(&mut out, &mut rng, caseno, mode, nconns, cap, qcap, nops, &pf);
			if eager && bases.len() < (if thorough { 60 } else { 6 }) && i % 3 == 0 {
				bases.push(lines);
			}
		}
		// connection drop / stop injected at every position of base scripts
		for base in &bases {
			for pos in 1..base.len() {
				for fault in ["ss connclose 0 abrupt", "ss connclose 0 graceful", "ss connclose 0 dropfut", "ss stop"] {
					if fault == "ss stop" && pos % 2 == 0 {
						continue;
					}
					caseno += 1;
					let mut v = base.clone();
					let hdr: Vec<&str> = base[0].split_whitespace().collect();
					v[0] = format!("case {caseno} {}", hdr[2..].join(" "));
					v.insert(pos, fault.to_string());
					run_fixed(&mut out, &v, &pf);
					out.count("fault-injection.variants");
				}
			}
		}
		exhaustive(&mut out, if thorough { 6 } else { 5 }, &mut caseno, &pf);
		exhaustive_reuse(&mut out, if thorough { 7 } else { 6 }, &mut caseno, &pf);
	}
	out.write(&a.out);
	if a.replay.is_some() {
		for i in 0..out.ops.len() {
			println!("op:     {}\nimpl:   {}\noracle: {}", out.ops[i], out.impl_[i], out.oracle[i]);
		}
	}
}
