//! probe (to be replaced)
use jrpc_harness::subs_env::*;

fn main() {
	let rt = tokio::runtime::Builder::new_current_thread().enable_all().start_paused(true).build().unwrap();
	rt.block_on(async {
		let mut env = Env::new(true, 2, 1, 1024).await;
		env.request(0, sub_request(0, 7)).await.unwrap();
		barrier().await;
		let hs: Vec<Handover> = env.shared.handovers.lock().unwrap().drain(..).collect();
		println!("handovers {}", hs.len());
		let mut subs: Vec<SubCtl> = hs.into_iter().map(SubCtl::from_handover).collect();
		println!("conn {} sid {}", subs[0].conn, subs[0].sid);
		env.request(0, sub_request(1, 8)).await.unwrap();
		barrier().await;
		println!("frames {:?}", env.take_frames(0).iter().map(|f| canon_frame(f)).collect::<Vec<_>>());
		let p = subs[0].pending.take().unwrap();
		let r = run_step(async move { p.accept().await }).await;
		let sink = r.unwrap().unwrap();
		println!("frames {:?}", env.take_frames(0));
		let s2 = sink.clone();
		let r = run_step(async move { let r = s2.send(data_msg(5)).await.is_ok(); (r, s2) }).await.unwrap();
		println!("send {:?} frames {:?}", r.0, env.take_frames(0));
		drop(r.1);
		barrier().await;
		println!("after clone drop: closed={}", sink.is_closed());
		env.request(0, unsub_request(0, 9, 1)).await.unwrap();
		barrier().await;
		println!("frames {:?}", env.take_frames(0));
		let _ = subs[0].ret_tx.take().unwrap().send(Ret::Err(3));
		barrier().await;
		println!("frames {:?} gone={}", env.take_frames(0), subs[0].handler_gone());
		env.stop();
		barrier().await;
		println!("closed0={} closed1={} sinkclosed={}", env.closed(0), env.closed(1), sink.is_closed());
	});
}
