//! C09 — client: on connection failure everything pending fails promptly with the cause.
//!
//! Real `Client` on the gated mock transport of `client_faults`.  Bounded histories with a fault of
//! each kind (`send_err`, `recv_err`, `peer_close`, `garbage`) injected at every step, one of the
//! three gates (send / close / receive) optionally holding the corresponding background task at
//! its await, and one extra front-end operation placed before the fault / while the task is held /
//! after the release / after everything.  Server messages: correct answers, noise, mutated answers,
//! extreme ids (0, 2^63, 2^64-1, 2^64, negative, fractional), huge arrays, deep nesting, texts that
//! are no JSON-RPC, responses matching nothing pending, invalid UTF-8, reply arrays whose ids lie far
//! apart, long messages (256 … 65536 bytes ±3) of multi-byte characters at every alignment, both
//! unparseable and valid.  Subscriptions are accepted and then dropped / unsubscribed / closed by a lag, so the faulted
//! transport write can also be the unsubscribe request.
//!
//! Oracle (independent of the Lean model): no panic anywhere (panic hook + JoinHandles); no single
//! allocation above 16 MiB while a line is handled (allocator watch); never the
//! placeholder error; `is_connected() == false` ⇔ `on_disconnect()` is ready, and then it is
//! `RestartNeeded(cause)`; every `RestartNeeded` seen in one history carries the same cause, and the
//! cause is one the history injected; once disconnected every new operation fails at once with that
//! cause; by `end` nothing is pending, every stream has ended and the transport was closed; a
//! definite fault always ends in a disconnect; a well-formed response bearing the id of a waiting call
//! or subscribe, read on a live connection, resolves that future in the same line (or the client
//! disconnects) — an answered future never stays pending on a healthy connection.  The wall-clock clause ("never longer than the
//! request timeout") is a real-time **test** (`rt …` lines, short `request_timeout`).
use jrpc_harness::client_faults::*;
use jrpc_harness::client_mock::{MockErr, split_cases};
use jrpc_harness::client_spell::{maybe_respell, near_miss};
use jrpc_harness::common::*;
use jsonrpsee_core::client::ReceivedMessage;
use std::time::{Duration, Instant};

// ---------------------------------------------------------------------------------------------
// allocation watch: the largest single allocation requested while one op line is executed.  Nothing
// the peer sends may make the client reserve memory in proportion to a *number* it wrote (an id, an
// id span) rather than to the bytes it sent.

struct Watch;
static MAX_ALLOC: std::sync::atomic::AtomicUsize = std::sync::atomic::AtomicUsize::new(0);
unsafe impl std::alloc::GlobalAlloc for Watch {
	unsafe fn alloc(&self, l: std::alloc::Layout) -> *mut u8 {
		MAX_ALLOC.fetch_max(l.size(), std::sync::atomic::Ordering::Relaxed);
		unsafe { std::alloc::System.alloc(l) }
	}
	unsafe fn dealloc(&self, p: *mut u8, l: std::alloc::Layout) {
		unsafe { std::alloc::System.dealloc(p, l) }
	}
	unsafe fn alloc_zeroed(&self, l: std::alloc::Layout) -> *mut u8 {
		MAX_ALLOC.fetch_max(l.size(), std::sync::atomic::Ordering::Relaxed);
		unsafe { std::alloc::System.alloc_zeroed(l) }
	}
	unsafe fn realloc(&self, p: *mut u8, l: std::alloc::Layout, n: usize) -> *mut u8 {
		MAX_ALLOC.fetch_max(n, std::sync::atomic::Ordering::Relaxed);
		unsafe { std::alloc::System.realloc(p, l, n) }
	}
}
#[global_allocator]
static WATCH: Watch = Watch;
/// no op line of these histories carries more than ~100 kB; 16 MiB is far above any honest need
const ALLOC_LIMIT: usize = 16 << 20;

// ---------------------------------------------------------------------------------------------
// oracle

#[derive(Default)]
struct Orc {
	/// causes the history itself injected (transport faults)
	injected: Vec<String>,
	/// a server text was delivered (so a `fatal` class is a legitimate cause)
	delivered: bool,
	/// a fault that must end in a disconnect was injected
	definite: bool,
	cause: Option<String>,
	was_conn: bool,
	n_front: usize,
	ended: bool,
	/// tickets whose message has not been seen on the wire yet (the send task is FIFO)
	unsent: std::collections::VecDeque<usize>,
	/// ticket -> the id its call / subscribe request carried on the wire
	wire_id: std::collections::BTreeMap<usize, serde_json::Value>,
	resolved: std::collections::BTreeSet<usize>,
	recv_shut: bool,
	send_shut: bool,
	/// a receive-side fault or a lethal text has been injected: the read task may be gone
	read_dead: bool,
	/// the application dropped the client: nobody can observe is_connected / on_disconnect any more
	client_dropped: bool,
	ping_armed: bool,
}

fn restart_cause(s: &str) -> Option<&str> {
	s.strip_prefix("E:restart(").and_then(|r| r.strip_suffix(')'))
}

fn is_fatal_class(c: &str) -> bool {
	c == "unparseable" || c == "emptybatch" || c.starts_with("notpending:") || c.starts_with("invalid:")
}

/// `Some(id)` iff the text is, by the letter of JSON-RPC 2.0, one well-formed response object (the
/// oracle's own strict reading: only the four known members, exactly one of result / error, a proper
/// error object, no repeated member names)
fn strict_response_id(text: &str) -> Option<serde_json::Value> {
	let v: serde_json::Value = serde_json::from_str(text).ok()?;
	let o = v.as_object()?;
	for name in ["jsonrpc", "id", "result", "error"] {
		if text.matches(&format!("\"{name}\"")).count() > 1 {
			return None;
		}
	}
	if o.keys().any(|k| !matches!(k.as_str(), "jsonrpc" | "id" | "result" | "error")) {
		return None;
	}
	if o.get("jsonrpc").map(|j| j != "2.0").unwrap_or(false) {
		return None;
	}
	match (o.get("result"), o.get("error")) {
		(Some(_), None) => {}
		(None, Some(e)) => {
			let e = e.as_object()?;
			if e.keys().any(|k| !matches!(k.as_str(), "code" | "message" | "data")) {
				return None;
			}
			let c = e.get("code")?.as_i64()?;
			if c < i32::MIN as i64 || c > i32::MAX as i64 || !e.get("message")?.is_string() {
				return None;
			}
		}
		_ => return None,
	}
	let id = o.get("id")?;
	if id.is_u64() || id.is_string() { Some(id.clone()) } else { None }
}

impl Orc {
	fn see_cause(&mut self, c: &str) -> Result<(), String> {
		match &self.cause {
			None => {
				let legit = self.injected.iter().any(|i| i == c) || (self.delivered && is_fatal_class(c));
				if !legit {
					return Err(format!("disconnect cause `{c}` is not one this history produced (injected: {:?})", self.injected));
				}
				self.cause = Some(c.to_string());
				Ok(())
			}
			Some(prev) if prev == c => Ok(()),
			Some(prev) => Err(format!("two different disconnect causes in one history: `{prev}` and `{c}`")),
		}
	}

	fn check(&mut self, line: &str, obs: &FObs, send_failed: bool, max_alloc: usize) -> Result<(), String> {
		let w: Vec<&str> = line.split(' ').collect();
		if w[0] != "ct" {
			return Ok(());
		}
		// `drop`/`unsub`/`regnotif` on something that does not exist: nothing happened
		if matches!(obs.literal.as_deref(), Some("bad-op") | Some("#skip bad-op")) {
			return Ok(());
		}
		let is_front = matches!(w[1], "call" | "subscribe" | "batch" | "notify" | "regnotif" | "ondisc");
		let ticket = self.n_front;
		if is_front {
			self.n_front += 1;
			if !matches!(w[1], "regnotif" | "ondisc") {
				self.unsent.push_back(ticket);
			}
		}
		if w[1] == "dropclient" {
			self.client_dropped = true;
		}
		// ids as written on the wire (the internal unsubscribe requests belong to no ticket)
		for wt in &obs.wires {
			let v: serde_json::Value = serde_json::from_str(wt).map_err(|e| format!("the client wrote invalid JSON: {e}"))?;
			if v.get("method").and_then(|m| m.as_str()) == Some("unsub") {
				continue;
			}
			if let Some(t) = self.unsent.pop_front() {
				if let Some(id) = v.get("id") {
					self.wire_id.insert(t, id.clone());
				}
			}
		}
		// a response bearing the id of a waiting call / subscribe, read by a live read task while the
		// send task is not held: that future resolves now (with a value or an error) — or the client
		// disconnects now; it may never stay pending on a healthy connection
		let is_delivery = matches!((w[1], w.get(2).copied()), ("deliver", _) | ("deliverbytes", _) | ("fault", Some("garbage" | "garbageb")));
		let answered_now: Option<usize> =
			if is_delivery && !self.recv_shut && !self.send_shut && !self.read_dead && self.was_conn && !send_failed {
				let text = String::from_utf8(unhex(w[w.len() - 1])).unwrap_or_default();
				strict_response_id(&text)
					.and_then(|id| self.wire_id.iter().find(|(t, wid)| **wid == id && !self.resolved.contains(t)).map(|(t, _)| *t))
			} else {
				None
			};
		for (k, _) in &obs.comps {
			self.resolved.insert(*k);
		}
		match (w[1], w.get(2).copied(), w.get(3).copied()) {
			("gate", Some("recv"), Some(st)) => self.recv_shut = st == "shut",
			("gate", Some("send"), Some(st)) => self.send_shut = st == "shut",
			("gate", Some("all"), Some(st)) => {
				self.recv_shut = st == "shut";
				self.send_shut = st == "shut";
			}
			("end", _, _) => {
				self.recv_shut = false;
				self.send_shut = false;
			}
			("fault", Some("recv_err" | "peer_close" | "garbage" | "garbageb"), _) | ("deepdeliver", _, _) => self.read_dead = true,
			("deliverbytes", Some(h), _) if String::from_utf8(unhex(h)).is_err() => self.read_dead = true,
			_ => {}
		}
		match (w[1], w.get(2).copied()) {
			("fault", Some("send_err")) => self.injected.push(format!("transport(mock:s{})", w[3])),
			("fault", Some("recv_err")) => {
				self.injected.push(format!("transport(mock:r{})", w[3]));
				self.definite = true;
			}
			("fault", Some("peer_close")) => {
				self.injected.push("transport(mock:peer closed)".into());
				self.definite = true;
			}
			("fault", Some("garbage" | "garbageb")) => {
				self.delivered = true;
				self.definite = true;
			}
			("deliver", _) | ("deliverbytes", _) | ("deepdeliver", _) => self.delivered = true,
			_ => {}
		}
		if w[1] == "deepdeliver" || (w[1] == "deliverbytes" && String::from_utf8(unhex(w[2])).is_err()) {
			self.definite = true;
		}
		if send_failed {
			self.definite = true;
		}
		if !obs.panics.is_empty() {
			return Err(format!("a task panicked: {}", obs.panics.join(" ; ")));
		}
		if max_alloc > ALLOC_LIMIT {
			return Err(format!(
				"a single allocation of {max_alloc} bytes was requested while handling this line (limit {ALLOC_LIMIT}): memory reserved in proportion to a number the peer wrote"
			));
		}
		// never the placeholder
		for (k, c) in &obs.comps {
			if c == "E:placeholder" {
				return Err(format!(
					"operation {k} resolved with the placeholder error (\"Error reason could not be found\") instead of RestartNeeded(cause)"
				));
			}
			if c == "E:timeout" {
				return Err(format!("operation {k} resolved with RequestTimeout although the request timeout is one hour"));
			}
		}
		// an operation that fails because the connection ended fails with RestartNeeded(cause): the internal
		// `ServiceDisconnect`, a bare transport error or any other stand-in must never reach the caller
		for (k, c) in &obs.comps {
			if c.starts_with("E:other(") || c.starts_with("E:custom(") || c.starts_with("E:transport(") {
				let what = c.strip_prefix("E:other(").and_then(|h| h.strip_suffix(')')).map(|h| String::from_utf8_lossy(&unhex(h)).to_string()).unwrap_or(c.clone());
				return Err(format!("operation {k} resolved with `{what}` instead of RestartNeeded(cause): the disconnect cause did not reach the caller"));
			}
		}
		if obs.disc == "E:placeholder" {
			return Err("on_disconnect() returned the placeholder error (\"Error reason could not be found\")".into());
		}
		if let ("fault", Some("ping_err")) = (w[1], w.get(2).copied()) {
			self.injected.push(format!("transport(mock:p{})", w[3]));
			self.ping_armed = true;
		}
		if w[1] == "advance" && self.ping_armed {
			self.definite = true;
		}
		// is_connected / on_disconnect agree, and the cause is there
		if self.client_dropped {
			// only the background tasks are left: they must wind down (checked at `end`)
		} else if obs.conn {
			if obs.disc != "pending" {
				return Err(format!("is_connected() is true but on_disconnect() resolved with {}", obs.disc));
			}
			if !self.was_conn {
				return Err("is_connected() became true again after a disconnect".into());
			}
		} else {
			match restart_cause(&obs.disc) {
				Some(c) => {
					let c = c.to_string();
					self.see_cause(&c)?
				}
				None => return Err(format!("is_connected() is false but on_disconnect() gives {}", obs.disc)),
			}
		}
		if obs.tclosed && obs.conn {
			return Err("the transport was closed while is_connected() is still true".into());
		}
		for (_, c) in &obs.comps {
			if let Some(cs) = restart_cause(c) {
				let cs = cs.to_string();
				self.see_cause(&cs)?;
			}
		}
		if let Some(t) = answered_now {
			if !obs.comps.iter().any(|(k, _)| *k == t) && obs.conn {
				return Err(format!(
					"operation {t} was answered (a well-formed response bearing its id {} was read) but its future did not resolve and the client stays connected: nothing can resolve it any more, it outlives the request timeout",
					self.wire_id[&t]
				));
			}
		}
		// a later operation fails at once with the cause
		if is_front && self.cause.is_some() && !self.was_conn {
			let want = format!("E:restart({})", self.cause.as_ref().unwrap());
			match obs.comps.iter().find(|(k, _)| *k == ticket) {
				Some((_, c)) if *c == want => {}
				Some((_, c)) => return Err(format!("operation {ticket} started after the disconnect resolved with {c}, expected {want}")),
				None => return Err(format!("operation {ticket} started after the disconnect is still pending")),
			}
		}
		if w[1] == "end" && self.client_dropped {
			for (k, ended, _) in &obs.streams {
				if !ended {
					return Err(format!("the client was dropped but the subscription stream of operation {k} has not ended"));
				}
			}
			if !obs.tclosed {
				return Err("the client was dropped but the transport sender was never closed".into());
			}
		}
		if w[1] == "end" {
			self.ended = true;
			if !obs.conn && !obs.watching.is_empty() {
				return Err(format!("disconnected but the on_disconnect() futures {:?} have not resolved", obs.watching));
			}
			if self.definite && obs.conn {
				return Err("a fault was injected but the client still reports is_connected() at the end".into());
			}
			if !obs.conn {
				if let Some(u) = &obs.unres {
					if !u.is_empty() {
						return Err(format!("disconnected, every task released, but operations {u:?} are still pending"));
					}
				}
				for (k, ended, _) in &obs.streams {
					if !ended {
						return Err(format!("disconnected but the subscription stream of operation {k} has not ended"));
					}
				}
				if !obs.tclosed {
					return Err("disconnected but the transport sender was never closed".into());
				}
			}
		}
		self.was_conn = obs.conn;
		Ok(())
	}
}

fn run_one(out: &mut Out, lines: &[String]) {
	let mut orc = Orc { was_conn: true, ..Default::default() };
	if lines[0].contains("ping=") {
		orc.injected.push("transport(WebSocket ping/pong inactive)".into());
	}
	let mut recs: Vec<(String, String, Result<(), String>, bool)> = vec![];
	// `ctasksx` = same header, but outside the correspondence from the first line (oracle only)
	let skip_all = lines[0].contains(" ctasksx ");
	let hdr = lines[0].replacen(" ctasksx ", " ctasks ", 1);
	let mut ctl_send_failed = false;
	let mut script = lines.to_vec();
	script[0] = hdr;
	let late = run_ct_case_with(&script, skip_all, |line, obs, send_failed, max_alloc| {
		ctl_send_failed = send_failed;
		let verdict = if obs.literal.as_deref() == Some("case") || obs.literal.as_deref() == Some("bad-op") {
			Ok(())
		} else {
			orc.check(line, obs, send_failed, max_alloc)
		};
		let nontrivial = !obs.conn || obs.comps.iter().any(|(_, c)| c.starts_with("E:"));
		for (_, c) in &obs.comps {
			out.count(&format!(
				"complete.{}",
				if let Some(cs) = restart_cause(c) {
					if cs.starts_with("transport(mock:s") {
						"restart.send"
					} else if cs.starts_with("transport(mock:r") {
						"restart.recv"
					} else if cs.starts_with("transport(mock:peer") {
						"restart.peer"
					} else {
						"restart.fatal"
					}
				} else if c.starts_with("E:") {
					"otherE"
				} else {
					"ok"
				}
			));
		}
		recs.push((line.to_string(), obs.render(), verdict, nontrivial));
	});
	let _ = ctl_send_failed;
	if !late.is_empty() {
		if let Some(last) = recs.last_mut() {
			last.2 = Err(format!("a task panicked while the client was dropped: {}", late.join(" ; ")));
		}
	}
	// the original header line goes to the model
	if let Some(first) = recs.first_mut() {
		first.0 = lines[0].clone();
	}
	for (l, o, v, nt) in recs {
		out.line(l, o, v, nt);
	}
}

/// like `client_faults::run_ct_case`, with the front-channel capacity as a parameter
fn run_ct_case_with(lines: &[String], skip_all: bool, mut on_line: impl FnMut(&str, &FObs, bool, usize)) -> Vec<String> {
	install_panic_hook();
	let Some((str_ids, cap, fcap, opts)) = parse_ct_header_opts(&lines[0]) else {
		for l in lines {
			on_line(l, &FObs { literal: Some("bad-op".into()), ..Default::default() }, false, 0);
		}
		return vec![];
	};
	let rt = tokio::runtime::Builder::new_current_thread().enable_time().start_paused(true).build().unwrap();
	rt.block_on(async {
		let mut s = FaultSession::with_opts(str_ids, cap, fcap, opts);
		s.unmodelled = skip_all;
		on_line(&lines[0], &FObs { literal: Some("case".into()), ..Default::default() }, false, 0);
		for l in &lines[1..] {
			MAX_ALLOC.store(0, std::sync::atomic::Ordering::Relaxed);
			let obs = s.exec(l).await;
			let max_alloc = MAX_ALLOC.load(std::sync::atomic::Ordering::Relaxed);
			let sf = s.ctl.lock().unwrap().send_failed;
			on_line(l, &obs, sf, max_alloc);
		}
		drop(s);
		jrpc_harness::client_mock::barrier().await;
	});
	take_panics()
}

// ---------------------------------------------------------------------------------------------
// generator

#[derive(Clone, Debug, PartialEq)]
enum Front {
	Call,
	Subscribe,
	Batch(u64),
	Notify,
	/// `subscribe_to_method`
	Reg,
	/// the application awaits `on_disconnect()`
	Watch,
}

#[derive(Clone, Debug)]
enum Item {
	Front(Front),
	/// answer an open operation correctly (oldest / random); noise if none is open
	Answer(bool),
	/// a message that is not fatal: notification, subscription notification, unknown subscription
	Noise,
	/// a mutated correct answer (may or may not be fatal)
	Mutated,
	/// the application drops / unsubscribes an accepted subscription (the send task then writes the
	/// unsubscribe request); `ct call` if no subscription has been accepted
	DropSub,
	UnsubSub,
	/// a pending subscribe is answered by a *success* response whose result is no subscription id
	/// (object, array, bool, null, fraction, negative, too large): the subscribe must fail at once with
	/// a parse error and the connection stays up; a subscribe is issued first if none is pending
	OddSubAnswer(Option<u64>),
	/// the unsubscribe request of a subscription that was let go is answered with an odd result / an
	/// error object: nobody waits for it, nothing happens, the connection stays up
	OddUnsubAnswer,
	/// for a subscription the client has let go of (dropped / unsubscribed / lag-closed: its unsubscribe
	/// request is written, not yet acknowledged): the server's close notification for that id, an
	/// ordinary notification for it, a new subscribe answered with the very same id, and finally the
	/// acknowledgement of the unsubscribe request
	CloseForLetGo,
	NotifForLetGo,
	SameIdSubscribe,
	AckUnsub,
	/// a `Pong` frame (ignored), the transport's `close()` will fail (ignored)
	Pong,
	CloseErr,
	/// a notification for a method registered with `subscribe_to_method` (or for nobody)
	NotifForReg,
	/// a lethal text delivered as a *binary* frame: empty, whitespace only, or any garbage
	GarbageBytes(Option<u64>),
	/// a second fault of another kind after the first one: must not change the recorded cause
	SecondFault(u64),
	/// a long message (shape, exact byte length, filler kind, phase): not a JSON-RPC message (lethal) …
	LongGarbage(u64, usize, u64, u64),
	/// … or long but well-formed (a waiting call is answered with a long result / error, or a long
	/// notification nobody listens to): the connection stays up
	LongValid(u64, usize, u64, u64),
	/// more notifications than the stream buffers: the subscription lags and the client closes it
	/// (the send task writes the unsubscribe request)
	Flood,
	Gate(&'static str, bool),
	FaultSend,
	FaultRecv,
	FaultPeer,
	Garbage,
	Probe,
	End,
}

#[derive(Clone)]
enum Open {
	Call { id: u64 },
	Sub { id: u64, ticket: usize },
	Batch { start: u64, n: u64 },
}

fn idj(n: u64, str_ids: bool) -> String {
	if str_ids { format!("\"{n}\"") } else { n.to_string() }
}

fn answer_text(rng: &mut Rng, o: &Open, str_ids: bool, subs: &mut Vec<String>) -> String {
	match o {
		Open::Call { id } => match rng.below(4) {
			0 => format!("{{\"jsonrpc\":\"2.0\",\"id\":{},\"error\":{{\"code\":-32000,\"message\":\"e{id}\"}}}}", idj(*id, str_ids)),
			1 => format!("{{\"result\":[{id},null],\"id\":{}}}", idj(*id, str_ids)),
			_ => format!("{{\"jsonrpc\":\"2.0\",\"id\":{},\"result\":\"r{id}\"}}", idj(*id, str_ids)),
		},
		Open::Sub { id, .. } => {
			if rng.chance(1, 6) {
				let data = *rng.pick(&["", ",\"data\":null", ",\"data\":{\"deep\":[[[{\"k\":[]}]]]}", ",\"data\":1e300", ",\"data\":\"S0\"", ",\"data\":[1,2,3]"]);
				format!(
					"{{\"jsonrpc\":\"2.0\",\"id\":{},\"error\":{{\"code\":{},\"message\":\"refused\"{data}}}}}",
					idj(*id, str_ids),
					*rng.pick(&["-32001", "0", "2147483647", "-2147483648"])
				)
			} else {
				let sid = format!("S{id}");
				subs.push(sid.clone());
				format!("{{\"jsonrpc\":\"2.0\",\"id\":{},\"result\":\"{sid}\"}}", idj(*id, str_ids))
			}
		}
		Open::Batch { start, n } => {
			let mut es: Vec<String> =
				(0..*n).map(|i| format!("{{\"jsonrpc\":\"2.0\",\"id\":{},\"result\":{}}}", idj(start + i, str_ids), start + i)).collect();
			for i in (1..es.len()).rev() {
				let j = rng.below(i as u64 + 1) as usize;
				es.swap(i, j);
			}
			format!("[{}]", es.join(","))
		}
	}
}

fn noise_text(rng: &mut Rng, subs: &[String]) -> String {
	match rng.below(9) {
		0 => "{\"jsonrpc\":\"2.0\",\"method\":\"other\",\"params\":[1,2]}".into(),
		1 => "{\"jsonrpc\":\"2.0\",\"method\":\"nparams\"}".into(),
		2 => "{\"jsonrpc\":\"2.0\",\"method\":\"sub\",\"params\":{\"subscription\":18446744073709551615,\"result\":1}}".into(),
		3 => "[{\"jsonrpc\":\"2.0\",\"method\":\"other\",\"params\":null},{\"jsonrpc\":\"2.0\",\"method\":\"x\"}]".into(),
		// a `subscription` member that is no subscription id: read as a plain notification nobody listens to
		4 => {
			let odd = *rng.pick(&["{\"x\":1}", "[1]", "true", "null", "1.5", "-1", "18446744073709551616", "[[[[]]]]"]);
			let key = *rng.pick(&["result", "error"]);
			format!("{{\"jsonrpc\":\"2.0\",\"method\":\"sub\",\"params\":{{\"subscription\":{odd},\"{key}\":1}}}}")
		}
		// unknown subscription ids, also in a close notification
		5 => format!(
			"{{\"jsonrpc\":\"2.0\",\"method\":\"sub\",\"params\":{{\"subscription\":{},\"error\":\"gone\"}}}}",
			*rng.pick(&["0", "\"\"", "\"nobody\"", "9223372036854775808"])
		),
		_ => {
			let s = if subs.is_empty() || rng.chance(1, 4) { "nobody".to_string() } else { rng.pick(subs).clone() };
			format!("{{\"jsonrpc\":\"2.0\",\"method\":\"sub\",\"params\":{{\"subscription\":\"{s}\",\"result\":{}}}}}", rng.below(100))
		}
	}
}

/// a string of exactly `len` bytes made of multi-byte characters: `kind` 0 = 2-byte, 1 = 3-byte,
/// 2 = 4-byte, 3 = ASCII / 2 / 3 / 4-byte in turn; `phase` ASCII characters in front shift every
/// later character boundary, so that over the phases every byte offset falls inside a character
fn filler(len: usize, kind: u64, phase: u64) -> String {
	let mut s = String::with_capacity(len + 4);
	for _ in 0..(phase as usize).min(len) {
		s.push('p');
	}
	let cycle: &[char] = match kind % 4 {
		0 => &['é'],
		1 => &['€'],
		2 => &['😀'],
		_ => &['a', 'é', '€', '😀'],
	};
	let mut i = 0;
	loop {
		let c = cycle[i % cycle.len()];
		if s.len() + c.len_utf8() > len {
			break;
		}
		s.push(c);
		i += 1;
	}
	while s.len() < len {
		s.push('z');
	}
	s
}

/// number of shapes of `long_unparseable`
const LONG_U: u64 = 8;
/// a text of exactly `total` bytes (compact JSON, members in sorted order: serde_json re-serialises it
/// unchanged) that is NOT a JSON-RPC message: the client must abandon the connection
fn long_unparseable(shape: u64, total: usize, kind: u64, phase: u64) -> String {
	let wrap = |pre: &str, post: &str| -> String {
		let room = total.saturating_sub(pre.len() + post.len());
		format!("{pre}{}{post}", filler(room, kind, phase))
	};
	match shape % LONG_U {
		// object that is neither response nor notification
		0 => wrap("{\"x\":\"", "\"}"),
		// array with such an entry, alone and after a harmless notification
		1 => wrap("[{\"x\":\"", "\"}]"),
		2 => wrap("[{\"jsonrpc\":\"2.0\",\"method\":\"n\"},{\"x\":\"", "\"}]"),
		// a scalar: one long string
		3 => wrap("\"", "\""),
		// deeply nested
		4 => wrap(&format!("{}\"", "[".repeat(60)), &format!("\"{}", "]".repeat(60))),
		// the long text is a member *name*
		5 => wrap("{\"", "\":1}"),
		// a response-like object with both result and error (no JSON-RPC message), long error message
		6 => wrap("{\"error\":{\"code\":1,\"message\":\"", "\"},\"id\":0,\"jsonrpc\":\"2.0\",\"result\":1}"),
		// number-like: a very long integer literal (ASCII only)
		_ => {
			let mut d = String::from("1");
			while d.len() < total {
				d.push((b'0' + (d.len() % 10) as u8) as char);
			}
			d
		}
	}
}

/// number of shapes of `long_valid`
const LONG_V: u64 = 5;
/// a long but well-formed message that must NOT end the connection; `call_id` is the id of a waiting call
fn long_valid(shape: u64, total: usize, kind: u64, phase: u64, call_id: Option<String>) -> String {
	let wrap = |pre: &str, post: &str| -> String {
		let room = total.saturating_sub(pre.len() + post.len());
		format!("{pre}{}{post}", filler(room, kind, phase))
	};
	match (shape % LONG_V, call_id) {
		// long string result / long error message / long error data for a waiting call
		(0, Some(id)) => wrap(&format!("{{\"id\":{id},\"jsonrpc\":\"2.0\",\"result\":\""), "\"}"),
		(1, Some(id)) => wrap("{\"error\":{\"code\":-32000,\"message\":\"", &format!("\"}},\"id\":{id},\"jsonrpc\":\"2.0\"}}")),
		(2, Some(id)) => wrap("{\"error\":{\"code\":7,\"data\":[\"", &format!("\"],\"message\":\"m\"}},\"id\":{id},\"jsonrpc\":\"2.0\"}}")),
		// notification with a long method name nobody listens to
		(3, _) | (0, None) | (1, None) => wrap("{\"jsonrpc\":\"2.0\",\"method\":\"", "\",\"params\":[1]}"),
		// subscription notification for a long, unknown subscription id
		_ => wrap("{\"jsonrpc\":\"2.0\",\"method\":\"sub\",\"params\":{\"result\":1,\"subscription\":\"", "\"}}"),
	}
}

/// sizes where truncation and buffer constants live
const LONG_CENTERS: [usize; 7] = [256, 512, 1024, 2048, 4096, 8192, 65536];

/// texts after which the client must abandon the connection; `never` is an id no operation will ever get
fn garbage_text(rng: &mut Rng, out: &mut Out, str_ids: bool, never: u64) -> String {
	if rng.chance(1, 3) {
		// the near misses of client_spell: texts that look like a reply but are no legal message
		let nid = idj(rng.below(4), str_ids);
		let (class, text) = near_miss(rng, &nid);
		out.count(&format!("garbage.{class}"));
		return text;
	}
	let k = rng.below(34 + LONG_U + 1);
	out.count(&format!("garbage.kind{k:02}"));
	if k >= 34 {
		// long messages around the powers of two, multi-byte text at every alignment
		let center = LONG_CENTERS[rng.below(6) as usize];
		let total = (center as i64 + rng.range(0, 6) as i64 - 3) as usize;
		let (kind, phase) = (rng.below(4), rng.below(4));
		if k == 34 + LONG_U {
			// a response whose id is a long string: matches nothing pending
			let room = total.saturating_sub(40);
			return format!("{{\"id\":\"{}\",\"jsonrpc\":\"2.0\",\"result\":1}}", filler(room, kind, phase));
		}
		return long_unparseable(k - 34, total, kind, phase);
	}
	match k {
		0 => "hello".into(),
		1 => "".into(),
		2 => "   ".into(),
		3 => "{".into(),
		4 => "{\"jsonrpc\":\"2.0\"}".into(),
		5 => "[]".into(),
		6 => " [ ] ".into(),
		7 => "[1,2,3]".into(),
		8 => "{\"jsonrpc\":\"2.0\",\"id\":18446744073709551616,\"result\":1}".into(),
		9 => "{\"jsonrpc\":\"2.0\",\"id\":-1,\"result\":1}".into(),
		10 => "{\"jsonrpc\":\"2.0\",\"id\":1.5,\"result\":1}".into(),
		// F-9: the largest id of a reply array is 2^64-1
		11 => "[{\"jsonrpc\":\"2.0\",\"id\":18446744073709551615,\"result\":1}]".into(),
		12 => format!("[{{\"jsonrpc\":\"2.0\",\"id\":{},\"result\":1}},{{\"jsonrpc\":\"2.0\",\"id\":\"18446744073709551615\",\"result\":2}}]", never),
		// responses matching nothing pending
		13 => format!("{{\"jsonrpc\":\"2.0\",\"id\":{},\"result\":1}}", idj(never, str_ids)),
		14 => "{\"jsonrpc\":\"2.0\",\"id\":9223372036854775808,\"result\":1}".into(),
		15 => "{\"jsonrpc\":\"2.0\",\"id\":null,\"result\":1}".into(),
		16 => format!("{{\"jsonrpc\":\"2.0\",\"id\":{},\"error\":{{\"code\":1,\"message\":\"m\"}}}}", idj(never + 1, !str_ids)),
		17 => format!("[{{\"jsonrpc\":\"2.0\",\"id\":{never},\"result\":1}}]"),
		// huge array: 1000 harmless notifications, then something that is no JSON-RPC message
		18 => {
			let mut v: Vec<String> = (0..1000).map(|i| format!("{{\"jsonrpc\":\"2.0\",\"method\":\"n{i}\"}}")).collect();
			v.push("7".into());
			format!("[{}]", v.join(","))
		}
		// deep nesting (below serde_json's recursion limit) inside something that is no JSON-RPC message
		19 => format!("{{\"x\":{}{}}}", "[".repeat(100), "]".repeat(100)),
		20 => "{\"jsonrpc\":\"2.0\",\"id\":0,\"result\":1,\"error\":{\"code\":1,\"message\":\"both\"}}".into(),
		21 => "\u{feff}{\"jsonrpc\":\"2.0\",\"id\":0,\"result\":1}".into(),
		// reply arrays whose ids lie far apart: the id *span* is peer-controlled and matches no pending
		// batch (batches have at most 64 entries); nothing may be sized by it
		_ => {
			let spans: [&[&str]; 12] = [
				&["0", "18446744073709551614"],
				&["18446744073709551614", "0"],
				&["0", "9223372036854775808"],
				&["1", "18446744073709551615"],
				&["9223372036854775808", "18446744073709551615"],
				&["9223372036854775807", "18446744073709551614"],
				&["0", "10000000"],
				&["10000000", "3", "7"],
				&["0", "9223372036854775807", "18446744073709551614"],
				&["7", "100000"],
				&["0", "65"],
				&["2", "1000000"],
			];
			let ids = spans[(k - 22) as usize];
			// (spans around 2^32..2^56 are left out on purpose: a client that sized a buffer by them would not
			// panic but make the allocator abort the whole process)
			let quote = rng.chance(1, 3);
			let es: Vec<String> = ids
				.iter()
				.enumerate()
				.map(|(n, i)| {
					let id = if quote { format!("\"{i}\"") } else { i.to_string() };
					if n % 2 == 0 {
						format!("{{\"jsonrpc\":\"2.0\",\"id\":{id},\"result\":{n}}}")
					} else {
						format!("{{\"jsonrpc\":\"2.0\",\"id\":{id},\"error\":{{\"code\":-1,\"message\":\"e\"}}}}")
					}
				})
				.collect();
			format!("[{}]", es.join(","))
		}
	}
}

fn mutate(rng: &mut Rng, s: &str) -> String {
	let mut cs: Vec<char> = s.chars().collect();
	if cs.is_empty() {
		return "x".into();
	}
	match rng.below(6) {
		0 => {
			let i = rng.below(cs.len() as u64) as usize;
			cs.remove(i);
		}
		1 => {
			let i = rng.below(cs.len() as u64) as usize;
			let c = cs[i];
			cs.insert(i, c);
		}
		2 => {
			let i = rng.below(cs.len() as u64) as usize;
			cs.truncate(i);
		}
		3 => {
			let i = rng.below(cs.len() as u64) as usize;
			cs[i] = *rng.pick(&['0', '9', '"', ',', ':', '[', ']', '{', '}', ' ', '-', 'e', '.']);
		}
		4 => {
			// replace the first digit run by an extreme number
			if let Some(p) = cs.iter().position(|c| c.is_ascii_digit()) {
				let mut e = p;
				while e < cs.len() && cs[e].is_ascii_digit() {
					e += 1;
				}
				let big: Vec<char> = rng
					.pick(&["0", "9223372036854775808", "18446744073709551615", "18446744073709551616", "-1", "1e3", "00", "99999999999999999999999999"])
					.chars()
					.collect();
				cs.splice(p..e, big);
			}
		}
		_ => {
			let i = rng.below(cs.len() as u64) as usize;
			let j = rng.below(cs.len() as u64) as usize;
			cs.swap(i, j);
		}
	}
	cs.into_iter().collect()
}

/// turn an abstract script into op lines (ids are allocated while walking, so inserted operations shift later ones)
/// modelled client configuration of a history: (id kind, buffer capacity, options word)
fn pick_config(rng: &mut Rng, out: &mut Out) -> (bool, u64, String) {
	let str_ids = rng.chance(1, 4);
	out.count(if str_ids { "config.ids.string" } else { "config.ids.number" });
	let cap = *rng.pick(&[1u64, 1, 2, 2, 3, 64]);
	out.count(&format!("config.buffer_capacity.{}", if cap > 3 { "many".to_string() } else { cap.to_string() }));
	let t = *rng.pick(&[0u64, 0, 60, 1_000_000_000]);
	out.count(&format!("config.request_timeout.{}", match t { 0 => "hour", 60 => "minute", _ => "1e9s" }));
	let ping = rng.chance(1, 4);
	out.count(if ping { "config.ping.on_idle" } else { "config.ping.off" });
	let mut o = vec![];
	if t != 0 {
		o.push(format!("t={t}"));
	}
	if ping {
		o.push("ping=30000/40000/1".to_string());
	}
	(str_ids, cap, if o.is_empty() { String::new() } else { format!(" {}", o.join(",")) })
}

/// how many ids a batch of `n` entries takes from the allocator (1 on trees where `batch_request`
/// takes a single id although it uses `[id, id+n)`, `n` where it reserves the whole range): probed on
/// the real client once, so that the generated answers carry the ids the client will really use
fn batch_id_step(n: u64) -> u64 {
	static WHOLE_RANGE: std::sync::OnceLock<bool> = std::sync::OnceLock::new();
	let whole = *WHOLE_RANGE.get_or_init(|| {
		let rt = tokio::runtime::Builder::new_current_thread().enable_time().start_paused(true).build().unwrap();
		rt.block_on(async {
			let mut s = FaultSession::new(false, 1, FCAP, Duration::from_secs(3600));
			s.exec("ct batch 3").await;
			let o = s.exec("ct call").await;
			o.wires.first().and_then(|w| serde_json::from_str::<serde_json::Value>(w).ok()).and_then(|v| v.get("id").and_then(|i| i.as_u64())) == Some(3)
		})
	});
	if whole { n } else { 1 }
}

fn render_with(rng: &mut Rng, out: &mut Out, caseno: u64, str_ids: bool, cap: u64, opts: &str, script: &[Item]) -> Vec<String> {
	let mut lines = vec![format!("case {caseno} ctasks {} {cap}{opts}", if str_ids { "str" } else { "num" })];
	// methods registered with `subscribe_to_method`
	let mut regs: Vec<String> = vec![];
	let mut first_fault: Option<&'static str> = None;
	let mut next_id = 0u64;
	let mut open: Vec<Open> = vec![];
	let mut subs: Vec<String> = vec![];
	// (ticket, subscription id) of the subscriptions the script believes accepted and not yet let go
	let mut streams: Vec<(usize, String)> = vec![];
	// request ids of the unsubscribe calls the client is believed to have sent (subscribe id + 1)
	let mut unsubs: Vec<u64> = vec![];
	// subscription ids the client has let go of (unsubscribe written)
	let mut let_go: Vec<String> = vec![];
	let mut ticket = 0usize;
	let mut fault_no = 0u64;
	for it in script {
		match it {
			Item::Front(Front::Call) => {
				lines.push("ct call".into());
				open.push(Open::Call { id: next_id });
				next_id += 1;
				ticket += 1;
			}
			Item::Front(Front::Subscribe) => {
				lines.push("ct subscribe".into());
				open.push(Open::Sub { id: next_id, ticket });
				next_id += 2;
				ticket += 1;
			}
			Item::Front(Front::Batch(n)) => {
				lines.push(format!("ct batch {n}"));
				open.push(Open::Batch { start: next_id, n: *n });
				next_id += batch_id_step(*n);
				ticket += 1;
			}
			Item::Front(Front::Notify) => {
				lines.push("ct notify".into());
				next_id += 1;
				ticket += 1;
			}
			Item::Front(Front::Reg) => {
				// sometimes a method that is registered already (answered `AlreadyRegistered`)
				let m = if !regs.is_empty() && rng.chance(1, 4) { rng.pick(&regs).clone() } else { format!("evt{}", regs.len()) };
				out.count("api.subscribe_to_method");
				lines.push(format!("ct regnotif {}", hexs(&m)));
				if !regs.contains(&m) {
					regs.push(m);
				}
				ticket += 1;
			}
			Item::Front(Front::Watch) => {
				out.count("api.on_disconnect_awaited");
				lines.push("ct ondisc".into());
				ticket += 1;
			}
			Item::CloseForLetGo | Item::NotifForLetGo => {
				let sid = if let Some(x) = let_go.last() {
					x.clone()
				} else if let Some((_, x)) = streams.last() {
					x.clone()
				} else {
					"nobody".to_string()
				};
				let close = matches!(it, Item::CloseForLetGo);
				out.count(if close { "server.close_notification_for_let_go_subscription" } else { "server.notification_for_let_go_subscription" });
				let body = if close { *rng.pick(&["\"error\":\"closed\"", "\"error\":{\"code\":1,\"message\":\"gone\"}", "\"error\":null"]) } else { "\"result\":99" };
				lines.push(format!("ct deliver {}", hexs(&format!("{{\"jsonrpc\":\"2.0\",\"method\":\"sub\",\"params\":{{\"subscription\":\"{sid}\",{body}}}}}"))));
			}
			Item::SameIdSubscribe => {
				// a new subscribe, accepted by the server under the id of the subscription that is being closed
				let sid = let_go.last().cloned().or_else(|| streams.last().map(|x| x.1.clone())).unwrap_or_else(|| "S0".into());
				out.count("server.subscribe_answered_with_id_in_closing");
				lines.push("ct subscribe".into());
				lines.push(format!("ct deliver {}", hexs(&format!("{{\"jsonrpc\":\"2.0\",\"id\":{},\"result\":\"{sid}\"}}", idj(next_id, str_ids)))));
				next_id += 2;
				ticket += 1;
			}
			Item::AckUnsub => {
				if unsubs.is_empty() {
					lines.push(format!("ct deliver {}", hexs(&noise_text(rng, &subs))));
				} else {
					out.count("server.unsubscribe_acknowledged");
					let uid = unsubs.remove(0);
					lines.push(format!("ct deliver {}", hexs(&format!("{{\"jsonrpc\":\"2.0\",\"id\":{},\"result\":true}}", idj(uid, str_ids)))));
				}
			}
			Item::Pong => {
				out.count("server.pong");
				lines.push("ct pong".into());
			}
			Item::CloseErr => {
				out.count("fault.close_err");
				lines.push("ct fault close_err".into());
			}
			Item::NotifForReg => {
				let m = if regs.is_empty() || rng.chance(1, 5) { "nobody".to_string() } else { rng.pick(&regs).clone() };
				out.count("server.notification_for_handler");
				let p = *rng.pick(&["", ",\"params\":[1]", ",\"params\":{\"k\":null}", ",\"params\":null"]);
				lines.push(format!("ct deliver {}", hexs(&format!("{{\"jsonrpc\":\"2.0\",\"method\":\"{m}\"{p}}}"))));
			}
			Item::GarbageBytes(fixed) => {
				let t = match fixed.unwrap_or_else(|| rng.below(6)) {
					0 => String::new(),
					1 => " ".into(),
					2 => "\n\t \r".into(),
					3 => "\u{c}".into(),
					_ => garbage_text(rng, out, str_ids, next_id + 1000),
				};
				out.count(if t.trim().is_empty() { "garbage.binary_frame.empty_or_blank" } else { "garbage.binary_frame.other" });
				lines.push(format!("ct fault garbageb {}", hexs(&t)));
			}
			Item::SecondFault(k) => {
				fault_no += 1;
				let kinds = ["send_err", "recv_err", "peer_close", "garbage"];
				let mut k = (*k % 4) as usize;
				if Some(kinds[k]) == first_fault {
					k = (k + 1) % 4;
				}
				out.count(&format!("second_fault.{}", kinds[k]));
				lines.push(match k {
					0 => format!("ct fault send_err {fault_no}"),
					1 => format!("ct fault recv_err {fault_no}"),
					2 => "ct fault peer_close".into(),
					_ => format!("ct fault garbage {}", hexs("second")),
				});
			}
			Item::Answer(oldest) => {
				if open.is_empty() {
					lines.push(format!("ct deliver {}", hexs(&noise_text(rng, &subs))));
				} else {
					let i = if *oldest { 0 } else { rng.below(open.len() as u64) as usize };
					let o = open.remove(i);
					let before = subs.len();
					let text = answer_text(rng, &o, str_ids, &mut subs);
					let text = maybe_respell(rng, &text, |c| out.count(&format!("spelling.{c}")));
					if rng.chance(1, 8) {
						out.count("server.answer_as_binary_frame");
						lines.push(format!("ct deliverbytes {}", hexs(&text)));
					} else {
						lines.push(format!("ct deliver {}", hexs(&text)));
					}
					if let Open::Sub { ticket: t, .. } = o {
						if subs.len() > before {
							streams.push((t, subs[before].clone()));
						}
					}
				}
			}
			Item::OddSubAnswer(fixed) => {
				let pos = open.iter().position(|o| matches!(o, Open::Sub { .. }));
				let id = match pos {
					Some(i) => match open.remove(i) {
						Open::Sub { id, .. } => id,
						_ => unreachable!(),
					},
					None => {
						lines.push("ct subscribe".into());
						next_id += 2;
						ticket += 1;
						next_id - 2
					}
				};
				let k = fixed.unwrap_or_else(|| rng.below(12)) % 12;
				out.count(&format!("server.subscribe_non_id_result.{k:02}"));
				let odd = ["{\"x\":1}", "[1,2]", "true", "false", "null", "1.5", "-1", "1e300", "{\"a\":{\"b\":[{\"c\":null}]}}", "18446744073709551616", "[]", "-0"][k as usize];
				lines.push(format!("ct deliver {}", hexs(&format!("{{\"jsonrpc\":\"2.0\",\"id\":{},\"result\":{odd}}}", idj(id, str_ids)))));
			}
			Item::LongGarbage(shape, total, kind, phase) => {
				out.count(&format!("long.unparseable.shape{shape}"));
				out.count(&format!("long.size.{:05}", LONG_CENTERS.iter().min_by_key(|c| (**c as i64 - *total as i64).abs()).unwrap()));
				lines.push(format!("ct fault garbage {}", hexs(&long_unparseable(*shape, *total, *kind, *phase))));
			}
			Item::LongValid(shape, total, kind, phase) => {
				out.count(&format!("long.valid.shape{shape}"));
				out.count(&format!("long.size.{:05}", LONG_CENTERS.iter().min_by_key(|c| (**c as i64 - *total as i64).abs()).unwrap()));
				let pos = if *shape % LONG_V <= 2 { open.iter().position(|o| matches!(o, Open::Call { .. })) } else { None };
				let cid = pos.map(|i| match open.remove(i) {
					Open::Call { id } => idj(id, str_ids),
					_ => unreachable!(),
				});
				lines.push(format!("ct deliver {}", hexs(&long_valid(*shape, *total, *kind, *phase, cid))));
			}
			Item::OddUnsubAnswer => {
				if unsubs.is_empty() {
					lines.push(format!("ct deliver {}", hexs(&noise_text(rng, &subs))));
				} else {
					out.count("server.odd_unsubscribe_answer");
					let i = rng.below(unsubs.len() as u64) as usize;
					let uid = unsubs.remove(i);
					let body = *rng.pick(&[
						"\"result\":{\"a\":[1]}",
						"\"result\":false",
						"\"result\":null",
						"\"result\":\"S0\"",
						"\"error\":{\"code\":-32602,\"message\":\"no such subscription\",\"data\":[[]]}",
						"\"error\":{\"code\":1,\"message\":\"\"}",
					]);
					lines.push(format!("ct deliver {}", hexs(&format!("{{\"jsonrpc\":\"2.0\",\"id\":{},{body}}}", idj(uid, str_ids)))));
				}
			}
			Item::DropSub | Item::UnsubSub => {
				if streams.is_empty() {
					lines.push("ct call".into());
					open.push(Open::Call { id: next_id });
					next_id += 1;
					ticket += 1;
				} else {
					let i = rng.below(streams.len() as u64) as usize;
					let (t, sid) = streams.remove(i);
					if let Ok(n) = sid[1..].parse::<u64>() {
						unsubs.push(n + 1);
					}
					let_go.push(sid.clone());
					let verb = if matches!(it, Item::DropSub) { "drop" } else { "unsub" };
					out.count(&format!("consumer.{verb}"));
					lines.push(format!("ct {verb} {t}"));
				}
			}
			Item::Flood => {
				if streams.is_empty() {
					lines.push(format!("ct deliver {}", hexs(&noise_text(rng, &subs))));
				} else {
					out.count("consumer.lag_flood");
					let (_, sid) = rng.pick(&streams).clone();
					if !let_go.contains(&sid) {
						// the lag makes the client write the unsubscribe request itself
						let_go.push(sid.clone());
						if let Ok(n) = sid[1..].parse::<u64>() {
							unsubs.push(n + 1);
						}
					}
					for n in 0..=cap {
						lines.push(format!(
							"ct deliver {}",
							hexs(&format!("{{\"jsonrpc\":\"2.0\",\"method\":\"sub\",\"params\":{{\"subscription\":\"{sid}\",\"result\":{n}}}}}"))
						));
					}
				}
			}
			Item::Noise => lines.push(format!("ct deliver {}", hexs(&noise_text(rng, &subs)))),
			Item::Mutated => {
				let base = if open.is_empty() {
					noise_text(rng, &subs)
				} else {
					let o = rng.pick(&open).clone();
					let mut scratch = vec![];
					answer_text(rng, &o, str_ids, &mut scratch)
				};
				out.count("server.mutated");
				lines.push(format!("ct deliver {}", hexs(&mutate(rng, &base))));
			}
			Item::Gate(g, open_) => lines.push(format!("ct gate {g} {}", if *open_ { "open" } else { "shut" })),
			Item::FaultSend => {
				first_fault.get_or_insert("send_err");
				fault_no += 1;
				lines.push(format!("ct fault send_err {fault_no}"));
			}
			Item::FaultRecv => {
				first_fault.get_or_insert("recv_err");
				fault_no += 1;
				lines.push(format!("ct fault recv_err {fault_no}"));
			}
			Item::FaultPeer => {
				first_fault.get_or_insert("peer_close");
				lines.push("ct fault peer_close".into())
			}
			Item::Garbage => {
				first_fault.get_or_insert("garbage");
				let t = garbage_text(rng, out, str_ids, next_id + 1000);
				lines.push(format!("ct fault garbage {}", hexs(&t)));
			}
			Item::Probe => lines.push("ct probe".into()),
			Item::End => lines.push("ct end".into()),
		}
	}
	lines
}

/// does the send task write something to the transport for this item (if the script's belief holds)?
fn writes(it: &Item) -> bool {
	matches!(it, Item::Front(Front::Call | Front::Subscribe | Front::Batch(_) | Front::Notify) | Item::DropSub | Item::UnsubSub | Item::Flood | Item::OddSubAnswer(_) | Item::SameIdSubscribe)
}

fn gen_base(rng: &mut Rng) -> Vec<Item> {
	// half of the bases carry the life cycle of a subscription: accepted, a call outstanding, then
	// the application (or a lag) lets go of it — the send task's only write is the unsubscribe request
	if rng.chance(1, 2) {
		let mut v = vec![Item::Front(Front::Subscribe), Item::Answer(true)];
		if rng.chance(2, 3) {
			v.push(Item::Front(Front::Call));
		}
		if rng.chance(1, 3) {
			v.push(Item::Noise);
		}
		v.push(match rng.below(3) {
			0 => Item::DropSub,
			1 => Item::UnsubSub,
			_ => Item::Flood,
		});
		if rng.chance(1, 2) {
			v.push(Item::OddUnsubAnswer);
		}
		if rng.chance(1, 3) {
			v.push(Item::Answer(true));
		}
		return v;
	}
	// a quarter: a subscribe answered by a success response with a non-id result, calls / a batch around it
	if rng.chance(1, 2) {
		let mut v = vec![];
		for _ in 0..rng.below(3) {
			v.push(match rng.below(3) {
				0 => Item::Front(Front::Batch(2)),
				_ => Item::Front(Front::Call),
			});
		}
		v.push(Item::Front(Front::Subscribe));
		if rng.chance(1, 2) {
			v.push(Item::Front(Front::Call));
		}
		v.push(Item::OddSubAnswer(None));
		if rng.chance(1, 2) {
			v.push(Item::Answer(true));
		}
		if rng.chance(1, 3) {
			v.push(Item::Noise);
		}
		return v;
	}
	let n = rng.below(6);
	let mut v = vec![];
	for _ in 0..n {
		v.push(match rng.below(12) {
			0..=3 => Item::Front(Front::Call),
			4 => Item::Front(Front::Subscribe),
			5 => Item::Front(Front::Batch(rng.range(1, 3))),
			6 => Item::Front(Front::Notify),
			7 | 8 => Item::Answer(rng.chance(1, 2)),
			9 => Item::Noise,
			_ => match rng.below(8) {
				0 => Item::Front(Front::Reg),
				1 => Item::Front(Front::Watch),
				2 => Item::Pong,
				3 => Item::CloseErr,
				4 => Item::NotifForReg,
				_ => Item::Answer(true),
			},
		});
	}
	v
}

const FAULTS: [&str; 4] = ["send_err", "recv_err", "peer_close", "garbage"];
const GATES: [Option<&str>; 4] = [None, Some("send"), Some("close"), Some("recv")];
/// placements of the extra front-end operation: before the fault / while held / after release / after the end
const PLACES: [[bool; 4]; 6] = [
	[false, false, false, false],
	[true, false, false, false],
	[false, true, false, false],
	[false, false, true, false],
	[false, false, false, true],
	[true, true, true, true],
];

fn extra_front(rng: &mut Rng) -> Item {
	Item::Front(match rng.below(12) {
		0 => Front::Subscribe,
		1 => Front::Batch(2),
		2 => Front::Notify,
		3 | 4 => Front::Reg,
		5 | 6 => Front::Watch,
		_ => Front::Call,
	})
}

/// one systematic history: base[..p], [gate shut], [A], fault, (trigger), base[p..], [B], gate open, [C], end, [D], probe
fn systematic(rng: &mut Rng, out: &mut Out, base: &[Item], p: usize, fault: &str, gate: Option<&'static str>, place: [bool; 4]) -> Vec<Item> {
	let mut s: Vec<Item> = base[..p].to_vec();
	if let Some(g) = gate {
		s.push(Item::Gate(g, false));
	}
	if place[0] {
		s.push(extra_front(rng));
	}
	s.push(match fault {
		"send_err" => Item::FaultSend,
		"recv_err" => Item::FaultRecv,
		"peer_close" => Item::FaultPeer,
		_ => Item::Garbage,
	});
	out.count(&format!("fault.{fault}"));
	out.count(&format!("held.{}", gate.unwrap_or("none")));
	out.count(&format!("fault_at_step.{p}"));
	if fault == "send_err" && !base[p..].iter().any(writes) {
		// the switch fires on the next transport send (a call, a subscribe, a batch, a notification or an
		// unsubscribe request): make sure there is one
		let (name, f) = match rng.below(4) {
			0 => ("notification", Front::Notify),
			1 => ("batch", Front::Batch(rng.range(1, 3))),
			2 => ("subscribe", Front::Subscribe),
			_ => ("call", Front::Call),
		};
		out.count(&format!("send_err_on.{name}"));
		s.push(Item::Front(f));
	} else if fault == "send_err" {
		out.count("send_err_on.next_write_of_history");
	}
	s.extend_from_slice(&base[p..]);
	if place[1] {
		s.push(extra_front(rng));
		out.count("extra.while_held");
	}
	if let Some(g) = gate {
		s.push(Item::Gate(g, true));
	}
	if place[2] {
		s.push(extra_front(rng));
	}
	s.push(Item::End);
	if place[3] {
		s.push(extra_front(rng));
	}
	if place[0] && place[3] {
		// after the end: every API once more, a second fault of another kind, and everything again
		out.count("after_end.every_api_twice_with_second_fault");
		for f in [Front::Call, Front::Notify, Front::Batch(2), Front::Subscribe, Front::Reg, Front::Watch] {
			s.push(Item::Front(f));
		}
		s.push(Item::SecondFault(rng.below(4)));
		s.push(Item::Answer(true));
		for f in [Front::Watch, Front::Reg, Front::Subscribe, Front::Batch(1), Front::Notify, Front::Call] {
			s.push(Item::Front(f));
		}
		s.push(Item::End);
	}
	s.push(Item::Probe);
	s
}

fn random_history(rng: &mut Rng, out: &mut Out) -> Vec<Item> {
	let mut s = vec![];
	let n = rng.range(3, 9);
	let mut shut: Vec<&'static str> = vec![];
	for _ in 0..n {
		s.push(match rng.below(20) {
			0..=4 => Item::Front(Front::Call),
			5 => Item::Front(Front::Subscribe),
			6 => Item::Front(Front::Batch(rng.range(1, 4))),
			7 => Item::Front(Front::Notify),
			8..=10 => Item::Answer(rng.chance(1, 2)),
			11 => Item::Noise,
			12 => Item::Mutated,
			13 if rng.chance(1, 3) => match rng.below(7) {
				0 => Item::Front(Front::Reg),
				1 => Item::Front(Front::Watch),
				2 => Item::Pong,
				3 => Item::CloseErr,
				4 => match rng.below(5) {
					0 => Item::CloseForLetGo,
					1 => Item::NotifForLetGo,
					2 => Item::SameIdSubscribe,
					3 => Item::AckUnsub,
					_ => Item::NotifForReg,
				},
				5 => {
					out.count("fault.garbage");
					Item::GarbageBytes(None)
				}
				_ => Item::SecondFault(rng.below(4)),
			},
			13 => match rng.below(7) {
				5 => Item::LongValid(rng.below(LONG_V), (LONG_CENTERS[rng.below(6) as usize] as i64 + rng.range(0, 6) as i64 - 3) as usize, rng.below(4), rng.below(4)),
				6 => Item::LongGarbage(rng.below(LONG_U), (LONG_CENTERS[rng.below(6) as usize] as i64 + rng.range(0, 6) as i64 - 3) as usize, rng.below(4), rng.below(4)),
				0 => Item::DropSub,
				1 => Item::UnsubSub,
				2 => Item::OddSubAnswer(None),
				3 => Item::OddUnsubAnswer,
				_ => Item::Flood,
			},
			14 => {
				let g = *rng.pick(&["send", "close", "recv"]);
				if shut.contains(&g) {
					shut.retain(|x| *x != g);
					Item::Gate(g, true)
				} else {
					shut.push(g);
					Item::Gate(g, false)
				}
			}
			15 => {
				out.count("fault.send_err");
				Item::FaultSend
			}
			16 => {
				out.count("fault.recv_err");
				Item::FaultRecv
			}
			17 => {
				out.count("fault.peer_close");
				Item::FaultPeer
			}
			18 => {
				out.count("fault.garbage");
				Item::Garbage
			}
			_ => Item::Probe,
		});
	}
	s.push(Item::End);
	if rng.chance(1, 2) {
		s.push(Item::Front(Front::Call));
	}
	s
}

/// both background tasks fail in the same scheduling round: the send task is held in the transport
/// send (which will fail), the read task before `receive` (which will yield an error); then every
/// gate opens at once — "first cause wins", and it must be one cause for everybody
fn simultaneous_history(rng: &mut Rng, out: &mut Out) -> Vec<Item> {
	out.count("simultaneous_failures");
	let mut s = vec![];
	for _ in 0..rng.below(3) {
		s.push(extra_front(rng));
	}
	if rng.chance(1, 2) {
		s.push(Item::Answer(true));
	}
	s.push(Item::Gate("send", false));
	s.push(Item::Gate("recv", false));
	if rng.chance(1, 3) {
		s.push(Item::Gate("close", false));
	}
	s.push(Item::Front(Front::Call));
	if rng.chance(1, 2) {
		s.push(extra_front(rng));
	}
	if rng.chance(4, 5) {
		out.count("fault.send_err");
		s.push(Item::FaultSend);
	}
	match rng.below(3) {
		0 => {
			out.count("fault.recv_err");
			s.push(Item::FaultRecv)
		}
		1 => {
			out.count("fault.peer_close");
			s.push(Item::FaultPeer)
		}
		_ => {
			out.count("fault.garbage");
			s.push(Item::Garbage)
		}
	}
	if rng.chance(1, 2) {
		s.push(extra_front(rng));
	}
	s.push(Item::Gate("all", true));
	if rng.chance(1, 2) {
		s.push(extra_front(rng));
	}
	s.push(Item::End);
	s.push(extra_front(rng));
	s
}

/// the fault on exactly the write of an unsubscribe request: an accepted subscription, optionally a
/// call outstanding, the switch armed, then the application drops / unsubscribes the stream or the
/// stream lags — the unsubscribe request is the next (and only) thing the send task writes
fn unsub_write_histories() -> Vec<Vec<Item>> {
	let mut all = vec![];
	for trigger in 0..3 {
		for gate in [None, Some("send"), Some("close"), Some("recv")] {
			for outstanding in [true, false] {
				for late_call in [false, true] {
					let mut s = vec![Item::Front(Front::Subscribe), Item::Answer(true)];
					if outstanding {
						s.push(Item::Front(Front::Call));
						s.push(Item::Front(Front::Batch(2)));
					}
					if let Some(g) = gate {
						s.push(Item::Gate(g, false));
					}
					s.push(Item::FaultSend);
					s.push(match trigger {
						0 => Item::DropSub,
						1 => Item::UnsubSub,
						_ => Item::Flood,
					});
					if late_call {
						s.push(Item::Front(Front::Call));
					}
					if let Some(g) = gate {
						s.push(Item::Gate(g, true));
					}
					s.push(Item::End);
					s.push(Item::Front(Front::Call));
					all.push(s);
				}
			}
		}
	}
	all
}

/// well-formed but unexpected replies that must NOT end the connection, with calls, a batch and other
/// subscribes pending around them: every one of the 12 non-id results for a pending subscribe, odd
/// answers to an unsubscribe request, refused subscribes with odd error data, notifications with a
/// non-id `subscription` member.  What was answered resolves at once; the rest is answered afterwards.
fn odd_reply_histories() -> Vec<Vec<Item>> {
	let mut all = vec![];
	for k in 0..12u64 {
		for shape in 0..3 {
			let mut s = vec![];
			match shape {
				0 => {
					s.push(Item::Front(Front::Call));
					s.push(Item::Front(Front::Subscribe));
					s.push(Item::Front(Front::Batch(2)));
				}
				1 => {
					s.push(Item::Front(Front::Subscribe));
					s.push(Item::Answer(true));
					s.push(Item::Front(Front::Call));
					s.push(Item::Front(Front::Subscribe));
				}
				_ => {
					s.push(Item::Gate("recv", false));
					s.push(Item::Front(Front::Subscribe));
					s.push(Item::Front(Front::Call));
				}
			}
			s.push(Item::OddSubAnswer(Some(k)));
			if shape == 2 {
				s.push(Item::Gate("recv", true));
			}
			s.push(Item::Noise);
			s.push(Item::Front(Front::Call));
			// the others are still answered normally: the connection is healthy
			s.push(Item::Answer(true));
			s.push(Item::Answer(true));
			s.push(Item::Answer(true));
			if shape == 1 {
				s.push(Item::DropSub);
				s.push(Item::OddUnsubAnswer);
				s.push(Item::Front(Front::Call));
				s.push(Item::Answer(true));
			}
			s.push(Item::End);
			all.push(s);
		}
	}
	all
}

/// long messages with calls, a subscribe and a batch pending: every shape × every size centre × the
/// seven lengths centre-3 … centre+3; filler kind and phase rotate so that each alignment occurs at
/// each centre.  `big` = also the 64 KiB centre for every length (quick: three lengths only).
fn long_message_histories(big: bool) -> Vec<Vec<Item>> {
	let mut all = vec![];
	for shape in 0..(LONG_U + LONG_V) {
		for (ci, center) in LONG_CENTERS.iter().enumerate() {
			for di in 0..7u64 {
				if *center == 65536 && !big && !(2..=4).contains(&di) {
					continue;
				}
				let total = (*center as i64 + di as i64 - 3) as usize;
				let kind = (di + ci as u64) % 4;
				let phase = (di + shape) % 4;
				let mut s = vec![Item::Front(Front::Call), Item::Front(Front::Subscribe), Item::Front(Front::Batch(2))];
				if di % 2 == 0 {
					s.push(Item::Answer(false));
				}
				if shape < LONG_U {
					s.push(Item::LongGarbage(shape, total, kind, phase));
				} else {
					s.push(Item::LongValid(shape - LONG_U, total, kind, phase));
					s.push(Item::Answer(true));
				}
				s.push(Item::Front(Front::Call));
				s.push(Item::End);
				all.push(s);
			}
		}
	}
	all
}

/// every way to end × the things that can be around it, once per run whatever the seed: a handler of
/// `subscribe_to_method` with buffered notifications, an accepted subscription with buffered items, a
/// `Pong`, a transport whose `close()` will fail, `on_disconnect()` awaited before / during / after,
/// a call and a batch pending; the fault is each of the four kinds, or an empty / blank binary frame;
/// afterwards every API once more
fn axis_histories() -> Vec<Vec<Item>> {
	let mut all = vec![];
	for fault in 0..8u64 {
		for gate in [None, Some("send"), Some("close"), Some("recv")] {
			let mut s = vec![
				Item::Front(Front::Watch),
				Item::Front(Front::Reg),
				Item::Front(Front::Subscribe),
				Item::Answer(true),
				Item::NotifForReg,
				Item::NotifForReg,
				Item::Flood,
				Item::Pong,
				Item::CloseErr,
				Item::Front(Front::Call),
				Item::Front(Front::Batch(2)),
				Item::Front(Front::Notify),
			];
			if let Some(g) = gate {
				s.push(Item::Gate(g, false));
			}
			s.push(match fault {
				0 => Item::FaultSend,
				1 => Item::FaultRecv,
				2 => Item::FaultPeer,
				3 => Item::Garbage,
				k => Item::GarbageBytes(Some(k - 4)),
			});
			if fault == 0 {
				s.push(Item::Front(if gate.is_some() { Front::Notify } else { Front::Batch(2) }));
			}
			s.push(Item::Front(Front::Watch));
			s.push(Item::Front(Front::Reg));
			if let Some(g) = gate {
				s.push(Item::Gate(g, true));
			}
			s.push(Item::End);
			for f in [Front::Call, Front::Notify, Front::Batch(2), Front::Subscribe, Front::Reg, Front::Watch, Front::Watch] {
				s.push(Item::Front(f));
			}
			s.push(Item::SecondFault(fault));
			s.push(Item::Front(Front::Call));
			s.push(Item::Probe);
			all.push(s);
		}
	}
	all
}

/// every front-end entry point QUEUED behind a send that is blocked in the transport when the fault
/// hits: the blocker (call / notification / batch / subscribe) sits in `sender.send` behind the shut
/// gate, the entry point (request, notification, batch, subscribe, subscribe_to_method, on_disconnect,
/// drop of a stream, unsubscribe) is issued behind it, then the blocked send fails — or succeeds after
/// the read side has failed.  Everything queued must fail with the recorded cause.
fn queued_behind_blocked_send() -> Vec<Vec<Item>> {
	let mut all = vec![];
	for fault in 0..4u64 {
		for blocker in [Front::Call, Front::Notify, Front::Batch(2), Front::Subscribe] {
			for entry in 0..8u64 {
				let mut s = vec![Item::Front(Front::Subscribe), Item::Answer(true), Item::Gate("send", false)];
				if fault == 0 {
					s.push(Item::FaultSend);
				}
				s.push(Item::Front(blocker.clone()));
				s.push(match entry {
					0 => Item::Front(Front::Call),
					1 => Item::Front(Front::Notify),
					2 => Item::Front(Front::Batch(2)),
					3 => Item::Front(Front::Subscribe),
					4 => Item::Front(Front::Reg),
					5 => Item::Front(Front::Watch),
					6 => Item::DropSub,
					_ => Item::UnsubSub,
				});
				match fault {
					0 => {}
					1 => s.push(Item::FaultRecv),
					2 => s.push(Item::FaultPeer),
					_ => s.push(Item::Garbage),
				}
				s.push(Item::Front(Front::Reg));
				s.push(Item::Gate("send", true));
				s.push(Item::End);
				s.push(Item::Front(Front::Reg));
				s.push(Item::Probe);
				all.push(s);
			}
		}
	}
	all
}

/// the unsubscribe of a let-go subscription races with what the server still sends for that id:
/// accepted subscription → drop / unsubscribe() / lag-close (unsubscribe request written) → before its
/// acknowledgement, in every order: the server's close notification for that id, an ordinary
/// notification for it, a second subscribe answered with the same id → the acknowledgement → a call
/// that must be answered
fn close_race_histories() -> Vec<Vec<Item>> {
	let evs = [Item::CloseForLetGo, Item::NotifForLetGo, Item::SameIdSubscribe];
	let orders: [&[usize]; 16] = [
		&[], &[0], &[1], &[2], &[0, 1], &[1, 0], &[0, 2], &[2, 0], &[1, 2], &[2, 1],
		&[0, 1, 2], &[0, 2, 1], &[1, 0, 2], &[1, 2, 0], &[2, 0, 1], &[2, 1, 0],
	];
	let mut all = vec![];
	for trigger in 0..3 {
		for order in orders {
			for held in [false, true] {
				let mut s = vec![Item::Front(Front::Subscribe), Item::Answer(true), Item::Front(Front::Call)];
				s.push(match trigger {
					0 => Item::DropSub,
					1 => Item::UnsubSub,
					_ => Item::Flood,
				});
				if held {
					// everything arrives in one go
					s.push(Item::Gate("recv", false));
				}
				for i in order {
					s.push(evs[*i].clone());
				}
				s.push(Item::AckUnsub);
				if held {
					s.push(Item::Gate("recv", true));
				}
				s.push(Item::CloseForLetGo);
				s.push(Item::Answer(true));
				s.push(Item::Front(Front::Call));
				s.push(Item::Answer(true));
				s.push(Item::End);
				all.push(s);
			}
		}
	}
	all
}

/// histories outside the text model (invalid UTF-8, nesting beyond serde_json's recursion limit) or
/// with a tiny front channel (callers block on it): oracle only
fn unmodelled_history(rng: &mut Rng, out: &mut Out, caseno: u64, kind: Option<u64>) -> Vec<String> {
	let mut l = vec![];
	match kind.unwrap_or_else(|| rng.below(5)) {
		0 => {
			out.count("server.invalid_utf8");
			l.push(format!("case {caseno} ctasks num 2"));
			l.push("ct call".into());
			l.push("ct subscribe".into());
			let bytes: &[&[u8]] = &[b"\xff\xfe", b"{\"jsonrpc\":\"2.0\",\"id\":0,\"result\":\"\xc3\x28\"}", b"[\x80]", b"{\"id\":0,\xf0\x9f}"];
			let b: &[u8] = bytes[rng.below(bytes.len() as u64) as usize];
			l.push(format!("ct deliverbytes {}", hex(b)));
			l.push("ct call".into());
			l.push("ct end".into());
		}
		1 => {
			out.count("server.too_deep");
			l.push(format!("case {caseno} ctasks num 2"));
			l.push("ct call".into());
			l.push(format!("ct deepdeliver {}", *rng.pick(&[129u64, 1000, 20000, 200000])));
			l.push("ct call".into());
			l.push("ct end".into());
		}
		2 => {
			// a fault while callers are blocked on the full front-end queue
			let fcap = *rng.pick(&[1u64, 1, 2]);
			out.count(&format!("config.front_channel.{fcap}"));
			out.count("fault_while_front_queue_full");
			l.push(format!("case {caseno} ctasksx {} {} fcap={fcap}", if rng.chance(1, 4) { "str" } else { "num" }, rng.range(1, 3)));
			let g = *rng.pick(&["send", "close", "send"]);
			l.push(format!("ct gate {g} shut"));
			for _ in 0..rng.range(2, 5) {
				l.push((*rng.pick(&["ct call", "ct call", "ct notify", "ct batch 2", "ct subscribe", "ct regnotif 65", "ct ondisc"])).into());
			}
			match rng.below(4) {
				0 => l.push("ct fault send_err 1".into()),
				1 => l.push("ct fault recv_err 1".into()),
				2 => l.push("ct fault peer_close".into()),
				_ => l.push(format!("ct fault garbage {}", hexs("nope"))),
			}
			l.push("ct call".into());
			l.push(format!("ct gate {g} open"));
			l.push("ct call".into());
			l.push("ct end".into());
			for v in ["ct call", "ct notify", "ct batch 1", "ct subscribe", "ct regnotif 66", "ct ondisc"] {
				l.push(v.into());
			}
		}
		3 => {
			// the write of a WebSocket ping fails (paused clock: `advance` lets the ping timer fire)
			out.count("fault.ping_send_err");
			out.count("config.ping.on_20ms");
			l.push(format!("case {caseno} ctasksx num 2 ping=20/1000000/3"));
			for _ in 0..rng.range(0, 3) {
				l.push((*rng.pick(&["ct call", "ct subscribe", "ct batch 2", "ct ondisc"])).into());
			}
			if rng.chance(1, 2) {
				l.push("ct advance 45".into());
				l.push("ct pong".into());
			}
			l.push(format!("ct fault ping_err {}", rng.range(1, 9)));
			l.push("ct advance 25".into());
			l.push("ct call".into());
			l.push("ct end".into());
			l.push("ct call".into());
			l.push("ct ondisc".into());
		}
		_ => {
			// the application drops the client (and every future it awaited) with things pending
			out.count("client_dropped_with_pending");
			l.push(format!("case {caseno} ctasksx num 2"));
			l.push("ct subscribe".into());
			l.push(format!("ct deliver {}", hexs("{\"jsonrpc\":\"2.0\",\"id\":0,\"result\":\"S0\"}")));
			l.push(format!("ct deliver {}", hexs("{\"jsonrpc\":\"2.0\",\"method\":\"sub\",\"params\":{\"subscription\":\"S0\",\"result\":1}}")));
			if rng.chance(1, 2) {
				l.push(format!("ct gate {} shut", *rng.pick(&["send", "close", "recv"])));
			}
			for _ in 0..rng.range(0, 4) {
				l.push((*rng.pick(&["ct call", "ct notify", "ct batch 2", "ct subscribe", "ct regnotif 65", "ct ondisc"])).into());
			}
			l.push("ct dropclient".into());
			l.push("ct end".into());
		}
	}
	l
}

// ---------------------------------------------------------------------------------------------
// wall-clock test: "no call, batch or subscribe future stays pending longer than the request timeout"

struct RtResult {
	name: &'static str,
	ok: Result<(), String>,
	worst_ms: u128,
}

fn rt_scenario(name: &'static str, timeout_ms: u64) -> RtResult {
	install_panic_hook();
	let rt = tokio::runtime::Builder::new_current_thread().enable_time().build().unwrap();
	let t = Duration::from_millis(timeout_ms);
	let slack = Duration::from_millis(600);
	let prompt = Duration::from_millis(timeout_ms / 2);
	let mut worst = 0u128;
	let ok = rt.block_on(async {
		let fcap = if name == "front_channel_full" { 1 } else { 8 };
		let opts = FOpts {
			request_timeout: match name {
				"tiny_request_timeout" => Duration::from_millis(5),
				"huge_request_timeout" => Duration::from_secs(1_000_000_000),
				_ => t,
			},
			ping: match name {
				// silent peer: no pong, no message at all
				"ping_inactive" => Some((30, 60, 1)),
				"ping_send_err" => Some((40, 100_000, 3)),
				_ => None,
			},
		};
		let mut s = FaultSession::with_opts(false, 2, fcap, opts);
		// (what to expect, deadline) per ticket
		let mut expect: Vec<(&str, Duration)> = vec![];
		let start = Instant::now();
		match name {
			"silent_server" => {
				s.exec_nobarrier("ct call");
				s.exec_nobarrier("ct subscribe");
				s.exec_nobarrier("ct batch 2");
				expect = vec![("E:timeout", t + slack); 3];
			}
			"send_stuck" => {
				s.set_gate("send", false);
				s.exec_nobarrier("ct call");
				s.exec_nobarrier("ct call");
				expect = vec![("E:timeout", t + slack); 2];
			}
			"front_channel_full" => {
				s.set_gate("send", false);
				for _ in 0..4 {
					s.exec_nobarrier("ct call");
				}
				expect = vec![("E:timeout", t + slack); 4];
			}
			"recv_err_while_pending" => {
				s.exec_nobarrier("ct call");
				s.exec_nobarrier("ct subscribe");
				s.exec_nobarrier("ct batch 2");
				tokio::time::sleep(Duration::from_millis(20)).await;
				s.inject(Err(MockErr("r1".into())));
				expect = vec![("E:restart(transport(mock:r1))", prompt); 3];
			}
			"garbage_while_pending" => {
				s.exec_nobarrier("ct call");
				s.exec_nobarrier("ct subscribe");
				tokio::time::sleep(Duration::from_millis(20)).await;
				s.inject(Ok(ReceivedMessage::Text("garbage".into())));
				expect = vec![("E:restart(unparseable)", prompt); 2];
			}
			"send_err" => {
				s.exec_nobarrier("ct call");
				tokio::time::sleep(Duration::from_millis(20)).await;
				s.ctl.lock().unwrap().send_fail = Some("s1".into());
				s.exec_nobarrier("ct call");
				tokio::time::sleep(Duration::from_millis(20)).await;
				s.exec_nobarrier("ct call");
				expect = vec![("E:restart(transport(mock:s1))", prompt); 3];
			}
			"transport_close_stuck" => {
				// the transport's close never returns: what is pending may only end by the timer, but it ends
				s.set_gate("close", false);
				s.exec_nobarrier("ct call");
				tokio::time::sleep(Duration::from_millis(20)).await;
				s.inject(Err(MockErr("r1".into())));
				tokio::time::sleep(Duration::from_millis(20)).await;
				s.exec_nobarrier("ct call");
				expect = vec![("*", t + slack), ("E:restart(transport(mock:r1))", prompt)];
			}
			"ping_inactive" => {
				// pings are on and the peer is silent: the read task gives up after the inactive limit
				s.exec_nobarrier("ct call");
				s.exec_nobarrier("ct subscribe");
				s.exec_nobarrier("ct batch 2");
				expect = vec![("E:restart(transport(WebSocket ping/pong inactive))", prompt); 3];
			}
			"ping_send_err" => {
				// the write of the ping itself fails
				s.exec_nobarrier("ct call");
				tokio::time::sleep(Duration::from_millis(10)).await;
				s.ctl.lock().unwrap().ping_fail = Some("p1".into());
				tokio::time::sleep(Duration::from_millis(60)).await;
				s.exec_nobarrier("ct call");
				expect = vec![("E:restart(transport(mock:p1))", prompt); 2];
			}
			"tiny_request_timeout" => {
				// 5 ms: everything times out at once; the late answer finds the abandoned entry (harmless), the
				// next call times out as well, a receive error afterwards is reported as usual
				s.exec_nobarrier("ct call");
				s.exec_nobarrier("ct subscribe");
				s.exec_nobarrier("ct batch 2");
				tokio::time::sleep(Duration::from_millis(60)).await;
				s.inject(Ok(ReceivedMessage::Text("{\"jsonrpc\":\"2.0\",\"id\":0,\"result\":1}".into())));
				tokio::time::sleep(Duration::from_millis(30)).await;
				s.exec_nobarrier("ct call");
				tokio::time::sleep(Duration::from_millis(40)).await;
				s.inject(Err(MockErr("r1".into())));
				tokio::time::sleep(Duration::from_millis(30)).await;
				s.exec_nobarrier("ct call");
				expect = vec![("E:timeout", prompt), ("E:timeout", prompt), ("E:timeout", prompt), ("E:timeout", prompt), ("E:restart(transport(mock:r1))", prompt)];
			}
			"huge_request_timeout" => {
				// 10^9 s: the timer must not overflow; answers and failures arrive as usual
				s.exec_nobarrier("ct call");
				s.exec_nobarrier("ct call");
				tokio::time::sleep(Duration::from_millis(20)).await;
				s.inject(Ok(ReceivedMessage::Text("{\"jsonrpc\":\"2.0\",\"id\":0,\"result\":7}".into())));
				tokio::time::sleep(Duration::from_millis(20)).await;
				s.inject(Err(MockErr("r1".into())));
				expect = vec![("ok:37", prompt), ("E:restart(transport(mock:r1))", prompt)];
			}
			"subscribe_non_id_result" => {
				// the connection stays healthy: the subscribe must fail at once, the call is answered later
				s.exec_nobarrier("ct subscribe");
				s.exec_nobarrier("ct call");
				tokio::time::sleep(Duration::from_millis(20)).await;
				s.inject(Ok(ReceivedMessage::Text("{\"jsonrpc\":\"2.0\",\"id\":0,\"result\":{\"x\":1}}".into())));
				tokio::time::sleep(Duration::from_millis(20)).await;
				s.inject(Ok(ReceivedMessage::Text("{\"jsonrpc\":\"2.0\",\"id\":2,\"result\":7}".into())));
				expect = vec![("E:parse", prompt), ("ok:37", prompt)];
			}
			"subscribe_refused_and_odd_notifications" => {
				s.exec_nobarrier("ct subscribe");
				s.exec_nobarrier("ct subscribe");
				tokio::time::sleep(Duration::from_millis(20)).await;
				for t in [
					"{\"jsonrpc\":\"2.0\",\"method\":\"sub\",\"params\":{\"subscription\":{\"x\":1},\"result\":1}}",
					"{\"jsonrpc\":\"2.0\",\"id\":0,\"error\":{\"code\":-32001,\"message\":\"refused\",\"data\":{\"deep\":[[[]]]}}}",
					"{\"jsonrpc\":\"2.0\",\"id\":2,\"result\":null}",
				] {
					s.inject(Ok(ReceivedMessage::Text(t.into())));
				}
				expect = vec![("err:-32001:72656675736564:7b2264656570223a5b5b5b5d5d5d7d", prompt), ("E:parse", prompt)];
			}
			_ => return Err(format!("unknown scenario {name}")),
		}
		let deadline = expect.iter().map(|e| e.1).max().unwrap_or(t) + Duration::from_millis(300);
		let mut seen: Vec<Option<(String, Duration)>> = vec![None; expect.len()];
		while start.elapsed() < deadline && seen.iter().any(|x| x.is_none()) {
			tokio::time::sleep(Duration::from_millis(5)).await;
			for (k, c) in s.harvest_now().await {
				if k < seen.len() && seen[k].is_none() {
					seen[k] = Some((c, start.elapsed()));
				}
			}
		}
		for (k, (want, within)) in expect.iter().enumerate() {
			match &seen[k] {
				None => return Err(format!("{name}: operation {k} still pending after {} ms (request timeout {timeout_ms} ms)", deadline.as_millis())),
				Some((c, at)) => {
					worst = worst.max(at.as_millis());
					if *at > *within {
						return Err(format!("{name}: operation {k} resolved after {} ms, bound {} ms", at.as_millis(), within.as_millis()));
					}
					if *want != "*" && c != want {
						return Err(format!("{name}: operation {k} resolved with {c}, expected {want}"));
					}
					if c == "E:placeholder" {
						return Err(format!("{name}: operation {k} resolved with the placeholder error"));
					}
				}
			}
		}
		s.set_gate("send", true);
		s.set_gate("close", true);
		drop(s);
		tokio::time::sleep(Duration::from_millis(5)).await;
		Ok(())
	});
	let p = take_panics();
	let ok = if p.is_empty() { ok } else { Err(format!("{name}: a task panicked: {}", p.join(" ; "))) };
	RtResult { name, ok, worst_ms: worst }
}

/// "EVERY front-end future resolves within the request timeout at the latest", on whole histories:
/// the given cases run concurrently on one real-time runtime with a short request timeout; when a
/// script is through (its `end` has opened every gate) everything still pending must resolve within
/// request_timeout + slack — by an answer, by the disconnect cause or by the timer.
fn rt_sweep(cases: &[Vec<String>], timeout_ms: u64) -> (usize, Result<(), String>) {
	install_panic_hook();
	let rt = tokio::runtime::Builder::new_current_thread().enable_time().build().unwrap();
	let t = Duration::from_millis(timeout_ms);
	let slack = Duration::from_millis(600);
	let res = rt.block_on(async {
		let runs = cases.iter().map(|case| async move {
			let Some((str_ids, cap)) = parse_ct_header(&case[0]) else { return Ok(()) };
			let mut s = FaultSession::new(str_ids, cap, FCAP, t);
			for l in &case[1..] {
				let o = s.exec(l).await;
				if o.render().contains("E:placeholder") {
					return Err(format!("{}: placeholder error in real time at `{}`", case[0], l));
				}
			}
			let start = Instant::now();
			while !s.unresolved().is_empty() && start.elapsed() < t + slack {
				tokio::time::sleep(Duration::from_millis(10)).await;
				let _ = s.harvest_now().await;
			}
			let left = s.unresolved();
			if left.is_empty() {
				Ok(())
			} else {
				Err(format!(
					"{}: operations {left:?} are still pending {} ms after the end of the script (request timeout {timeout_ms} ms)",
					case[0],
					(t + slack).as_millis()
				))
			}
		});
		let all = futures_util::future::join_all(runs).await;
		all.into_iter().find(|r| r.is_err()).unwrap_or(Ok(()))
	});
	let p = take_panics();
	(cases.len(), if p.is_empty() { res } else { Err(format!("a task panicked during the real-time sweep: {}", p.join(" ; "))) })
}

const RT_SCENARIOS: [&str; 13] = [
	"ping_inactive",
	"ping_send_err",
	"tiny_request_timeout",
	"huge_request_timeout",
	"subscribe_non_id_result",
	"subscribe_refused_and_odd_notifications",
	"silent_server",
	"send_stuck",
	"front_channel_full",
	"recv_err_while_pending",
	"garbage_while_pending",
	"send_err",
	"transport_close_stuck",
];

fn main() {
	let a = args();
	let mut out = Out::new();
	let mut lines: Vec<String> = vec![];
	let thorough = a.tier == "thorough";
	if let Some(r) = &a.replay {
		lines = read_case_lines(r);
	} else {
		lines.extend(corpus_lines("C09"));
		let n = a.cases.unwrap_or(if thorough { 25000 } else { 1500 });
		let mut rng = Rng::new(a.seed);
		let mut caseno = 1000u64;
		// systematic part: every step × every fault × every held gate × every placement, for random bases
		let systematic_budget = n * 4 / 5;
		let mut made = 0u64;
		'outer: loop {
			let base = gen_base(&mut rng);
			let (str_ids, cap, opts) = pick_config(&mut rng, &mut out);
			for p in 0..=base.len() {
				for fault in FAULTS {
					for gate in GATES {
						for place in PLACES {
							if made >= systematic_budget {
								break 'outer;
							}
							caseno += 1;
							made += 1;
							let script = systematic(&mut rng, &mut out, &base, p, fault, gate, place);
							lines.extend(render_with(&mut rng, &mut out, caseno, str_ids, cap, &opts, &script));
						}
					}
				}
			}
		}
		for script in unsub_write_histories() {
			caseno += 1;
			out.count("unsubscribe_write_fault");
			out.count("fault.send_err");
			let (str_ids, cap, opts) = pick_config(&mut rng, &mut out);
			lines.extend(render_with(&mut rng, &mut out, caseno, str_ids, cap, &opts, &script));
		}
		for script in long_message_histories(thorough) {
			caseno += 1;
			out.count("long_message_history");
			let (str_ids, cap, opts) = pick_config(&mut rng, &mut out);
			lines.extend(render_with(&mut rng, &mut out, caseno, str_ids, cap, &opts, &script));
		}
		for script in close_race_histories() {
			caseno += 1;
			out.count("unsubscribe_close_race_history");
			let (str_ids, cap, opts) = pick_config(&mut rng, &mut out);
			lines.extend(render_with(&mut rng, &mut out, caseno, str_ids, cap, &opts, &script));
		}
		for script in queued_behind_blocked_send() {
			caseno += 1;
			out.count("queued_behind_blocked_send");
			let (str_ids, cap, opts) = pick_config(&mut rng, &mut out);
			lines.extend(render_with(&mut rng, &mut out, caseno, str_ids, cap, &opts, &script));
		}
		for script in axis_histories() {
			caseno += 1;
			out.count("axis_history");
			let (str_ids, cap, opts) = pick_config(&mut rng, &mut out);
			lines.extend(render_with(&mut rng, &mut out, caseno, str_ids, cap, &opts, &script));
		}
		for kind in 0..5u64 {
			for _ in 0..(if thorough { 40 } else { 8 }) {
				caseno += 1;
				lines.extend(unmodelled_history(&mut rng, &mut out, caseno, Some(kind)));
			}
		}
		for script in odd_reply_histories() {
			caseno += 1;
			out.count("odd_reply_history");
			let (str_ids, cap, opts) = pick_config(&mut rng, &mut out);
			lines.extend(render_with(&mut rng, &mut out, caseno, str_ids, cap, &opts, &script));
		}
		for i in 0..(n - systematic_budget) {
			caseno += 1;
			if i % 5 == 4 {
				lines.extend(unmodelled_history(&mut rng, &mut out, caseno, None));
			} else if i % 10 == 3 || i % 10 == 7 {
				let script = simultaneous_history(&mut rng, &mut out);
				let (str_ids, cap, opts) = pick_config(&mut rng, &mut out);
				lines.extend(render_with(&mut rng, &mut out, caseno, str_ids, cap, &opts, &script));
			} else {
				let script = random_history(&mut rng, &mut out);
				let (str_ids, cap, opts) = pick_config(&mut rng, &mut out);
				lines.extend(render_with(&mut rng, &mut out, caseno, str_ids, cap, &opts, &script));
			}
		}
	}
	for case in split_cases(&lines) {
		if case[0].starts_with("rt ") {
			continue;
		}
		out.count("histories");
		out.count(&format!("history_len.{:02}", (case.len() - 1).min(20)));
		run_one(&mut out, &case);
	}
	if a.replay.is_none() {
		// wall-clock clause as a real-time test
		let timeout_ms = 600u64;
		let rounds = if thorough { 3 } else { 1 };
		let mut worst = 0u128;
		let mut n_ok = 0;
		for _ in 0..rounds {
			for name in RT_SCENARIOS {
				let r = rt_scenario(name, timeout_ms);
				worst = worst.max(r.worst_ms);
				if r.ok.is_ok() {
					n_ok += 1;
				}
				out.count("rt.scenarios");
				out.line(format!("rt {} {timeout_ms}", r.name), format!("#skip rt {}", if r.ok.is_ok() { "ok" } else { "late" }), r.ok, true);
			}
		}
		// the same clause on whole histories (all odd-reply / unsubscribe-write families, a sample of the rest)
		let all_cases: Vec<Vec<String>> = split_cases(&lines).into_iter().filter(|c| c[0].contains(" ctasks ")).collect();
		let want = if thorough { 900 } else { 150 };
		let special: Vec<Vec<String>> = all_cases.iter().filter(|c| c.iter().any(|l| l.contains("22726573756c74223a") && !l.contains("6d6574686f64"))).take(want / 2).cloned().collect();
		let stride = (all_cases.len() / (want - special.len()).max(1)).max(1);
		let mut picked = special;
		picked.extend(all_cases.iter().step_by(stride).take(want - picked.len()).cloned());
		let mut swept = 0;
		for chunk in picked.chunks(150) {
			let (n, r) = rt_sweep(chunk, timeout_ms);
			swept += n;
			out.count("rt.sweep_histories");
			out.line(format!("rt sweep {n} {timeout_ms}"), format!("#skip rt sweep {}", if r.is_ok() { "ok" } else { "late" }), r, true);
		}
		out.notes.push(format!(
			"wall-clock clause on whole histories (TEST): {swept} generated histories re-run concurrently in real time with request_timeout {timeout_ms} ms; after each script every front-end future had to resolve within request_timeout + 600 ms"
		));
		out.notes.push(format!(
			"wall-clock clause is a TEST, not a theorem: {} real-time scenarios (request_timeout {timeout_ms} ms, unpaused clock) — silent server, send task stuck in the transport, front channel full, receive error / garbage / send error while calls, subscribes and batches are pending, transport close that never returns; {n_ok} passed; slowest resolution {worst} ms (bound: request_timeout + 600 ms slack; failures with a cause must arrive within {} ms)",
			rounds * RT_SCENARIOS.len(),
			timeout_ms / 2
		));
		out.notes.push("histories under `ctasksx` (front channel of capacity 1), `deliverbytes` (invalid UTF-8) and `deepdeliver` (nesting beyond serde_json's recursion limit) are outside the text model: oracle only (`#skip` lines)".into());
	}
	out.write(&a.out);
	if a.replay.is_some() {
		for i in 0..out.ops.len() {
			println!("op:     {}\nimpl:   {}\noracle: {}", out.ops[i], out.impl_[i], out.oracle[i]);
		}
	}
}
