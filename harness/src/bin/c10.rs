//! C10 — graceful stop answers received calls and reports stopped only when done.
//!
//! The REAL server (`Server::start`, or the tower-service assembly with an own accept loop and
//! `serve_with_graceful_shutdown`) runs in-process on loopback TCP on a current-thread runtime.
//! Clients are raw sockets (HTTP/1.1 requests, WebSocket frames), handlers are gated by the
//! harness.  A script of ACTIONS (connect, send a call, release a handler, stop, stop again, drop
//! the handle, reset a connection, wait points) is executed; everything OBSERVABLE — handler
//! start / return / cancellation (from inside the server), answers and EOF seen by each client
//! (reader tasks), the instant `stopped()` resolves (watcher task) — is appended to ONE log in
//! the program order of the single thread, i.e. in logical order.  Because actions between two
//! wait points run without yielding, `stop` inserted after `send` lands on a call that is written
//! but not yet read, after `rel` on a handler that is about to return, after `wfin` on an answer
//! that is produced but not yet written.
//!
//! The log (actions + observations) is the list of op lines.  The Lean side
//! (Driver/ConnFamily.lean, `stopVerb`) answers for every observation whether the machine of
//! Model/Stop.lean can produce it at that point (`ok` / `impossible`): trace inclusion.  On
//! `--replay` the observation lines of the file are ignored and re-observed.
//!
//! Oracle (model-independent, evaluated on the log at `st end`):
//!   1. every call whose handler started on a connection that the harness did not reset got its
//!      answer, and its handler finished BEFORE `resolved`;
//!   2. no handler starts after `resolved`; a call written after `resolved` never starts; a
//!      connection attempt after `resolved` is refused;
//!   3. `stopped()` resolves within the bound once all handlers were released; stop twice / drop
//!      never hangs (bounded waits = TESTS) or panics.
use std::collections::{BTreeMap, BTreeSet};
use std::sync::Arc;

use jrpc_harness::common::*;
use jrpc_harness::server_env::*;
use jsonrpsee::server::ServerHandle;
use tokio::io::AsyncWriteExt;
use tokio::net::tcp::OwnedWriteHalf;
use tokio::sync::oneshot;
use tokio::task::JoinHandle;

const SUB_BASE: u64 = 5000;
/// readers of the current case start late (`opts=slowread`)
static SLOW_READER: std::sync::atomic::AtomicBool = std::sync::atomic::AtomicBool::new(false);

#[derive(Clone, Copy, PartialEq, Eq, Debug)]
enum Tr {
	Http,
	Ws,
}

struct CConn {
	tr: Tr,
	/// shared with the reader task, which answers the server's pings
	wr: Option<Arc<tokio::sync::Mutex<OwnedWriteHalf>>>,
	reader: Option<JoinHandle<()>>,
	quit: Option<oneshot::Sender<()>>,
	gone: bool,
}

struct Run {
	env: Env,
	shared: Arc<Shared>,
	handle: Option<ServerHandle>,
	conns: BTreeMap<u64, CConn>,
	call_conn: BTreeMap<u64, u64>,
	/// (log index at which the line was emitted is implicit: lines ARE the log)
	failed: Option<String>,
	/// extra `ServerHandle` clones held by "user code"
	clones: Vec<ServerHandle>,
	/// requests carry `Connection: close`
	close_hdr: bool,
	/// times the freed port could be bound again after the stop
	rebinds: u64,
}

fn log_has(shared: &Shared, entry: &str) -> bool {
	shared.log.lock().unwrap().iter().any(|l| l == entry)
}

/// an action line: `A <text>|<impl out>`; observation lines are the bare entries
fn note_action(shared: &Shared, text: String, out: &str) {
	shared.note(format!("A {text}|{out}"));
}

fn spawn_reader(
	shared: Arc<Shared>,
	c: u64,
	tr: Tr,
	mut rd: tokio::net::tcp::OwnedReadHalf,
	mut buf: Vec<u8>,
	mut quit: oneshot::Receiver<()>,
	wr: Arc<tokio::sync::Mutex<OwnedWriteHalf>>,
) -> JoinHandle<()> {
	let slow = SLOW_READER.load(std::sync::atomic::Ordering::Relaxed);
	tokio::spawn(async move {
		if slow {
			// a client that is not particularly fast: it starts reading only when the server says it is
			// done, or after 200 ms (what the server wrote before stays in the socket buffers)
			let t0 = std::time::Instant::now();
			while !log_has(&shared, "resolved") && t0.elapsed() < std::time::Duration::from_millis(200) {
				tokio::time::sleep(std::time::Duration::from_millis(2)).await;
			}
		}
		loop {
			let id = tokio::select! {
				biased;
				_ = &mut quit => return,
				r = async {
					match tr {
						Tr::Http => match read_http_response(&mut rd, &mut buf).await {
							Ok(Some(rp)) => Some(reply_ids_fast(&rp.body)),
							_ => None,
						},
						Tr::Ws => loop {
							match read_ws_frame(&mut rd, &mut buf).await {
								Ok(Some((1, p))) => break Some(reply_ids_fast(&p)),
								Ok(Some((8, _))) | Ok(None) | Err(_) => break None,
								Ok(Some((9, payload))) => {
									// a live client: every ping is answered at once
									let mut w = wr.lock().await;
									let _ = w.write_all(&ws_frame(0xA, &payload)).await;
									let _ = w.flush().await;
									continue;
								}
								Ok(Some(_)) => continue,
							}
						},
					}
				} => r,
			};
			match id {
				Some(ids) => {
					// (a batch reply answers several calls at once; notifications carry no id)
					for k in ids.into_iter().filter(|k| *k < SUB_BASE) {
						shared.note(format!("resp {k}"));
					}
				}
				None => {
					shared.note(format!("eof {c}"));
					return;
				}
			}
		}
	})
}

impl Run {
	fn conn_ended(&self, c: u64) -> bool {
		// (`resolved` alone is not the end for a client: answers may still be in its socket buffer)
		self.conns.get(&c).map(|x| x.gone).unwrap_or(true) || log_has(&self.shared, &format!("eof {c}"))
	}

	/// wait for `entry`; `Some(true)` = seen, `Some(false)` = its connection ended without it,
	/// `None` = neither within the bound
	async fn wait_entry(&self, entries: &[String], c: Option<u64>) -> Option<bool> {
		let mut res = None;
		wait_until(|| {
			if entries.iter().any(|e| log_has(&self.shared, e)) {
				res = Some(true);
				return true;
			}
			if let Some(c) = c {
				if self.conn_ended(c) {
					// observations are appended in order: re-check once the end is visible
					res = Some(entries.iter().any(|e| log_has(&self.shared, e)));
					return true;
				}
			}
			false
		})
		.await;
		res
	}

	async fn write(&mut self, c: u64, bytes: &[u8]) {
		if let Some(x) = self.conns.get_mut(&c) {
			if let Some(w) = x.wr.as_ref() {
				let mut w = w.lock().await;
				let _ = w.write_all(bytes).await;
				let _ = w.flush().await;
			}
		}
	}

	async fn close_conn(&mut self, c: u64, reset: bool) {
		if let Some(x) = self.conns.get_mut(&c) {
			if let Some(q) = x.quit.take() {
				let _ = q.send(());
			}
			if let Some(r) = x.reader.take() {
				let _ = r.await;
			}
			if let Some(w) = x.wr.take() {
				// (the reader task — the only other owner — has ended above)
				if reset {
					let _ = w.lock().await.as_ref().set_zero_linger();
				}
				drop(w);
			}
		}
	}

	async fn action(&mut self, w: &[&str]) {
		let num = |i: usize| -> u64 { w.get(i).and_then(|s| s.parse().ok()).unwrap_or(0) };
		let shared = self.shared.clone();
		match w[0] {
			"open" => {
				let c = num(1);
				let tr = if w.get(2) == Some(&"ws") { Tr::Ws } else { Tr::Http };
				let trs = if tr == Tr::Ws { "ws" } else { "http" };
				let mut ok = None;
				// once the server was told to stop, a successful TCP connect proves nothing: the freed
				// port may already belong to another process.  Then the peer must identify itself.
				let verify = log_has(&shared, "A drop|ok") || shared.log.lock().unwrap().iter().any(|l| l.starts_with("A stop "));
				// if the port can be bound again nobody listens on it: every connect would be refused by
				// the kernel (and no foreign server is bothered with a probe request)
				let port_free = verify && {
					let sock = if self.env.addr.is_ipv4() { tokio::net::TcpSocket::new_v4() } else { tokio::net::TcpSocket::new_v6() };
					match sock {
						Ok(sock) => {
							let _ = sock.set_reuseaddr(true);
							sock.bind(self.env.addr).is_ok()
						}
						Err(_) => false,
					}
				};
				if port_free {
					self.rebinds += 1;
					note_action(&shared, format!("open {c} {trs} refused"), "ok");
					return;
				}
				if let Ok(mut conn) = Conn::open(self.env.addr).await {
					if tr == Tr::Ws {
						let _ = conn.send(&upgrade_request(None, true)).await;
						let rp = tokio::time::timeout(WAIT, conn.read_response()).await.ok().and_then(|r| r.ok()).flatten();
						if rp.map(|r| r.status) == Some(101) {
							let mut ours = true;
							if verify {
								let _ = conn.ws_text(&call_json(SUB_BASE + 900, "whoami", 0)).await;
								let r = tokio::time::timeout(WAIT, conn.ws_read_text()).await.ok().and_then(|r| r.ok()).flatten();
								ours = r.and_then(|t| result_u64(t.as_bytes())) == Some(shared.nonce);
							}
							if ours {
								ok = Some(conn);
							}
						}
					} else {
						let mut ours = true;
						if verify {
							let _ = conn.send(&post_request(&call_json(SUB_BASE + 900, "whoami", 0))).await;
							let r = tokio::time::timeout(WAIT, conn.read_response()).await.ok().and_then(|r| r.ok()).flatten();
							ours = r.and_then(|rp| result_u64(&rp.body)) == Some(shared.nonce);
						}
						if ours {
							ok = Some(conn);
						}
					}
				}
				match ok {
					Some(conn) => {
						let (rd, wr) = conn.sock.into_split();
						let wr = Arc::new(tokio::sync::Mutex::new(wr));
						let (qtx, qrx) = oneshot::channel();
						let reader = spawn_reader(shared.clone(), c, tr, rd, conn.buf, qrx, wr.clone());
						self.conns.insert(c, CConn { tr, wr: Some(wr), reader: Some(reader), quit: Some(qtx), gone: false });
						note_action(&shared, format!("open {c} {trs} ok"), "ok");
					}
					None => note_action(&shared, format!("open {c} {trs} refused"), "ok"),
				}
			}
			"send" | "sub" => {
				let (c, k) = (num(1), num(2));
				// a connection the script never opened (its `open` fell behind the stop signal): not an event
				let Some(tr) = self.conns.get(&c).map(|x| x.tr) else { return };
				let kind = w.get(3).copied().unwrap_or("");
				let method = match (w[0], kind) {
					("sub", "chatty") => "subchat",
					("sub", _) => "sub",
					(_, "block") => "holdb",
					(_, "blockpanic") => "holdbp",
					(_, "big") => "holdbig",
					_ => "hold",
				};
				let body = if w[0] == "send" && kind == "batch" {
					// one message, two calls executed one after the other (ids k and k+1000)
					format!("[{},{}]", call_json(k, "hold", k), call_json(k + 1000, "hold", k + 1000))
				} else {
					call_json(k, method, k)
				};
				let bytes = if tr == Tr::Ws {
					ws_frame(1, body.as_bytes())
				} else if self.close_hdr {
					post_request_close(&body)
				} else {
					post_request(&body)
				};
				if w[0] == "send" {
					self.call_conn.insert(k, c);
					if kind == "batch" {
						self.call_conn.insert(k + 1000, c);
					}
				}
				// logged BEFORE the bytes leave: nothing the server does can precede the line
				note_action(&shared, if kind.is_empty() { format!("{} {c} {k}", w[0]) } else { format!("{} {c} {k} {kind}", w[0]) }, "ok");
				self.write(c, &bytes).await;
			}
			"junk" => {
				// a message above max_request_body_size on a WebSocket connection: refused (-32007, id null:
				// not an answer to any call, the reader logs nothing) or, while the server drains, discarded —
				// never a reason to end the connection or to cut the drain short
				let c = num(1);
				let Some(tr) = self.conns.get(&c).map(|x| x.tr) else { return };
				note_action(&shared, format!("junk {c}"), "ok");
				if tr == Tr::Ws {
					let payload = vec![b'x'; JUNK_LIMIT as usize + 1000];
					self.write(c, &ws_frame(1, &payload)).await;
				}
			}
			"wsub" => {
				let k = num(1);
				let got = self.env.wait_ev(|e| matches!(e, Ev::SubAccepted { tag } if *tag == k).then_some(()), WAIT).await;
				note_action(&shared, format!("wsub {k}"), if got.is_some() { "ok" } else { "timeout" });
			}
			"yield" => {
				// let every task that is ready run (a scheduling barrier, not a timer)
				for _ in 0..64 {
					tokio::task::yield_now().await;
				}
				note_action(&shared, "yield".into(), "ok");
			}
			"sleep" => {
				// real time has to pass (the server's ping / inactivity timers run on the wall clock)
				tokio::time::sleep(std::time::Duration::from_millis(num(1).min(8000))).await;
				note_action(&shared, format!("sleep {}", num(1)), "ok");
			}
			"rel" => {
				let k = num(1);
				note_action(&shared, format!("rel {k}"), "ok");
				shared.release(k);
			}
			"relall" => {
				note_action(&shared, "relall".into(), "ok");
				for k in self.call_conn.keys() {
					shared.release(*k);
				}
			}
			"stop" => {
				let r = match &self.handle {
					Some(h) => {
						if h.stop().is_ok() { "ok" } else { "already" }
					}
					None => "ok",
				};
				note_action(&shared, format!("stop {r}"), if self.handle.is_some() { "ok" } else { "nohandle" });
			}
			"drop" => {
				note_action(&shared, "drop".into(), "ok");
				self.handle = None;
				self.clones.clear();
			}
			"hclone" => {
				if let Some(h) = &self.handle {
					self.clones.push(h.clone());
				}
				note_action(&shared, "hclone".into(), "ok");
			}
			"hdropc" => {
				// drop one of the extra clones (oldest first / newest first alternately)
				if !self.clones.is_empty() {
					let i = if self.clones.len() % 2 == 0 { 0 } else { self.clones.len() - 1 };
					drop(self.clones.remove(i));
				}
				note_action(&shared, "hdropc".into(), "ok");
			}
			"isstopped" => {
				let h = self.handle.as_ref().or(self.clones.first());
				match h {
					Some(h) => note_action(&shared, format!("isstopped {}", h.is_stopped() as u8), "ok"),
					None => {}
				}
			}
			"popen" => {
				// a plain TCP connect while the server winds down, nothing verified: the connection may sit
				// in the listen backlog, be refused, or (if the accept loop is still there) be served
				let c = num(1);
				match Conn::open(self.env.addr).await {
					Ok(conn) => {
						let (rd, wr) = conn.sock.into_split();
						let wr = Arc::new(tokio::sync::Mutex::new(wr));
						let (qtx, qrx) = oneshot::channel();
						let reader = spawn_reader(shared.clone(), c, Tr::Http, rd, conn.buf, qrx, wr.clone());
						self.conns.insert(c, CConn { tr: Tr::Http, wr: Some(wr), reader: Some(reader), quit: Some(qtx), gone: false });
						note_action(&shared, format!("popen {c} ok"), "ok");
					}
					Err(_) => note_action(&shared, format!("popen {c} refused"), "ok"),
				}
			}
			"gone" => {
				let c = num(1);
				let half = w.get(2) == Some(&"half");
				let Some(x) = self.conns.get_mut(&c) else { return };
				x.gone = true;
				if half {
					// the client shuts down its sending side and keeps reading: for the server the peer is gone
					note_action(&shared, format!("gone {c} half"), "ok");
					if let Some(w) = x.wr.as_ref() {
						let _ = w.lock().await.shutdown().await;
					}
				} else {
					note_action(&shared, format!("gone {c}"), "ok");
					self.close_conn(c, true).await;
				}
			}
			"wstart" | "wfin" | "wresp" => {
				let k = num(1);
				let c = self.call_conn.get(&k).copied();
				let entries: Vec<String> = match w[0] {
					"wstart" => vec![format!("start {k}")],
					"wfin" => vec![format!("finish {k}"), format!("cancel {k}")],
					_ => vec![format!("resp {k}")],
				};
				// a call that never started has nothing to finish / answer: do not wait for its connection
				let never = w[0] != "wstart" && !log_has(&shared, &format!("start {k}")) && c.map(|c| self.conn_ended(c)).unwrap_or(true);
				let r = if never { Some(false) } else { self.wait_entry(&entries, Some(c.unwrap_or(u64::MAX))).await };
				match r {
					Some(b) => note_action(&shared, format!("{} {k} {}", w[0], if b { "yes" } else { "no" }), "ok"),
					None => note_action(&shared, format!("{} {k} no", w[0]), "timeout"),
				}
			}
			"weof" => {
				let c = num(1);
				let r = self.wait_entry(&[format!("eof {c}")], None).await;
				note_action(&shared, format!("weof {c} {}", if r == Some(true) { "yes" } else { "no" }), if r == Some(true) { "ok" } else { "timeout" });
			}
			"wres" => {
				let r = self.wait_entry(&["resolved".to_string()], None).await;
				note_action(&shared, format!("wres {}", if r == Some(true) { "yes" } else { "no" }), if r == Some(true) { "ok" } else { "timeout" });
			}
			_ => note_action(&shared, w.join(" "), "bad-op"),
		}
	}
}

const ACTIONS: [&str; 22] = [
	"open", "send", "sub", "wsub", "rel", "relall", "yield", "stop", "drop", "gone", "wstart", "wfin", "wresp", "weof", "wres", "end", "hclone", "hdropc",
	"isstopped", "popen", "sleep", "junk",
];

struct Header {
	assembly: Assembly,
	cap: u32,
	ping: bool,
	close_hdr: bool,
	/// the server runs on a runtime of its own that is torn down the moment `stopped()` resolves
	own_rt: bool,
	slow_read: bool,
	/// ping limits well below the length of the drain: interval 250 ms, inactive_limit 1000 ms,
	/// max_failures 2 (the client answers pings; a stall of the harness of about a second is harmless)
	ping_short: bool,
}

fn parse_header(l: &str) -> Option<Header> {
	let w: Vec<&str> = l.split(' ').collect();
	if !(w.len() == 5 || w.len() == 6) || w[0] != "case" || w[2] != "stop" {
		return None;
	}
	let opts: Vec<&str> = w.get(5).and_then(|o| o.strip_prefix("opts=")).map(|o| o.split(',').collect()).unwrap_or_default();
	Some(Header {
		cap: w[3].strip_prefix("cap=")?.parse().ok()?,
		assembly: Assembly::parse(w[4].strip_prefix("path=")?)?,
		ping: opts.contains(&"ping"),
		close_hdr: opts.contains(&"closehdr"),
		own_rt: opts.contains(&"ownrt"),
		slow_read: opts.contains(&"slowread"),
		ping_short: opts.contains(&"pingshort"),
	})
}

/// the oracle: the property itself, checked on the log
fn oracle(log: &[String], gone: &BTreeSet<u64>, call_conn: &BTreeMap<u64, u64>) -> Result<(), String> {
	let pos = |e: &str| log.iter().position(|l| l == e);
	let resolved = pos("resolved");
	let on_gone = |k: u64| call_conn.get(&k).map(|c| gone.contains(c)).unwrap_or(true);
	for (i, l) in log.iter().enumerate() {
		if let Some(k) = l.strip_prefix("start ").and_then(|s| s.parse::<u64>().ok()) {
			// (on a connection whose client went away the call task is on its own: the connection task
			// does not wait for it, so it may even start late — the statement exempts those clients)
			if let Some(r) = resolved {
				if i > r && !on_gone(k) {
					return Err(format!("handler of call {k} started after stopped() had resolved"));
				}
			}
			// written after resolution?
			let sent = log.iter().position(|x| x.starts_with("A send ") && x.split(' ').nth(3).map(|t| t.split('|').next() == Some(&k.to_string())).unwrap_or(false));
			if let (Some(r), Some(s)) = (resolved, sent) {
				if s > r {
					return Err(format!("call {k} was written after stopped() resolved and was executed"));
				}
			}
			if on_gone(k) {
				continue;
			}
			let fin = pos(&format!("finish {k}"));
			match (fin, resolved) {
				(None, Some(_)) => return Err(format!("stopped() resolved but the handler of started call {k} never finished")),
				(Some(f), Some(r)) if f > r => return Err(format!("stopped() resolved before the handler of started call {k} finished")),
				_ => {}
			}
			if resolved.is_some() && pos(&format!("resp {k}")).is_none() {
				return Err(format!("call {k} was started, its client stayed connected, stopped() resolved — but no answer reached the client"));
			}
			if let Some(c) = call_conn.get(&k) {
				if let (Some(e), None) = (pos(&format!("eof {c}")), pos(&format!("resp {k}"))) {
					let _ = e;
					return Err(format!("connection {c} was closed by the server without answering started call {k}"));
				}
			}
		}
		if l.starts_with("A ") && l.ends_with("|timeout") {
			return Err(format!("bounded wait expired (test): {}", &l[2..]));
		}
		if l.starts_with("A open ") && l.contains(" ok|") {
			if let Some(r) = resolved {
				if i > r {
					return Err("a connection was accepted after stopped() had resolved".into());
				}
			}
		}
	}
	Ok(())
}

async fn run_case(lines: &[String], out: &mut Out) -> bool {
	let Some(h) = parse_header(&lines[0]) else {
		for l in lines {
			out.line(l.clone(), "bad-op".into(), Ok(()), false);
		}
		return true;
	};
	// ping: frames flow in both phases (the writer's ping branch is live during the drain); the
	// inactivity limit is far away, so no session ends because the harness never answers pings
	let ping = if h.ping_short { Some((250u64, 1000u64)) } else { h.ping.then_some((10u64, 600_000u64)) };
	let ecfg = EnvCfg { assembly: h.assembly, max: 50, http: true, ws: true, ping, ping_failures: if h.ping_short { 2 } else { 1 }, buffer: h.cap };
	SLOW_READER.store(h.slow_read, std::sync::atomic::Ordering::Relaxed);
	// `ownrt`: what a typical `main` does — the server lives on its own runtime, `stopped().await`,
	// then everything is torn down at once.  Whatever the server still had to do is lost.
	let server_rt: Arc<std::sync::Mutex<Option<tokio::runtime::Runtime>>> = Arc::new(std::sync::Mutex::new(None));
	let mut env = if h.own_rt {
		let rt = tokio::runtime::Builder::new_multi_thread().worker_threads(2).enable_all().build().unwrap();
		let env = rt.spawn(async move { start_env(&ecfg).await }).await.expect("server start");
		*server_rt.lock().unwrap() = Some(rt);
		env
	} else {
		start_env(&ecfg).await
	};
	let shared = env.shared.clone();
	let handle = env.handle.take();
	// the script: action lines only; observation lines of a replay file are re-observed
	let script: Vec<Vec<String>> = lines[1..]
		.iter()
		.filter_map(|l| l.strip_prefix("st "))
		.map(|l| l.split(' ').map(|s| s.to_string()).collect::<Vec<_>>())
		.filter(|w| ACTIONS.contains(&w[0].as_str()))
		.collect();
	let drop_only = !script.iter().any(|w| w[0] == "stop");
	// the watcher owns a clone of the handle; in drop-only cases there must be no other clone
	let watcher = if drop_only {
		None
	} else {
		let h2 = handle.clone().unwrap();
		let sh = shared.clone();
		let rt_slot = server_rt.clone();
		Some(tokio::spawn(async move {
			h2.stopped().await;
			sh.note("resolved".into());
			if let Some(rt) = rt_slot.lock().unwrap().take() {
				rt.shutdown_background();
			}
		}))
	};
	let mut run = Run { env, shared: shared.clone(), handle, conns: BTreeMap::new(), call_conn: BTreeMap::new(), failed: None, clones: vec![], close_hdr: h.close_hdr, rebinds: 0 };
	for w in &script {
		if w[0] == "end" {
			break;
		}
		let ws: Vec<&str> = w.iter().map(|s| s.as_str()).collect();
		run.action(&ws).await;
		let timed_out = shared.log.lock().unwrap().last().map(|l| l.ends_with("|timeout")).unwrap_or(false);
		if timed_out {
			run.failed = Some("a bounded wait expired".into());
			break;
		}
	}
	// end of script: let everything go, collect what is still in flight
	for k in run.call_conn.keys() {
		shared.release(*k);
	}
	if run.failed.is_none() {
		// answers still on their way to a reader (only matters when the script did not wait)
		let pending: Vec<(u64, u64)> = run.call_conn.iter().map(|(k, c)| (*k, *c)).collect();
		for (k, c) in pending {
			if log_has(&shared, &format!("start {k}")) && !run.conns.get(&c).map(|x| x.gone).unwrap_or(true) {
				let _ = run.wait_entry(&[format!("resp {k}")], Some(c)).await;
			}
		}
	}
	let log: Vec<String> = shared.log.lock().unwrap().clone();
	let gone: BTreeSet<u64> = run.conns.iter().filter(|(_, x)| x.gone).map(|(c, _)| *c).collect();
	let orc = oracle(&log, &gone, &run.call_conn);
	// emit the lines
	let first_line = out.ops.len();
	out.line(lines[0].clone(), "case".into(), Ok(()), false);
	out.count(&format!("case.path={}", h.assembly.name()));
	out.count(if drop_only { "case.kind=drop_only" } else { "case.kind=stop" });
	out.count(&format!("case.cap={}", h.cap));
	if h.ping {
		out.count("case.opt.ping");
	}
	if h.close_hdr {
		out.count("case.opt.connection_close_header");
	}
	if h.ping_short {
		out.count("case.opt.ping_with_short_limits_and_long_drain");
	}
	if h.own_rt {
		out.count("case.opt.own_runtime_torn_down_at_resolution");
	}
	if h.slow_read {
		out.count("case.opt.slow_reader");
	}
	if run.rebinds > 0 {
		out.count("late.port_can_be_bound_again");
	}
	let stop_at = log.iter().position(|l| l.starts_with("A stop ") || l == "A drop|ok");
	let mut started_before_stop = 0;
	// distinctness is counted per observed HISTORY (assembly + the whole trace)
	let mut sig = lines[0].splitn(3, ' ').nth(2).unwrap_or("").to_string();
	for (i, l) in log.iter().enumerate() {
		if let Some(a) = l.strip_prefix("A ") {
			let (text, o) = a.rsplit_once('|').unwrap_or((a, "ok"));
			let verb = text.split(' ').next().unwrap_or("");
			out.count(&format!("act.{verb}"));
			let toks: Vec<&str> = text.split(' ').collect();
			if (verb == "send" || verb == "sub") && toks.len() == 4 {
				out.count(&format!("act.{verb}.{}", toks[3]));
			}
			if verb == "gone" && toks.len() == 3 {
				out.count("act.gone.half_close");
			}
			if verb == "isstopped" || verb == "popen" {
				out.count(&format!("act.{verb}.{}", toks[toks.len() - 1]));
			}
			if text.ends_with(" no") {
				out.count(&format!("act.{verb}.no"));
			}
			sig.push_str(text);
			sig.push(';');
			out.line(format!("st {text}"), o.to_string(), Ok(()), false);
		} else {
			let mut w = l.split(' ');
			let (verb, arg) = (w.next().unwrap_or(""), w.next().unwrap_or(""));
			let mapped = match verb {
				"finish" => format!("st ret {arg}"),
				"subclosed" => continue,
				"resolved" => "st resolved".to_string(),
				_ => format!("st {verb} {arg}"),
			};
			if verb == "start" && stop_at.map(|s| i < s).unwrap_or(true) {
				started_before_stop += 1;
			}
			if verb == "start" && stop_at.map(|s| i > s).unwrap_or(false) {
				out.count("obs.start_after_stop_signal");
			}
			out.count(&format!("obs.{verb}"));
			sig.push_str(&mapped);
			sig.push(';');
			out.line(mapped, "ok".into(), Ok(()), false);
		}
	}
	out.count(&format!("case.started_before_stop={}", started_before_stop.min(4)));
	// summary line
	let started: BTreeSet<u64> = log.iter().filter_map(|l| l.strip_prefix("start ").and_then(|s| s.parse().ok())).filter(|k| !run.call_conn.get(k).map(|c| gone.contains(c)).unwrap_or(true)).collect();
	let onwire: BTreeSet<u64> = log.iter().filter_map(|l| l.strip_prefix("resp ").and_then(|s| s.parse().ok())).filter(|k| !run.call_conn.get(k).map(|c| gone.contains(c)).unwrap_or(true)).collect();
	let join = |s: &BTreeSet<u64>| s.iter().map(|k| k.to_string()).collect::<Vec<_>>().join(",");
	let resolved = log.iter().any(|l| l == "resolved");
	// states the stop landed on (distribution)
	if let Some(s) = stop_at {
		let mut executing: BTreeMap<u64, u32> = BTreeMap::new();
		for (k, _) in run.call_conn.iter() {
			let before = |e: String| log.iter().position(|l| *l == e).map(|p| p < s).unwrap_or(false);
			let sent = log.iter().position(|l| l.starts_with(&format!("A send ")) && l.split(' ').nth(3).map(|t| t.split('|').next() == Some(&k.to_string())).unwrap_or(false)).map(|p| p < s).unwrap_or(false);
			let st = if !sent {
				"not_sent"
			} else if !before(format!("start {k}")) {
				"sent_unread"
			} else if !before(format!("finish {k}")) {
				"executing"
			} else if !before(format!("resp {k}")) {
				"answered_unreceived"
			} else {
				"answered"
			};
			out.count(&format!("stop_landed_on.{st}"));
			if st == "executing" {
				if let Some(c) = run.call_conn.get(k) {
					if run.conns.get(c).map(|x| x.tr == Tr::Ws && !x.gone).unwrap_or(false) {
						*executing.entry(*c).or_insert(0) += 1;
					}
				}
			}
		}
		// the drain has to push more answers through the writer queue than it holds
		if let Some(m) = executing.values().max() {
			if *m > h.cap {
				out.count("stop.ws_calls_executing_exceed_queue");
				if *m >= h.cap + 2 {
					out.count("stop.ws_calls_executing_exceed_queue_by_2_or_more");
				}
			}
		}
	}
	// Real-time scheduling decides one thing the property does not speak about: with pings enabled
	// the server ends a session whose client did not answer in time.  If that happened BEFORE any
	// stop / drop (the harness was stalled for longer than the inactivity limit) the history is
	// not a history of a graceful stop: inconclusive, reported as not executed.
	let inactivity_close = (h.ping_short || h.ping)
		&& run.conns.iter().any(|(c, x)| {
			!x.gone && x.tr == Tr::Ws && log.iter().position(|l| *l == format!("eof {c}")).map(|e| stop_at.map(|s| e < s).unwrap_or(true)).unwrap_or(false)
		});
	let ok = (orc.is_ok() && run.failed.is_none()) || inactivity_close;
	let orc = if inactivity_close { Ok(()) } else { orc };
	if stop_at.is_some() {
		out.nontrivial.insert(fxhash(sig.as_bytes()));
	}
	out.line("st end".into(), format!("end resolved={} started={} onwire={}", resolved as u8, join(&started), join(&onwire)), orc, false);
	// cleanup
	let cs: Vec<u64> = run.conns.keys().copied().collect();
	for c in cs {
		run.close_conn(c, true).await;
	}
	if let Some(h) = run.handle.take() {
		let _ = h.stop();
	}
	if let Some(w) = watcher {
		if tokio::time::timeout(WAIT, w).await.is_err() {
			out.count("cleanup.stopped_not_resolved");
		}
	}
	if let Some(rt) = server_rt.lock().unwrap().take() {
		rt.shutdown_background();
	}
	SLOW_READER.store(false, std::sync::atomic::Ordering::Relaxed);
	if inactivity_close {
		out.count("inconclusive.session_closed_for_inactivity_before_stop");
		for i in first_line..out.ops.len() {
			out.impl_[i] = "#skip".into();
			out.oracle[i] = "ok".into();
		}
	}
	ok
}

// ------------------------------------------------------------------------------------------------
// generator: a base history, `stop` inserted at a chosen position

struct Base {
	acts: Vec<String>,
	conns: Vec<(u64, Tr)>,
	calls: Vec<u64>,
	/// `message_buffer_capacity` the history is built for (None = any)
	cap: Option<u32>,
	/// a position at which the stop signal is always tried (quick tier samples the others)
	hot: Option<usize>,
}

/// More calls than the writer queue holds are executing on ONE WebSocket connection and finish at
/// the same instant (back-to-back `rel`s, or all of them by `relall`) — during the graceful drain
/// when the stop signal lands before the releases.  Every answer has to wait for room in the
/// queue, so the point at which a call stops counting as pending (ws.rs: the call task's service
/// clone, dropped after `sink.send`) decides whether the connection may be closed under it.
fn gen_burst_base(rng: &mut Rng) -> Base {
	let cap = *rng.pick(&[1u32, 1, 2, 3]);
	let ncalls = cap as u64 + rng.range(2, 6);
	let mut b = Base { acts: vec!["open 1 ws".into()], conns: vec![(1, Tr::Ws)], calls: vec![], cap: Some(cap), hot: None };
	let other = rng.chance(1, 3);
	if other {
		let tr = if rng.chance(1, 2) { Tr::Ws } else { Tr::Http };
		b.conns.push((2, tr));
		b.acts.push(format!("open 2 {}", if tr == Tr::Ws { "ws" } else { "http" }));
	}
	if rng.chance(1, 4) {
		b.acts.push(format!("sub 1 {}", SUB_BASE + 1));
		b.acts.push(format!("wsub {}", SUB_BASE + 1));
	}
	let mut k = 10u64;
	for _ in 0..ncalls {
		k += 1;
		b.calls.push(k);
		b.acts.push(format!("send 1 {k}"));
		if rng.chance(9, 10) {
			b.acts.push(format!("wstart {k}"));
		}
	}
	if other {
		b.calls.push(91);
		b.acts.push("send 2 91".into());
		b.acts.push("wstart 91".into());
	}
	b.hot = Some(b.acts.len());
	// how they finish: all together at `relall`, all together by back-to-back `rel`s, or in two waves
	match rng.below(3) {
		0 => {}
		1 => {
			for k in b.calls.clone() {
				b.acts.push(format!("rel {k}"));
			}
		}
		_ => {
			let half = b.calls.len() / 2;
			for k in b.calls[..half].to_vec() {
				b.acts.push(format!("rel {k}"));
			}
			b.acts.push(format!("wfin {}", b.calls[0]));
			for k in b.calls[half..].to_vec() {
				b.acts.push(format!("rel {k}"));
			}
		}
	}
	b
}

fn gen_base(rng: &mut Rng) -> Base {
	let nconn = *rng.pick(&[0u64, 1, 1, 2, 2, 2, 3, 3]);
	let mut b = Base { acts: vec![], conns: vec![], calls: vec![], cap: None, hot: None };
	for c in 1..=nconn {
		let tr = if rng.chance(1, 2) { Tr::Ws } else { Tr::Http };
		b.conns.push((c, tr));
		b.acts.push(format!("open {c} {}", if tr == Tr::Ws { "ws" } else { "http" }));
	}
	// per connection a small program; programs are interleaved at random
	let mut progs: Vec<Vec<String>> = vec![];
	let mut k = 10u64;
	for &(c, tr) in &b.conns {
		let mut p = vec![];
		if tr == Tr::Ws && rng.chance(1, 3) {
			let s = SUB_BASE + c;
			// quiet (one notification, then idle) or chatty (notifications keep competing with the
			// answers for room in the writer queue until the connection goes)
			p.push(if rng.chance(1, 3) { format!("sub {c} {s} chatty") } else { format!("sub {c} {s}") });
			p.push(format!("wsub {s}"));
		}
		let ncalls = rng.below(3);
		for _ in 0..ncalls {
			k += 1;
			b.calls.push(k);
			// async handler / blocking handler / blocking handler that panics after its release /
			// one message with two calls executed one after the other
			let kind = *rng.pick(&["", "", "", "", "", "", "block", "block", "blockpanic", "batch", "batch"]);
			p.push(if kind.is_empty() { format!("send {c} {k}") } else { format!("send {c} {k} {kind}") });
			if kind == "batch" {
				b.calls.push(k + 1000);
			}
			if rng.chance(4, 5) {
				p.push(format!("wstart {k}"));
			}
			if rng.chance(2, 3) {
				p.push(format!("rel {k}"));
				if rng.chance(2, 3) {
					p.push(format!("wfin {k}"));
				}
				if kind == "batch" {
					// the reply of a batch leaves when its LAST call is done
					if rng.chance(1, 2) {
						p.push(format!("wstart {}", k + 1000));
					}
					p.push(format!("rel {}", k + 1000));
				}
				if rng.chance(1, 2) {
					p.push(format!("wresp {k}"));
				}
			} else if tr == Tr::Http {
				// stays executing until `relall`: HTTP/1.1 reads nothing more on this connection
				break;
			}
		}
		if rng.chance(1, 8) {
			p.push(if rng.chance(1, 3) { format!("gone {c} half") } else { format!("gone {c}") });
		}
		// user code holding extra handle clones and asking `is_stopped()`
		if rng.chance(1, 6) {
			p.insert(rng.below(p.len() as u64 + 1) as usize, (*rng.pick(&["hclone", "hclone", "hdropc", "isstopped"])).to_string());
		}
		progs.push(p);
	}
	// interleave
	let mut idx = vec![0usize; progs.len()];
	loop {
		let live: Vec<usize> = (0..progs.len()).filter(|&i| idx[i] < progs[i].len()).collect();
		if live.is_empty() {
			break;
		}
		let i = *rng.pick(&live);
		b.acts.push(progs[i][idx[i]].clone());
		idx[i] += 1;
	}
	b
}

/// HTTP connections must not get a second request while one is unanswered (no pipelining in the
/// generated histories): after inserting `stop` this still holds because the base respects it.
fn gen_case(rng: &mut Rng, n: u64, base: &Base, stop_pos: usize, kind: u64) -> Vec<String> {
	let asm = *rng.pick(&[Assembly::Server, Assembly::Server, Assembly::Server, Assembly::Tower, Assembly::Tower, Assembly::LowLevel]);
	let cap = base.cap.unwrap_or_else(|| *rng.pick(&[1u32, 2, 3, 16]));
	let opts = match rng.below(6) {
		0 => "ping",
		1 => "closehdr",
		2 if rng.chance(1, 2) => "ping,closehdr",
		_ => "-",
	};
	let mut l = vec![format!("case {n} stop cap={cap} path={} opts={opts}", asm.name())];
	let mut extra_calls: Vec<u64> = vec![];
	let mut acts: Vec<String> = base.acts.clone();
	let pos = stop_pos.min(acts.len());
	let drop_only = kind == 0;
	// wait points after the stop signal are removed: a call written then may never be read while its
	// connection is kept alive by a handler that the script releases only later.  `yield` lets the
	// server take its next steps without a wall-clock wait.
	let mut tail: Vec<String> = acts.split_off(pos).into_iter().filter(|a| !a.starts_with('w')).collect();
	acts.push(if drop_only { "drop".into() } else { "stop".into() });
	if rng.chance(1, 2) {
		acts.push("yield".into());
	}
	let mut i = 0;
	while i < tail.len() {
		if rng.chance(1, 4) {
			tail.insert(i, "yield".into());
			i += 1;
		}
		i += 1;
	}
	// what peers and user code may do while the server winds down
	if !drop_only && rng.chance(1, 4) {
		let at = rng.below(tail.len() as u64 + 1) as usize;
		tail.insert(at, "send 7 77".into());
		tail.insert(at, "popen 7".into());
		extra_calls.push(77);
	}
	if !drop_only && rng.chance(1, 4) {
		let at = rng.below(tail.len() as u64 + 1) as usize;
		tail.insert(at, (*rng.pick(&["isstopped", "hclone", "hdropc"])).to_string());
	}
	acts.extend(tail);
	// no connection is opened between the stop signal and resolution (see module doc)
	let mut seen_stop = false;
	acts.retain(|a| {
		if a == "stop" || a == "drop" {
			seen_stop = true;
			return true;
		}
		!(seen_stop && a.starts_with("open "))
	});
	for a in &acts {
		l.push(format!("st {a}"));
	}
	if !drop_only && kind == 2 {
		l.push("st stop".into());
	}
	l.push("st relall".into());
	for k in base.calls.iter().chain(extra_calls.iter()) {
		if rng.chance(1, 2) {
			l.push(format!("st wfin {k}"));
		}
		l.push(format!("st wresp {k}"));
	}
	if drop_only {
		let opened: Vec<u64> = acts.iter().filter_map(|a| a.strip_prefix("open ").map(|r| r.split(' ').next().unwrap().parse().unwrap())).collect();
		for (c, _) in base.conns.iter().filter(|(c, _)| opened.contains(c)) {
			if !acts.iter().any(|a| *a == format!("gone {c}") || *a == format!("gone {c} half")) {
				l.push(format!("st weof {c}"));
			}
		}
	} else {
		if kind == 3 {
			l.push("st drop".into());
		}
		l.push("st wres".into());
		if rng.chance(1, 2) {
			l.push("st isstopped".into());
			l.push("st hdropc".into());
		}
		if kind != 3 {
			l.push("st stop".into());
		}
		// after resolution: a late call on an old connection, a late connection attempt
		if let Some((c, _)) = base.conns.first() {
			if acts.iter().any(|a| a.starts_with(&format!("open {c} "))) && !acts.iter().any(|a| *a == format!("gone {c}") || *a == format!("gone {c} half")) {
				l.push(format!("st send {c} 900"));
				l.push("st yield".into());
				l.push("st wstart 900".into());
			}
		}
		l.push(format!("st open 99 {}", if rng.chance(1, 2) { "ws" } else { "http" }));
	}
	l.push("st end".into());
	l
}

/// `main`-style shutdown with answers that take the send task a while: the server runs on its own
/// runtime which is torn down the moment `stopped()` resolves; several 4 MB answers (more than the
/// socket buffers hold) are in flight on one WebSocket connection when stop lands; the client may be
/// slow to read.  Everything handed to the transport before resolution survives the teardown,
/// nothing else does — so every answer must have been WRITTEN by then.
fn gen_big_case(rng: &mut Rng, n: u64) -> Vec<String> {
	let asm = *rng.pick(&[Assembly::Server, Assembly::Server, Assembly::Tower, Assembly::LowLevel]);
	// a roomy queue: all answers are queued at once, so at the end of the drain the send task still
	// has most of them to WRITE (with a tiny queue the call tasks themselves hold the drain back)
	let cap = *rng.pick(&[16u32, 16, 8, 2]);
	let slow = rng.chance(3, 4);
	let mut l = vec![format!("case {n} stop cap={cap} path={} opts=ownrt{}", asm.name(), if slow { ",slowread" } else { "" })];
	let ncalls = rng.range(5, 7);
	l.push("st open 1 ws".into());
	let http = rng.chance(1, 2);
	if http {
		l.push("st open 2 http".into());
	}
	let calls: Vec<u64> = (11..11 + ncalls).collect();
	for k in &calls {
		l.push(format!("st send 1 {k} big"));
		l.push(format!("st wstart {k}"));
	}
	if http {
		l.push("st send 2 91 big".into());
		l.push("st wstart 91".into());
	}
	let early = rng.chance(1, 3);
	if early {
		// some finish before the stop signal
		l.push(format!("st rel {}", calls[0]));
		l.push(format!("st wfin {}", calls[0]));
	}
	l.push("st stop".into());
	if rng.chance(1, 2) {
		l.push("st yield".into());
	}
	l.push("st relall".into());
	for k in &calls {
		l.push(format!("st wresp {k}"));
	}
	if http {
		l.push("st wresp 91".into());
	}
	l.push("st wres".into());
	l.push("st end".into());
	l
}

/// Pings enabled with limits far below the length of the drain (interval 250 ms, inactive_limit
/// 1000 ms, max_failures 2), a live client that answers every ping, and a drain that lasts several
/// multiples of inactive_limit x max_failures: the calls executing at the stop are released only
/// 5-5.5 s after it.  No timer of the ping machinery may cut the drain short — the client is there
/// and waits.  (Margins are wide on purpose: only a stall of the harness of more than a second could
/// let the server drop the session before the stop, and that is reported as inconclusive.)
fn gen_ping_drain_case(rng: &mut Rng, n: u64, pre_idle: bool) -> Vec<String> {
	let asm = *rng.pick(&[Assembly::Server, Assembly::Tower, Assembly::LowLevel]);
	let mut l = vec![format!("case {n} stop cap={} path={} opts=pingshort", rng.pick(&[1u32, 2, 16]), asm.name())];
	l.push("st open 1 ws".into());
	let two = rng.chance(1, 2);
	if two {
		l.push(format!("st open 2 {}", if rng.chance(1, 2) { "ws" } else { "http" }));
	}
	if rng.chance(1, 3) {
		l.push("st sub 1 5001".into());
		l.push("st wsub 5001".into());
	}
	let ncalls = rng.range(1, 3);
	let calls: Vec<u64> = (11..11 + ncalls).collect();
	for k in &calls {
		l.push(if rng.chance(1, 4) { format!("st send 1 {k} block") } else { format!("st send 1 {k}") });
		l.push(format!("st wstart {k}"));
	}
	if two {
		l.push("st send 2 91".into());
		l.push("st wstart 91".into());
	}
	if pre_idle && rng.chance(1, 2) {
		// alive and idle for a moment before the stop (at most two ping intervals)
		l.push(format!("st sleep {}", rng.range(300, 500)));
	}
	l.push("st stop".into());
	l.push(format!("st sleep {}", rng.range(5000, 5500)));
	l.push("st isstopped".into());
	l.push("st relall".into());
	for k in &calls {
		l.push(format!("st wresp {k}"));
	}
	if two {
		l.push("st wresp 91".into());
	}
	l.push("st wres".into());
	l.push("st end".into());
	l
}

/// An oversized message at every place around the stop (deterministic): before it (the connection keeps
/// serving, the call sent afterwards is executed and answered), while the server drains (it is discarded; the
/// calls whose handlers had started are still answered), twice, next to an ordinary call sent after the stop.
fn junk_cases(n0: u64) -> Vec<Vec<String>> {
	let mut cases = vec![];
	let mut n = n0;
	for asm in [Assembly::Server, Assembly::Tower, Assembly::LowLevel] {
		for variant in 0..6u32 {
			let mut l = vec![format!("case {n} stop cap=2 path={} opts=ownrt", asm.name())];
			n += 1;
			l.push("st open 1 ws".into());
			if variant == 5 {
				l.push("st open 2 http".into());
				l.push("st send 2 91".into());
				l.push("st wstart 91".into());
			}
			if variant == 0 || variant == 4 {
				l.push("st junk 1".into());
			}
			l.push("st send 1 11".into());
			l.push("st wstart 11".into());
			if variant == 4 {
				l.push("st junk 1".into());
				l.push("st send 1 12".into());
				l.push("st wstart 12".into());
			}
			l.push("st stop".into());
			if variant >= 1 {
				l.push("st junk 1".into());
			}
			if variant == 2 {
				l.push("st yield".into());
				l.push("st junk 1".into());
			}
			if variant == 3 {
				l.push("st send 1 13".into());
			}
			l.push("st yield".into());
			l.push("st sleep 50".into());
			l.push("st relall".into());
			l.push("st wresp 11".into());
			if variant == 4 {
				l.push("st wresp 12".into());
			}
			if variant == 5 {
				l.push("st wresp 91".into());
			}
			l.push("st wres".into());
			l.push("st end".into());
			cases.push(l);
		}
	}
	cases
}

fn split_cases(lines: Vec<String>) -> Vec<Vec<String>> {
	let mut cases: Vec<Vec<String>> = vec![];
	for l in lines {
		if l.starts_with("case ") || cases.is_empty() {
			cases.push(vec![l]);
		} else {
			cases.last_mut().unwrap().push(l);
		}
	}
	cases
}

fn main() {
	// the `holdbp` handler panics on purpose (on a blocking-pool thread): keep stderr readable
	let default_hook = std::panic::take_hook();
	std::panic::set_hook(Box::new(move |info| {
		let msg = info.payload().downcast_ref::<String>().cloned().unwrap_or_default();
		if !msg.contains("panics on purpose") {
			default_hook(info);
		}
	}));
	let a = args();
	let mut out = Out::new();
	let thorough = a.tier == "thorough";
	let mut cases: Vec<Vec<String>> = vec![];
	if let Some(r) = &a.replay {
		cases = split_cases(read_case_lines(r));
	} else {
		cases.extend(split_cases(corpus_lines("C10")));
		cases.extend(junk_cases(500));
		let mut rng = Rng::new(a.seed);
		let total = a.cases.unwrap_or(if thorough { 15000 } else { 1000 });
		let mut n = 1000u64;
		let mut nbase = 0u64;
		for _ in 0..(if thorough { 40 } else { 6 }) {
			cases.push(gen_big_case(&mut rng, n));
			n += 1;
		}
		for _ in 0..(if thorough { 12 } else { 3 }) {
			cases.push(gen_ping_drain_case(&mut rng, n, thorough));
			n += 1;
		}
		while (cases.len() as u64) < total {
			// one base history, `stop` at EVERY position of it (thorough) / at a few positions (quick)
			nbase += 1;
			let base = if nbase % 4 == 0 { gen_burst_base(&mut rng) } else { gen_base(&mut rng) };
			let positions: Vec<usize> = if thorough || base.acts.len() <= 4 {
				(0..=base.acts.len()).collect()
			} else {
				let mut p: Vec<usize> = (0..4).map(|_| rng.below(base.acts.len() as u64 + 1) as usize).collect();
				p.extend(base.hot);
				p.sort();
				p.dedup();
				p
			};
			for pos in positions {
				// kinds: 0 = drop the only handle instead of stop, 1 = stop, 2 = stop twice in a row,
				// 3 = stop, then drop the handle while a clone awaits stopped()
				let kind = *rng.pick(&[0u64, 1, 1, 1, 1, 2, 3]);
				cases.push(gen_case(&mut rng, n, &base, pos, kind));
				n += 1;
			}
		}
	}
	let rt = runtime();
	rt.block_on(async {
		let mut failing = 0;
		// the long-drain cases mostly sleep: they run side by side (own server, own port, own log each)
		let (slow_cases, fast_cases): (Vec<_>, Vec<_>) = cases.iter().partition(|c| c[0].contains("opts=pingshort"));
		let slow = async {
			let outs = futures_util::future::join_all(slow_cases.iter().map(|c| async move {
				let mut o = Out::new();
				let ok = run_case(c, &mut o).await;
				(o, ok)
			}))
			.await;
			outs
		};
		let fast = async {
			let mut o = Out::new();
			std::mem::swap(&mut o, &mut out);
			for c in &fast_cases {
				if !run_case(c, &mut o).await {
					failing += 1;
					if failing >= 5 {
						o.notes.push("stopped after 5 failing cases".into());
						break;
					}
				}
			}
			o
		};
		let (slow_outs, fast_out) = tokio::join!(slow, fast);
		out = fast_out;
		for (o, _ok) in slow_outs {
			out.ops.extend(o.ops);
			out.impl_.extend(o.impl_);
			out.oracle.extend(o.oracle);
			for (k, v) in o.dist {
				*out.dist.entry(k).or_insert(0) += v;
			}
			out.nontrivial.extend(o.nontrivial);
		}
	});
	out.notes.push(
		"logical order = program order of one current-thread runtime; waits are 'until the observable or 5 s'; that stopped() resolves / connections reach EOF within the bound after all handlers were released is a wall-clock TEST"
			.into(),
	);
	out.notes.push(format!("histories run: {}", cases.len()));
	out.write(&a.out);
	if a.replay.is_some() {
		for i in 0..out.ops.len() {
			println!("op:     {}\nimpl:   {}\noracle: {}", out.ops[i], out.impl_[i], out.oracle[i]);
		}
	}
}
