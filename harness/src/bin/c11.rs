//! C11 — connections never exceed max_connections and slots are reused.
//!
//! Drives the REAL server (`Server::start`, or the tower-service assembly with an own accept loop
//! and `serve_with_graceful_shutdown`) on loopback TCP with raw HTTP/1.1 requests and raw
//! WebSocket handshakes/frames.  The harness decides when a request is in flight (gated `hold`
//! handler), when an upgrade completes or fails (middleware holding the 101 answer), and how a
//! session ends (close frame, RST idle / mid-call, protocol error, ping inactivity, server stop).
//!
//! Line protocol (model side: lean/JrpcVerif/Driver/ConnFamily.lean):
//!   case <n> conn max=<m> http=<0|1> ws=<0|1> obs=<0|1> path=<server|tower|towerset|towermw|towerclone>
//!     (server_env::Assembly: where the limit is configured and which builder setters run after it)
//!   cg harrive <c> <new|reuse|close|batch> | cg hdone <c> | cg habort <c> <fin|rst> | cg idle <c>
//!     (new/reuse: fresh / kept-alive TCP connection; close: `Connection: close`; batch: one request
//!      with two calls; idle: a client that connects and sends nothing)
//!   cg wstart <c> <0|1> | cg wdone <c> | cg wfail <c> <drop|reset>
//!   cg wclose <c> <close|closecall|halfcall|reset|resetcall|proto|ping|pingcall|stop> | cg end
//!     (…call = one gated call is executing on the session while it ends: the slot must be freed
//!      although the handler still runs; ping/pingcall = the peer goes silent and the server closes
//!      the session for inactivity; halfcall = the peer shuts down its sending side)
//!
//! Oracle (independent of the Lean model; `live` = the sessions the harness itself has open):
//!   * an attempt is answered 429  <=>  `live == max` at arrival; no handler/upgrade ran for it
//!   * never more than `max` sessions are admitted; `available_connections()` read INSIDE the
//!     handler (request extension) equals `max - live`
//!   * after every exit and at the end of the script `available_connections() == max - live`
//!     (so `== max` once everything finished); `stopped()` resolves (bounded wait = test).
use std::collections::BTreeMap;

use jrpc_harness::common::*;
use jrpc_harness::server_env::*;

#[derive(Clone, Copy, PartialEq, Eq, Debug)]
enum Kind {
	Http,
	Upgrading,
	Ws,
}

struct Run {
	env: Env,
	max: usize,
	live: BTreeMap<u64, (Kind, Conn)>,
	idle: Vec<Conn>,
	stop_issued: bool,
	/// requests sent with `Connection: close`
	closing: std::collections::BTreeSet<u64>,
}

type Res = (String, Result<(), String>);

fn a_repr(a: Option<usize>) -> String {
	match a {
		Some(a) => format!("a={a}"),
		None => "a=-".into(),
	}
}

fn check(cond: bool, msg: impl FnOnce() -> String) -> Result<(), String> {
	if cond { Ok(()) } else { Err(msg()) }
}

impl Run {
	fn expected_avail(&self) -> usize {
		self.max.saturating_sub(self.live.len())
	}

	/// `avail` read after the fact must be `max - live` (when the guard is observable at all)
	fn avail_ok(&self, a: Option<usize>, what: &str) -> Result<(), String> {
		match a {
			Some(a) if a + self.live.len() != self.max => Err(format!(
				"{what}: available_connections()={a} but the harness has {} of max {} sessions open (slot leaked or over-released)",
				self.live.len(),
				self.max
			)),
			_ => Ok(()),
		}
	}

	async fn bootstrap(&mut self, http: bool) {
		if self.max == 0 {
			return;
		}
		if http {
			if let Ok(mut c) = Conn::open(self.env.addr).await {
				let _ = c.send(&post_request(&call_json(0, "guard", 0))).await;
				let _ = tokio::time::timeout(WAIT, c.read_response()).await;
				self.idle.push(c);
			}
		} else if let Ok(mut c) = Conn::open(self.env.addr).await {
			let _ = c.send(&upgrade_request(None, true)).await;
			let _ = tokio::time::timeout(WAIT, c.read_response()).await;
			let _ = c.ws_text(&call_json(0, "guard", 0)).await;
			let _ = tokio::time::timeout(WAIT, c.ws_read_text()).await;
			let _ = c.ws_close().await;
			c.ws_wait_end().await;
		}
		self.env.wait_ev(|e| matches!(e, Ev::Guard(_)).then_some(()), WAIT).await;
		self.env.wait_avail(self.max).await;
	}

	/// outcome of an arrival, decided by what comes first: the in-server event or an HTTP answer
	async fn arrival(&mut self, tag: u64, kind: Kind, mut conn: Conn) -> Res {
		let before = self.live.len();
		enum Got {
			Started(Option<usize>),
			Held,
			Resp(Option<HttpResp>),
			Timeout,
		}
		let got = {
			let env = &mut self.env;
			let ev = env.wait_ev(
				|e| match e {
					Ev::Started { tag: t, avail } if *t == tag && kind == Kind::Http => Some(Got::Started(*avail)),
					Ev::Held { tag: t } if *t == tag && kind == Kind::Upgrading => Some(Got::Held),
					_ => None,
				},
				WAIT,
			);
			tokio::select! {
				biased;
				g = ev => g.unwrap_or(Got::Timeout),
				r = conn.read_response() => Got::Resp(r.ok().flatten()),
			}
		};
		let full = before >= self.max;
		match got {
			Got::Started(avail) => {
				self.live.insert(tag, (Kind::Http, conn));
				let orc = check(!full, || format!("request {tag} admitted although {before} of max {} sessions were being served", self.max))
					.and(self.avail_ok(avail, "inside the handler"));
				(format!("started {}", a_repr(avail)), orc)
			}
			Got::Held => {
				let a = self.env.avail();
				self.live.insert(tag, (Kind::Upgrading, conn));
				let orc = check(!full, || format!("upgrade {tag} admitted although {before} of max {} sessions were being served", self.max))
					.and(self.avail_ok(a, "while the upgrade is pending"));
				(format!("started {}", a_repr(a)), orc)
			}
			Got::Resp(Some(rp)) => {
				let a = self.env.avail();
				if !self.closing.remove(&tag) {
					// (after `Connection: close` the server ends the connection: not reusable)
					self.idle.push(conn);
				}
				let nothing_ran = {
					let mut ran = false;
					self.env.drain_ev(|e| match e {
						Ev::Started { tag: t, .. } | Ev::Held { tag: t } if *t == tag => {
							ran = true;
							true
						}
						_ => false,
					});
					!ran
				};
				let label = match (rp.status, kind) {
					(429, _) => "refused",
					(403, _) => "denied",
					(200, Kind::Upgrading) if String::from_utf8_lossy(&rp.body).to_lowercase().contains("upgrade") => "rejected",
					_ => "unexpected",
				};
				let orc = match label {
					"refused" => check(full, || {
						format!("attempt {tag} answered 429 although only {before} of max {} sessions were being served", self.max)
					}),
					"unexpected" => Err(format!("attempt {tag}: unexpected answer status={} body={:?}", rp.status, String::from_utf8_lossy(&rp.body))),
					_ => check(!full, || format!("attempt {tag} answered {} although the server was full (expected 429)", rp.status)),
				}
				.and(check(nothing_ran, || format!("attempt {tag} was answered {} but a handler/upgrade ran for it", rp.status)))
				.and(self.avail_ok(a, "after the answer"));
				(if label == "unexpected" { format!("unexpected status={}", rp.status) } else { format!("{label} {}", a_repr(a)) }, orc)
			}
			Got::Resp(None) => ("closed".into(), Err(format!("attempt {tag}: connection closed without an answer"))),
			Got::Timeout => ("timeout".into(), Err(format!("attempt {tag}: neither a handler start nor an answer within {WAIT:?}"))),
		}
	}

	async fn open_conn(&mut self, reuse: bool) -> Option<Conn> {
		if reuse {
			if let Some(c) = self.idle.pop() {
				return Some(c);
			}
		}
		Conn::open(self.env.addr).await.ok()
	}

	async fn released(&mut self, what: &str, extra: Result<(), String>) -> Res {
		let a = self.env.wait_avail(self.expected_avail()).await;
		let orc = match (extra, self.avail_ok(a, what)) {
			(Err(e1), Err(e2)) => Err(format!("{e2}; {e1}")),
			(e1, e2) => e1.and(e2),
		};
		(format!("released {}", a_repr(a)), orc)
	}

	/// Let every gated handler / held answer go, reset every client socket, stop the server and
	/// wait (bounded) for `stopped()`.
	async fn cleanup(&mut self) -> bool {
		let tags: Vec<u64> = self.live.keys().copied().collect();
		for t in tags {
			self.env.shared.release(t);
			self.env.shared.release(1000 + t);
			self.env.shared.hold_release(t, true);
			if let Some((_, c)) = self.live.remove(&t) {
				c.reset();
			}
		}
		for c in self.idle.drain(..) {
			c.reset();
		}
		self.env.shutdown().await
	}

	async fn op(&mut self, w: &[&str], out: &mut Out) -> Res {
		let tag: u64 = w.get(2).and_then(|s| s.parse().ok()).unwrap_or(0);
		match (w[1], w.len()) {
			("harrive", 4) => {
				if self.live.contains_key(&tag) {
					return ("noop".into(), Ok(()));
				}
				let reuse = w[3] == "reuse";
				let json = if w[3] == "batch" {
					// one request, two calls: still ONE slot
					format!("[{},{}]", call_json(tag, "hold", tag), call_json(tag + 500_000, "avail", 0))
				} else {
					call_json(tag, "hold", tag)
				};
				let body = if w[3] == "close" { post_request_close(&json) } else { post_request(&json) };
				if w[3] == "close" {
					self.closing.insert(tag);
				}
				let mut conn = match self.open_conn(reuse).await {
					Some(c) => c,
					None => return ("connect-failed".into(), Err("cannot connect to the server".into())),
				};
				if conn.send(&body).await.is_err() {
					// a pooled keep-alive connection the server has closed meanwhile: use a fresh one
					out.count("http.reuse_dead");
					conn = match Conn::open(self.env.addr).await {
						Ok(c) => c,
						Err(_) => return ("connect-failed".into(), Err("cannot connect to the server".into())),
					};
					let _ = conn.send(&body).await;
				}
				self.arrival(tag, Kind::Http, conn).await
			}
			("idle", 3) => {
				// a client that connects and sends nothing: it is not being served, it holds no slot
				match Conn::open(self.env.addr).await {
					Ok(c) => self.idle.push(c),
					Err(_) => return ("connect-failed".into(), Err("cannot connect to the server".into())),
				}
				// give the server the chance to (wrongly) account for it
				for _ in 0..20 {
					tokio::task::yield_now().await;
				}
				let a = self.env.avail();
				(format!("idle {}", a_repr(a)), self.avail_ok(a, "with an idle TCP connection"))
			}
			("hdone", 3) => {
				let Some((Kind::Http, _)) = self.live.get(&tag) else { return ("noop".into(), Ok(())) };
				let (_, mut conn) = self.live.remove(&tag).unwrap();
				self.env.shared.release(tag);
				let rp = tokio::time::timeout(WAIT, conn.read_response()).await.ok().and_then(|r| r.ok()).flatten();
				let fin = self.env.wait_ev(|e| matches!(e, Ev::Finished { tag: t } if *t == tag).then_some(()), WAIT).await;
				let ok = match &rp {
					Some(rp) if rp.status == 200 && result_of(&rp.body, tag) == Some(tag) => Ok(()),
					other => Err(format!("request {tag}: handler released but the answer was {other:?}")),
				}
				.and(check(fin.is_some(), || format!("request {tag}: handler did not finish")));
				// the permit is dropped before the response is yielded (server.rs:1141): no wait needed,
				// but reading is still done with the bounded wait so that only the VALUE is judged
				if self.closing.remove(&tag) {
					// `Connection: close`: the server ends the connection after the answer
					let eof = tokio::time::timeout(WAIT, conn.read_response()).await;
					if !matches!(eof, Ok(Ok(None)) | Ok(Err(_))) {
						return ("notclosed".into(), Err(format!("request {tag}: `Connection: close` but the server kept the connection open")));
					}
				} else {
					self.idle.push(conn);
				}
				self.released("after the response", ok).await
			}
			("habort", 4) => {
				let Some((Kind::Http, _)) = self.live.get(&tag) else { return ("noop".into(), Ok(())) };
				let (_, conn) = self.live.remove(&tag).unwrap();
				if w[3] == "rst" { conn.reset() } else { drop(conn) }
				let c = self.env.wait_ev(|e| matches!(e, Ev::Cancelled { tag: t } if *t == tag).then_some(()), WAIT).await;
				let ok = check(c.is_some(), || format!("request {tag}: peer went away mid-call but the request future was not dropped within {WAIT:?}"));
				if c.is_none() {
					self.env.shared.release(tag);
				}
				self.released("after the peer reset mid-call", ok).await
			}
			("wstart", 4) => {
				if self.live.contains_key(&tag) {
					return ("noop".into(), Ok(()));
				}
				let valid = w[3] == "1";
				let mut conn = match Conn::open(self.env.addr).await {
					Ok(c) => c,
					Err(_) => return ("connect-failed".into(), Err("cannot connect to the server".into())),
				};
				let _ = conn.send(&if valid { upgrade_request(Some(tag), true) } else { bad_upgrade_request(Some(tag), tag) }).await;
				self.arrival(tag, Kind::Upgrading, conn).await
			}
			("wdone", 3) => {
				let Some((Kind::Upgrading, _)) = self.live.get(&tag) else { return ("noop".into(), Ok(())) };
				self.env.shared.hold_release(tag, true);
				let (_, conn) = self.live.get_mut(&tag).unwrap();
				let rp = tokio::time::timeout(WAIT, conn.read_response()).await.ok().and_then(|r| r.ok()).flatten();
				if rp.as_ref().map(|r| r.status) != Some(101) {
					return ("no-upgrade".into(), Err(format!("upgrade {tag}: expected 101, got {rp:?}")));
				}
				let _ = conn.ws_text(&call_json(tag, "avail", 0)).await;
				let reply = tokio::time::timeout(WAIT, conn.ws_read_text()).await.ok().and_then(|r| r.ok()).flatten();
				let a = reply.as_ref().and_then(|t| result_u64(t.as_bytes())).map(|a| a as usize);
				self.live.get_mut(&tag).unwrap().0 = Kind::Ws;
				let orc = check(a.is_some(), || format!("session {tag}: no answer to a call after the upgrade: {reply:?}"))
					.and(self.avail_ok(a, "inside a handler of the WebSocket session"));
				(format!("upgraded {}", a_repr(a)), orc)
			}
			("wfail", 4) => {
				let Some((Kind::Upgrading, _)) = self.live.get(&tag) else { return ("noop".into(), Ok(())) };
				let (_, mut conn) = self.live.remove(&tag).unwrap();
				if w[3] == "reset" {
					conn.reset();
					// if hyper has not dropped the held future yet, let it go now
					let shared = self.env.shared.clone();
					let r = self.released("after the upgrade was aborted by the peer", Ok(())).await;
					shared.hold_release(tag, true);
					r
				} else {
					self.env.shared.hold_release(tag, false);
					let ended = tokio::time::timeout(WAIT, conn.read_response()).await;
					let ok = match ended {
						Ok(Ok(Some(rp))) if rp.status == 101 => Err(format!("upgrade {tag}: the dropped 101 answer reached the client")),
						Err(_) => Err(format!("upgrade {tag}: connection neither answered nor closed")),
						_ => Ok(()),
					};
					self.released("after the upgrade failed", ok).await
				}
			}
			("wclose", 4) => {
				let Some((Kind::Ws, _)) = self.live.get(&tag) else { return ("noop".into(), Ok(())) };
				let how = w[3];
				let call_tag = 1000 + tag;
				let mut pre = Ok(());
				let with_call = matches!(how, "resetcall" | "closecall" | "pingcall" | "halfcall");
				if with_call {
					// a call is executing on the session while it ends; the session is still counted
					let (_, conn) = self.live.get_mut(&tag).unwrap();
					let _ = conn.ws_text(&call_json(call_tag, "hold", call_tag)).await;
					let st = self
						.env
						.wait_ev(|e| if let Ev::Started { tag: t, avail } = e { (*t == call_tag).then_some(*avail) } else { None }, WAIT)
						.await;
					pre = match st {
						Some(a) => self.avail_ok(a, "inside the handler of the call running on the session"),
						None => Err(format!("session {tag}: the call did not start")),
					};
				}
				let (_, mut conn) = self.live.remove(&tag).unwrap();
				let mut ended = true;
				match how {
					"close" | "closecall" => {
						let _ = conn.ws_close().await;
						ended = conn.ws_wait_end().await;
					}
					"reset" | "resetcall" => conn.reset(),
					"proto" => {
						// reserved bits + reserved opcode, unmasked: a protocol error for soketto
						let _ = conn.send(&[0xff, 0xff, 0xff, 0xff, 0xff, 0xff, 0xff, 0xff, 0xff, 0xff]).await;
						ended = conn.ws_wait_end().await;
					}
					// silent peer: pings are never answered (nothing reads this socket until the wait below,
					// which only consumes); the server ends the session for inactivity
					"ping" | "pingcall" => ended = conn.ws_wait_end().await,
					"halfcall" => {
						use tokio::io::AsyncWriteExt;
						let _ = conn.sock.shutdown().await;
						ended = conn.ws_wait_end().await;
					}
					"stop" => {
						if !self.stop_issued {
							self.stop_issued = true;
							if let Some(h) = &self.env.handle {
								let _ = h.stop();
							}
						}
						ended = conn.ws_wait_end().await;
					}
					_ => return ("bad-op".into(), Ok(())),
				}
				let ok = pre.and(check(ended, || format!("session {tag}: the server side did not end the connection ({how})")));
				let r = self.released("after the WebSocket session ended", ok).await;
				if with_call {
					self.env.shared.release(call_tag);
					self.env.wait_ev(|e| matches!(e, Ev::Finished { tag: t } if *t == call_tag).then_some(()), WAIT).await;
				}
				r
			}
			("end", 2) => {
				let a = self.env.wait_avail(self.expected_avail()).await;
				let mut orc = self.avail_ok(a, "at the end of the script");
				let line = format!("final {} active={}", a_repr(a), self.live.len());
				// clean up whatever the script left open, then the server must stop
				if !self.cleanup().await {
					orc = orc.and(Err(format!("stopped() did not resolve within {WAIT:?} after stop")));
				}
				(line, orc)
			}
			_ => ("bad-op".into(), Ok(())),
		}
	}
}

struct Header {
	max: u32,
	http: bool,
	ws: bool,
	assembly: Assembly,
}

fn parse_header(l: &str) -> Option<Header> {
	let w: Vec<&str> = l.split(' ').collect();
	if w.len() != 8 || w[0] != "case" || w[2] != "conn" {
		return None;
	}
	let v = |i: usize, k: &str| w[i].strip_prefix(k).map(|s| s.to_string());
	Some(Header {
		max: v(3, "max=")?.parse().ok()?,
		http: v(4, "http=")? == "1",
		ws: v(5, "ws=")? == "1",
		assembly: Assembly::parse(&v(7, "path=")?)?,
	})
}

/// returns `false` when the oracle failed somewhere in the case
async fn run_case(lines: &[String], out: &mut Out) -> bool {
	let Some(h) = parse_header(&lines[0]) else {
		for l in lines {
			out.line(l.clone(), "bad-op".into(), Ok(()), false);
		}
		return true;
	};
	let ping = lines.iter().any(|l| l.starts_with("cg wclose") && (l.ends_with(" ping") || l.ends_with(" pingcall"))).then_some((100u64, 300u64));
	let case_first_line = out.ops.len();
	let mut inconclusive = false;
	let env = start_env(&EnvCfg { assembly: h.assembly, max: h.max, http: h.http, ws: h.ws, ping, ping_failures: 1, buffer: 16 }).await;
	let mut run = Run { env, max: h.max as usize, live: BTreeMap::new(), idle: vec![], stop_issued: false, closing: Default::default() };
	run.bootstrap(h.http).await;
	out.line(lines[0].clone(), "case".into(), Ok(()), false);
	out.count(&format!("case.max={}", h.max));
	out.count(&format!("case.path={}", h.assembly.name()));
	out.count(&format!("case.transports={}", if h.http && h.ws { "both" } else if h.http { "http_only" } else { "ws_only" }));
	let mut ended = false;
	let mut peak = 0usize;
	let mut failed = false;
	let mut sig = lines[0].splitn(3, ' ').nth(2).unwrap_or("").to_string();
	for l in &lines[1..] {
		if failed {
			// after the first oracle failure the rest of the case says nothing new and every further
			// wait would run into its timeout: the lines are kept (the model still consumes them) but
			// marked as not executed
			out.line(l.clone(), "#skip".into(), Ok(()), false);
			continue;
		}
		let w: Vec<&str> = l.split(' ').collect();
		if w.len() < 2 || w[0] != "cg" {
			out.line(l.clone(), "bad-op".into(), Ok(()), false);
			continue;
		}
		let (o, orc) = run.op(&w, out).await;
		peak = peak.max(run.live.len());
		let kind = o.split(' ').next().unwrap_or("").to_string();
		out.count(&format!("op.{}{}", w[1], if w.len() > 3 && w[1] != "wstart" { format!(".{}", w[3]) } else { String::new() }));
		out.count(&format!("out.{kind}"));
		if kind == "refused" && h.max > 0 {
			out.count("refused.at_positive_limit");
		}
		// distinctness is counted per HISTORY (configuration + script + outcomes), see below
		if kind != "noop" && kind != "bad-op" {
			sig.push_str(l);
			sig.push('>');
			sig.push_str(&o);
			sig.push(';');
		}
		failed = orc.is_err();
		// Real-time scheduling decides one thing the property does not speak about: with pings enabled
		// the server ends a session whose client was silent for longer than the inactivity limit.  If
		// the harness itself was stalled that long between opening a session and using it, the session
		// is gone before the script gets to it: inconclusive, the case is reported as not executed.
		if let (Err(e), true) = (&orc, ping.is_some()) {
			if (w[1] == "wdone" && e.contains("no answer to a call after the upgrade")) || (w[1] == "wclose" && e.contains("the call did not start")) {
				inconclusive = true;
			}
		}
		out.line(l.clone(), o, orc, false);
		if w[1] == "end" {
			ended = true;
		}
	}
	if inconclusive {
		out.count("inconclusive.session_closed_for_inactivity_during_a_harness_stall");
		for i in case_first_line..out.ops.len() {
			out.impl_[i] = "#skip".into();
			out.oracle[i] = "ok".into();
		}
	}
	out.count(&format!("case.peak_live={peak}"));
	if peak > 0 {
		out.nontrivial.insert(fxhash(sig.as_bytes()));
	}
	if !ended || failed {
		// replay files without `cg end` / aborted cases: still stop the server
		let _ = run.cleanup().await;
	}
	!failed || inconclusive
}

// ------------------------------------------------------------------------------------------------
// generators

#[derive(Clone, Copy, PartialEq)]
enum G {
	Http,
	Upg,
	Ws,
}

struct GenCase {
	lines: Vec<String>,
	live: Vec<(u64, G)>,
	next: u64,
	max: u32,
	http: bool,
	ws: bool,
}

fn header(n: u64, max: u32, http: bool, ws: bool, asm: Assembly) -> String {
	format!("case {n} conn max={max} http={} ws={} obs={} path={}", http as u8, ws as u8, (max > 0) as u8, asm.name())
}

impl GenCase {
	fn arrive(&mut self, rng: &mut Rng) {
		let c = self.next;
		self.next += 1;
		let full = self.live.len() as u32 >= self.max;
		let r = rng.below(10);
		if rng.chance(1, 12) {
			self.lines.push(format!("cg idle {}", 900_000 + c));
		}
		if r < 5 {
			self.lines.push(format!("cg harrive {c} {}", rng.pick(&["new", "new", "new", "reuse", "reuse", "close", "batch"])));
			if !full && self.http {
				self.live.push((c, G::Http));
			}
		} else {
			let ok = r < 9;
			self.lines.push(format!("cg wstart {c} {}", ok as u8));
			if !full && self.ws && ok {
				self.live.push((c, G::Upg));
			}
		}
	}

	fn exit_line(rng: &mut Rng, c: u64, g: G) -> String {
		match g {
			G::Http => match rng.below(4) {
				0 => format!("cg habort {c} fin"),
				1 => format!("cg habort {c} rst"),
				_ => format!("cg hdone {c}"),
			},
			G::Upg => format!("cg wfail {c} {}", if rng.chance(1, 2) { "drop" } else { "reset" }),
			G::Ws => format!("cg wclose {c} {}", rng.pick(&["close", "closecall", "halfcall", "reset", "resetcall", "proto"])),
		}
	}

	fn progress(&mut self, rng: &mut Rng) {
		if self.live.is_empty() {
			return self.arrive(rng);
		}
		let i = rng.below(self.live.len() as u64) as usize;
		let (c, g) = self.live[i];
		if g == G::Upg && rng.chance(3, 4) {
			self.lines.push(format!("cg wdone {c}"));
			self.live[i].1 = G::Ws;
		} else {
			self.lines.push(Self::exit_line(rng, c, g));
			self.live.remove(i);
		}
	}

	fn drain_and_end(&mut self, rng: &mut Rng) {
		// everything still being served finishes by a random exit.  Pending upgrades either complete
		// first or fail; WebSocket sessions go last so that `stop` (which ends the server) can be
		// their common exit.
		let mut rest: Vec<(u64, G)> = std::mem::take(&mut self.live);
		for e in rest.iter_mut() {
			if e.1 == G::Upg && rng.chance(1, 2) {
				self.lines.push(format!("cg wdone {}", e.0));
				e.1 = G::Ws;
			}
		}
		rest.sort_by_key(|(_, g)| match g {
			G::Http => 0,
			G::Upg => 1,
			G::Ws => 2,
		});
		// `stop` ends every session of the server at once, so only the very last one may use it
		let by_stop = rng.chance(1, 3);
		let last = rest.len().saturating_sub(1);
		for (i, (c, g)) in rest.into_iter().enumerate() {
			if g == G::Ws && by_stop && i == last {
				self.lines.push(format!("cg wclose {c} stop"));
			} else {
				self.lines.push(Self::exit_line(rng, c, g));
			}
		}
		self.lines.push("cg end".into());
	}
}

fn pick_cfg(rng: &mut Rng) -> (u32, bool, bool, Assembly) {
	let max = *rng.pick(&[0u32, 1, 1, 1, 2, 2, 2, 3, 3, 1, 2, 3, u32::MAX]);
	let (http, ws) = match rng.below(10) {
		0 => (true, false),
		1 => (false, true),
		_ => (true, true),
	};
	let asm = *rng.pick(&[Assembly::Server, Assembly::Server, Assembly::Tower, Assembly::TowerSet, Assembly::TowerMw, Assembly::TowerClone, Assembly::LowLevel, Assembly::LowServe]);
	(max, http, ws, asm)
}

fn gen_random_case(rng: &mut Rng, n: u64) -> Vec<String> {
	let (max, http, ws, asm) = pick_cfg(rng);
	let mut g = GenCase { lines: vec![header(n, max, http, ws, asm)], live: vec![], next: 1, max, http, ws };
	let len = rng.range(3, 14);
	for _ in 0..len {
		let full = g.live.len() as u32 >= g.max;
		let p_arrive = if full { 35 } else { 65 };
		if rng.below(100) < p_arrive {
			g.arrive(rng);
		} else {
			g.progress(rng);
		}
		if rng.chance(1, 40) {
			// an op that does not apply (unknown tag): both sides must answer `noop`
			g.lines.push(format!("cg {}", rng.pick(&["hdone 999", "wdone 999", "wclose 999 close", "habort 999 fin", "wfail 999 drop"])));
		}
	}
	g.drain_and_end(rng);
	g.lines
}

/// fill the server to its limit (mixed kinds), one more attempt of each kind (429), then drain
fn gen_fill_case(rng: &mut Rng, n: u64) -> Vec<String> {
	let (max, _, _, asm) = pick_cfg(rng);
	let mut g = GenCase { lines: vec![header(n, max, true, true, asm)], live: vec![], next: 1, max, http: true, ws: true };
	// (with the limit u32::MAX "full" cannot be reached: a handful of sessions, none refused)
	while (g.live.len() as u32) < max.min(4) {
		g.arrive(rng);
		if let Some(&(c, G::Upg)) = g.live.last() {
			if rng.chance(1, 2) {
				g.lines.push(format!("cg wdone {c}"));
				g.live.last_mut().unwrap().1 = G::Ws;
			}
		}
	}
	for _ in 0..3 {
		g.arrive(rng);
	}
	// refused -> one session ends -> the retry (on the very connection that got the 429) is admitted
	if max > 0 && !g.live.is_empty() {
		let (c, k) = g.live.remove(0);
		g.lines.push(GenCase::exit_line(rng, c, k));
		let t = g.next;
		g.next += 1;
		g.lines.push(format!("cg harrive {t} reuse"));
		g.live.push((t, G::Http));
		g.lines.push(format!("cg harrive {} new", g.next));
		g.next += 1;
	}
	g.drain_and_end(rng);
	g.lines
}

const EXIT_PATHS: [&str; 15] = [
	"hdone", "habort.fin", "habort.rst", "rejected", "denied", "wfail.drop", "wfail.reset", "wclose.close", "wclose.closecall", "wclose.halfcall",
	"wclose.reset", "wclose.resetcall", "wclose.proto", "wclose.ping", "wclose.pingcall",
];

/// `cycles` open/finish cycles through one exit path on a small limit, with `max - 1` other
/// sessions held open meanwhile; afterwards the limit must still be reachable and enforced
fn gen_cycle_case(rng: &mut Rng, n: u64, path: &str, cycles: u64) -> Vec<String> {
	let max = rng.range(1, 3) as u32;
	let asm = *rng.pick(&[Assembly::Server, Assembly::Tower, Assembly::TowerSet, Assembly::TowerMw, Assembly::TowerClone, Assembly::LowLevel, Assembly::LowServe]);
	let (http, ws) = if path == "denied" { (true, false) } else { (true, true) };
	let mut lines = vec![header(n, max, http, ws, asm)];
	let mut c = 1u64;
	let mut held = vec![];
	for _ in 1..max {
		lines.push(format!("cg harrive {c} new"));
		held.push(c);
		c += 1;
	}
	for _ in 0..cycles {
		match path {
			"hdone" => {
				lines.push(format!("cg harrive {c} {}", if rng.chance(1, 2) { "reuse" } else { "new" }));
				lines.push(format!("cg hdone {c}"));
			}
			"habort.fin" | "habort.rst" => {
				lines.push(format!("cg harrive {c} new"));
				lines.push(format!("cg habort {c} {}", &path[7..]));
			}
			"rejected" => lines.push(format!("cg wstart {c} 0")),
			"denied" => lines.push(format!("cg wstart {c} 1")),
			"wfail.drop" | "wfail.reset" => {
				lines.push(format!("cg wstart {c} 1"));
				lines.push(format!("cg wfail {c} {}", &path[6..]));
			}
			_ => {
				lines.push(format!("cg wstart {c} 1"));
				lines.push(format!("cg wdone {c}"));
				lines.push(format!("cg wclose {c} {}", &path[7..]));
			}
		}
		c += 1;
	}
	// the limit is reached again and enforced
	lines.push(format!("cg harrive {c} new"));
	lines.push(format!("cg harrive {} new", c + 1));
	lines.push(format!("cg hdone {c}"));
	for h in held {
		lines.push(format!("cg hdone {h}"));
	}
	lines.push("cg end".into());
	lines
}

/// ping enabled, the peer goes silent (with or without a gated call still executing on the session):
/// the server closes the session for inactivity; the slot must be free again, which is shown both by
/// `available_connections()` and by a new attempt being admitted (and the one after it refused).
/// WebSocket sessions of such a case are closed right after they were opened (they would otherwise
/// time out on their own), HTTP requests may be in flight throughout.
fn gen_ping_case(rng: &mut Rng, n: u64) -> Vec<String> {
	let max = rng.range(1, 3) as u32;
	let asm = *rng.pick(&[Assembly::Server, Assembly::Tower, Assembly::TowerSet, Assembly::TowerMw, Assembly::TowerClone, Assembly::LowLevel, Assembly::LowServe]);
	let mut lines = vec![header(n, max, true, true, asm)];
	let mut c = 1u64;
	let mut held = vec![];
	let nheld = rng.below(max as u64);
	for _ in 0..nheld {
		lines.push(format!("cg harrive {c} new"));
		held.push(c);
		c += 1;
	}
	let rounds = rng.range(1, 3);
	for _ in 0..rounds {
		lines.push(format!("cg wstart {c} 1"));
		lines.push(format!("cg wdone {c}"));
		lines.push(format!("cg wclose {c} {}", rng.pick(&["ping", "pingcall", "pingcall"])));
		c += 1;
		// the freed slot is usable: fill the server completely, one more is refused
		let mut extra = vec![];
		for _ in held.len() as u32..max {
			lines.push(format!("cg harrive {c} new"));
			extra.push(c);
			c += 1;
		}
		lines.push(format!("cg harrive {c} new"));
		c += 1;
		for e in extra {
			lines.push(if rng.chance(1, 3) { format!("cg habort {e} rst") } else { format!("cg hdone {e}") });
		}
	}
	for h in held {
		lines.push(format!("cg hdone {h}"));
	}
	lines.push("cg end".into());
	lines
}

fn split_cases(lines: Vec<String>) -> Vec<Vec<String>> {
	let mut cases: Vec<Vec<String>> = vec![];
	for l in lines {
		if l.starts_with("case ") || cases.is_empty() {
			cases.push(vec![l]);
		} else {
			cases.last_mut().unwrap().push(l);
		}
	}
	cases
}

fn main() {
	let a = args();
	let mut out = Out::new();
	let thorough = a.tier == "thorough";
	let mut cases: Vec<Vec<String>> = vec![];
	if let Some(r) = &a.replay {
		cases = split_cases(read_case_lines(r));
	} else {
		cases.extend(split_cases(corpus_lines("C11")));
		let mut rng = Rng::new(a.seed);
		let mut n = 1000u64;
		let cycles = if thorough { 200 } else { 4 };
		for p in EXIT_PATHS {
			// ping inactivity needs real time (~400 ms per cycle: interval 100 ms, inactive_limit 300 ms)
			let cy = if p.starts_with("wclose.ping") { if thorough { 30 } else { 2 } } else { cycles };
			cases.push(gen_cycle_case(&mut rng, n, p, cy));
			n += 1;
		}
		for _ in 0..(if thorough { 30 } else { 6 }) {
			cases.push(gen_ping_case(&mut rng, n));
			n += 1;
		}
		let total = a.cases.unwrap_or(if thorough { 5000 } else { 1000 });
		for i in 0..total {
			cases.push(if i % 5 == 4 { gen_fill_case(&mut rng, n) } else { gen_random_case(&mut rng, n) });
			n += 1;
		}
	}
	let rt = runtime();
	rt.block_on(async {
		// a bystander: a second, unrelated server of this process with limit 1 whose only slot stays
		// taken during the whole run.  Servers share nothing: neither may the cases below see its
		// holder, nor may their traffic free or take its slot.
		let benv = start_env(&EnvCfg { assembly: Assembly::Server, max: 1, http: true, ws: true, ping: None, ping_failures: 1, buffer: 16 }).await;
		let mut by = Run { env: benv, max: 1, live: BTreeMap::new(), idle: vec![], stop_issued: false, closing: Default::default() };
		by.bootstrap(true).await;
		let mut scratch = Out::new();
		let (o, _) = by.op(&["cg", "harrive", "1", "new"], &mut scratch).await;
		let by_ok0 = o == "started a=0";
		let mut failing = 0;
		for c in &cases {
			if !run_case(c, &mut out).await {
				failing += 1;
				if failing >= 5 {
					// enough replays; do not spend the run in timeouts
					out.notes.push("stopped after 5 failing cases".into());
					break;
				}
			}
		}
		// the bystander's slot is still taken by its one holder, and frees normally
		let still = by.env.avail() == Some(0) && by.live.len() == 1;
		let (o2, orc2) = by.op(&["cg", "hdone", "1"], &mut scratch).await;
		let _ = by.cleanup().await;
		if a.replay.is_none() {
			let hdr = "case 0 conn max=1 http=1 ws=1 obs=1 path=server".to_string();
			if by_ok0 && still && o2 == "released a=1" && orc2.is_ok() {
				out.count("bystander.ok");
				out.line(hdr, "case".into(), Ok(()), false);
			} else {
				out.line(hdr, "case".into(), Err(format!("the bystander server (limit 1, one holder all along) was disturbed by the other servers' traffic: start ok={by_ok0}, slot still taken={still}, release -> {o2}")), false);
			}
		}
	});
	out.notes.push(format!("bystander server (limit 1, slot held during the whole run): {}", if out.dist.contains_key("bystander.ok") { "untouched" } else { "DISTURBED" }));
	out.notes.push(
		"every wait is 'until the expected observable or 5 s'; the bounded wait for stopped() at the end of each case and the ping-inactivity exit are wall-clock TESTS"
			.into(),
	);
	out.notes.push(format!("cases run: {}", cases.len()));
	out.write(&a.out);
	if a.replay.is_some() {
		for i in 0..out.ops.len() {
			println!("op:     {}\nimpl:   {}\noracle: {}", out.ops[i], out.impl_[i], out.oracle[i]);
		}
	}
}
