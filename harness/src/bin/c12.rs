//! C12 — client: batch results are positional (WS client through the mock transport, HTTP client
//! through an injected `RpcServiceT` layer that returns scripted reply texts; no sockets).
use jrpc_harness::client_mock::*;
use jrpc_harness::client_spell::*;
use jrpc_harness::common::*;
use jsonrpsee_core::client::{BatchResponse, ClientT, Error, IdKind, MiddlewareBatchResponse, MiddlewareMethodResponse, MiddlewareNotifResponse};
use jsonrpsee_core::middleware::{Batch, Notification, Request, RpcServiceBuilder, RpcServiceT};
use jsonrpsee_core::params::{ArrayParams, BatchRequestBuilder};
use jsonrpsee_http_client::HttpClientBuilder;
use jsonrpsee_types::Response;
use serde_json::Value;
use serde_json::value::RawValue;
use std::collections::{BTreeMap, VecDeque};
use std::sync::{Arc, Mutex};

// ---------------------------------------------------------------------------------------------
// HTTP client with scripted replies

#[derive(Clone, Default)]
struct Script {
	replies: Arc<Mutex<VecDeque<String>>>,
	sent: Arc<Mutex<Vec<String>>>,
}
#[derive(Clone)]
struct ScriptLayer(Script);
impl<S> tower::Layer<S> for ScriptLayer {
	type Service = Script;
	fn layer(&self, _inner: S) -> Script {
		self.0.clone()
	}
}
impl RpcServiceT for Script {
	type MethodResponse = Result<MiddlewareMethodResponse, Error>;
	type BatchResponse = Result<MiddlewareBatchResponse, Error>;
	type NotificationResponse = Result<MiddlewareNotifResponse, Error>;

	fn call<'a>(&self, request: Request<'a>) -> impl Future<Output = Self::MethodResponse> + Send + 'a {
		let me = self.clone();
		async move {
			// same steps as client/http-client/src/rpc_service.rs, the transport replaced by the script
			let raw = serde_json::to_string(&request)?;
			me.sent.lock().unwrap().push(raw);
			let bytes = me.replies.lock().unwrap().pop_front().unwrap_or_default();
			let mut rp: Response<Box<RawValue>> = serde_json::from_slice(bytes.as_bytes())?;
			rp.extensions = request.extensions;
			Ok(MiddlewareMethodResponse::response(rp.into_owned().into()))
		}
	}
	fn batch<'a>(&self, batch: Batch<'a>) -> impl Future<Output = Self::BatchResponse> + Send + 'a {
		let me = self.clone();
		async move {
			let raw = serde_json::to_string(&batch)?;
			me.sent.lock().unwrap().push(raw);
			let bytes = me.replies.lock().unwrap().pop_front().unwrap_or_default();
			let rp: Vec<_> = serde_json::from_slice::<Vec<Response<Box<RawValue>>>>(bytes.as_bytes())?
				.into_iter()
				.map(|r| r.into_owned().into())
				.collect();
			Ok(rp)
		}
	}
	fn notification<'a>(&self, n: Notification<'a>) -> impl Future<Output = Self::NotificationResponse> + Send + 'a {
		async move { Ok(n.extensions.into()) }
	}
}

fn batch_comp(r: &BatchResponse<'_, Box<RawValue>>) -> Comp {
	let entries = r
		.iter()
		.map(|e| match e {
			Ok(v) => Ok(v.get().to_string()),
			Err(eo) => Err((eo.code(), eo.message().to_string(), eo.data().map(|d| d.get().to_string()))),
		})
		.collect();
	Comp::Batch { succ: r.num_successful_calls(), fail: r.num_failed_calls(), view: jrpc_harness::client_mock::batch_view(r), entries }
}

// ---------------------------------------------------------------------------------------------
// oracle (independent of the Lean model): plain serde_json::Value bookkeeping

/// the numeric value an id stands for in the batch code: a number, or a string that Rust parses as u64
fn id_number(v: &Value) -> Option<u64> {
	match v {
		Value::Number(n) => n.as_u64(),
		Value::String(s) => s.parse::<u64>().ok(),
		_ => None,
	}
}

/// (id, payload) of every response-shaped element of a reply array, in order
fn reply_entries(reply: &str) -> Vec<(Value, Result<String, (i32, String, Option<String>)>)> {
	let mut out = vec![];
	let Ok(Value::Array(a)) = serde_json::from_str::<Value>(reply) else { return out };
	for e in a {
		let Value::Object(o) = &e else { continue };
		let Some(id) = o.get("id") else { continue };
		if let Some(r) = o.get("result") {
			if o.get("error").is_none() {
				out.push((id.clone(), Ok(r.to_string())));
			}
		} else if let Some(Value::Object(eo)) = o.get("error") {
			let code = eo.get("code").and_then(|c| c.as_i64()).unwrap_or(0) as i32;
			let msg = eo.get("message").and_then(|m| m.as_str()).unwrap_or("").to_string();
			let data = eo.get("data").filter(|d| !d.is_null()).map(|d| d.to_string());
			out.push((id.clone(), Err((code, msg, data))));
		}
	}
	out
}

/// (id, payload) of a single response object (empty for anything else)
fn single_entry(text: &str) -> Vec<(Value, Result<String, (i32, String, Option<String>)>)> {
	match serde_json::from_str::<Value>(text) {
		Ok(v @ Value::Object(_)) => reply_entries(&Value::Array(vec![v]).to_string()),
		_ => vec![],
	}
}

/// canonical JSON text (serde_json::Value round trip) so that whitespace in raw results is ignored
fn canon(s: &str) -> String {
	serde_json::from_str::<Value>(s).map(|v| v.to_string()).unwrap_or_else(|_| s.to_string())
}

/// What a `result` text is as a value of the caller's type `ty` — decided on the `serde_json::Value`
/// tree, not through `from_str::<R>` (independent of the code under test). `None` = not an `R`.
fn typed_show(ty: &str, result: &str) -> Option<String> {
	let v: Value = serde_json::from_str(result).ok()?;
	let as_u64 = |v: &Value| match v {
		Value::Number(n) => n.as_u64(),
		_ => None,
	};
	match ty {
		"u64" => as_u64(&v).map(|n| n.to_string()),
		"str" => v.as_str().map(|s| s.to_string()),
		"bool" => v.as_bool().map(|b| b.to_string()),
		"optu64" => match &v {
			Value::Null => Some("none".into()),
			other => as_u64(other).map(|n| format!("some:{n}")),
		},
		"pt" => match &v {
			Value::Object(o) => Some(format!("{},{}", as_u64(o.get("x")?)?, as_u64(o.get("y")?)?)),
			Value::Array(a) if a.len() == 2 => Some(format!("{},{}", as_u64(&a[0])?, as_u64(&a[1])?)),
			_ => None,
		},
		_ => None,
	}
}

/// The property on one completed batch: `n` entries were requested with ids `start..start+n`,
/// `reply` is what the server sent, `got` is what `batch_request` returned.
/// `ty`: the caller's result type for typed batches (entries are then the decoded values).
fn batch_oracle(start: u64, n: usize, reply: &str, got: &Comp, ty: Option<&str>) -> Result<(), String> {
	let Comp::Batch { succ, fail, entries, .. } = got else {
		return Ok(()); // the whole call failed: allowed by the statement for bad replies; good replies are checked by the caller
	};
	if entries.len() != n {
		return Err(format!("batch of {n} returned {} results: {entries:?}", entries.len()));
	}
	if succ.checked_add(*fail) != Some(n) || *succ != entries.iter().filter(|e| e.is_ok()).count() {
		return Err(format!("counters succ={succ} fail={fail} do not match the {n} entries"));
	}
	let replies = reply_entries(reply);
	for (i, e) in entries.iter().enumerate() {
		let want_id = start + i as u64;
		let own: Vec<_> = replies.iter().filter(|(id, _)| id_number(id) == Some(want_id)).collect();
		let matches_own = own.iter().any(|(_, p)| match (p, e) {
			(Ok(a), Ok(b)) => match ty {
				None => canon(a) == canon(b),
				Some(t) => typed_show(t, a).as_deref() == Some(b.as_str()),
			},
			(Err(a), Err(b)) => a.0 == b.0 && a.1 == b.1 && a.2.as_ref().map(|s| canon(s)) == b.2.as_ref().map(|s| canon(s)),
			_ => false,
		});
		if own.is_empty() {
			// no answer for this entry: must be reported as an error, never somebody else's answer
			match e {
				Err((0, m, None)) if m.is_empty() => {}
				other => return Err(format!("entry {i} (id {want_id}) has no answer in the reply but was filled with {other:?}")),
			}
		} else if !matches_own {
			return Err(format!("entry {i} (id {want_id}) = {e:?} is not an answer bearing its own id"));
		}
	}
	Ok(())
}

/// every `result` of the reply is a value of the caller's type
fn all_decodable(reply: &str, ty: Option<&str>) -> bool {
	match ty {
		None => true,
		Some(t) => reply_entries(reply).iter().all(|(_, p)| match p {
			Ok(r) => typed_show(t, r).is_some(),
			Err(_) => true,
		}),
	}
}

/// a reply that answers every id of `start..start+n` exactly once and nothing else
/// (`ws`: on the WS client the answers may share the array with server pushes; an HTTP reply consists of responses only)
fn is_complete_reply(start: u64, n: usize, reply: &str, ws: bool) -> bool {
	let Ok(Value::Array(a)) = serde_json::from_str::<Value>(reply) else { return false };
	let r = reply_entries(reply);
	// every element is one of the batch's answers or a server push (a notification of some kind)
	let pushes = a.iter().filter(|e| msg_kind(e) == MsgKind::Notification && e.get("jsonrpc").and_then(|j| j.as_str()) == Some("2.0")).count();
	if r.len() + (if ws { pushes } else { 0 }) != a.len() || r.len() != n {
		return false;
	}
	let mut ids: Vec<u64> = r.iter().filter_map(|(id, _)| id_number(id)).collect();
	ids.sort();
	ids == (start..start + n as u64).collect::<Vec<_>>()
}

// ---------------------------------------------------------------------------------------------
// running cases

struct Pending {
	start: u64,
	n: usize,
	ty: Option<String>,
}

/// ids of a request array the client wrote
fn wire_batch_ids(text: &str) -> Option<Vec<u64>> {
	let Value::Array(a) = serde_json::from_str::<Value>(text).ok()? else { return None };
	a.iter().map(|e| id_number(e.get("id")?)).collect()
}

fn run_ws_case(out: &mut Out, lines: &[String]) {
	let mut pending: BTreeMap<usize, Pending> = BTreeMap::new();
	let mut last_batch_op: Vec<(usize, Option<String>)> = vec![];
	let mut n_ops = 0usize;
	let mut inflight = InFlight::default();
	let mut recs: Vec<(String, String, Result<(), String>, bool)> = vec![];
	run_case(lines, |line, obs| {
		let w: Vec<&str> = line.split(' ').collect();
		let mut verdict = Ok(());
		let mut nontrivial = false;
		if w[0] == "cl" {
			if matches!(w[1], "call" | "subscribe" | "batch" | "regnotif" | "tbatch") && obs.literal.is_none() {
				if w[1] == "batch" {
					last_batch_op.push((n_ops, None));
				}
				if w[1] == "tbatch" {
					last_batch_op.push((n_ops, Some(w[2].to_string())));
				}
				n_ops += 1;
			}
			// (i) wire ids of everything in flight are pairwise distinct
			if w[1] == "deliver" || w[1] == "deliverx" {
				inflight.on_deliver(&String::from_utf8(unhex(w[2])).unwrap_or_default());
			}
			for wtxt in &obs.wires {
				if let Err(e) = inflight.on_wire(wtxt) {
					out.count("oracle.shared-wire-id");
					verdict = Err(e);
				}
			}
			if obs.fatal.is_some() {
				inflight.clear();
			}
			// a batch request appearing on the wire tells us its id range
			for wtxt in &obs.wires {
				if let Some(ids) = wire_batch_ids(wtxt) {
					if !last_batch_op.is_empty() {
						let (op, ty) = last_batch_op.remove(0);
						let consecutive = ids.windows(2).all(|p| p[1] == p[0] + 1);
						if !consecutive {
							verdict = Err(format!("batch ids on the wire are not consecutive: {ids:?}"));
						}
						pending.insert(op, Pending { start: ids[0], n: ids.len(), ty });
					}
				}
			}
			if w[1] == "deliverx" && obs.literal.is_none() {
				// a reply array with an element that is no legal message: nothing may be handed to a batch
				nontrivial = true;
				out.count("near-miss.delivered");
				if obs.fatal.is_none() || !obs.comps.is_empty() {
					verdict = Err(format!("a reply that is no legal message was accepted: {}", obs.render()));
				}
			}
			if w[1] == "deliver" {
				let reply = String::from_utf8(unhex(w[2])).unwrap_or_default();
				for (op, comp) in &obs.comps {
					if let Some(p) = pending.remove(op) {
						nontrivial = true;
						// (ii) a batch result may only be built from the reply the server made for that batch
						if let (Some(made_for), Comp::Batch { .. }) = (reply_tag(&w), comp) {
							out.count("oracle.reply-tag-checked");
							if made_for != *op && verdict.is_ok() {
								verdict = Err(format!(
									"batch operation {op} (ids {}..{}) returned Ok built from a reply the server made for operation {made_for}: {}",
									p.start,
									p.start + p.n as u64,
									comp.render()
								));
							}
						}
						out.count(match (comp, p.ty.is_some()) {
							(Comp::Batch { .. }, false) => "ws.batch.ok",
							(_, false) => "ws.batch.err",
							(Comp::Batch { .. }, true) => "ws.tbatch.ok",
							(Comp::E(e), true) if e == "parse" => "ws.tbatch.parse-error",
							(_, true) => "ws.tbatch.err",
						});
						if let Err(e) = batch_oracle(p.start, p.n, &reply, comp, p.ty.as_deref()) {
							verdict = Err(e);
						} else if is_complete_reply(p.start, p.n, &reply, true) && all_decodable(&reply, p.ty.as_deref()) && !matches!(comp, Comp::Batch { .. }) {
							verdict = Err(format!("a complete, correct reply made the batch fail: {comp:?}"));
						}
					}
				}
				if obs.literal.is_none() {
					// every element of an array has the effect it would have alone, or the whole array is refused
					if array_has_response(&reply) && obs.fatal.is_none() && obs.comps.is_empty() && verdict.is_ok() {
						verdict = Err(format!("the responses inside the array {reply} took no effect: no batch completed and the connection was not given up"));
					}
					for (op, p) in &pending {
						if is_complete_reply(p.start, p.n, &reply, true) && all_decodable(&reply, p.ty.as_deref()) && verdict.is_ok() {
							verdict = Err(format!(
								"batch operation {op} (ids {}..{}) was answered completely by {reply} but did not complete: {}",
								p.start,
								p.start + p.n as u64,
								obs.render()
							));
						}
					}
				}
				if obs.fatal.is_some() {
					nontrivial = true;
					out.count("ws.fatal");
					// a complete correct reply for a pending batch must never kill the connection
					if pending.values().any(|p| is_complete_reply(p.start, p.n, &reply, true)) {
						verdict = Err(format!("a complete, correct batch reply was rejected: {:?}", obs.fatal));
					}
				}
			}
		}
		recs.push((line.to_string(), obs.render(), verdict, nontrivial));
	});
	for (l, o, v, nt) in recs {
		out.line(l, o, v, nt);
	}
}

fn run_http_case(out: &mut Out, lines: &[String]) {
	let w: Vec<&str> = lines[0].split(' ').collect();
	let str_ids = w.get(3) == Some(&"str");
	let script = Script::default();
	// options word: `mc=<max_concurrent_requests>,t=<request timeout secs>` (neither limits these sequential histories)
	let mut builder = HttpClientBuilder::default().id_format(if str_ids { IdKind::String } else { IdKind::Number });
	if let Some(opts) = w.get(4) {
		for kv in opts.split(',') {
			match kv.split_once('=') {
				Some(("mc", v)) => builder = builder.max_concurrent_requests(v.parse().unwrap_or(1usize).max(1)),
				Some(("t", v)) => builder = builder.request_timeout(std::time::Duration::from_secs(v.parse().unwrap_or(60u64).max(60))),
				_ => {}
			}
		}
	}
	let client = builder
		.set_rpc_middleware(RpcServiceBuilder::new().layer(ScriptLayer(script.clone())))
		.build("http://127.0.0.1:9")
		.expect("http client builds without connecting");
	let rt = tokio::runtime::Builder::new_current_thread().enable_time().build().unwrap();
	let mut inflight = InFlight::default();
	out.line(lines[0].clone(), "case".into(), Ok(()), false);
	for line in &lines[1..] {
		let mut w: Vec<&str> = line.split(' ').collect();
		// `batchx` / `tbatchx` / `callx`: the same operation, the reply is no legal message and must make the call fail
		let must_fail = matches!(w.get(1).copied(), Some("batchx") | Some("tbatchx") | Some("callx"));
		if must_fail {
			w[1] = &w[1][..w[1].len() - 1];
		}
		match (w[0], w.get(1).copied()) {
			("hc", Some("notify")) => {
				let res = rt.block_on(async { client.notification("m", ArrayParams::new()).await });
				out.count("http.notification");
				out.line(line.clone(), if res.is_ok() { "-".into() } else { "E:notify".into() }, Ok(()), false);
			}
			("hc", Some("subscribe")) => {
				use jsonrpsee_core::client::SubscriptionClientT;
				let res = rt.block_on(async { client.subscribe::<Box<RawValue>, _>("sub", ArrayParams::new(), "unsub").await.map(|_| ()) });
				out.count("http.subscribe");
				let shown = match res {
					Err(Error::HttpNotImplemented) => "E:http-not-implemented".to_string(),
					Ok(()) => "subscribed".to_string(),
					Err(e) => classify_err(&e).render(),
				};
				out.line(line.clone(), shown, Ok(()), false);
			}
			("hc", Some("batch")) | ("hc", Some("tbatch")) => {
				let ty: Option<String> = if w[1] == "tbatch" { Some(w[2].to_string()) } else { None };
				let (n_at, r_at) = if ty.is_some() { (3, 4) } else { (2, 3) };
				let n: usize = w[n_at].parse().unwrap();
				let reply = String::from_utf8(unhex(w[r_at])).unwrap_or_default();
				script.replies.lock().unwrap().push_back(reply.clone());
				let res = rt.block_on(async {
					if let Some(t) = &ty {
						return jrpc_harness::typed_batch_on!(client, t.as_str(), n);
					}
					let mut b = BatchRequestBuilder::new();
					for _ in 0..n {
						b.insert("m", ArrayParams::new()).unwrap();
					}
					let r: Result<BatchResponse<'_, Box<RawValue>>, Error> = client.batch_request(b).await;
					r.map(|r| batch_comp(&r))
				});
				let sent = script.sent.lock().unwrap().last().cloned().unwrap_or_default();
				let shared = inflight.on_wire(&sent);
				// (the HTTP histories are sequential: once the call has returned nothing of it is in flight)
				inflight.clear();
				let ids = wire_batch_ids(&sent).unwrap_or_default();
				let comp = match res {
					Ok(c) => c,
					Err(e) => classify_err(&e),
				};
				let mut verdict = Ok(());
				if let Err(e) = shared {
					verdict = Err(e);
				} else if ids.len() != n || !ids.windows(2).all(|p| p[1] == p[0] + 1) {
					verdict = Err(format!("http batch ids on the wire: {ids:?} for n={n}"));
				} else if let Err(e) = batch_oracle(ids[0], n, &reply, &comp, ty.as_deref()) {
					verdict = Err(e);
				} else if must_fail {
					out.count("near-miss.delivered");
					if matches!(comp, Comp::Batch { .. }) {
						verdict = Err(format!("a reply that is no legal message was accepted by the http batch: {comp:?}"));
					}
				} else if is_complete_reply(ids[0], n, &reply, false) && all_decodable(&reply, ty.as_deref()) && !matches!(comp, Comp::Batch { .. }) {
					verdict = Err(format!("a complete, correct reply made the http batch fail: {comp:?}"));
				}
				out.count(match (&comp, ty.is_some()) {
					(Comp::Batch { .. }, false) => "http.batch.ok",
					(_, false) => "http.batch.err",
					(Comp::Batch { .. }, true) => "http.tbatch.ok",
					(Comp::E(e), true) if e == "parse" => "http.tbatch.parse-error",
					(_, true) => "http.tbatch.err",
				});
				out.line(line.clone(), comp.render(), verdict, true);
			}
			("hc", Some("call")) => {
				let reply = String::from_utf8(unhex(w[2])).unwrap_or_default();
				script.replies.lock().unwrap().push_back(reply.clone());
				let res: Result<Box<RawValue>, Error> = rt.block_on(async { client.request("m", ArrayParams::new()).await });
				let comp = match res {
					Ok(v) => Comp::Ok(v.get().to_string()),
					Err(e) => classify_err(&e),
				};
				// oracle: a value is returned only if the reply carries the id this call wrote
				let sent = script.sent.lock().unwrap().last().cloned().unwrap_or_default();
				let sent_id = serde_json::from_str::<Value>(&sent).ok().and_then(|v| v.get("id").cloned());
				let reply_id = serde_json::from_str::<Value>(&reply).ok().and_then(|v| v.get("id").cloned());
				let verdict = match &comp {
					Comp::Ok(_) if must_fail => Err(format!("http call accepted a reply that is no legal message: {reply}")),
					Comp::Ok(_) if sent_id != reply_id => Err(format!("http call with id {sent_id:?} accepted a reply with id {reply_id:?}")),
					_ => Ok(()),
				};
				if must_fail {
					out.count("near-miss.delivered");
				}
				out.count("http.call");
				out.line(line.clone(), comp.render(), verdict, matches!(comp, Comp::Ok(_)));
			}
			_ => out.line(line.clone(), "bad-op".into(), Ok(()), false),
		}
	}
}

// ---------------------------------------------------------------------------------------------
// generators

fn id_json(rng: &mut Rng, n: u64, str_ids: bool) -> String {
	// mostly the client's own id kind; sometimes the other kind (the batch code reads both)
	let as_str = if rng.chance(1, 8) { !str_ids } else { str_ids };
	if as_str {
		match rng.below(12) {
			0 => format!("\"+{n}\""),
			1 => format!("\"0{n}\""),
			_ => format!("\"{n}\""),
		}
	} else {
		n.to_string()
	}
}

fn entry(rng: &mut Rng, id: &str, tag: u64) -> String {
	let j = if rng.chance(1, 10) { "" } else { "\"jsonrpc\":\"2.0\"," };
	match rng.below(10) {
		8 => format!("{{{j}\"id\":{id},\"result\":{}}}", odd_result(rng)),
		9 => format!("{{{j}\"id\":{id},\"error\":{}}}", odd_error(rng)),
		0 => format!("{{{j}\"id\":{id},\"error\":{{\"code\":-32000,\"message\":\"e{tag}\"}}}}"),
		1 => format!("{{{j}\"id\":{id},\"error\":{{\"code\":{tag},\"message\":\"\",\"data\":[{tag}]}}}}"),
		2 => format!("{{{j}\"result\":{{\"v\":{tag}}},\"id\":{id}}}"),
		3 => format!("{{{j}\"id\":{id},\"result\":null}}"),
		_ => format!("{{{j}\"id\":{id},\"result\":\"r{tag}\"}}"),
	}
}

const GOOD: [(&str, &[&str]); 5] = [
	("u64", &["0", "7", "18446744073709551615", "42"]),
	("str", &["\"r\"", "\"\"", "\"a\\nb\"", "\"\\u00e9\"", "\"7\""]),
	("bool", &["true", "false"]),
	("pt", &["{\"x\":1,\"y\":2}", "{\"y\":2,\"x\":1,\"z\":[1]}", "[3,4]", "{ \"x\" : 5 , \"y\" : 6 }"]),
	("optu64", &["null", "5", "0"]),
];
const ODD: [&str; 16] = [
	"\"x\"", "null", "7", "true", "1.5", "-3", "{\"x\":1}", "{\"x\":\"a\",\"y\":2}", "[1,2,3]", "[]", "{}", "18446744073709551616", "[1,\"b\"]",
	"{\"v\":1}", "\"7\"", "1e2",
];

/// a `result` text for the caller's type `ty`: of that type (`good`) or of another JSON type
fn typed_value(rng: &mut Rng, ty: &str, good: bool) -> String {
	if good {
		let pool = GOOD.iter().find(|g| g.0 == ty).map(|g| g.1).unwrap_or(&["null"]);
		return (*rng.pick(pool)).to_string();
	}
	loop {
		let v = *rng.pick(&ODD);
		if typed_show(ty, v).is_none() {
			return v.to_string();
		}
	}
}

/// one reply entry of a typed batch: mostly results (matching with probability 1 - bad/100), some errors
fn entry_t(rng: &mut Rng, id: &str, tag: u64, ty: &str, bad: u64) -> String {
	if rng.chance(1, 6) {
		return format!("{{\"jsonrpc\":\"2.0\",\"id\":{id},\"error\":{{\"code\":-32000,\"message\":\"e{tag}\"}}}}");
	}
	let good = rng.below(100) >= bad;
	let v = typed_value(rng, ty, good);
	if rng.chance(1, 2) { format!("{{\"jsonrpc\":\"2.0\",\"id\":{id},\"result\":{v}}}") } else { format!("{{\"jsonrpc\":\"2.0\",\"result\":{v},\"id\":{id}}}") }
}

/// Directed typed cases: a complete reply (in request order or reversed) for `n` entries of type `ty` in which
/// exactly the positions in `bad` carry a result of another JSON type (`errs`: positions answered with an error object).
fn gen_typed_directed(rng: &mut Rng, http: bool, caseno: u64, ty: &str, n: usize, bad: &[usize], errs: &[usize], reversed: bool) -> Vec<String> {
	let str_ids = rng.chance(1, 3);
	let mut lines = vec![if http { format!("case {caseno} httpc {}", if str_ids { "str" } else { "num" }) } else { format!("case {caseno} client {} 4 64", if str_ids { "str" } else { "num" }) }];
	let pre = rng.below(2);
	for i in 0..pre {
		if http {
			lines.push(format!("hc call {}", hexs(&format!("{{\"jsonrpc\":\"2.0\",\"id\":{},\"result\":1}}", if str_ids { format!("\"{i}\"") } else { i.to_string() }))));
		} else {
			lines.push("cl call".into());
		}
	}
	let start = pre;
	let mut parts: Vec<String> = (0..n)
		.map(|i| {
			let id = if str_ids { format!("\"{}\"", start + i as u64) } else { (start + i as u64).to_string() };
			if errs.contains(&i) {
				format!("{{\"jsonrpc\":\"2.0\",\"id\":{id},\"error\":{{\"code\":-32000,\"message\":\"e{i}\"}}}}")
			} else {
				let v = typed_value(rng, ty, !bad.contains(&i));
				format!("{{\"jsonrpc\":\"2.0\",\"id\":{id},\"result\":{v}}}")
			}
		})
		.collect();
	if reversed {
		parts.reverse();
	}
	let reply = format!("[{}]", parts.join(","));
	if http {
		lines.push(format!("hc tbatch {ty} {n} {}", hexs(&reply)));
	} else {
		lines.push(format!("cl tbatch {ty} {n}"));
		lines.push(format!("cl deliver {}", hexs(&reply)));
	}
	lines
}

fn permutations(n: usize) -> Vec<Vec<usize>> {
	fn go(cur: &mut Vec<usize>, used: &mut Vec<bool>, n: usize, out: &mut Vec<Vec<usize>>) {
		if cur.len() == n {
			out.push(cur.clone());
			return;
		}
		for i in 0..n {
			if !used[i] {
				used[i] = true;
				cur.push(i);
				go(cur, used, n, out);
				cur.pop();
				used[i] = false;
			}
		}
	}
	let mut out = vec![];
	go(&mut vec![], &mut vec![false; n], n, &mut out);
	out
}

/// A reply array for the batch `start..start+n`: `shape` picks the family.
fn gen_reply(rng: &mut Rng, out: &mut Out, start: u64, n: usize, str_ids: bool, perm: Option<&Vec<usize>>, ty: Option<(&str, u64)>) -> String {
	let mut ids: Vec<i128> = match perm {
		Some(p) => p.iter().map(|i| start as i128 + *i as i128).collect(),
		None => {
			let mut v: Vec<i128> = (0..n as i128).map(|i| start as i128 + i).collect();
			// shuffle
			for i in (1..v.len()).rev() {
				let j = rng.below(i as u64 + 1) as usize;
				v.swap(i, j);
			}
			v
		}
	};
	let shape = if perm.is_some() { 0 } else { *rng.pick(&[0u64, 1, 2, 3, 4, 5, 6, 7, 8, 9, 10, 10, 10, 11, 12, 13, 14, 14]) };
	let mut extra: Vec<String> = vec![];
	match shape {
		0..=3 => out.count("reply.permutation"),
		4 => {
			// drop a random subset (maybe an edge, maybe interior)
			let k = rng.range(1, n.max(1) as u64) as usize;
			for _ in 0..k {
				if !ids.is_empty() {
					ids.remove(rng.below(ids.len() as u64) as usize);
				}
			}
			out.count("reply.subset");
		}
		5 => {
			// drop exactly one interior entry
			if n >= 3 {
				let victim = start as i128 + rng.range(1, n as u64 - 2) as i128;
				ids.retain(|x| *x != victim);
			}
			out.count("reply.missing-interior");
		}
		6 => {
			// duplicate one id (the later one wins)
			let d = ids[rng.below(ids.len() as u64) as usize];
			let pos = rng.below(ids.len() as u64 + 1) as usize;
			ids.insert(pos, d);
			out.count("reply.duplicate");
		}
		7 => {
			// duplicate replaces another entry (one missing, one doubled)
			if ids.len() >= 2 {
				let i = rng.below(ids.len() as u64) as usize;
				let j = (i + 1 + rng.below(ids.len() as u64 - 1) as usize) % ids.len();
				ids[i] = ids[j];
			}
			out.count("reply.dup-replaces");
		}
		8 => {
			// foreign id: just outside the range, or far away
			let f = match rng.below(5) {
				0 => start as i128 - 1,
				1 => start as i128 + n as i128,
				2 => start as i128 + n as i128 + rng.range(1, 5) as i128,
				3 => 18446744073709551615i128,
				_ => rng.below(3) as i128,
			};
			if f >= 0 {
				let pos = rng.below(ids.len() as u64 + 1) as usize;
				if rng.chance(1, 2) && !ids.is_empty() {
					let last = ids.len() - 1;
					ids[pos.min(last)] = f;
				} else {
					ids.insert(pos, f);
				}
			}
			out.count("reply.foreign-id");
		}
		9 => {
			// an id that is not a number at all
			let bad = *rng.pick(&["null", "\"x\"", "\"\"", "\"-1\"", "\"1.0\"", "\"18446744073709551616\"", "\"+\""]);
			extra.push(entry(rng, bad, 99));
			out.count("reply.non-numeric-id");
		}
		10 => {
			// notifications / subscription notifications mixed into the array
			extra.push("{\"jsonrpc\":\"2.0\",\"method\":\"other\",\"params\":[1]}".into());
			if rng.chance(1, 2) {
				extra.push("{\"jsonrpc\":\"2.0\",\"method\":\"sub\",\"params\":{\"subscription\":\"nobody\",\"result\":1}}".into());
			}
			out.count("reply.with-notifications");
		}
		14 => {
			// the reply shares its array with server pushes of every kind, at any position
			for _ in 0..rng.range(1, 3) {
				extra.push(push_object(rng, &["\"S0\"".to_string(), "\"S1\"".to_string(), "\"S2\"".to_string(), "\"S3\"".to_string()]));
			}
			out.count("reply.mixed-with-pushes");
		}
		11 => {
			ids.clear();
			out.count("reply.empty-array");
		}
		12 => {
			// only one entry
			ids.truncate(1);
			out.count("reply.single-entry");
		}
		_ => {
			// garbage element
			extra.push((*rng.pick(&["1", "{}", "{\"id\":1}", "[]", "\"x\""])).to_string());
			out.count("reply.garbage-element");
		}
	}
	let mut parts: Vec<String> = vec![];
	for id in &ids {
		let idj = id_json(rng, *id as u64, str_ids);
		parts.push(match ty {
			Some((t, bad)) => entry_t(rng, &idj, (*id as u64) % 1000, t, bad),
			None => entry(rng, &idj, (*id as u64) % 1000),
		});
	}
	for e in extra {
		let pos = rng.below(parts.len() as u64 + 1) as usize;
		parts.insert(pos, e);
	}
	format!("[{}]", parts.join(","))
}

/// a complete reply for `start..start+n` in which one element is replaced by a text that is no legal message
fn gen_near_reply(rng: &mut Rng, out: &mut Out, start: u64, n: usize, str_ids: bool) -> String {
	let mut parts: Vec<String> = (0..n as u64)
		.map(|i| {
			let idj = if str_ids { format!("\"{}\"", start + i) } else { (start + i).to_string() };
			entry(rng, &idj, i)
		})
		.collect();
	let victim = rng.below(n as u64) as usize;
	let idj = if str_ids { format!("\"{}\"", start + victim as u64) } else { (start + victim as u64).to_string() };
	loop {
		let (name, text) = near_miss(rng, &idj);
		// (as an array element: objects only — a bare `[]` or scalar element is covered by `reply.garbage-element`)
		if text.starts_with('{') {
			out.count(name);
			parts[victim] = text;
			break;
		}
	}
	format!("[{}]", parts.join(","))
}

fn single_reply(rng: &mut Rng, id: u64, str_ids: bool) -> String {
	let idj = if str_ids { format!("\"{id}\"") } else { id.to_string() };
	entry(rng, &idj, id)
}

/// result type of a random batch: raw (`None`) or one of the typed kinds with a per-entry probability (percent)
/// of a result of another JSON type
fn pick_type(rng: &mut Rng, raw_only: bool) -> Option<(&'static str, u64)> {
	if raw_only || rng.chance(1, 2) {
		return None;
	}
	let t = *rng.pick(&TYPED_KINDS);
	Some((t, *rng.pick(&[0u64, 0, 15, 40, 100])))
}

/// One WS case: calls and batches in flight together, answered in random order.
fn gen_ws_case(rng: &mut Rng, out: &mut Out, caseno: u64, perm_case: Option<(usize, Vec<usize>)>) -> Vec<String> {
	let str_ids = rng.chance(1, 3);
	let cap = rng.range(1, 4);
	let fcap = if perm_case.is_some() { 64 } else { pick_fcap(rng, |k| out.count(k)) };
	let opts = case_opts(rng, |k| out.count(k));
	let mut lines = vec![format!("case {caseno} client {} {cap} {fcap}{opts}", if str_ids { "str" } else { "num" })];
	let gate_shut = perm_case.is_none() && rng.chance(1, 10);
	if gate_shut {
		out.count("config.gate-shut-while-sending");
		lines.push("cl gate shut".into());
	}
	let mut next_id = 0u64;
	let mut next_op = 0usize;
	// (kind, start, n, type, op): kind 0 = call, 1 = batch, 2 = batch answered with the given permutation, 3 = subscribe
	let mut open: Vec<(u8, u64, usize, Option<(&'static str, u64)>, usize)> = vec![];
	let n_front = if perm_case.is_some() { rng.range(1, 3) } else { rng.range(1, 5) };
	let mut perm_slot = perm_case.as_ref().map(|_| rng.below(n_front) as usize);
	for i in 0..n_front as usize {
		let force_batch = perm_slot == Some(i);
		if force_batch || rng.chance(3, 5) {
			let n = if force_batch { perm_case.as_ref().unwrap().0 } else { rng.range(1, 5) as usize };
			let ty = pick_type(rng, force_batch);
			match ty {
				Some((t, _)) => lines.push(format!("cl tbatch {t} {n}")),
				None => lines.push(format!("cl batch {n}")),
			}
			open.push((if force_batch { 2 } else { 1 }, next_id, n, ty, next_op));
			// the whole range `next_id .. next_id + n` is reserved for the entries
			next_id += n as u64;
			next_op += 1;
		} else {
			lines.push("cl call".into());
			open.push((0, next_id, 1, None, next_op));
			next_id += 1;
			next_op += 1;
		}
		// the rest of the API in between: notifications, subscriptions, handlers, is_connected
		if perm_case.is_none() && rng.chance(1, 3) {
			match rng.below(5) {
				0 => {
					out.count("api.notification");
					lines.push("cl notify".into());
					next_id += 1;
				}
				1 => {
					out.count("api.subscribe");
					lines.push("cl subscribe".into());
					open.push((3, next_id, 1, None, next_op));
					next_id += 2;
					next_op += 1;
				}
				2 => {
					out.count("api.subscribe_to_method");
					lines.push(format!("cl regnotif {}", hexs(*rng.pick(&["m", "other", "sub"]))));
					next_op += 1;
				}
				3 => lines.push("cl connected".into()),
				_ => {
					// the second time: the same batch again
					out.count("second.identical-batch");
					let n = rng.range(1, 3) as usize;
					for _ in 0..2 {
						lines.push(format!("cl batch {n}"));
						open.push((1, next_id, n, None, next_op));
						next_id += n as u64;
						next_op += 1;
					}
				}
			}
		}
	}
	if gate_shut {
		lines.push("cl gate open".into());
	}
	if perm_slot.is_some() {
		perm_slot = None;
	}
	let _ = perm_slot;
	// answer in random order; sometimes leave one unanswered, sometimes answer twice
	while !open.is_empty() {
		let i = rng.below(open.len() as u64) as usize;
		let (kind, start, n, ty, op) = open.remove(i);
		if rng.chance(1, 12) {
			continue; // omitted
		}
		if kind == 1 && rng.chance(1, 12) {
			// an element that is no legal message: the connection is given up, then the API once more
			if rng.chance(1, 3) {
				// a binary frame whose bytes are no UTF-8: the complete, well-formed reply with one damaged character
				// inside the string result of its first entry
				let idt = |i: u64| if str_ids { format!("\"{}\"", start + i) } else { (start + i).to_string() };
				let mut es: Vec<String> = (0..n as u64).map(|i| format!("{{\"jsonrpc\":\"2.0\",\"id\":{},\"result\":{i}}}", idt(i))).collect();
				es[0] = format!("{{\"jsonrpc\":\"2.0\",\"id\":{},\"result\":\"caf\u{e9}!\"}}", idt(0));
				es.reverse();
				out.count("utf8.in.batch-reply");
				let bytes = utf8_damage(rng, &format!("[{}]", es.join(",")), |k| out.count(k));
				lines.push(format!("cl deliverx {} bin", hex(&bytes)));
			} else {
				let text = gen_near_reply(rng, out, start, n, str_ids);
				lines.push(format!("cl deliverx {}", hexs(&text)));
			}
			out.count("second.api-after-connection-given-up");
			lines.push(format!("cl batch {}", rng.range(1, 3)));
			lines.push("cl connected".into());
			break;
		}
		let text = match kind {
			0 => single_reply(rng, start, str_ids),
			2 => gen_reply(rng, out, start, n, str_ids, Some(&perm_case.as_ref().unwrap().1), None),
			3 => {
				let idj = if str_ids { format!("\"{start}\"") } else { start.to_string() };
				if rng.chance(1, 4) {
					format!("{{\"jsonrpc\":\"2.0\",\"id\":{idj},\"error\":{}}}", odd_error(rng))
				} else {
					format!("{{\"jsonrpc\":\"2.0\",\"id\":{idj},\"result\":\"S{start}\"}}")
				}
			}
			_ => gen_reply(rng, out, start, n, str_ids, None, ty),
		};
		// the mock server says whom it is answering (`for=<op>`) — unless this reply deliberately carries an id that
		// belongs to another operation of the case (then the ids, not the intention, address it)
		let width = if kind == 3 { 2 } else { n as u64 };
		let strays = reply_entries(&text)
			.iter()
			.chain(single_entry(&text).iter())
			.filter_map(|(id, _)| id_number(id))
			.any(|i| !(start..start + width).contains(&i) && i < next_id);
		let tag = if strays { String::new() } else { format!(" for={op}") };
		lines.push(format!("{}{tag}", deliver_line(rng, &text, |k| out.count(k))));
		if rng.chance(1, 15) {
			out.count("second.same-reply-again");
			lines.push(format!("cl deliver {}{tag}", hexs(&text))); // duplicate answer
		}
		if kind == 1 && !open.is_empty() && rng.chance(1, 8) {
			// the same reply with its first and last entry cut off, while other batches are pending: it must never
			// complete one of them
			if let Ok(Value::Array(a)) = serde_json::from_str::<Value>(&text) {
				if a.len() >= 3 {
					out.count("reply.inner-part-again");
					lines.push(format!("cl deliver {}{tag}", hexs(&Value::Array(a[1..a.len() - 1].to_vec()).to_string())));
				}
			}
		}
	}
	lines
}

fn gen_http_case(rng: &mut Rng, out: &mut Out, caseno: u64, perm_case: Option<(usize, Vec<usize>)>) -> Vec<String> {
	let str_ids = rng.chance(1, 3);
	let hopts = match rng.below(4) {
		0 => {
			out.count("config.http.max-concurrent-1");
			" mc=1"
		}
		1 => {
			out.count("config.http.max-concurrent-2+timeout-small");
			" mc=2,t=60"
		}
		2 => {
			out.count("config.http.timeout-huge");
			" t=1000000000"
		}
		_ => {
			out.count("config.http.default");
			""
		}
	};
	let mut lines = vec![format!("case {caseno} httpc {}{hopts}", if str_ids { "str" } else { "num" })];
	let mut next_id = 0u64;
	let k = if perm_case.is_some() { 1 } else { rng.range(1, 4) };
	let pre = rng.below(3);
	for _ in 0..pre {
		let rid = if rng.chance(1, 6) { next_id + 1 } else { next_id };
		if rng.chance(1, 10) {
			let idj = if str_ids { format!("\"{rid}\"") } else { rid.to_string() };
			let (name, text) = near_miss(rng, &idj);
			out.count(name);
			lines.push(format!("hc callx {}", hexs(&text)));
		} else {
			let t = single_reply(rng, rid, str_ids);
			lines.push(format!("hc call {}", hexs(&maybe_respell(rng, &t, |k| out.count(k)))));
		}
		next_id += 1;
		if rng.chance(1, 4) {
			lines.push((*rng.pick(&["hc notify", "hc subscribe"])).to_string());
		}
	}
	for _ in 0..k {
		let used: u64;
		match &perm_case {
			Some((n, p)) => {
				let r = gen_reply(rng, out, next_id, *n, str_ids, Some(p), None);
				lines.push(format!("hc batch {n} {}", hexs(&r)));
				used = *n as u64;
			}
			None => {
				let n = rng.range(1, 5) as usize;
				used = n as u64;
				let ty = pick_type(rng, false);
				if rng.chance(1, 12) {
					let r = gen_near_reply(rng, out, next_id, n, str_ids);
					match ty {
						Some((t, _)) => lines.push(format!("hc tbatchx {t} {n} {}", hexs(&r))),
						None => lines.push(format!("hc batchx {n} {}", hexs(&r))),
					}
				} else {
					let r = if rng.chance(1, 25) { "{\"not\":\"an array\"}".to_string() } else { gen_reply(rng, out, next_id, n, str_ids, None, ty) };
					let r = maybe_respell(rng, &r, |k| out.count(k));
					match ty {
						Some((t, _)) => lines.push(format!("hc tbatch {t} {n} {}", hexs(&r))),
						None => lines.push(format!("hc batch {n} {}", hexs(&r))),
					}
					if rng.chance(1, 8) {
						// the second time: the same batch, the same reply (its ids are those of the first batch)
						out.count("second.identical-batch");
						next_id += n as u64;
						match ty {
							Some((t, _)) => lines.push(format!("hc tbatch {t} {n} {}", hexs(&r))),
							None => lines.push(format!("hc batch {n} {}", hexs(&r))),
						}
					}
				}
				if rng.chance(1, 5) {
					lines.push((*rng.pick(&["hc notify", "hc subscribe"])).to_string());
				}
			}
		}
		next_id += used;
	}
	lines
}

fn main() {
	let a = args();
	let mut out = Out::new();
	let mut lines: Vec<String> = vec![];
	if let Some(r) = &a.replay {
		lines = read_case_lines(r);
	} else {
		lines.extend(corpus_lines("C12"));
		let n = a.cases.unwrap_or(if a.tier == "thorough" { 30000 } else { 2000 });
		let mut rng = Rng::new(a.seed);
		let mut caseno = 0u64;
		// every permutation of the complete reply for n <= 4 (quick) / n <= 5 (thorough), both clients
		let max_perm_n = if a.tier == "thorough" { 5 } else { 4 };
		for pn in 1..=max_perm_n {
			for p in permutations(pn) {
				caseno += 1;
				lines.extend(gen_ws_case(&mut rng, &mut out, caseno, Some((pn, p.clone()))));
				caseno += 1;
				lines.extend(gen_http_case(&mut rng, &mut out, caseno, Some((pn, p))));
			}
		}
		// typed batches: every type x n <= 4 x {no / each single / all} position(s) of another JSON type, with and
		// without an error entry, reply in request order and reversed, both clients
		for http in [false, true] {
			for ty in TYPED_KINDS {
				for tn in 1..=4usize {
					let mut pats: Vec<Vec<usize>> = vec![vec![], (0..tn).collect()];
					for p in 0..tn {
						pats.push(vec![p]);
					}
					for bad in &pats {
						for reversed in [false, true] {
							caseno += 1;
							lines.extend(gen_typed_directed(&mut rng, http, caseno, ty, tn, bad, &[], reversed));
							if tn >= 2 {
								let e = rng.below(tn as u64) as usize;
								caseno += 1;
								lines.extend(gen_typed_directed(&mut rng, http, caseno, ty, tn, bad, &[e], reversed));
							}
						}
					}
				}
			}
		}
		for _ in 0..n {
			caseno += 1;
			if rng.chance(3, 5) {
				lines.extend(gen_ws_case(&mut rng, &mut out, caseno, None));
			} else {
				lines.extend(gen_http_case(&mut rng, &mut out, caseno, None));
			}
		}
	}
	for case in split_cases(&lines) {
		if case[0].contains(" httpc ") {
			run_http_case(&mut out, &case);
		} else {
			run_ws_case(&mut out, &case);
		}
	}
	out.write(&a.out);
	if a.replay.is_some() {
		for i in 0..out.ops.len() {
			println!("op:     {}\nimpl:   {}\noracle: {}", out.ops[i], out.impl_[i], out.oracle[i]);
		}
	}
}
