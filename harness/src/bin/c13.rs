//! C13 — method registry: names are unique and failed registrations change nothing.
//!
//! Real `RpcModule<()>` / `Methods` values live in a slot table; one op per line is applied to
//! them and to a model-independent oracle made of plain `BTreeMap`s (one *deep-copied* map per
//! handle, so sharing never enters the oracle).
//!
//! Line protocol (model side: lean/JrpcVerif/Driver/RegistryFamily.lean):
//!   case <n> registry
//!   R.new mod|methods                         -> h:<i>
//!   R.reg|R.regasync|R.regblocking <h> <name> <tag>
//!   R.regsub <h> <sub> <unsub> <tag>
//!   R.alias <h> <alias> <existing>
//!   R.merge <dst> <src>                       (src is moved into the call)
//!   R.remove <h> <name>
//!   R.clone <h> | R.clonem <h>                (`x.clone()` / `Methods::from(x.clone())`)
//!   R.drop <h>
//!   R.call <h> <name>
//!   R.names <h>
//!
//! Every callback answers with the serial tag given at registration, so *which* handler is bound
//! is observable: sync/async/blocking handlers return the tag, a subscription handler accepts and
//! sends the tag as its first notification, and the library-generated unsubscribe handler is
//! identified by the subscription whose `Subscribers` table it shares (subscribe through the
//! stashed subscribe callback of tag t with the handler held open, then unsubscribe through the
//! handler under test: `true` iff it belongs to t).
//!
//! Oracle, after EVERY op, for EVERY live handle: sorted `method_names()` == keys of the handle's
//! map, and for every name of the alphabet the handler reached by a real call (kind + tag, or
//! -32601) == the map's binding.  The maps are updated only by the property's own rule: a failing
//! op changes nothing (a failed merge only consumes its argument), a successful op adds exactly the
//! named entries; whether an op must fail is decided from the maps (taken name / equal
//! subscription names / missing alias target / shared name).
use std::collections::{BTreeMap, BTreeSet, HashMap};
use std::sync::{Arc, Mutex, OnceLock};

use jrpc_harness::common::*;
use jsonrpsee_core::RegisterMethodError;
use jsonrpsee_core::server::{MethodCallback, MethodResponse, Methods, ResponsePayload, RpcModule};

// two names differ from another only by surrounding (non-ASCII) white space: names are compared exactly
const ALPHABET: [&str; 7] = ["say_hello", "add", "chain_subscribe", "chain_unsubscribe", "state_get", "say_hello\u{a0}", "\u{2003}add"];
const SMALL: [&str; 2] = ["a", "b"];

fn intern(s: &str) -> &'static str {
	static T: OnceLock<Mutex<HashMap<String, &'static str>>> = OnceLock::new();
	let mut t = T.get_or_init(Default::default).lock().unwrap();
	if let Some(x) = t.get(s) {
		return x;
	}
	let l: &'static str = Box::leak(s.to_string().into_boxed_str());
	t.insert(s.to_string(), l);
	l
}

fn valid_name(s: &str) -> bool {
	!s.is_empty() && !s.chars().any(|c| c == ':' || c == ',' || c == '*' || c == ' ')
}

#[derive(Clone, Copy, PartialEq, Eq, Debug)]
enum Kind {
	Sync,
	Async,
	Subscription,
	Unsubscription,
}
impl Kind {
	fn s(self) -> &'static str {
		match self {
			Kind::Sync => "Sync",
			Kind::Async => "Async",
			Kind::Subscription => "Subscription",
			Kind::Unsubscription => "Unsubscription",
		}
	}
	fn of(cb: &MethodCallback) -> Kind {
		match cb {
			MethodCallback::Sync(_) => Kind::Sync,
			MethodCallback::Async(_) => Kind::Async,
			MethodCallback::Subscription(_) => Kind::Subscription,
			MethodCallback::Unsubscription(_) => Kind::Unsubscription,
		}
	}
}

enum Slot {
	Module(RpcModule<()>),
	Methods(Methods),
}
impl Slot {
	fn methods(&self) -> &Methods {
		match self {
			Slot::Module(m) => m,
			Slot::Methods(m) => m,
		}
	}
	fn methods_mut(&mut self) -> &mut Methods {
		match self {
			Slot::Module(m) => m,
			Slot::Methods(m) => m,
		}
	}
	fn is_module(&self) -> bool {
		matches!(self, Slot::Module(_))
	}
}

type Map = BTreeMap<String, (Kind, u64)>;

struct Case {
	slots: Vec<Option<Slot>>,
	/// the oracle: per handle (is it an RpcModule, name -> (kind, tag)); `None` = gone
	oracle: Vec<Option<(bool, Map)>>,
	/// subscribe callbacks stashed right after a successful `regsub`, keyed "t<tag>"
	side: Methods,
	sub_tags: Vec<u64>,
	/// names that ever appeared in this case (swept after every op, together with the alphabet)
	seen: BTreeSet<&'static str>,
	/// share groups, only for the statistics ("was the table shared when it was written")
	grp: Vec<u32>,
	next_grp: u32,
	rt: tokio::runtime::Runtime,
}

fn err_canon(e: &RegisterMethodError, hide: bool) -> String {
	match e {
		RegisterMethodError::AlreadyRegistered(n) => {
			if hide {
				"E:already:*".into()
			} else {
				format!("E:already:{n}")
			}
		}
		RegisterMethodError::SubscriptionNameConflict(n) => format!("E:subconflict:{n}"),
		RegisterMethodError::MethodNotFound(n) => format!("E:notfound:{n}"),
	}
}

/// One real request through `Methods::raw_json_request`; returns (error code | result value, receiver).
async fn request(m: &Methods, name: &str, params: Option<String>) -> Result<(serde_json::Value, tokio::sync::mpsc::Receiver<Box<serde_json::value::RawValue>>), String> {
	let req = match params {
		Some(p) => format!(r#"{{"jsonrpc":"2.0","id":0,"method":"{name}","params":{p}}}"#),
		None => format!(r#"{{"jsonrpc":"2.0","id":0,"method":"{name}"}}"#),
	};
	let (resp, rx) = m.raw_json_request(&req, 8).await.map_err(|e| format!("raw_json_request: {e}"))?;
	let v: serde_json::Value = serde_json::from_str(resp.get()).map_err(|e| format!("response not JSON: {e}"))?;
	Ok((v, rx))
}

impl Case {
	fn new() -> Case {
		Case {
			slots: vec![],
			oracle: vec![],
			side: Methods::new(),
			sub_tags: vec![],
			seen: ALPHABET.iter().copied().collect(),
			grp: vec![],
			next_grp: 0,
			rt: tokio::runtime::Builder::new_current_thread().enable_time().build().unwrap(),
		}
	}

	/// Which handler does `name` reach in `m`?  `Ok("E:-32601")`, `Ok("<Kind>:<tag>")`.
	fn dispatch(&self, m: &Methods, name: &str, full: bool) -> Result<String, String> {
		let kind = m.method(name).map(Kind::of);
		self.rt.block_on(async {
			let (v, mut rx) = request(m, name, None).await?;
			if let Some(e) = v.get("error") {
				let code = e.get("code").and_then(|c| c.as_i64()).unwrap_or(0);
				if kind.is_some() {
					return Err(format!("`{name}` is registered ({kind:?}) but the call answered error {code}"));
				}
				return Ok(format!("E:{code}"));
			}
			let kind = match kind {
				Some(k) => k,
				None => return Err(format!("`{name}` is not in the table but the call succeeded: {v}")),
			};
			let res = v.get("result").cloned().unwrap_or(serde_json::Value::Null);
			match kind {
				Kind::Sync | Kind::Async => {
					let tag = res.as_u64().ok_or_else(|| format!("non-numeric result {res}"))?;
					// the typed helper must agree with the raw path
					let typed: Result<u64, _> = m.call(name, jsonrpsee_core::EmptyServerParams::new()).await;
					match typed {
						Ok(t) if t == tag => {}
						other => return Err(format!("Methods::call(`{name}`) = {other:?} but raw_json_request gave {tag}")),
					}
					Ok(format!("{}:{tag}", kind.s()))
				}
				Kind::Subscription => {
					// first notification carries the tag
					let n = tokio::time::timeout(std::time::Duration::from_secs(5), rx.recv()).await.map_err(|_| "no notification from subscription handler".to_string())?;
					let n = n.ok_or("subscription stream closed without a notification")?;
					let nv: serde_json::Value = serde_json::from_str(n.get()).map_err(|e| e.to_string())?;
					let tag = nv["params"]["result"].as_u64().ok_or_else(|| format!("unexpected notification {nv}"))?;
					Ok(format!("{}:{tag}", kind.s()))
				}
				Kind::Unsubscription => {
					if res != serde_json::Value::Bool(false) {
						return Err(format!("unsubscribe without params answered {res}"));
					}
					if !full {
						return Ok("Unsubscription:?".into());
					}
					let mut owners = vec![];
					for t in &self.sub_tags {
						// open a subscription through the stashed subscribe callback of tag t, handler held open
						let (sv, _rx2) = request(&self.side, &format!("t{t}"), Some("[1]".into())).await?;
						let sid = sv.get("result").cloned().ok_or_else(|| format!("stashed subscribe t{t} failed: {sv}"))?;
						let (uv, _) = request(m, name, Some(format!("[{sid}]"))).await?;
						match uv.get("result") {
							Some(serde_json::Value::Bool(true)) => owners.push(*t),
							Some(serde_json::Value::Bool(false)) => {}
							_ => return Err(format!("unsubscribe answered {uv}")),
						}
					}
					if owners.len() == 1 {
						Ok(format!("Unsubscription:{}", owners[0]))
					} else {
						Err(format!("unsubscribe handler `{name}` shares its subscriber table with subscriptions {owners:?}"))
					}
				}
			}
		})
	}

	/// kind:tag of a callback value (by binding it in a scratch table and calling it there)
	fn identify(&self, cb: MethodCallback) -> Result<String, String> {
		let mut scratch = Methods::new();
		scratch.verify_and_insert("x", cb).map_err(|e| e.to_string())?;
		self.dispatch(&scratch, "x", true)
	}

	fn live(&self, h: usize) -> bool {
		h < self.slots.len() && self.slots[h].is_some()
	}

	/// The oracle's full sweep: every live handle's name set and every binding.
	fn sweep(&self, full_unsub: bool) -> Result<(), String> {
		if self.slots.len() != self.oracle.len() {
			return Err("slot table and oracle differ in length".into());
		}
		for (h, (slot, orc)) in self.slots.iter().zip(self.oracle.iter()).enumerate() {
			match (slot, orc) {
				(None, None) => {}
				(Some(slot), Some((im, map))) => {
					if *im != slot.is_module() {
						return Err(format!("handle {h}: kind mismatch"));
					}
					let mut names: Vec<&str> = slot.methods().method_names().collect();
					names.sort();
					let want: Vec<&str> = map.keys().map(|s| s.as_str()).collect();
					if names != want {
						return Err(format!("handle {h}: method_names() = {names:?}, the map built from the successful registrations is {want:?}"));
					}
					for n in &self.seen {
						let got = self.dispatch(slot.methods(), n, full_unsub).map_err(|e| format!("handle {h}: {e}"))?;
						let want = match map.get(*n) {
							None => "E:-32601".to_string(),
							Some((Kind::Unsubscription, _)) if !full_unsub => "Unsubscription:?".to_string(),
							Some((k, t)) => format!("{}:{t}", k.s()),
						};
						if got != want {
							return Err(format!("handle {h}: call `{n}` reached {got}, bound is {want}"));
						}
						// the other look-ups of the same table must agree with `method()` and the map
						let bound = map.contains_key(*n);
						let ms = slot.methods();
						match ms.method_with_name(n) {
							Some((k, _)) if bound && k == *n => {}
							None if !bound => {}
							other => return Err(format!("handle {h}: method_with_name(`{n}`) = {:?}, bound = {bound}", other.map(|(k, _)| k))),
						}
						if ms.method(n).is_some() != bound {
							return Err(format!("handle {h}: method(`{n}`).is_some() = {}, bound = {bound}", !bound));
						}
						let mut probe = ms.clone();
						if probe.verify_method_name(n).is_err() != bound {
							return Err(format!("handle {h}: verify_method_name(`{n}`) disagrees with the table: bound = {bound}"));
						}
					}
				}
				_ => return Err(format!("handle {h}: liveness differs")),
			}
		}
		Ok(())
	}

	fn bump_group(&mut self, h: usize, out: &mut Out) {
		let g = self.grp[h];
		let shared = (0..self.slots.len()).filter(|j| self.live(*j) && self.grp[*j] == g).count() > 1;
		if shared {
			out.count("write_while_shared");
			self.grp[h] = self.next_grp;
			self.next_grp += 1;
		} else {
			out.count("write_while_unique");
		}
	}

	/// Apply one op line to the implementation and to the oracle. Returns (impl output, oracle verdict, nontrivial).
	fn exec(&mut self, line: &str, out: &mut Out, sweep_full: bool) -> (String, Result<(), String>, bool) {
		let w: Vec<&str> = line.split(' ').filter(|s| !s.is_empty()).collect();
		let h_of = |s: &str| s.parse::<usize>().ok();
		macro_rules! bad {
			() => {
				return ("bad-op".into(), Ok(()), false)
			};
		}
		if w.is_empty() {
			bad!()
		}
		let verb = w[0];
		out.count(&format!("op:{verb}"));
		// ---------- parse
		let (got, want): (String, String) = match (verb, w.len()) {
			("R.new", 2) => {
				let im = match w[1] {
					"mod" => true,
					"methods" => false,
					_ => bad!(),
				};
				self.slots.push(Some(if im { Slot::Module(RpcModule::new(())) } else { Slot::Methods(Methods::new()) }));
				self.oracle.push(Some((im, Map::new())));
				self.grp.push(self.next_grp);
				self.next_grp += 1;
				let s = format!("h:{}", self.slots.len() - 1);
				(s.clone(), s)
			}
			("R.reg" | "R.regasync" | "R.regblocking", 4) => {
				let (Some(h), true, Ok(tag)) = (h_of(w[1]), valid_name(w[2]), w[3].parse::<u64>()) else { bad!() };
				let name = intern(w[2]);
				self.seen.insert(name);
				if !self.live(h) {
					("dead".into(), "dead".into())
				} else if verb != "R.reg" && !self.slots[h].as_ref().unwrap().is_module() {
					("unsupported".into(), "unsupported".into())
				} else {
					let kind = if verb == "R.reg" { Kind::Sync } else { Kind::Async };
					// oracle: fails iff the name is taken; success adds exactly (name -> kind, tag)
					let map = &mut self.oracle[h].as_mut().unwrap().1;
					let want = if map.contains_key(name) {
						format!("E:already:{name}")
					} else {
						map.insert(name.to_string(), (kind, tag));
						"ok".to_string()
					};
					let r = match self.slots[h].as_mut().unwrap() {
						Slot::Module(m) => match verb {
							"R.reg" => m.register_method(name, move |_, _, _| tag).map(|_| ()),
							"R.regasync" => m.register_async_method(name, move |_, _, _| async move { tag }).map(|_| ()),
							_ => m.register_blocking_method(name, move |_, _, _| tag).map(|_| ()),
						},
						Slot::Methods(me) => me
							.verify_and_insert(
								name,
								MethodCallback::Sync(Arc::new(move |id, _p, max, ext| MethodResponse::response(id, ResponsePayload::success(tag), max).with_extensions(ext))),
							)
							.map(|_| ()),
					};
					self.bump_group(h, out);
					(r.map(|_| "ok".to_string()).unwrap_or_else(|e| err_canon(&e, false)), want)
				}
			}
			("R.regsub", 5) => {
				let (Some(h), true, true, Ok(tag)) = (h_of(w[1]), valid_name(w[2]), valid_name(w[3]), w[4].parse::<u64>()) else { bad!() };
				let (sub, unsub) = (intern(w[2]), intern(w[3]));
				self.seen.insert(sub);
				self.seen.insert(unsub);
				if !self.live(h) {
					("dead".into(), "dead".into())
				} else if !self.slots[h].as_ref().unwrap().is_module() {
					("unsupported".into(), "unsupported".into())
				} else {
					let map = &mut self.oracle[h].as_mut().unwrap().1;
					let want = if sub == unsub {
						format!("E:subconflict:{sub}")
					} else if map.contains_key(sub) {
						format!("E:already:{sub}")
					} else if map.contains_key(unsub) {
						format!("E:already:{unsub}")
					} else {
						map.insert(sub.to_string(), (Kind::Subscription, tag));
						map.insert(unsub.to_string(), (Kind::Unsubscription, tag));
						"ok".to_string()
					};
					let Some(Slot::Module(m)) = self.slots[h].as_mut() else { unreachable!() };
					// the two ways to register a subscription take turns (the registry must not care)
					let r = if (tag + sub.len() as u64) % 2 == 0 {
						m.register_subscription(sub, "notif", unsub, move |params, pending, _, _| async move {
							let hold = params.one::<u64>().is_ok();
							if let Ok(sink) = pending.accept().await {
								if hold {
									futures_util::future::pending::<()>().await;
								} else {
									let _ = sink.send(serde_json::value::to_raw_value(&tag).unwrap()).await;
								}
							}
						})
						.map(|_| ())
					} else {
						out.count("regsub_raw");
						m.register_subscription_raw(sub, "notif", unsub, move |params, pending, _, _| {
							let hold = params.one::<u64>().is_ok();
							tokio::spawn(async move {
								if let Ok(sink) = pending.accept().await {
									if hold {
										futures_util::future::pending::<()>().await;
									} else {
										let _ = sink.send(serde_json::value::to_raw_value(&tag).unwrap()).await;
									}
								}
							});
						})
						.map(|_| ())
					};
					if r.is_ok() {
						let cb = m.method(sub).cloned().expect("just registered");
						let _ = self.side.verify_and_insert(intern(&format!("t{tag}")), cb);
						if !self.sub_tags.contains(&tag) {
							self.sub_tags.push(tag);
						}
					}
					self.bump_group(h, out);
					(r.map(|_| "ok".to_string()).unwrap_or_else(|e| err_canon(&e, false)), want)
				}
			}
			("R.alias", 4) => {
				let (Some(h), true, true) = (h_of(w[1]), valid_name(w[2]), valid_name(w[3])) else { bad!() };
				let (al, ex) = (intern(w[2]), intern(w[3]));
				self.seen.insert(al);
				self.seen.insert(ex);
				if !self.live(h) {
					("dead".into(), "dead".into())
				} else if !self.slots[h].as_ref().unwrap().is_module() {
					("unsupported".into(), "unsupported".into())
				} else {
					let map = &mut self.oracle[h].as_mut().unwrap().1;
					let want = if map.contains_key(al) {
						format!("E:already:{al}")
					} else if let Some(b) = map.get(ex).copied() {
						map.insert(al.to_string(), b);
						"ok".to_string()
					} else {
						format!("E:notfound:{ex}")
					};
					let Some(Slot::Module(m)) = self.slots[h].as_mut() else { unreachable!() };
					let r = m.register_alias(al, ex);
					self.bump_group(h, out);
					(r.map(|_| "ok".to_string()).unwrap_or_else(|e| err_canon(&e, false)), want)
				}
			}
			("R.merge", 3) => {
				let (Some(d), Some(s)) = (h_of(w[1]), h_of(w[2])) else { bad!() };
				if !self.live(d) || !self.live(s) {
					("dead".into(), "dead".into())
				} else if d == s {
					("self".into(), "self".into())
				} else {
					let (_, other) = self.oracle[s].take().unwrap();
					let map = &mut self.oracle[d].as_mut().unwrap().1;
					let shared: Vec<String> = other.keys().filter(|k| map.contains_key(*k)).cloned().collect();
					let want = if shared.is_empty() {
						out.count(&format!("merge_ok_size:{}", other.len()));
						map.extend(other);
						"ok".to_string()
					} else {
						out.count(&format!("merge_conflict_shared:{}", shared.len()));
						"E:already:*".to_string()
					};
					let src = self.slots[s].take().unwrap();
					let dst = self.slots[d].as_mut().unwrap().methods_mut();
					let r = match src {
						Slot::Module(m) => dst.merge(m),
						Slot::Methods(me) => dst.merge(me),
					};
					self.bump_group(d, out);
					let got = match &r {
						Ok(()) => "ok".to_string(),
						Err(e) => {
							// the reported name depends on hash order; it must be one of the shared names
							if let RegisterMethodError::AlreadyRegistered(n) = e {
								if !shared.contains(n) {
									return ("E:already:*".into(), Err(format!("merge reported `{n}` which is not a shared name {shared:?}")), true);
								}
							}
							err_canon(e, true)
						}
					};
					(got, want)
				}
			}
			("R.remove", 3) => {
				let (Some(h), true) = (h_of(w[1]), valid_name(w[2])) else { bad!() };
				let name = intern(w[2]);
				self.seen.insert(name);
				if !self.live(h) {
					("dead".into(), "dead".into())
				} else if !self.slots[h].as_ref().unwrap().is_module() {
					("unsupported".into(), "unsupported".into())
				} else {
					let map = &mut self.oracle[h].as_mut().unwrap().1;
					let want = match map.remove(name) {
						Some((k, t)) => format!("removed:{}:{t}", k.s()),
						None => "removed:none".to_string(),
					};
					let Some(Slot::Module(m)) = self.slots[h].as_mut() else { unreachable!() };
					let r = m.remove_method(name);
					self.bump_group(h, out);
					let got = match r {
						None => "removed:none".to_string(),
						Some(cb) => match self.identify(cb) {
							Ok(s) => format!("removed:{s}"),
							Err(e) => return ("removed:?".into(), Err(e), true),
						},
					};
					(got, want)
				}
			}
			("R.clone" | "R.clonem", 2) => {
				let Some(h) = h_of(w[1]) else { bad!() };
				if !self.live(h) {
					("dead".into(), "dead".into())
				} else {
					let freeze = verb == "R.clonem";
					let new = match self.slots[h].as_ref().unwrap() {
						Slot::Module(m) if freeze => Slot::Methods(Methods::from(m.clone())),
						Slot::Module(m) => Slot::Module(m.clone()),
						Slot::Methods(me) => Slot::Methods(me.clone()),
					};
					let (im, map) = self.oracle[h].clone().unwrap();
					self.oracle.push(Some((im && !freeze, map)));
					self.slots.push(Some(new));
					self.grp.push(self.grp[h]);
					let s = format!("h:{}", self.slots.len() - 1);
					(s.clone(), s)
				}
			}
			("R.drop", 2) => {
				let Some(h) = h_of(w[1]) else { bad!() };
				if !self.live(h) {
					("dead".into(), "dead".into())
				} else {
					self.slots[h] = None;
					self.oracle[h] = None;
					("ok".into(), "ok".into())
				}
			}
			("R.call", 3) => {
				let (Some(h), true) = (h_of(w[1]), valid_name(w[2])) else { bad!() };
				let name = intern(w[2]);
				self.seen.insert(name);
				if !self.live(h) {
					("dead".into(), "dead".into())
				} else {
					let want = match self.oracle[h].as_ref().unwrap().1.get(name) {
						Some((k, t)) => format!("called:{}:{t}", k.s()),
						None => "E:-32601".to_string(),
					};
					let got = match self.dispatch(self.slots[h].as_ref().unwrap().methods(), name, true) {
						Ok(s) if s.starts_with("E:") => s,
						Ok(s) => format!("called:{s}"),
						Err(e) => return ("called:?".into(), Err(e), true),
					};
					out.count(if got.starts_with("E:") { "call_not_found" } else { "call_dispatched" });
					(got, want)
				}
			}
			("R.names", 2) => {
				let Some(h) = h_of(w[1]) else { bad!() };
				if !self.live(h) {
					("dead".into(), "dead".into())
				} else {
					let mut names: Vec<&str> = self.slots[h].as_ref().unwrap().methods().method_names().collect();
					names.sort();
					let want: Vec<&str> = self.oracle[h].as_ref().unwrap().1.keys().map(|s| s.as_str()).collect();
					(format!("names:{}", names.join(",")), format!("names:{}", want.join(",")))
				}
			}
			_ => bad!(),
		};
		let key = if got.starts_with("E:already") {
			"E:already".to_string()
		} else if got.starts_with("E:") {
			got.split(':').take(2).collect::<Vec<_>>().join(":")
		} else {
			got.split(':').next().unwrap().to_string()
		};
		out.count(&format!("out:{verb}:{key}"));
		let nontrivial = got != "dead" && got != "unsupported" && got != "self";
		if got != want {
			return (got.clone(), Err(format!("`{line}` answered {got}; by the statement's rule on the maps before the op it must answer {want}")), nontrivial);
		}
		// every handle, every name: unchanged unless the rule says so
		let verdict = self.sweep(sweep_full);
		(got, verdict, nontrivial)
	}
}

// ------------------------------------------------------------------------------------------------
// generator

struct Gen<'a> {
	rng: &'a mut Rng,
	tag: u64,
	names: &'a [&'static str],
}

impl Gen<'_> {
	fn next_tag(&mut self) -> u64 {
		self.tag += 1;
		self.tag
	}
	fn live_handles(c: &Case) -> Vec<usize> {
		(0..c.slots.len()).filter(|h| c.live(*h)).collect()
	}
	fn free_name(&mut self, map: &Map) -> Option<&'static str> {
		let f: Vec<&'static str> = self.names.iter().copied().filter(|n| !map.contains_key(*n)).collect();
		if f.is_empty() { None } else { Some(*self.rng.pick(&f)) }
	}
	fn taken_name(&mut self, map: &Map) -> Option<&'static str> {
		let f: Vec<&'static str> = self.names.iter().copied().filter(|n| map.contains_key(*n)).collect();
		if f.is_empty() { None } else { Some(*self.rng.pick(&f)) }
	}
	fn any_name(&mut self) -> &'static str {
		*self.rng.pick(self.names)
	}
	/// a registration line: ≈30 % on a taken name, else on a free one (a full module first loses a name)
	fn reg_lines(&mut self, verb: &str, h: usize, im: bool, map: &Map) -> Vec<String> {
		let t = self.next_tag();
		let conflict = self.rng.chance(3, 10);
		if conflict {
			let n = self.taken_name(map).unwrap_or_else(|| self.any_name());
			return vec![format!("{verb} {h} {n} {t}")];
		}
		match self.free_name(map) {
			Some(n) => vec![format!("{verb} {h} {n} {t}")],
			None if im => {
				let n = self.any_name();
				vec![format!("R.remove {h} {n}"), format!("{verb} {h} {n} {t}")]
			}
			None => vec![format!("{verb} {h} {} {t}", self.any_name())],
		}
	}

	/// the next op lines (one op, or a short group such as "build a module and merge it")
	fn next_ops(&mut self, c: &Case) -> Vec<String> {
		let live = Self::live_handles(c);
		if live.is_empty() {
			return vec![format!("R.new {}", if self.rng.chance(4, 5) { "mod" } else { "methods" })];
		}
		// 2 in 5: a handle whose table is currently shared with a clone (copy-on-write path)
		let shared: Vec<usize> = live.iter().copied().filter(|j| live.iter().any(|k| k != j && c.grp[*k] == c.grp[*j])).collect();
		let h = if !shared.is_empty() && self.rng.chance(2, 5) { *self.rng.pick(&shared) } else { *self.rng.pick(&live) };
		let (im, map) = c.oracle[h].clone().unwrap();
		// prefer modules for the module-only functions
		let mods: Vec<usize> = live.iter().copied().filter(|j| c.oracle[*j].as_ref().unwrap().0).collect();
		let hm = if mods.is_empty() || self.rng.chance(1, 20) { h } else { *self.rng.pick(&mods) };
		let mapm = c.oracle[hm].as_ref().unwrap().1.clone();
		match self.rng.below(100) {
			0..=13 => self.reg_lines("R.reg", h, im, &map),
			14..=23 => self.reg_lines("R.regasync", hm, true, &mapm),
			24..=27 => self.reg_lines("R.regblocking", hm, true, &mapm),
			28..=39 => {
				let t = self.next_tag();
				let mut pre = vec![];
				let mut mapm = mapm.clone();
				// a subscription needs two free names: make room in a crowded module
				while self.names.len() >= 2 && self.names.iter().filter(|n| !mapm.contains_key(**n)).count() < 2 && self.rng.chance(3, 4) {
					let n = self.taken_name(&mapm).unwrap();
					mapm.remove(n);
					pre.push(format!("R.remove {hm} {n}"));
				}
				let (a, b) = match self.rng.below(10) {
					0 => {
						let n = self.any_name();
						(n, n)
					}
					1 => (self.taken_name(&mapm).unwrap_or_else(|| self.any_name()), self.free_name(&mapm).unwrap_or_else(|| self.any_name())),
					2 => (self.free_name(&mapm).unwrap_or_else(|| self.any_name()), self.taken_name(&mapm).unwrap_or_else(|| self.any_name())),
					_ => {
						let a = self.free_name(&mapm).unwrap_or_else(|| self.any_name());
						let mut m2 = mapm.clone();
						m2.insert(a.to_string(), (Kind::Sync, 0));
						(a, self.free_name(&m2).unwrap_or_else(|| self.any_name()))
					}
				};
				pre.push(format!("R.regsub {hm} {a} {b} {t}"));
				pre
			}
			40..=49 => {
				let (al, ex) = match self.rng.below(10) {
					0 | 1 => (self.taken_name(&mapm).unwrap_or_else(|| self.any_name()), self.any_name()),
					2 => (self.free_name(&mapm).unwrap_or_else(|| self.any_name()), self.free_name(&mapm).unwrap_or_else(|| self.any_name())),
					_ => (self.free_name(&mapm).unwrap_or_else(|| self.any_name()), self.taken_name(&mapm).unwrap_or_else(|| self.any_name())),
				};
				vec![format!("R.alias {hm} {al} {ex}")]
			}
			50..=60 => {
				// half of the time merge into the roomiest live module, so that several names can move
				let d = if self.rng.chance(1, 2) { *live.iter().min_by_key(|j| c.oracle[**j].as_ref().unwrap().1.len()).unwrap() } else { h };
				let dmap = c.oracle[d].as_ref().unwrap().1.clone();
				self.merge_ops(c, d, &dmap)
			}
			61..=68 => {
				let n = if self.rng.chance(4, 5) { self.taken_name(&mapm) } else { self.free_name(&mapm) };
				vec![format!("R.remove {hm} {}", n.unwrap_or_else(|| self.any_name()))]
			}
			69..=78 => vec![format!("R.{} {h}", if self.rng.chance(3, 4) { "clone" } else { "clonem" })],
			79..=90 => vec![format!("R.call {h} {}", if self.rng.chance(2, 3) { self.taken_name(&map).unwrap_or_else(|| self.any_name()) } else { self.any_name() })],
			91..=93 => vec![format!("R.names {h}")],
			94..=96 => vec![format!("R.drop {h}")],
			97 => vec![format!("R.new {}", if im { "mod" } else { "methods" })],
			_ => {
				// a handle that is dead or was never allocated
				let dead: Vec<usize> = (0..c.slots.len() + 2).filter(|j| !c.live(*j)).collect();
				let d = *self.rng.pick(&dead);
				let t = self.next_tag();
				match self.rng.below(5) {
					0 => vec![format!("R.reg {d} {} {t}", self.any_name())],
					1 => vec![format!("R.merge {h} {d}")],
					2 => vec![format!("R.merge {d} {h}")],
					3 => vec![format!("R.call {d} {}", self.any_name())],
					_ => vec![format!("R.merge {h} {h}")],
				}
			}
		}
	}

	/// merge into `d`: an existing other handle, a clone of one, or a freshly built module with 0..4 names
	fn merge_ops(&mut self, c: &Case, d: usize, dmap: &Map) -> Vec<String> {
		let live = Self::live_handles(c);
		let others: Vec<usize> = live.iter().copied().filter(|j| *j != d).collect();
		let next = c.slots.len();
		match self.rng.below(10) {
			0 | 1 if !others.is_empty() => vec![format!("R.merge {d} {}", self.rng.pick(&others))],
			2 | 3 if !others.is_empty() => {
				let o = *self.rng.pick(&others);
				vec![format!("R.{} {o}", if self.rng.chance(1, 2) { "clone" } else { "clonem" }), format!("R.merge {d} {next}")]
			}
			_ => {
				// 0..4 names; an empty module only now and then
				let k = if self.rng.chance(1, 8) { 0 } else { self.rng.range(1, 4) as usize };
				let conflict = self.rng.chance(3, 10);
				let mut v = vec![format!("R.new {}", if self.rng.chance(2, 3) { "mod" } else { "methods" })];
				let mut mine = Map::new();
				let mut union = dmap.clone();
				for i in 0..k {
					let t = self.next_tag();
					let n = if conflict && i == k - 1 { self.taken_name(dmap).filter(|n| !mine.contains_key(*n)) } else { self.free_name(&union) };
					let Some(n) = n else { break };
					mine.insert(n.to_string(), (Kind::Sync, t));
					union.insert(n.to_string(), (Kind::Sync, t));
					v.push(format!("R.reg {next} {n} {t}"));
				}
				v.push(format!("R.merge {d} {next}"));
				v
			}
		}
	}
}

fn run_lines(lines: &[String], out: &mut Out, full: bool) {
	let mut case: Option<Case> = None;
	for l in lines {
		let w: Vec<&str> = l.split(' ').filter(|s| !s.is_empty()).collect();
		if w.len() == 3 && w[0] == "case" && w[2] == "registry" {
			case = Some(Case::new());
			out.line(l.clone(), "case".into(), Ok(()), false);
			continue;
		}
		let Some(c) = case.as_mut() else {
			out.line(l.clone(), "bad-op".into(), Ok(()), false);
			continue;
		};
		let (got, verdict, nt) = c.exec(l, out, full);
		out.line(l.clone(), got, verdict, nt);
	}
}

/// exhaustive short sequences over a reduced op alphabet (names a, b; handles: 0, the latest, one in between)
fn exhaustive(out: &mut Out, depth: usize, n: &mut u64) {
	fn templates(nslots: usize, tag: u64) -> Vec<String> {
		let l = nslots - 1;
		let mut v = vec![
			format!("R.reg 0 a {tag}"),
			format!("R.regasync 0 b {tag}"),
			format!("R.regsub 0 a b {tag}"),
			format!("R.regsub 0 b b {tag}"),
			"R.alias 0 b a".to_string(),
			"R.remove 0 a".to_string(),
			"R.clone 0".to_string(),
			"R.new mod".to_string(),
		];
		if l > 0 {
			v.push(format!("R.reg {l} a {tag}"));
			v.push(format!("R.reg {l} b {tag}"));
			v.push(format!("R.merge 0 {l}"));
			v.push(format!("R.merge {l} 0"));
			v.push(format!("R.drop {l}"));
		}
		v
	}
	// DFS over the templates
	fn rec(prefix: &mut Vec<String>, nslots: usize, depth: usize, out: &mut Out, n: &mut u64) {
		// only maximal sequences are run: the oracle sweeps after every op, so a run covers all its prefixes
		if prefix.len() > depth {
			*n += 1;
			let mut lines = vec![format!("case x{} registry", *n)];
			lines.extend(prefix.iter().cloned());
			run_lines(&lines, out, true);
			return;
		}
		for t in templates(nslots, prefix.len() as u64) {
			let grows = t.starts_with("R.clone") || t.starts_with("R.new");
			prefix.push(t);
			rec(prefix, nslots + grows as usize, depth, out, n);
			prefix.pop();
		}
	}
	let mut prefix = vec!["R.new mod".to_string()];
	rec(&mut prefix, 1, depth, out, n);
}

/// Names that look special to somebody (reserved-looking prefixes, dots, slashes, one character, non-ASCII,
/// the words the protocol itself uses, a very long one): the registry is a map from *any* name; one fixed
/// script per name walks it through register / duplicate / alias / subscription pair / clone / failed and
/// successful merge / remove, with the full sweep after every step.
fn odd_names(out: &mut Out) {
	let long = "n".repeat(300);
	let names: Vec<&str> = vec![
		"rpc.discover", "rpc.", "rpc.a.b", "rpc", "RPC.x", "rpc_x", "a.b", ".a", "A", "\u{e4}", "0", "_", "-", "$", "a/b", "/", "a-b", "subscribe", "unsubscribe",
		"notif", "method", "params", "id", "jsonrpc", "null", "true", "[]", "{}", &long,
	];
	for (i, n) in names.iter().enumerate() {
		let lines = vec![
			format!("case odd{i} registry"),
			"R.new mod".to_string(),
			format!("R.reg 0 {n} 1"),
			format!("R.call 0 {n}"),
			format!("R.reg 0 {n} 2"),
			format!("R.regasync 0 {n} 3"),
			format!("R.alias 0 {n}x {n}"),
			format!("R.call 0 {n}x"),
			format!("R.alias 0 {n} {n}x"),
			format!("R.regsub 0 {n}s {n}u 4"),
			format!("R.regsub 0 {n}t {n} 5"),
			format!("R.call 0 {n}s"),
			format!("R.call 0 {n}u"),
			"R.names 0".to_string(),
			"R.clone 0".to_string(),
			"R.new mod".to_string(),
			format!("R.reg 2 {n} 6"),
			format!("R.reg 2 {n}y 7"),
			"R.merge 0 2".to_string(),
			format!("R.remove 0 {n}"),
			format!("R.call 0 {n}"),
			format!("R.call 1 {n}"),
			"R.merge 0 2".to_string(),
			format!("R.call 0 {n}"),
			format!("R.call 0 {n}y"),
			format!("R.remove 0 {n}u"),
			format!("R.call 0 {n}u"),
			"R.names 0".to_string(),
			"R.names 1".to_string(),
		];
		run_lines(&lines, out, true);
	}
	// names that differ only by case, by an ignorable-looking character or by a namespace-looking prefix are different
	// names: each is bound (or not) on its own
	let fams: [&[&str]; 4] = [
		&["abc", "ABC", "Abc", "abc\u{200b}", "abc.", ".abc", "a_bc", "aBc"],
		&["ns.m", "ns_m", "ns/m", "m", "NS.m", "ns.M", "ns..m"],
		&["sub", "unsub", "Sub", "sub_", "un", "unsubscribe_sub"],
		&["\u{e9}", "e\u{301}", "E\u{301}", "e"],
	];
	for (i, fam) in fams.iter().enumerate() {
		let mut lines = vec![format!("case near{i} registry"), "R.new mod".to_string()];
		for (k, n) in fam.iter().enumerate() {
			if k % 2 == 0 {
				lines.push(format!("R.reg 0 {n} {}", k + 1));
			}
			for m in fam.iter() {
				lines.push(format!("R.call 0 {m}"));
			}
		}
		lines.push(format!("R.alias 0 {} {}", fam[1], fam[0]));
		lines.push(format!("R.remove 0 {}", fam[0]));
		for m in fam.iter() {
			lines.push(format!("R.call 0 {m}"));
		}
		lines.push(format!("R.regsub 0 {} {} 9", fam[3], fam[0]));
		for m in fam.iter() {
			lines.push(format!("R.call 0 {m}"));
		}
		lines.push("R.names 0".to_string());
		run_lines(&lines, out, true);
	}
}

fn main() {
	let a = args();
	let mut out = Out::new();
	if let Some(r) = &a.replay {
		let lines = read_case_lines(r);
		run_lines(&lines, &mut out, true);
	} else {
		let corpus = corpus_lines("C13");
		run_lines(&corpus, &mut out, true);
		odd_names(&mut out);
		let thorough = a.tier == "thorough";
		let n = a.cases.unwrap_or(if thorough { 50000 } else { 3000 });
		let mut rng = Rng::new(a.seed);
		for i in 0..n {
			let mut r = rng.fork();
			// 1 case in 8 uses the two-name alphabet (dense conflicts)
			let small = r.chance(1, 8);
			let names: &[&'static str] = if small { &SMALL } else { &ALPHABET };
			let target = r.range(5, 40) as usize;
			let mut c = Case::new();
			if small {
				c.seen = SMALL.iter().copied().collect();
			}
			out.line(format!("case {i} registry"), "case".into(), Ok(()), false);
			let mut g = Gen { rng: &mut r, tag: 0, names };
			let mut count = 0;
			// the first op creates a module
			let mut pending = vec!["R.new mod".to_string()];
			while count < target {
				if pending.is_empty() {
					pending = g.next_ops(&c);
				}
				let l = pending.remove(0);
				// unsubscribe handlers are identified on every explicit call and on 1 sweep in 4
				let full = g.rng.chance(1, 4);
				let (got, verdict, nt) = c.exec(&l, &mut out, full);
				out.line(l, got, verdict, nt);
				count += 1;
			}
			out.count(&format!("case_len:{}", (count / 10) * 10));
			out.count(&format!("case_handles:{}", c.slots.len().min(12)));
		}
		if thorough {
			let mut nx = 0;
			exhaustive(&mut out, 5, &mut nx);
			out.notes.push(format!("exhaustive: all {nx} sequences of 5 ops after `R.new mod` over the reduced op alphabet (names a,b; 8 op templates on handle 0, 5 more on the latest handle); every prefix is checked by the per-op sweep"));
		}
	}
	out.write(&a.out);
	if a.replay.is_some() {
		for i in 0..out.ops.len() {
			println!("op:     {}\nimpl:   {}\noracle: {}", out.ops[i], out.impl_[i], out.oracle[i]);
		}
	}
}
