//! C14 — host filter: only allow-listed authorities ever reach the RPC service.
//!
//! Real code under test (in-process): `HostFilterLayer::new(list)` / `disable()` around a counting
//! inner tower service, `Authority::try_from(&str)`, and `route_recognizer::Router` (the external
//! parameter of the model, validated on its own).
//!
//! Op lines (see lean/JrpcVerif/Driver/HostFilterFamily.lean):
//!   auth <src>
//!   hf (D | A <n> <src>*n) H <k> <hdr>*k U <rawurihex|none> <src|none>
//!   rr <n> <routehex>*n <pathhex>
//! `src` carries the verdict of the real `http` crate on the raw string (`http::Uri` parsing is an
//! external parameter of the model).  On replay only the raw strings are read; the verdicts are
//! recomputed.  Hand-written corpus lines may use the readable forms
//!   autht <json string> | hft {"allow":[..]|null,"hosts":[..],"uri":".."|null} | rrt {"routes":[..],"path":".."}
use jrpc_harness::common::*;
use jsonrpsee_server::HttpBody;
use jsonrpsee_server::middleware::http::{Authority, HostFilterLayer, Port};
use std::convert::Infallible;
use std::future::{Ready, ready};
use std::panic::{AssertUnwindSafe, catch_unwind};
use std::sync::Arc;
use std::sync::atomic::{AtomicUsize, Ordering};
use std::task::{Context, Poll};
use tower::{Layer, Service};

// ------------------------------------------------------------------------------------------------
// implementation side

#[derive(Clone)]
struct Inner(Arc<AtomicUsize>);
impl<B> Service<http::Request<B>> for Inner {
	type Response = http::Response<HttpBody>;
	type Error = Infallible;
	type Future = Ready<Result<Self::Response, Infallible>>;
	fn poll_ready(&mut self, _: &mut Context<'_>) -> Poll<Result<(), Infallible>> {
		Poll::Ready(Ok(()))
	}
	fn call(&mut self, _: http::Request<B>) -> Self::Future {
		self.0.fetch_add(1, Ordering::SeqCst);
		ready(Ok(http::Response::builder().status(299).body(HttpBody::empty()).unwrap()))
	}
}

type ReqBody = http_body_util::Empty<bytes::Bytes>;

/// verdict of the real `http` crate on a string, as a `src` token
fn src_token(s: &str) -> String {
	let raw = hexs(s);
	let r = catch_unwind(|| match s.parse::<http::Uri>() {
		Err(_) => "E".to_string(),
		Ok(u) => match u.authority() {
			None => "N".to_string(),
			Some(a) => format!("P,{},{},{}", u.scheme_str().map(hexs).unwrap_or("none".into()), hexs(a.as_str()), hexs(a.host())),
		},
	});
	match r {
		Ok(v) => format!("{raw},{v}"),
		Err(_) => format!("{raw},E"),
	}
}

fn hdr_token(b: &[u8]) -> String {
	match http::HeaderValue::from_bytes(b) {
		Ok(v) => match v.to_str() {
			Ok(s) => src_token(s),
			Err(_) => format!("b:{}", hex(b)),
		},
		Err(_) => format!("b:{}", hex(b)),
	}
}

fn port_repr(p: &Port) -> String {
	match p {
		Port::Default => "default".into(),
		Port::Any => "any".into(),
		Port::Fixed(n) => format!("f:{n}"),
	}
}

#[derive(Clone, Debug)]
struct Case {
	/// `None` = `HostFilterLayer::disable()`
	allow: Option<Vec<String>>,
	hosts: Vec<Vec<u8>>,
	uri: Option<String>,
}

#[derive(PartialEq, Debug, Clone, Copy)]
enum Seen {
	CfgErr,
	Fwd,
	Status(u16),
	Panic,
}

fn run_hf(out: &mut Out, mut c: Case) {
	// a URI the `http` crate does not accept cannot be put into a request at all
	if let Some(u) = &c.uri {
		if u.parse::<http::Uri>().is_err() {
			out.count("gen.uri_unparsable_dropped");
			c.uri = None;
		}
	}
	c.hosts.retain(|h| http::HeaderValue::from_bytes(h).is_ok());

	// op line
	let mut op = String::from("hf ");
	match &c.allow {
		None => op.push('D'),
		Some(l) => {
			op.push_str(&format!("A {}", l.len()));
			for e in l {
				op.push(' ');
				op.push_str(&src_token(e));
			}
		}
	}
	op.push_str(&format!(" H {}", c.hosts.len()));
	for h in &c.hosts {
		op.push(' ');
		op.push_str(&hdr_token(h));
	}
	let uri: Option<http::Uri> = c.uri.as_ref().map(|u| u.parse().unwrap());
	match &uri {
		None => op.push_str(" U none none"),
		Some(u) => {
			let a = u.authority().map(|a| src_token(a.as_str())).unwrap_or("none".into());
			op.push_str(&format!(" U {} {}", hexs(c.uri.as_ref().unwrap()), a));
		}
	}

	// implementation
	let calls = Arc::new(AtomicUsize::new(0));
	let run_impl = |calls: &Arc<AtomicUsize>, version: http::Version, method: &str, extra: bool| catch_unwind(AssertUnwindSafe(|| {
		let layer = match &c.allow {
			None => HostFilterLayer::disable(),
			// entries that are socket addresses go through `TryFrom<SocketAddr>` every other time
			Some(l) => match HostFilterLayer::new(l.iter().enumerate().map(|(i, s)| match s.parse::<std::net::SocketAddr>() {
				Ok(a) if (i + s.len()) % 2 == 0 => {
					VIA_ADDR.fetch_add(1, Ordering::SeqCst);
					Entry::Addr(a)
				}
				_ => Entry::Text(s.clone()),
			})) {
				Ok(l) => l,
				Err(_) => return Seen::CfgErr,
			},
		};
		let mut svc = layer.layer(Inner(calls.clone()));
		let mut b = http::Request::builder().method(method).version(version);
		if extra {
			// headers that look like an authority but are not one
			b = b.header("x-forwarded-host", "allowed.example").header("forwarded", "host=allowed.example").header("origin", "http://allowed.example");
		}
		if let Some(u) = &uri {
			b = b.uri(u.clone());
		}
		for h in &c.hosts {
			b = b.header(http::header::HOST, http::HeaderValue::from_bytes(h).unwrap());
		}
		let req: http::Request<ReqBody> = b.body(ReqBody::new()).unwrap();
		let fut = svc.call(req);
		let rp = futures_util::FutureExt::now_or_never(fut).expect("host filter future is ready");
		match rp {
			Ok(r) if r.status().as_u16() == 299 => Seen::Fwd,
			Ok(r) => Seen::Status(r.status().as_u16()),
			Err(_) => Seen::Status(0),
		}
	}))
	.unwrap_or(Seen::Panic);
	let seen = run_impl(&calls, http::Version::HTTP_11, "POST", false);
	let n = calls.load(Ordering::SeqCst);
	// the decision is a function of the authority alone: protocol version, method and other headers do not enter it
	let mut variant_diff = None;
	for (v, m, x) in [
		(http::Version::HTTP_10, "POST", false),
		(http::Version::HTTP_2, "POST", false),
		(http::Version::HTTP_09, "GET", false),
		(http::Version::HTTP_3, "OPTIONS", true),
		(http::Version::HTTP_11, "GET", true),
		(http::Version::HTTP_10, "HEAD", true),
	] {
		let c2 = Arc::new(AtomicUsize::new(0));
		let s2 = run_impl(&c2, v, m, x);
		if s2 != seen || c2.load(Ordering::SeqCst) != n {
			variant_diff = Some(format!("{v:?} {m}{}: {s2:?} calls={} but HTTP/1.1 POST: {seen:?} calls={n}", if x { " +headers" } else { "" }, c2.load(Ordering::SeqCst)));
			break;
		}
	}
	// ... and nothing of an earlier request through the same service enters it either (a service lives as long as its
	// connection: keep-alive requests share it): a sequence of requests on ONE service gets, request by request, the
	// answers fresh services give
	let run_seq = |seq: &[Vec<Vec<u8>>]| -> Option<Vec<(Seen, usize)>> {
		catch_unwind(AssertUnwindSafe(|| {
			let layer = match &c.allow {
				None => HostFilterLayer::disable(),
				Some(l) => HostFilterLayer::new(l.iter().map(|s| Entry::Text(s.clone()))).ok()?,
			};
			let cnt = Arc::new(AtomicUsize::new(0));
			let mut svc = layer.layer(Inner(cnt.clone()));
			let mut res = vec![];
			for hosts in seq {
				let before = cnt.load(Ordering::SeqCst);
				let mut b = http::Request::builder().method("POST");
				if let Some(u) = &uri {
					b = b.uri(u.clone());
				}
				for h in hosts {
					b = b.header(http::header::HOST, http::HeaderValue::from_bytes(h).ok()?);
				}
				let req: http::Request<ReqBody> = b.body(ReqBody::new()).ok()?;
				let rp = futures_util::FutureExt::now_or_never(svc.call(req))?;
				let seen = match rp {
					Ok(r) if r.status().as_u16() == 299 => Seen::Fwd,
					Ok(r) => Seen::Status(r.status().as_u16()),
					Err(_) => Seen::Status(0),
				};
				res.push((seen, cnt.load(Ordering::SeqCst) - before));
			}
			Some(res)
		}))
		.ok()
		.flatten()
	};
	if variant_diff.is_none() && seen != Seen::CfgErr && seen != Seen::Panic {
		// B: the same host with another port; C: another host with the same port
		let other_port = |h: &Vec<u8>| -> Vec<u8> {
			let t = String::from_utf8_lossy(h).to_string();
			match t.rfind(':') {
				Some(i) if !t[i..].contains(']') && t[i + 1..].chars().all(|ch| ch.is_ascii_digit()) => format!("{}:{}", &t[..i], if &t[i + 1..] == "1" { "2" } else { "1" }).into_bytes(),
				_ => format!("{t}:1").into_bytes(),
			}
		};
		let other_host = |h: &Vec<u8>| -> Vec<u8> { let mut v = b"x".to_vec(); v.extend_from_slice(h); v };
		let a: Vec<Vec<u8>> = c.hosts.clone();
		let b: Vec<Vec<u8>> = a.iter().map(other_port).collect();
		let d: Vec<Vec<u8>> = a.iter().map(other_host).collect();
		let ok_hdr = |hs: &Vec<Vec<u8>>| hs.iter().all(|h| http::HeaderValue::from_bytes(h).is_ok());
		if !a.is_empty() && ok_hdr(&b) && ok_hdr(&d) {
			let seq = vec![a.clone(), b.clone(), a.clone(), d.clone(), b.clone(), a.clone()];
			let fresh: Vec<Option<(Seen, usize)>> = seq.iter().map(|r| run_seq(std::slice::from_ref(r)).and_then(|v| v.into_iter().next())).collect();
			if let Some(got) = run_seq(&seq) {
				for (i, g) in got.iter().enumerate() {
					if fresh[i].as_ref() != Some(g) {
						variant_diff = Some(format!(
							"request {} of a keep-alive sequence (Host {:?}) got {:?}, a fresh service answers {:?}",
							i + 1,
							seq[i].iter().map(|h| String::from_utf8_lossy(h).to_string()).collect::<Vec<_>>(),
							g,
							fresh[i]
						));
						break;
					}
				}
			}
		}
	}
	let impl_out = match seen {
		Seen::CfgErr => "cfgerr".to_string(),
		Seen::Fwd => format!("fwd calls={n}"),
		Seen::Status(s) => format!("{s} calls={n}"),
		Seen::Panic => "panic".to_string(),
	};
	let verdict = match variant_diff {
		Some(d) => Err(format!("decision depends on something other than the request's authority: {d}")),
		None => oracle_hf(out, &c, seen, n),
	};
	out.count(match seen {
		Seen::CfgErr => "hf.cfgerr",
		Seen::Fwd => "hf.forward",
		Seen::Status(403) => "hf.403",
		Seen::Status(400) => "hf.400",
		_ => "hf.other",
	});
	out.count(&format!("hf.hosts={}", c.hosts.len()));
	out.count(if uri.as_ref().and_then(|u| u.authority()).is_some() { "hf.uri_authority=yes" } else { "hf.uri_authority=no" });
	out.count(&format!("hf.entries={}", c.allow.as_ref().map(|l| l.len().to_string()).unwrap_or("disabled".into())));
	let nontrivial = matches!(seen, Seen::Fwd | Seen::Status(403));
	out.line(op, impl_out, verdict, nontrivial);
}

fn run_auth(out: &mut Out, s: &str) {
	let op = format!("auth {}", src_token(s));
	let r = catch_unwind(|| Authority::try_from(s));
	let (impl_out, verdict) = match &r {
		Err(_) => ("panic".to_string(), Err(format!("Authority::try_from panicked on {s:?}"))),
		Ok(Err(_)) => {
			let v = match oracle_parse(s, true) {
				OParse::Ok(a) => Err(format!("Authority::try_from({s:?}) fails, independent parser finds {}:{:?}", a.host, a.port)),
				_ => Ok(()),
			};
			("err".to_string(), v)
		}
		Ok(Ok(a)) => {
			let v = match oracle_parse(s, true) {
				OParse::Ok(o) => {
					if o.host == a.host && o.port.same(&a.port) {
						Ok(())
					} else {
						Err(format!("Authority::try_from({s:?}) = {}:{:?}, independent parser finds {}:{:?}", a.host, a.port, o.host, o.port))
					}
				}
				OParse::Invalid => Err(format!("Authority::try_from({s:?}) = {}:{:?}, independent parser rejects the string", a.host, a.port)),
				OParse::Unsure => Ok(()),
			};
			(format!("ok {} {}", hexs(&a.host), port_repr(&a.port)), v)
		}
	};
	out.count(if matches!(r, Ok(Ok(_))) { "auth.ok" } else { "auth.err" });
	out.line(op, impl_out, verdict, matches!(r, Ok(Ok(_))));
}

fn run_rr(out: &mut Out, routes: &[String], path: &str) {
	let mut op = format!("rr {}", routes.len());
	for r in routes {
		op.push(' ');
		op.push_str(&hexs(r));
	}
	op.push(' ');
	op.push_str(&hexs(path));
	let r = catch_unwind(|| {
		let mut router = route_recognizer::Router::new();
		for (i, r) in routes.iter().enumerate() {
			router.add(r, i);
		}
		router.recognize(path).ok().map(|m| **m.handler())
	});
	let (impl_out, verdict) = match r {
		Err(_) => ("panic".to_string(), Ok(())),
		Ok(None) => {
			let v = match routes.iter().position(|r| glob_route(r, path)) {
				Some(i) => Err(format!("router finds nothing for {path:?} but route {:?} matches by the documented semantics", routes[i])),
				None => Ok(()),
			};
			("none".to_string(), v)
		}
		Ok(Some(i)) => {
			let v = if glob_route(&routes[i], path) { Ok(()) } else { Err(format!("router returns route {:?} for {path:?}, which does not match it", routes[i])) };
			(format!("h={i}"), v)
		}
	};
	out.count(if impl_out == "none" { "rr.none" } else { "rr.some" });
	let nt = impl_out != "none";
	out.line(op, impl_out, verdict, nt);
}

// ------------------------------------------------------------------------------------------------
// independent oracle: own authority parser, plain glob on segments, own port rule

#[derive(Clone, Debug, PartialEq)]
enum OPort {
	Default,
	Any,
	Num(u32),
}
impl OPort {
	fn same(&self, p: &Port) -> bool {
		matches!((self, p), (OPort::Default, Port::Default) | (OPort::Any, Port::Any)) || matches!((self, p), (OPort::Num(a), Port::Fixed(b)) if *a == *b as u32)
	}
}
#[derive(Clone, Debug, PartialEq)]
struct OAuth {
	host: String,
	port: OPort,
	userinfo: bool,
	/// the authority substring (used for the request URI, which the filter re-parses without scheme)
	authority: String,
}
#[derive(Clone, Debug, PartialEq)]
enum OParse {
	Ok(OAuth),
	/// certainly not a (single, well-formed) authority
	Invalid,
	/// outside the grammar this parser is sure about — no expectation
	Unsure,
}

fn well_known_port(scheme: &str) -> Option<u32> {
	match scheme {
		"http" | "ws" => Some(80),
		"https" | "wss" => Some(443),
		"ftp" => Some(21),
		_ => None,
	}
}

/// RFC 3986 `[scheme "://"] [userinfo "@"] host [":" port] [path]` with the filter's two extensions
/// (`*` port, `*` in host patterns).  `allow_path`: whether a scheme-qualified string may continue
/// after the authority.
fn oracle_parse(s: &str, allow_path: bool) -> OParse {
	if s.is_empty() || s == "*" {
		return OParse::Invalid;
	}
	if s.len() > 200 {
		return OParse::Unsure;
	}
	let (scheme, rest) = match s.find("://") {
		Some(i) if i > 0 && s.as_bytes()[0].is_ascii_alphabetic() && s[..i].bytes().all(|b| b.is_ascii_alphanumeric() || b == b'+' || b == b'-' || b == b'.') => (Some(&s[..i]), &s[i + 3..]),
		_ => (None, s),
	};
	if let Some(sc) = scheme {
		if sc.bytes().any(|b| b.is_ascii_uppercase()) || sc.len() > 32 {
			return OParse::Unsure;
		}
	}
	let end = rest.find(['/', '?', '#']).unwrap_or(rest.len());
	let (authority, tail) = rest.split_at(end);
	if scheme.is_none() && !tail.is_empty() {
		return OParse::Invalid;
	}
	if authority.bytes().any(|b| !(0x21..=0x7e).contains(&b)) {
		return OParse::Invalid;
	}
	if scheme.is_none() && !tail.is_empty() {
		return OParse::Invalid;
	}
	if !tail.is_empty() {
		if !allow_path {
			return OParse::Invalid;
		}
		if !tail.bytes().all(|b| b.is_ascii_alphanumeric() || b"/._~-?=&".contains(&b) || b >= 0x80) {
			return OParse::Unsure;
		}
	}
	if authority.is_empty() {
		return OParse::Invalid;
	}
	if authority.bytes().filter(|b| *b == b':').count() > 8 {
		return OParse::Unsure;
	}
	let (userinfo, hostport) = match authority.rfind('@') {
		Some(i) => (Some(&authority[..i]), &authority[i + 1..]),
		None => (None, authority),
	};
	if let Some(u) = userinfo {
		if !u.bytes().all(|b| b.is_ascii_alphanumeric() || b"-._~!$&'()*+,;=:%".contains(&b)) {
			return OParse::Unsure;
		}
	}
	if hostport.is_empty() {
		return OParse::Invalid;
	}
	let (host, port_text): (&str, Option<&str>) = if hostport.starts_with('[') {
		let Some(j) = hostport.find(']') else { return OParse::Unsure };
		let inner = &hostport[1..j];
		if inner.is_empty() || !inner.bytes().all(|b| b.is_ascii_hexdigit() || b == b':' || b == b'.') {
			return OParse::Unsure;
		}
		let after = &hostport[j + 1..];
		if after.is_empty() {
			(&hostport[..=j], None)
		} else if let Some(p) = after.strip_prefix(':') {
			(&hostport[..=j], Some(p))
		} else {
			return OParse::Unsure;
		}
	} else {
		if hostport.contains('[') || hostport.contains(']') {
			return OParse::Unsure;
		}
		match hostport.split_once(':') {
			Some((h, p)) => (h, Some(p)),
			None => (hostport, None),
		}
	};
	if !host.starts_with('[') && (host.is_empty() || !host.bytes().all(|b| b.is_ascii_alphanumeric() || b"-._~!$&'()*+,;=".contains(&b))) {
		return OParse::Unsure;
	}
	let port = match port_text {
		None => OPort::Default,
		Some("*") => OPort::Any,
		Some("") => return OParse::Invalid,
		Some(p) if p.contains(':') => return OParse::Invalid,
		Some(p) if p.bytes().all(|b| b.is_ascii_digit()) => {
			let digits = p.trim_start_matches('0');
			let v: u64 = if digits.is_empty() { 0 } else if digits.len() > 6 { u64::MAX } else { digits.parse().unwrap() };
			if v > 65535 {
				return OParse::Invalid;
			}
			if scheme.and_then(well_known_port) == Some(v as u32) { OPort::Default } else { OPort::Num(v as u32) }
		}
		Some(p) if p.starts_with('+') => return OParse::Unsure,
		Some(_) => return OParse::Invalid,
	};
	OParse::Ok(OAuth { host: host.to_string(), port, userinfo: userinfo.is_some(), authority: authority.to_string() })
}

#[derive(Debug, Clone)]
enum G {
	Lit(Vec<u8>),
	/// one or more arbitrary bytes
	Star,
	/// one or more bytes other than '/'
	Dyn,
}
fn gm(p: &[G], h: &[u8]) -> bool {
	match p.first() {
		None => h.is_empty(),
		Some(G::Lit(l)) => h.starts_with(l) && gm(&p[1..], &h[l.len()..]),
		Some(G::Star) => (1..=h.len()).any(|k| gm(&p[1..], &h[k..])),
		Some(G::Dyn) => (1..=h.len()).take_while(|k| h[k - 1] != b'/').any(|k| gm(&p[1..], &h[k..])),
	}
}

#[derive(PartialEq, Clone, Copy, Debug)]
enum Reading {
	/// literal segments and pure `*` segments only, `*` = exactly one non-empty label
	Strict,
	/// pure `*` segment = one or more arbitrary characters (may span dots)
	Spanning,
	/// route_recognizer's: additionally `*name` (= `*`) and `:name` (one or more non-'/')
	Named,
}

/// plain glob of a host against an allow-list host pattern, segments split at '.'
fn glob_host(pat: &str, host: &str, reading: Reading) -> bool {
	let segs: Vec<&str> = pat.split('.').collect();
	match reading {
		Reading::Strict => {
			let hs: Vec<&str> = host.split('.').collect();
			segs.len() == hs.len() && segs.iter().zip(hs.iter()).all(|(p, h)| if *p == "*" { !h.is_empty() } else { p == h })
		}
		_ => {
			let mut g = vec![];
			for (i, s) in segs.iter().enumerate() {
				if i > 0 {
					g.push(G::Lit(b".".to_vec()));
				}
				if *s == "*" || (reading == Reading::Named && s.starts_with('*')) {
					g.push(G::Star);
				} else if reading == Reading::Named && s.starts_with(':') {
					g.push(G::Dyn);
				} else {
					g.push(G::Lit(s.as_bytes().to_vec()));
				}
			}
			gm(&g, host.as_bytes())
		}
	}
}
fn has_named_segment(pat: &str) -> bool {
	pat.split(['.', '/']).any(|s| (s.starts_with('*') && s.len() > 1) || s.starts_with(':'))
}

/// documented semantics of `Router::add` / `recognize` for one route (separators '.' and '/')
fn glob_route(route: &str, path: &str) -> bool {
	let route = route.strip_prefix('/').unwrap_or(route);
	let path = path.strip_prefix('/').unwrap_or(path);
	let mut g = vec![];
	let mut cur = String::new();
	let mut first = true;
	let flush = |cur: &mut String, g: &mut Vec<G>, first: bool| {
		if cur.starts_with('*') {
			g.push(G::Star);
		} else if cur.starts_with(':') {
			g.push(G::Dyn);
		} else if !cur.is_empty() || !first {
			g.push(G::Lit(cur.as_bytes().to_vec()));
		}
		cur.clear();
	};
	for ch in route.chars() {
		if ch == '.' || ch == '/' {
			flush(&mut cur, &mut g, first);
			first = false;
			g.push(G::Lit(ch.to_string().into_bytes()));
		} else {
			cur.push(ch);
		}
	}
	flush(&mut cur, &mut g, first);
	gm(&g, path.as_bytes())
}

fn port_rule(entry: &OPort, req: &OPort) -> bool {
	match (entry, req) {
		(OPort::Any, _) => true,
		(OPort::Default, OPort::Default) => true,
		(OPort::Num(a), OPort::Num(b)) => a == b,
		_ => false,
	}
}

fn oracle_hf(out: &mut Out, c: &Case, seen: Seen, calls: usize) -> Result<(), String> {
	// shape: the inner service runs exactly when the request is forwarded; otherwise 403 / 400
	match seen {
		Seen::Panic => return Err("the host filter panicked".into()),
		Seen::CfgErr => return if calls == 0 { Ok(()) } else { Err("inner service called although the layer was not built".into()) },
		Seen::Fwd if calls != 1 => return Err(format!("forwarded but inner service called {calls} times")),
		Seen::Status(s) if s != 403 && s != 400 => return Err(format!("not forwarded and status {s} (expected 403 or 400)")),
		Seen::Status(_) if calls != 0 => return Err(format!("rejected but inner service called {calls} times")),
		_ => {}
	}
	// the consulted sources, by the statement: exactly one textual Host header; the URI authority
	let mut sources: Vec<OParse> = vec![];
	if c.hosts.len() == 1 {
		let b = &c.hosts[0];
		if b.iter().all(|x| (0x20..=0x7e).contains(x) || *x == b'\t') {
			sources.push(oracle_parse(std::str::from_utf8(b).unwrap(), true));
		}
	}
	if let Some(u) = &c.uri {
		if !(u.starts_with('/') || u == "*") {
			match oracle_parse(u, true) {
				// the filter re-parses `uri.authority().as_str()` on its own: the scheme is gone
				OParse::Ok(a) => sources.push(oracle_parse(&a.authority, false)),
				other => sources.push(other),
			}
		}
	}
	let entries: Option<Vec<OParse>> = c.allow.as_ref().map(|l| l.iter().map(|e| oracle_parse(e, true)).collect());
	if sources.iter().any(|s| *s == OParse::Unsure) || entries.as_ref().is_some_and(|l| l.iter().any(|e| !matches!(e, OParse::Ok(_)))) {
		out.count("oracle.unsure_generic_only");
		return Ok(());
	}
	let entries: Option<Vec<OAuth>> = entries.map(|l| l.into_iter().map(|e| if let OParse::Ok(a) = e { a } else { unreachable!() }).collect());
	// every well-formed source counts, with or without userinfo
	match judge(&sources, &entries, seen) {
		Ok(obs) => {
			for k in obs {
				out.count(k);
			}
			Ok(())
		}
		Err(e) => Err(e),
	}
}

/// the property on one outcome, given which sources are well-formed authorities
fn judge(sources: &[OParse], entries: &Option<Vec<OAuth>>, seen: Seen) -> Result<Vec<&'static str>, String> {
	let oks: Vec<&OAuth> = sources.iter().filter_map(|s| if let OParse::Ok(a) = s { Some(a) } else { None }).collect();
	let determined: Option<&OAuth> = match oks.len() {
		0 => None,
		1 => Some(oks[0]),
		_ => {
			if oks[0].host == oks[1].host && oks[0].port == oks[1].port {
				Some(oks[0])
			} else {
				None
			}
		}
	};
	let matches_under = |a: &OAuth, r: Reading| -> bool { entries.as_ref().is_some_and(|l| l.iter().any(|e| glob_host(&e.host, &a.host, r) && port_rule(&e.port, &a.port))) };
	match (seen, determined) {
		(Seen::Fwd, None) => Err("forwarded although no single authority can be determined from Host header / URI".into()),
		(Seen::Fwd, Some(a)) => {
			if entries.is_none() {
				return Ok(vec![]);
			}
			if matches_under(a, Reading::Strict) {
				Ok(vec!["oracle.fwd.explained_strict"])
			} else if matches_under(a, Reading::Spanning) {
				Ok(vec!["obs.fwd.star_spans_labels"])
			} else if matches_under(a, Reading::Named) {
				Ok(vec!["obs.fwd.named_wildcard_entry"])
			} else {
				Err(format!("forwarded, but {}:{:?} matches no allow-list entry in host and port", a.host, a.port))
			}
		}
		(Seen::Status(400), None) => Ok(vec![]),
		// a source that is present but is no well-formed authority (e.g. `Host: 9.://80`) is reason enough
		// for 400: the statement demands 400 "when no single authority can be determined" and never forbids
		// refusing a request whose Host header / target is garbage
		(Seen::Status(400), Some(_)) if sources.iter().any(|s| !matches!(s, OParse::Ok(_))) => Ok(vec!["obs.400.malformed_source_next_to_a_good_one"]),
		(Seen::Status(400), Some(a)) => Err(format!("400 although the single authority {}:{:?} can be determined", a.host, a.port)),
		(Seen::Status(403), None) => Err("403 although no single authority can be determined (400 expected)".into()),
		(Seen::Status(403), Some(a)) => {
			let Some(l) = entries else { return Err("403 although host filtering is disabled".into()) };
			let any = matches_under(a, Reading::Spanning);
			if l.len() == 1 && any && !has_named_segment(&l[0].host) {
				return Err(format!("403 although {}:{:?} matches the only configured entry", a.host, a.port));
			}
			if any {
				Ok(vec![if l.len() == 1 { "obs.403.single_named_entry_matches" } else { "obs.403.some_entry_matches_best_pattern_only" }])
			} else {
				Ok(vec![])
			}
		}
		_ => Ok(vec![]),
	}
}

// ------------------------------------------------------------------------------------------------
// generators

const LABELS: &[&str] = &["a", "b", "c", "x", "y", "io", "parity", "web3", "site", "example", "com", "localhost", "evil", "p-1", "0"];
static VIA_ADDR: AtomicUsize = AtomicUsize::new(0);

/// an allow-list entry as the application may give it: a string or a socket address
enum Entry {
	Text(String),
	Addr(std::net::SocketAddr),
}
impl TryFrom<Entry> for Authority {
	type Error = jsonrpsee_server::middleware::http::AuthorityError;
	fn try_from(e: Entry) -> Result<Self, Self::Error> {
		match e {
			Entry::Text(s) => Authority::try_from(s.as_str()),
			Entry::Addr(a) => Authority::try_from(a),
		}
	}
}

const LITERAL_HOSTS: &[&str] = &["parity.io", "a.b.c", "example.com", "localhost", "127.0.0.1", "[::1]", "[2001:db8::1]", "a.x.y", "web3.site", "x.y", "io", "b.x.y"];
const PATTERN_HOSTS: &[&str] = &["*.x.y", "*.io", "a.*.c", "*", "*.*", "*web3.site", "*.parity.io", "a.*", "*.web3.site", "*a.x.y", "*b.x.y", "a.*.*", "*.b.*", ":n.x.y", "[1.:2]", "a.b.*"];
const PORTS: &[&str] = &["80", "443", "8080", "9944", "1", "65535", "0", "21", "9"];
const SCHEMES: &[&str] = &["http", "https", "ws", "wss", "ftp", "HTTP", "chrome-extension", "foo"];

fn gen_label(rng: &mut Rng) -> String {
	(*rng.pick(LABELS)).to_string()
}
fn gen_host_literal(rng: &mut Rng) -> String {
	if rng.chance(3, 4) {
		(*rng.pick(LITERAL_HOSTS)).to_string()
	} else {
		let n = rng.range(1, 4);
		(0..n).map(|_| gen_label(rng)).collect::<Vec<_>>().join(".")
	}
}

fn gen_entry(rng: &mut Rng) -> String {
	if rng.chance(1, 12) {
		// a socket address (what `TryFrom<SocketAddr>` is for): IPv4 / IPv6 incl. addresses starting with `:`
		let ip = *rng.pick(&["127.0.0.1", "0.0.0.0", "10.1.2.3", "[::1]", "[::]", "[::2]", "[2001:db8::1]", "[::ffff:1.2.3.4]", "[fe80::1]"]);
		return format!("{ip}:{}", *rng.pick(PORTS));
	}
	if rng.chance(1, 40) {
		return (*rng.pick(&["", ":::", "a b", "parity.io:99999", "/only/path", "*", "parity.io:", "a.b:x", "exa\u{e4}mple.com"])).to_string();
	}
	let host = if rng.chance(1, 2) { gen_host_literal(rng) } else { (*rng.pick(PATTERN_HOSTS)).to_string() };
	let mut s = String::new();
	let scheme = if rng.chance(1, 4) { Some(*rng.pick(SCHEMES)) } else { None };
	if let Some(sc) = scheme {
		s.push_str(sc);
		s.push_str("://");
	}
	if rng.chance(1, 30) {
		s.push_str("user:pw@");
	}
	s.push_str(&host);
	match rng.below(10) {
		0..=3 => {}
		4 | 5 => {
			s.push(':');
			s.push_str(*rng.pick(PORTS));
		}
		6 => s.push_str(":*"),
		7 => {
			// the scheme's own default port, or a leading-zero form
			s.push(':');
			s.push_str(match scheme {
				Some("http") | Some("ws") => "80",
				Some("https") | Some("wss") => "443",
				Some("ftp") => "21",
				_ => "00080",
			});
		}
		_ => {
			s.push(':');
			s.push_str(*rng.pick(PORTS));
		}
	}
	if scheme.is_some() && rng.chance(1, 6) {
		s.push_str("/some/path");
	}
	s
}

/// instantiate an allow-list host pattern to a concrete host
fn instantiate(rng: &mut Rng, pat: &str) -> String {
	pat.split('.')
		.map(|seg| {
			if seg.starts_with('*') || seg.starts_with(':') {
				match rng.below(8) {
					0 => "a.b".to_string(),
					1 => String::new(),
					2 => "evil.com".to_string(),
					3 => seg.trim_start_matches(['*', ':']).to_string(),
					_ => gen_label(rng),
				}
			} else {
				seg.to_string()
			}
		})
		.collect::<Vec<_>>()
		.join(".")
}

fn flip_case(rng: &mut Rng, s: &str) -> String {
	s.chars().map(|c| if c.is_ascii_alphabetic() && rng.chance(1, 2) { c.to_ascii_uppercase() } else { c }).collect()
}

fn entry_host_port(e: &str) -> (Option<String>, String, Option<String>) {
	// crude split used only to derive request candidates from an entry
	let (scheme, rest) = match e.find("://") {
		Some(i) => (Some(e[..i].to_string()), &e[i + 3..]),
		None => (None, e),
	};
	let rest = rest.split('/').next().unwrap_or("");
	let rest = rest.rsplit('@').next().unwrap_or("");
	if rest.starts_with('[') {
		if let Some(j) = rest.find(']') {
			let p = rest[j + 1..].strip_prefix(':').map(|p| p.to_string());
			return (scheme, rest[..=j].to_string(), p);
		}
	}
	match rest.split_once(':') {
		Some((h, p)) => (scheme, h.to_string(), Some(p.to_string())),
		None => (scheme, rest.to_string(), None),
	}
}

fn gen_port_suffix(rng: &mut Rng, entry_port: &Option<String>, scheme: &Option<String>) -> String {
	match rng.below(20) {
		0..=6 => match entry_port {
			Some(p) if p != "*" => format!(":{p}"),
			Some(_) => format!(":{}", rng.pick(PORTS)),
			None => String::new(),
		},
		7 | 8 => String::new(),
		9 | 10 => format!(":{}", rng.pick(PORTS)),
		11 => ":*".into(),
		12 => match scheme.as_deref() {
			Some("http") | Some("ws") => ":80".into(),
			Some("https") | Some("wss") => ":443".into(),
			Some("ftp") => ":21".into(),
			_ => ":080".into(),
		},
		13 => match entry_port {
			Some(p) if p.bytes().all(|b| b.is_ascii_digit()) => format!(":000{p}"),
			_ => ":00443".into(),
		},
		14 => ":".into(),
		15 => (*rng.pick(&[":65536", ":99999", ":4294967376", ":65535", ":0"])).to_string(),
		16 => (*rng.pick(&[":+80", ":-1", ":8o", ": 80", ":80 ", ":0x50", ":80:90", "::80", ":443:"])).to_string(),
		17 => match entry_port {
			Some(p) if p.bytes().all(|b| b.is_ascii_digit()) && !p.is_empty() => format!(":{}", p.parse::<u64>().unwrap_or(0) + 1),
			_ => ":81".into(),
		},
		_ => match entry_port {
			Some(p) if p != "*" => format!(":{p}"),
			_ => String::new(),
		},
	}
}

/// a request authority meant to be admitted by (or to miss only in the port) one of the entries
fn gen_intended_match(rng: &mut Rng, allow: &[String]) -> Vec<u8> {
	let (scheme, host_pat, port) = entry_host_port(rng.pick(allow).as_str());
	let host: String = host_pat
		.split('.')
		.map(|seg| if seg.starts_with('*') || seg.starts_with(':') { if rng.chance(1, 5) { "a.b".to_string() } else { gen_label(rng) } } else { seg.to_string() })
		.collect::<Vec<_>>()
		.join(".");
	let dflt = match scheme.as_deref() {
		Some("http") | Some("ws") => Some("80"),
		Some("https") | Some("wss") => Some("443"),
		Some("ftp") => Some("21"),
		_ => None,
	};
	let with_scheme = scheme.is_some() && rng.chance(1, 2);
	let port_s: String = match (&port, rng.below(10)) {
		(_, 0) => format!(":{}", rng.pick(PORTS)),
		(Some(p), _) if p == "*" => if rng.chance(1, 2) { String::new() } else { format!(":{}", rng.pick(PORTS)) },
		(Some(p), _) if dflt == Some(p.as_str()) => if with_scheme && rng.chance(1, 2) { format!(":{p}") } else { String::new() },
		(Some(p), 1) => format!(":0{p}"),
		(Some(p), _) => format!(":{p}"),
		(None, 2) if with_scheme && dflt.is_some() => format!(":{}", dflt.unwrap()),
		(None, _) => String::new(),
	};
	let mut s = format!("{host}{port_s}");
	if rng.chance(1, 12) {
		s = format!("{}@{s}", rng.pick(&["u", "user:pw", "user:8080"]));
	}
	if with_scheme {
		s = format!("{}://{s}", scheme.unwrap());
	}
	s.into_bytes()
}

/// a Host header value / URI authority candidate aimed at the given allow-list
fn gen_request_authority(rng: &mut Rng, allow: &[String]) -> Vec<u8> {
	if !allow.is_empty() && rng.chance(2, 5) {
		return gen_intended_match(rng, allow);
	}
	let (scheme, host_pat, port) = if !allow.is_empty() && rng.chance(5, 6) {
		entry_host_port(rng.pick(allow).as_str())
	} else {
		(None, gen_host_literal(rng), if rng.chance(1, 2) { Some((*rng.pick(PORTS)).to_string()) } else { None })
	};
	let mut host = instantiate(rng, &host_pat);
	// host variants
	match rng.below(24) {
		0 => host = flip_case(rng, &host),
		1 => host = format!("{host}.evil.com"),
		2 => host = format!("evil.{host}"),
		3 => host.push('.'),
		4 => {
			if !host.is_empty() {
				let i = rng.below(host.len() as u64) as usize;
				if host.is_char_boundary(i) && host.is_char_boundary(i + 1) {
					host.replace_range(i..i + 1, *rng.pick(&["x", "", ".", "*", "-"]));
				}
			}
		}
		5 => host = gen_host_literal(rng),
		6 => host = (*rng.pick(&["[::1]", "[2001:db8::1]", "[::ffff:1.2.3.4]", "[1.:2]", "[1.::ffff]", "[::80]"])).to_string(),
		_ => {}
	}
	let mut s = format!("{host}{}", gen_port_suffix(rng, &port, &scheme));
	// userinfo forms
	if rng.chance(1, 5) {
		let u: String = match rng.below(12) {
			0 => "user".into(),
			1 => "user:pw".into(),
			2 => "u:80".into(),
			3 => "useruseruser:8080".into(),
			4 => "a:1:2".into(),
			5 => format!("{}", rng.pick(LITERAL_HOSTS)),
			6 => format!("{}:443", rng.pick(LITERAL_HOSTS)),
			7 => "%41".into(),
			8 => ":".into(),
			9 => (0..rng.range(1, 24)).map(|_| *rng.pick(&['u', ':', '8', '0', '.'])).collect(),
			10 => "".into(),
			_ => format!("{}:{}", gen_label(rng), rng.pick(PORTS)),
		};
		s = format!("{u}@{s}");
	}
	if rng.chance(1, 25) {
		// the allowed authority as userinfo of another host, and the reverse
		s = if rng.chance(1, 2) { format!("{s}@evil.com") } else { format!("evil.com@{s}") };
	}
	// scheme prefixes / paths
	match rng.below(14) {
		0 => s = format!("{}://{s}", scheme.clone().unwrap_or_else(|| (*rng.pick(SCHEMES)).to_string())),
		1 => s = format!("{}://{s}/", rng.pick(SCHEMES)),
		2 => s = format!("{}://{s}/p?q=1", rng.pick(SCHEMES)),
		3 => s.push_str("/path"),
		_ => {}
	}
	let mut b = s.into_bytes();
	// byte-level oddities
	match rng.below(40) {
		0 => b.insert(0, b' '),
		1 => b.push(b' '),
		2 => b.push(b'\t'),
		3 => {
			let i = rng.below(b.len() as u64 + 1) as usize;
			b.splice(i..i, "ä".bytes());
		}
		4 => {
			let i = rng.below(b.len() as u64 + 1) as usize;
			b.insert(i, 0xff);
		}
		5 => {
			let i = rng.below(b.len() as u64 + 1) as usize;
			b.insert(i, *rng.pick(&[b'#', b'?', b'\\', b'%', b'[', b']', b'@', b':', b'"', b'<', b' ']));
		}
		6 => b = "exämple.com".as_bytes().to_vec(),
		7 => {
			let n = rng.range(0, 10);
			b = (0..n).map(|_| *rng.pick(b"ab.*:[]@/%+- 0189")).collect();
		}
		_ => {}
	}
	b
}

fn gen_hf(rng: &mut Rng) -> Case {
	let allow: Option<Vec<String>> = if rng.chance(1, 50) {
		None
	} else {
		let n = match rng.below(10) {
			0 => 0,
			1..=4 => 1,
			5 | 6 => 2,
			7 | 8 => 3,
			_ => 4,
		};
		let mut l: Vec<String> = (0..n).map(|_| gen_entry(rng)).collect();
		// same host twice with different ports (the "no ports are overwritten" path)
		if n >= 2 && rng.chance(1, 3) {
			let (sc, h, _) = entry_host_port(&l[0]);
			let _ = sc;
			l[1] = format!("{h}:{}", rng.pick(PORTS));
		}
		Some(l)
	};
	let list: Vec<String> = allow.clone().unwrap_or_default();
	let primary = gen_request_authority(rng, &list);
	let hosts: Vec<Vec<u8>> = match rng.below(24) {
		0 | 1 => vec![],
		2 => vec![primary.clone(), primary.clone()],
		3 => vec![primary.clone(), b"evil.com".to_vec()],
		4 => vec![gen_request_authority(rng, &list), primary.clone()],
		_ => vec![primary.clone()],
	};
	let as_text = String::from_utf8_lossy(&primary).to_string();
	let uri: Option<String> = match rng.below(24) {
		20..=23 => None,
		0..=8 => None,
		9 | 10 => Some("/".into()),
		11 => Some("/some/path?x=1".into()),
		12 | 13 => Some(as_text.clone()),
		14 | 15 => Some(format!("http://{}/", as_text.trim_start_matches("http://"))),
		16 => Some(String::from_utf8_lossy(&gen_request_authority(rng, &list)).to_string()),
		17 => Some(format!("https://{}/rpc", String::from_utf8_lossy(&gen_request_authority(rng, &list)))),
		18 => Some("*".into()),
		_ => Some(format!("{}", rng.pick(LITERAL_HOSTS))),
	};
	Case { allow, hosts, uri }
}

fn gen_rr(rng: &mut Rng) -> (Vec<String>, String) {
	let n = rng.range(1, 4);
	let small = rng.chance(2, 3);
	let routes: Vec<String> = (0..n)
		.map(|_| {
			if small {
				let k = rng.range(0, 6);
				(0..k).map(|_| *rng.pick(&['a', 'b', '.', '.', '*', ':', '/', 'a'])).collect()
			} else if rng.chance(1, 2) {
				(*rng.pick(PATTERN_HOSTS)).to_string()
			} else {
				gen_host_literal(rng)
			}
		})
		.collect();
	let path: String = if small {
		let k = rng.range(0, 7);
		(0..k).map(|_| *rng.pick(&['a', 'b', '.', 'a', 'b', '.', '/', 'c', '*', ':'])).collect()
	} else {
		let r = rng.pick(&routes).clone();
		let mut h = instantiate(rng, &r);
		if rng.chance(1, 6) {
			h = flip_case(rng, &h);
		}
		if rng.chance(1, 10) {
			h.push_str(".x");
		}
		if rng.chance(1, 20) {
			h.push('ä');
		}
		h
	};
	(routes, path)
}

// ------------------------------------------------------------------------------------------------
// line protocol in (replay / corpus)

fn raw_of(tok: &str) -> Vec<u8> {
	if let Some(b) = tok.strip_prefix("b:") {
		return unhex(b);
	}
	unhex(tok.split(',').next().unwrap_or("-"))
}

fn do_line(out: &mut Out, line: &str) {
	let w: Vec<&str> = line.split(' ').filter(|x| !x.is_empty()).collect();
	if w.is_empty() {
		return;
	}
	match w[0] {
		"auth" => run_auth(out, &String::from_utf8_lossy(&raw_of(w[1]))),
		"autht" => {
			let s: String = serde_json::from_str(line[5..].trim()).expect("autht <json string>");
			run_auth(out, &s)
		}
		"hf" => {
			let mut i = 1;
			let allow = if w[i] == "D" {
				i += 1;
				None
			} else {
				let n: usize = w[i + 1].parse().unwrap();
				let l = (0..n).map(|k| String::from_utf8_lossy(&raw_of(w[i + 2 + k])).to_string()).collect();
				i += 2 + n;
				Some(l)
			};
			assert_eq!(w[i], "H");
			let k: usize = w[i + 1].parse().unwrap();
			let hosts = (0..k).map(|j| raw_of(w[i + 2 + j])).collect();
			i += 2 + k;
			assert_eq!(w[i], "U");
			let uri = if w[i + 1] == "none" { None } else { Some(String::from_utf8_lossy(&unhex(w[i + 1])).to_string()) };
			run_hf(out, Case { allow, hosts, uri })
		}
		"hft" => {
			let v: serde_json::Value = serde_json::from_str(line[3..].trim()).expect("hft <json>");
			let allow = v["allow"].as_array().map(|a| a.iter().map(|x| x.as_str().unwrap().to_string()).collect());
			let hosts = v["hosts"].as_array().map(|a| a.iter().map(|x| x.as_str().unwrap().as_bytes().to_vec()).collect()).unwrap_or_default();
			let uri = v["uri"].as_str().map(|s| s.to_string());
			run_hf(out, Case { allow, hosts, uri })
		}
		"rr" => {
			let n: usize = w[1].parse().unwrap();
			let routes: Vec<String> = (0..n).map(|k| String::from_utf8_lossy(&unhex(w[2 + k])).to_string()).collect();
			let path = String::from_utf8_lossy(&unhex(w[2 + n])).to_string();
			run_rr(out, &routes, &path)
		}
		"rrt" => {
			let v: serde_json::Value = serde_json::from_str(line[3..].trim()).expect("rrt <json>");
			let routes: Vec<String> = v["routes"].as_array().unwrap().iter().map(|x| x.as_str().unwrap().to_string()).collect();
			run_rr(out, &routes, v["path"].as_str().unwrap())
		}
		other => panic!("unknown C14 verb {other}"),
	}
}

fn main() {
	let a = args();
	let mut out = Out::new();
	// keep panic messages of caught panics out of the way
	std::panic::set_hook(Box::new(|_| {}));
	if let Some(r) = &a.replay {
		for l in read_case_lines(r) {
			do_line(&mut out, &l);
		}
	} else {
		for l in corpus_lines("C14") {
			do_line(&mut out, &l);
		}
		let n = a.cases.unwrap_or(if a.tier == "thorough" { 150_000 } else { 8_000 });
		let mut rng = Rng::new(a.seed);
		for i in 0..n {
			let c = gen_hf(&mut rng);
			// every string of the case is also parsed on its own now and then
			if i % 4 == 0 {
				let mut pool: Vec<String> = c.allow.clone().unwrap_or_default();
				pool.extend(c.hosts.iter().filter_map(|h| String::from_utf8(h.clone()).ok()));
				if !pool.is_empty() {
					let s = rng.pick(&pool).clone();
					run_auth(&mut out, &s);
				}
			}
			run_hf(&mut out, c);
			if i % 3 == 0 {
				let (routes, path) = gen_rr(&mut rng);
				if !routes.iter().any(|r| r.contains('\0')) && !path.contains('\0') {
					run_rr(&mut out, &routes, &path);
				}
			}
		}
	}
	let obs: Vec<String> = out.dist.iter().filter(|(k, _)| k.starts_with("obs.")).map(|(k, v)| format!("{k}={v}")).collect();
	out.notes.push(format!(
		"observations (counted, never violations): {}. obs.fwd.named_wildcard_entry = admitted only because route_recognizer reads `*name`/`:name` segments as wildcards; obs.fwd.star_spans_labels = admitted because `*` spans several labels; obs.403.some_entry_matches_best_pattern_only = some entry matches but the router consults only the best pattern's ports (completeness is claimed for a single entry only);",
		if obs.is_empty() { "none".to_string() } else { obs.join(", ") }
	));
	for _ in 0..VIA_ADDR.load(Ordering::SeqCst).min(100000) {
		out.count("hf.entry_via_sockaddr");
	}
	out.write(&a.out);
	if a.replay.is_some() {
		for i in 0..out.ops.len() {
			println!("op:     {}\nimpl:   {}\noracle: {}", out.ops[i], out.impl_[i], out.oracle[i]);
		}
	}
}
