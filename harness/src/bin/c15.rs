//! C15 — wire types: serialise/parse round trips; generated error-code tables; F1 text layer
//! validation (`valid`, `elements`, `members` against serde_json).
use jrpc_harness::common::*;
use jrpc_harness::gens::*;
use jsonrpsee_types::{ErrorCode, ErrorObject, ErrorObjectOwned, Id, InvalidRequest, Notification, Request, Response, ResponsePayload, SubscriptionId};
use serde_json::value::RawValue;

fn kind_name(k: &ErrorCode) -> &'static str {
	match k {
		ErrorCode::ParseError => "ParseError",
		ErrorCode::OversizedRequest => "OversizedRequest",
		ErrorCode::InvalidRequest => "InvalidRequest",
		ErrorCode::MethodNotFound => "MethodNotFound",
		ErrorCode::ServerIsBusy => "ServerIsBusy",
		ErrorCode::InvalidParams => "InvalidParams",
		ErrorCode::InternalError => "InternalError",
		ErrorCode::ServerError(_) => "ServerError",
	}
}
const NAMED: [ErrorCode; 7] = [
	ErrorCode::ParseError,
	ErrorCode::OversizedRequest,
	ErrorCode::InvalidRequest,
	ErrorCode::MethodNotFound,
	ErrorCode::ServerIsBusy,
	ErrorCode::InvalidParams,
	ErrorCode::InternalError,
];

fn err_repr(e: &ErrorObject<'_>) -> String {
	format!("code={} msg={} data={}", e.code(), hexs(e.message()), e.data().map(|d| hexs(d.get())).unwrap_or("none".into()))
}

// ---------------------------------------------------------------------------------------------
// "Twins": the other ways the crate offers to obtain or copy the same value (clone, into_owned, borrow,
// borrowed constructors, conversions, Display, accessors) must agree with the value itself — they
// are what the clients and the server use on their way to and from the wire.

fn ser<T: serde::Serialize>(v: &T) -> String {
	serde_json::to_string(v).unwrap_or_else(|e| format!("<serialisation failed: {e}>"))
}

fn id_twins(id: &Id<'_>) -> Result<(), String> {
	let owned: Id<'static> = id.clone().into_owned();
	if owned != *id || id.clone() != *id || ser(&owned) != ser(id) {
		return Err(format!("Id::into_owned / clone of {id:?} gives {owned:?}"));
	}
	let (n, st, nu) = (id.as_number().copied(), id.as_str().map(|s| s.to_string()), id.as_null());
	let (en, es, enu, disp, parsed) = match id {
		Id::Null => (None, None, Some(()), "null".to_string(), None),
		Id::Number(k) => (Some(*k), None, None, k.to_string(), Some(*k)),
		Id::Str(x) => (None, Some(x.to_string()), None, x.to_string(), x.parse::<u64>().ok()),
	};
	if n != en || st != es || nu != enu {
		return Err(format!("Id accessors of {id:?}: as_number {n:?} as_str {st:?} as_null {nu:?}"));
	}
	if id.to_string() != disp {
		return Err(format!("Display of {id:?} is `{id}`"));
	}
	if id.try_parse_inner_as_number().ok() != parsed {
		return Err(format!("try_parse_inner_as_number of {id:?} = {:?}, expected {parsed:?}", id.try_parse_inner_as_number()));
	}
	Ok(())
}

fn subid_twins(sid: &SubscriptionId<'_>) -> Result<(), String> {
	let owned: SubscriptionId<'static> = sid.clone().into_owned();
	if owned != *sid || ser(&owned) != ser(sid) {
		return Err(format!("SubscriptionId::into_owned of {sid:?} gives {owned:?}"));
	}
	let v: serde_json::Value = sid.clone().into();
	if serde_json::to_string(&v).unwrap() != ser(sid) && !matches!(sid, SubscriptionId::Str(_)) {
		return Err(format!("Value::from({sid:?}) = {v}"));
	}
	match SubscriptionId::try_from(v.clone()) {
		Ok(back) if back == *sid => {}
		other => return Err(format!("{sid:?} -> Value {v} -> {other:?}")),
	}
	let made: SubscriptionId = match sid {
		SubscriptionId::Num(n) => (*n).into(),
		SubscriptionId::Str(s) => s.to_string().into(),
	};
	if made != *sid {
		return Err(format!("From<u64>/From<String> gives {made:?} for {sid:?}"));
	}
	Ok(())
}

fn err_twins(e: &ErrorObject<'_>) -> Result<(), String> {
	let same = |a: &ErrorObject, b: &ErrorObject| a.code() == b.code() && a.message() == b.message() && a.data().map(|d| d.get()) == b.data().map(|d| d.get());
	let owned: ErrorObjectOwned = e.clone().into_owned();
	if !same(&owned, e) || ser(&owned) != ser(e) {
		return Err(format!("ErrorObject::into_owned of {e:?} gives {owned:?}"));
	}
	let b = e.borrow();
	if !same(&b, e) || ser(&b) != ser(e) {
		return Err(format!("ErrorObject::borrow of {e:?} gives {b:?}"));
	}
	let made = ErrorObject::borrowed(e.code(), e.message(), e.data());
	if !same(&made, e) || ser(&made) != ser(e) {
		return Err(format!("ErrorObject::borrowed(..) of the parts of {e:?} gives {made:?}"));
	}
	let made = ErrorObject::owned(e.code(), e.message().to_string(), e.data().map(|d| d.to_owned()));
	if !same(&made, e) || ser(&made) != ser(e) {
		return Err(format!("ErrorObject::owned(..) of the parts of {e:?} gives {made:?}"));
	}
	// the error object of a bare code: that code, the code's standard message, no data
	let kind = ErrorCode::from(e.code());
	let bare: ErrorObject = kind.into();
	if bare.code() != e.code() || bare.message() != kind.message() || bare.data().is_some() {
		return Err(format!("ErrorObject::from(ErrorCode::from({})) = {bare:?}", e.code()));
	}
	Ok(())
}

fn resp_copy<'a>(r: &Response<'a, Box<RawValue>>) -> Response<'a, Box<RawValue>> {
	let mut c = Response::new(r.payload.clone(), r.id.clone());
	if r.jsonrpc.is_none() {
		c.jsonrpc = None;
	}
	c
}

fn resp_twins(r: &Response<'_, Box<RawValue>>) -> Result<(), String> {
	type T = Box<RawValue>;
	let result_text = |v: &T| v.get().to_string();
	let copy = resp_copy;
	let s = ser(r);
	// `Response` is not `Clone`: a copy is put together from copies of its parts (`resp_copy`)
	if ser(&copy(r)) != s {
		return Err(format!("Response::new(payload.clone(), id.clone()) of {s} gives {}", ser(&copy(r))));
	}
	// the constructor that also takes extensions builds the same message (extensions never reach the wire)
	{
		let mut ext = http::Extensions::new();
		ext.insert(7u32);
		let mut c = Response::new_with_extensions(r.payload.clone(), r.id.clone(), ext);
		if c.extensions().get::<u32>() != Some(&7) {
			return Err("Response::new_with_extensions lost the extensions".into());
		}
		c.extensions_mut().insert(8u64);
		if r.jsonrpc.is_none() {
			c.jsonrpc = None;
		}
		if ser(&c) != s {
			return Err(format!("Response::new_with_extensions(..) of the parts of {s} gives {}", ser(&c)));
		}
	}
	let owned = copy(r).into_owned();
	if ser(&owned) != s || owned.id != r.id || owned.jsonrpc.is_some() != r.jsonrpc.is_some() {
		return Err(format!("Response::into_owned of {s} gives {}", ser(&owned)));
	}
	if r.to_string() != s || format!("{r:?}") != s {
		return Err(format!("Display/Debug of response {s}: `{r}` / `{r:?}`"));
	}
	// the payload's own copies
	let with = |p: ResponsePayload<'_, T>| {
		let mut c = Response::new(p, r.id.clone());
		if r.jsonrpc.is_none() {
			c.jsonrpc = None;
		}
		ser(&c)
	};
	match &r.payload {
		ResponsePayload::Success(v) => {
			let (a, b, c) = (with(ResponsePayload::success_borrowed(v.as_ref())), with(ResponsePayload::success(v.clone().into_owned())), with(r.payload.clone().into_owned()));
			if a != s || b != s || c != s {
				return Err(format!("success_borrowed / success / into_owned of the payload of {s}: {a} / {b} / {c}"));
			}
		}
		ResponsePayload::Error(e) => {
			let (a, b, c) = (with(ResponsePayload::error_borrowed(e.borrow())), with(ResponsePayload::error(e.clone().into_owned())), with(r.payload.clone().into_owned()));
			if a != s || b != s || c != s {
				return Err(format!("error_borrowed / error / into_owned of the payload of {s}: {a} / {b} / {c}"));
			}
			err_twins(e)?;
		}
	}
	// Success::try_from: Ok exactly for a result, carrying it and the id; otherwise the error object
	match (jsonrpsee_types::response::Success::try_from(copy(r)), &r.payload) {
		(Ok(su), ResponsePayload::Success(v)) if su.id == r.id && result_text(&su.result) == result_text(v.as_ref()) && su.jsonrpc.is_some() == r.jsonrpc.is_some() => {}
		(Err(e), ResponsePayload::Error(e0)) if e.code() == e0.code() && e.message() == e0.message() && e.data().map(|d| d.get()) == e0.data().map(|d| d.get()) => {}
		(other, _) => return Err(format!("Success::try_from({s}) = {:?}", other.map(|su| (su.id, result_text(&su.result))))),
	}
	id_twins(&r.id)
}

fn req_twins(r: &Request<'_>) -> Result<(), String> {
	let s = ser(r);
	let params_txt = r.params.as_ref().map(|p| p.get().to_string());
	let b = Request::borrowed(&r.method, r.params.as_deref(), r.id.clone());
	let o = Request::owned(r.method.to_string(), r.params.as_ref().map(|p| p.clone().into_owned()), r.id.clone());
	if ser(&b) != s || ser(&o) != s || ser(&r.clone()) != s {
		return Err(format!("Request::borrowed / owned / clone of {s}: {} / {}", ser(&b), ser(&o)));
	}
	if r.id() != r.id || r.method_name() != r.method.as_ref() || r.params().as_str().map(|x| x.to_string()) != params_txt {
		return Err(format!("Request accessors of {s}: id {:?} method {:?} params {:?}", r.id(), r.method_name(), r.params().as_str()));
	}
	id_twins(&r.id)
}

fn do_line(out: &mut Out, line: &str) {
	let w: Vec<&str> = line.split(' ').collect();
	let txt = |i: usize| String::from_utf8(unhex(w[i])).unwrap();
	match w[0] {
		"code" => {
			let c: i32 = w[1].parse().unwrap();
			let k = ErrorCode::from(c);
			let o = format!("kind={} code={}", kind_name(&k), k.code());
			let orc = if k.code() == c { Ok(()) } else { Err(format!("code {c} -> {:?} -> {}", k, k.code())) };
			out.line(line.into(), o, orc, true);
		}
		"kind" => {
			let k = NAMED.iter().find(|k| kind_name(k) == w[1]).unwrap();
			let back = ErrorCode::from(k.code());
			let o = format!("code={} back={}", k.code(), kind_name(&back));
			let orc = if back == *k { Ok(()) } else { Err(format!("kind {:?} -> {} -> {:?}", k, k.code(), back)) };
			out.line(line.into(), o, orc, true);
		}
		"id_dec" => {
			let t = txt(1);
			let r = serde_json::from_str::<Id>(&t);
			let o = match &r {
				Ok(id) => GId::from_id(id).repr(),
				Err(_) => "err".into(),
			};
			// oracle: accepted ids re-serialise to something that parses to the same id
			let orc = match &r {
				Ok(id) => {
					let s = serde_json::to_string(id).unwrap();
					match serde_json::from_str::<Id>(&s) {
						Ok(id2) if &id2 == id => id_twins(id),
						other => Err(format!("id {t} -> {s} -> {other:?}")),
					}
				}
				Err(_) => Ok(()),
			};
			out.count(if r.is_ok() { "id_dec.ok" } else { "id_dec.err" });
			out.line(line.into(), o, orc, r.is_ok());
		}
		"id_enc" => {
			let gid = parse_gid(w[1]);
			let id = gid.to_id();
			let s = serde_json::to_string(&id).unwrap();
			let back = serde_json::from_str::<Id>(&s);
			let orc = match back {
				Ok(b) if b == id => {
					if serde_json::to_string(&b).unwrap() == s { id_twins(&id) } else { Err("re-serialise differs".into()) }
				}
				other => Err(format!("id round trip {id:?} -> {s} -> {other:?}")),
			};
			out.line(line.into(), hexs(&s), orc, true);
		}
		"subid_dec" => {
			let t = txt(1);
			let r = serde_json::from_str::<SubscriptionId>(&t);
			let o = match &r {
				Ok(SubscriptionId::Num(n)) => format!("n:{n}"),
				Ok(SubscriptionId::Str(s)) => format!("s:{}", hexs(s)),
				Err(_) => "err".into(),
			};
			let orc = match &r {
				Ok(id) => {
					let s = serde_json::to_string(id).unwrap();
					match serde_json::from_str::<SubscriptionId>(&s) {
						Ok(id2) if &id2 == id => subid_twins(id),
						other => Err(format!("subid {t} -> {s} -> {other:?}")),
					}
				}
				Err(_) => Ok(()),
			};
			// the conversion from an already parsed JSON value must agree with parsing the text
			let orc = orc.and_then(|_| match serde_json::from_str::<serde_json::Value>(&t) {
				Ok(v) => {
					let via: Result<SubscriptionId, _> = SubscriptionId::try_from(v);
					match (&r, &via) {
						(Ok(a), Ok(b)) if a == b => Ok(()),
						(Err(_), Err(_)) => Ok(()),
						_ => Err(format!("SubscriptionId::try_from(Value) = {via:?} but parsing `{t}` gives {r:?}")),
					}
				}
				Err(_) => Ok(()),
			});
			out.line(line.into(), o, orc, r.is_ok());
		}
		"subid_enc" => {
			let id = match parse_gid(w[1]) {
				GId::Num(n) => SubscriptionId::Num(n),
				GId::Str(s) => SubscriptionId::Str(s.into()),
				GId::Null => unreachable!(),
			};
			let s = serde_json::to_string(&id).unwrap();
			let orc = match serde_json::from_str::<SubscriptionId>(&s) {
				Ok(b) if b == id => subid_twins(&id),
				other => Err(format!("subid round trip {id:?} -> {s} -> {other:?}")),
			};
			out.line(line.into(), hexs(&s), orc, true);
		}
		"req_dec" => {
			let t = txt(1);
			let r = serde_json::from_str::<Request>(&t);
			let o = match &r {
				Ok(r) => format!(
					"id={} method={} params={}",
					GId::from_id(&r.id).repr(),
					hexs(&r.method),
					r.params.as_ref().map(|p| hexs(p.get())).unwrap_or("none".into())
				),
				Err(_) => "err".into(),
			};
			let orc = match &r {
				Ok(req) => {
					let s = serde_json::to_string(req).unwrap();
					match serde_json::from_str::<Request>(&s) {
						Ok(r2)
							if r2.id == req.id
								&& r2.method == req.method && r2.params.as_ref().map(|p| p.get().to_string())
								== req.params.as_ref().map(|p| p.get().to_string()) =>
						{
							req_twins(req)
						}
						other => Err(format!("request re-parse mismatch: {s} -> {other:?}")),
					}
				}
				Err(_) => Ok(()),
			};
			out.count(if r.is_ok() { "req_dec.ok" } else { "req_dec.err" });
			out.line(line.into(), o, orc, r.is_ok());
		}
		"notif_dec" => {
			let t = txt(1);
			let r = serde_json::from_str::<Notification<Option<&RawValue>>>(&t);
			let o = match &r {
				Ok(r) => format!("method={} params={}", hexs(&r.method), r.params.map(|p| hexs(p.get())).unwrap_or("none".into())),
				Err(_) => "err".into(),
			};
			out.count(if r.is_ok() { "notif_dec.ok" } else { "notif_dec.err" });
			out.line(line.into(), o, Ok(()), r.is_ok());
		}
		"inv_dec" => {
			let t = txt(1);
			let r = serde_json::from_str::<InvalidRequest>(&t);
			let o = match &r {
				Ok(r) => GId::from_id(&r.id).repr(),
				Err(_) => "err".into(),
			};
			out.line(line.into(), o, Ok(()), r.is_ok());
		}
		"err_dec" => {
			let t = txt(1);
			let r = serde_json::from_str::<ErrorObject>(&t);
			let o = match &r {
				Ok(e) => err_repr(e),
				Err(_) => "err".into(),
			};
			let orc = match &r {
				Ok(e) => {
					let s = serde_json::to_string(e).unwrap();
					// "equal" is judged field by field here, and the library's own `==` must say the same
					let same = |a: &ErrorObject, b: &ErrorObject| a.code() == b.code() && a.message() == b.message() && a.data().map(|d| d.get()) == b.data().map(|d| d.get());
					let data_owned: Option<Box<RawValue>> = e.data().map(|d| d.to_owned());
					let other_code = ErrorObject::owned(e.code().wrapping_add(1), e.message().to_string(), data_owned.clone());
					let other_msg = ErrorObject::owned(e.code(), format!("{}x", e.message()), data_owned.clone());
					let other_data = ErrorObject::owned(e.code(), e.message().to_string(), Some(RawValue::from_string("[\"other\"]".into()).unwrap()));
					let eq_ok = (other_code == *e) == same(&other_code, e) && (other_msg == *e) == same(&other_msg, e) && (other_data == *e) == same(&other_data, e);
					match serde_json::from_str::<ErrorObject>(&s) {
						Ok(e2) if same(&e2, e) && e2 == *e && eq_ok => err_twins(e),
						other => Err(format!("error object re-parse mismatch (or `==` disagrees with the fields): {s} -> {other:?}")),
					}
				}
				Err(_) => Ok(()),
			};
			out.count(if r.is_ok() { "err_dec.ok" } else { "err_dec.err" });
			out.line(line.into(), o, orc, r.is_ok());
		}
		"resp_dec" => {
			let t = txt(1);
			let r = serde_json::from_str::<Response<&RawValue>>(&t);
			let o = match &r {
				Ok(r) => resp_repr(r),
				Err(_) => "err".into(),
			};
			// oracle: the parser accepts exactly per the statement (checked with plain serde_json::Value
			// when the text has no duplicate keys — Value cannot see duplicates).
			let orc = resp_dec_oracle(&t, r.is_ok()).and_then(|_| match &r {
				Ok(_) => match serde_json::from_str::<Response<Box<RawValue>>>(&t) {
					Ok(rp) => resp_twins(&rp),
					Err(e) => Err(format!("accepted as Response<&RawValue> but not as Response<Box<RawValue>>: {e}")),
				},
				Err(_) => Ok(()),
			});
			out.count(if r.is_ok() { "resp_dec.ok" } else { "resp_dec.err" });
			out.line(line.into(), o, orc, true);
		}
		"resp_enc" => {
			let jsonrpc = w[1] == "1";
			let id = parse_gid(w[2]).to_id();
			let (s, orc) = if w[3] == "result" {
				let raw = RawValue::from_string(txt(4)).unwrap();
				let mut r: Response<Box<RawValue>> = Response::new(ResponsePayload::success(raw.clone()), id.clone());
				if !jsonrpc {
					r.jsonrpc = None;
				}
				let s = serde_json::to_string(&r).unwrap();
				let orc = match serde_json::from_str::<Response<&RawValue>>(&s) {
					Ok(b) => match &b.payload {
						ResponsePayload::Success(v) if v.get() == raw.get() && b.id == id && b.jsonrpc.is_some() == jsonrpc => {
							emitted_ok(&s, jsonrpc).and_then(|_| resp_twins(&r))
						}
						_ => Err(format!("response round trip mismatch {s}")),
					},
					Err(e) => Err(format!("own response does not parse: {s}: {e}")),
				};
				(s, orc)
			} else {
				let code: i32 = w[4].parse().unwrap();
				let msg = txt(5);
				let data = if w[6] == "none" { None } else { Some(RawValue::from_string(txt(6)).unwrap()) };
				let eo: ErrorObjectOwned = ErrorObject::owned(code, msg.clone(), data.clone());
				let mut r: Response<Box<RawValue>> = Response::new(ResponsePayload::error(eo.clone()), id.clone());
				if !jsonrpc {
					r.jsonrpc = None;
				}
				let s = serde_json::to_string(&r).unwrap();
				let orc = match serde_json::from_str::<Response<&RawValue>>(&s) {
					Ok(b) => match &b.payload {
						ResponsePayload::Error(e)
							if e.code() == code
								&& e.message() == msg && e.data().map(|d| d.get().to_string()) == data.as_ref().map(|d| d.get().to_string())
								&& b.id == id =>
						{
							emitted_ok(&s, jsonrpc).and_then(|_| resp_twins(&r))
						}
						ResponsePayload::Error(e) if data.as_ref().map(|d| d.get()) == Some("null") && e.data().is_none() && e.code() == code && e.message() == msg && b.id == id => {
							Err(format!("KF optional-raw-null-reads-back-absent error data Some(null) -> {s} -> data None"))
						}
						_ => Err(format!("error response round trip mismatch {s}")),
					},
					Err(e) => Err(format!("own response does not parse: {s}: {e}")),
				};
				(s, orc)
			};
			out.line(line.into(), hexs(&s), orc, true);
		}
		"err_enc" => {
			let code: i32 = w[1].parse().unwrap();
			let msg = txt(2);
			let data = if w[3] == "none" { None } else { Some(RawValue::from_string(txt(3)).unwrap()) };
			let eo: ErrorObjectOwned = ErrorObject::owned(code, msg, data);
			let s = serde_json::to_string(&eo).unwrap();
			let orc = match serde_json::from_str::<ErrorObject>(&s) {
				Ok(b) if b == eo => err_twins(&eo),
				Ok(b) if eo.data().map(|d| d.get()) == Some("null") && b.data().is_none() && b.code() == eo.code() && b.message() == eo.message() => {
					Err(format!("KF optional-raw-null-reads-back-absent error data Some(null) -> {s} -> data None"))
				}
				other => Err(format!("error object round trip {s} -> {other:?}")),
			};
			out.line(line.into(), hexs(&s), orc, true);
		}
		"req_enc" => {
			let id = parse_gid(w[1]).to_id();
			let method = txt(2);
			let params = if w[3] == "none" { None } else { Some(RawValue::from_string(txt(3)).unwrap()) };
			let r = Request::owned(method.clone(), params.clone(), id.clone());
			let s = serde_json::to_string(&r).unwrap();
			let orc = match serde_json::from_str::<Request>(&s) {
				Ok(b)
					if b.id == id
						&& b.method == method && b.params.as_ref().map(|p| p.get().to_string()) == params.as_ref().map(|p| p.get().to_string()) =>
				{
					if serde_json::to_string(&b).unwrap() == s { req_twins(&r) } else { Err("request re-serialise differs".into()) }
				}
				Ok(b) if params.as_ref().map(|p| p.get()) == Some("null") && b.params.is_none() && b.id == id && b.method == method => {
					Err(format!("KF optional-raw-null-reads-back-absent request params Some(null) -> {s} -> params None"))
				}
				other => Err(format!("request round trip {s} -> {other:?}")),
			};
			out.line(line.into(), hexs(&s), orc, true);
		}
		"notif_enc" => {
			let method = txt(1);
			let params = if w[2] == "none" { None } else { Some(RawValue::from_string(txt(2)).unwrap()) };
			let n = Notification::new(method.clone().into(), params.clone());
			let s = serde_json::to_string(&n).unwrap();
			let orc = match serde_json::from_str::<Notification<Option<&RawValue>>>(&s) {
				Ok(b) if b.method == method && b.params.map(|p| p.get().to_string()) == params.as_ref().map(|p| p.get().to_string()) => {
					if n.method_name() == method && n.params().as_ref().map(|p| p.get()) == params.as_ref().map(|p| p.get()) && ser(&n.clone()) == s {
						Ok(())
					} else {
						Err(format!("Notification accessors / clone of {s}: method {:?}", n.method_name()))
					}
				}
				Ok(b) if params.as_ref().map(|p| p.get()) == Some("null") && b.params.is_none() && b.method == method => {
					Err(format!("KF optional-raw-null-reads-back-absent notification params Some(null) -> {s} -> params None"))
				}
				other => Err(format!("notification round trip {s} -> {:?}", other.map(|_| ()))),
			};
			out.line(line.into(), hexs(&s), orc, true);
		}
		"valid" => {
			let t = txt(1);
			let a = serde_json::from_str::<&RawValue>(&t).is_ok();
			let b = serde_json::from_str::<serde::de::IgnoredAny>(&t).is_ok();
			let orc = if a == b { Ok(()) } else { Err("RawValue and IgnoredAny disagree".into()) };
			out.count(if a { "valid.yes" } else { "valid.no" });
			out.line(line.into(), if a { "1".into() } else { "0".into() }, orc, true);
		}
		"elements" => {
			let t = txt(1);
			let r = serde_json::from_str::<Vec<&RawValue>>(&t);
			let o = match &r {
				Ok(v) => {
					let mut parts = vec![v.len().to_string()];
					parts.extend(v.iter().map(|e| hexs(e.get())));
					parts.join(" ")
				}
				Err(_) => "err".into(),
			};
			out.count(if r.is_ok() { "elements.ok" } else { "elements.err" });
			out.line(line.into(), o, Ok(()), r.is_ok());
		}
		"members" => {
			let t = txt(1);
			let r = serde_json::from_str::<RawMembers>(&t);
			let o = match &r {
				Ok(v) => {
					let mut parts = vec![v.0.len().to_string()];
					parts.extend(v.0.iter().map(|(k, e)| format!("{}:{}", hexs(k), hexs(e.get()))));
					parts.join(" ")
				}
				Err(_) => "err".into(),
			};
			out.count(if r.is_ok() { "members.ok" } else { "members.err" });
			out.line(line.into(), o, Ok(()), r.is_ok());
		}
		_ => panic!("unknown verb {line}"),
	}
}

/// every emitted response: jsonrpc "2.0", an id, exactly one of result/error (checked with plain Value)
fn emitted_ok(s: &str, jsonrpc: bool) -> Result<(), String> {
	// member-level check that does not interpret payload numbers (1e400 is valid JSON text)
	let ms = serde_json::from_str::<RawMembers>(s).map_err(|e| format!("emitted text is not a JSON object: {e}"))?;
	let cnt = |k: &str| ms.0.iter().filter(|(kk, _)| kk == k).count();
	let get = |k: &str| ms.0.iter().find(|(kk, _)| kk == k).map(|(_, v)| v.get());
	if jsonrpc && get("jsonrpc") != Some("\"2.0\"") {
		return Err("missing jsonrpc 2.0".into());
	}
	if cnt("id") != 1 {
		return Err("missing id".into());
	}
	if cnt("result") + cnt("error") != 1 {
		return Err("not exactly one of result/error".into());
	}
	if ms.0.iter().any(|(k, _)| !["jsonrpc", "id", "result", "error"].contains(&k.as_str())) {
		return Err("unknown member emitted".into());
	}
	Ok(())
}

fn resp_repr(r: &Response<&RawValue>) -> String {
	let j = if r.jsonrpc.is_some() { "1" } else { "0" };
	match &r.payload {
		ResponsePayload::Success(v) => format!("jsonrpc={j} id={} result={}", GId::from_id(&r.id).repr(), hexs(v.get())),
		ResponsePayload::Error(e) => format!("jsonrpc={j} id={} error {}", GId::from_id(&r.id).repr(), err_repr(e)),
	}
}

/// Members of an object with *decoded* keys and raw values, duplicates kept, in order.
struct RawMembers<'a>(Vec<(String, &'a RawValue)>);
impl<'de> serde::Deserialize<'de> for RawMembers<'de> {
	fn deserialize<D: serde::Deserializer<'de>>(d: D) -> Result<Self, D::Error> {
		struct V;
		impl<'de> serde::de::Visitor<'de> for V {
			type Value = RawMembers<'de>;
			fn expecting(&self, f: &mut std::fmt::Formatter) -> std::fmt::Result {
				f.write_str("object")
			}
			fn visit_map<A: serde::de::MapAccess<'de>>(self, mut map: A) -> Result<Self::Value, A::Error> {
				let mut v = vec![];
				while let Some(k) = map.next_key::<String>()? {
					let val: &'de RawValue = map.next_value()?;
					v.push((k, val));
				}
				Ok(RawMembers(v))
			}
		}
		d.deserialize_map(V)
	}
}

/// The statement's acceptance rule for the response parser, evaluated independently on the member
/// list: id present once and in the id domain; exactly one of result/error, once; jsonrpc absent,
/// null or "2.0"; duplicates of the four known names reject; error member must be an error object.
fn resp_dec_oracle(t: &str, accepted: bool) -> Result<(), String> {
	let Ok(ms) = serde_json::from_str::<RawMembers>(t) else {
		return if accepted { Err("accepted a non-object".into()) } else { Ok(()) };
	};
	let cnt = |k: &str| ms.0.iter().filter(|(kk, _)| kk == k).count();
	let get = |k: &str| ms.0.iter().find(|(kk, _)| kk == k).map(|(_, v)| v.get());
	let dup = ["jsonrpc", "id", "result", "error"].iter().any(|k| cnt(k) > 1);
	let id_ok = get("id").map(|r| serde_json::from_str::<Id>(r).is_ok()).unwrap_or(false);
	let j_ok = match get("jsonrpc") {
		None => true,
		Some(r) => r == "null" || serde_json::from_str::<String>(r).map(|s| s == "2.0").unwrap_or(false),
	};
	let one = (cnt("result") == 1) != (cnt("error") == 1);
	let err_ok = match get("error") {
		Some(r) if cnt("result") == 0 => serde_json::from_str::<ErrorObject>(r).is_ok(),
		_ => true,
	};
	let expect = !dup && id_ok && j_ok && one && err_ok;
	if expect == accepted {
		Ok(())
	} else {
		Err(format!("response parser accepted={accepted} but the statement's rule says {expect}: {t}"))
	}
}

fn parse_gid(s: &str) -> GId {
	if s == "null" {
		GId::Null
	} else if let Some(n) = s.strip_prefix("n:") {
		GId::Num(n.parse().unwrap())
	} else {
		GId::Str(String::from_utf8(unhex(&s[2..])).unwrap())
	}
}

fn gen_payload(rng: &mut Rng) -> String {
	// raw payload text as jsonrpsee stores it (RawValue keeps the text verbatim, interior whitespace included)
	loop {
		let d = rng.range(0, 4) as u32;
		let t = gen_json(rng, d);
		if RawValue::from_string(t.clone()).is_ok() {
			return t;
		}
	}
}

fn gen_lines(rng: &mut Rng, n: u64, lines: &mut Vec<String>) {
	// error codes: every constant ±1 and the i32 boundaries, then random
	let consts: [i32; 14] =
		[-32700, -32600, -32601, -32602, -32603, -32000, -32001, -32005, -32006, -32007, -32008, -32009, -32010, -32011];
	for c in consts {
		for d in [-1i32, 0, 1] {
			lines.push(format!("code {}", c + d));
		}
	}
	for c in [i32::MIN, i32::MIN + 1, -1, 0, 1, i32::MAX - 1, i32::MAX, -32768, -32099, -32100] {
		lines.push(format!("code {c}"));
	}
	for k in NAMED.iter() {
		lines.push(format!("kind {}", kind_name(k)));
	}
	// response members: all subsets/orders/duplications of up to 4 members out of 5 names x 3 value classes (sampled part below)
	let names = ["jsonrpc", "id", "result", "error", "x"];
	let vals: [&[&str]; 5] = [
		&["\"2.0\"", "null", "\"1.0\"", "2.0", "\"2\\u002e0\""],
		&["1", "null", "\"a\"", "-1", "[1]", "1.5"],
		&["1", "null", "{\"a\":[1]}"],
		&["{\"code\":-32000,\"message\":\"m\"}", "null", "{\"code\":1,\"message\":\"m\",\"data\":null}", "{\"code\":1}", "{\"code\":1,\"message\":\"m\",\"z\":1}", "[1,\"m\",null]", "{\"code\":1.0,\"message\":\"m\"}"],
		&["1", "{}"],
	];
	// exhaustive part (independent of the seed): every sequence of up to 4 members with the first value of
	// each class, and every sequence of 2..3 members with each member's value ranging over the first three
	// values of its class — all subsets, orders and duplications, incl. duplicates whose first occurrence is null
	{
		fn emit(lines: &mut Vec<String>, names: &[&str; 5], vals: &[&[&str]; 5], seq: &[(usize, usize)]) {
			let parts: Vec<String> = seq.iter().map(|(i, j)| format!("\"{}\":{}", names[*i], vals[*i][*j])).collect();
			lines.push(format!("resp_dec {}", hexs(&format!("{{{}}}", parts.join(",")))));
		}
		for len in 1..=4usize {
			let mut idx = vec![0usize; len];
			loop {
				let seq: Vec<(usize, usize)> = idx.iter().map(|i| (*i, 0)).collect();
				emit(lines, &names, &vals, &seq);
				let mut k = 0;
				while k < len {
					idx[k] += 1;
					if idx[k] < 5 { break; }
					idx[k] = 0;
					k += 1;
				}
				if k == len { break; }
			}
		}
		for len in 2..=3usize {
			let mut idx = vec![0usize; len];
			loop {
				let mut vj = vec![0usize; len];
				loop {
					if vj.iter().any(|j| *j > 0) {
						let seq: Vec<(usize, usize)> = idx.iter().zip(vj.iter()).map(|(i, j)| (*i, (*j).min(vals[*i].len() - 1))).collect();
						emit(lines, &names, &vals, &seq);
					}
					let mut k = 0;
					while k < len {
						vj[k] += 1;
						if vj[k] < 3 { break; }
						vj[k] = 0;
						k += 1;
					}
					if k == len { break; }
				}
				let mut k = 0;
				while k < len {
					idx[k] += 1;
					if idx[k] < 5 { break; }
					idx[k] = 0;
					k += 1;
				}
				if k == len { break; }
			}
		}
	}
	// duplicated known members inside an otherwise complete response: every pair of values of the
	// duplicated member (so also `null` first, then a real value), pair first / split / last
	for dn in 0..4usize {
		for v1 in vals[dn] {
			for v2 in vals[dn] {
				let rest: Vec<String> = [(0usize, "\"2.0\""), (1, "1"), (2, "1")].iter().filter(|(i, _)| *i != dn).map(|(i, v)| format!("\"{}\":{v}", names[*i])).collect();
				let a = format!("\"{}\":{v1}", names[dn]);
				let b = format!("\"{}\":{v2}", names[dn]);
				let r = rest.join(",");
				let sep = if r.is_empty() { "" } else { "," };
				for t in [format!("{{{a},{b}{sep}{r}}}"), format!("{{{a}{sep}{r},{b}}}"), format!("{{{r}{sep}{a},{b}}}")] {
					lines.push(format!("resp_dec {}", hexs(&t)));
				}
			}
		}
	}
	for _ in 0..n {
		match rng.below(16) {
			0 => lines.push(format!("code {}", rng.next() as i32)),
			1 => {
				let t = if rng.chance(2, 3) { gen_id(rng).spell(rng) } else { gen_non_id(rng) };
				let t = if rng.chance(1, 6) { mutate(rng, &t) } else { t };
				lines.push(format!("id_dec {}", hexs(&t)));
				lines.push(format!("subid_dec {}", hexs(&t)));
			}
			2 => {
				let id = gen_id(rng);
				lines.push(format!("id_enc {}", id.repr()));
				if id != GId::Null {
					lines.push(format!("subid_enc {}", id.repr()));
				}
			}
			3 | 4 => {
				// response member combinatorics
				let k = rng.range(0, 5) as usize;
				let mut parts = vec![];
				for _ in 0..k {
					let i = rng.below(5) as usize;
					let v = if rng.chance(3, 5) { vals[i][0] } else { *rng.pick(vals[i]) };
					// the fifth slot is an unknown member: any name that is not one of the four known ones,
					// also names that mean something in OTHER message kinds, and escaped spellings of the known names
					let name = if i == 4 { *rng.pick(&["x", "method", "params", "subscription", "code", "message", "data", "Result", "ID", " id", "", "jsonrpc "]) } else { names[i] };
					let key = if rng.chance(1, 10) { spell_string(rng, name) } else { format!("\"{name}\"") };
					parts.push(format!("{}{}{}:{}{}", ws(rng), key, ws(rng), ws(rng), v));
				}
				let t = format!("{}{{{}{}}}{}", ws(rng), parts.join(","), ws(rng), ws(rng));
				let t = if rng.chance(1, 10) { mutate(rng, &t) } else { t };
				lines.push(format!("resp_dec {}", hexs(&t)));
			}
			5 => {
				let id = gen_id(rng);
				let j = if rng.chance(5, 6) { 1 } else { 0 };
				if rng.chance(1, 2) {
					lines.push(format!("resp_enc {j} {} result {}", id.repr(), hexs(&gen_payload(rng))));
				} else {
					let code = if rng.chance(1, 2) { *rng.pick(&consts) } else { rng.next() as i32 };
					let data = if rng.chance(1, 2) { hexs(&gen_payload(rng)) } else { "none".into() };
					lines.push(format!("resp_enc {j} {} error {code} {} {data}", id.repr(), hexs(&gen_str_content(rng))));
					let data2 = if rng.chance(1, 2) { hexs(&gen_payload(rng)) } else { "none".into() };
					lines.push(format!("err_enc {code} {} {data2}", hexs(&gen_str_content(rng))));
				}
			}
			6 => {
				let id = gen_id(rng);
				let params = if rng.chance(2, 3) { hexs(&gen_payload(rng)) } else { "none".into() };
				lines.push(format!("req_enc {} {} {params}", id.repr(), hexs(&gen_str_content(rng))));
				lines.push(format!("notif_enc {} {params}", hexs(&gen_str_content(rng))));
			}
			7 | 8 | 9 => {
				// request-like objects: member subsets/orders/dups, then maybe mutated
				let mut parts = vec![];
				let k = rng.range(1, 5);
				let rnames = ["jsonrpc", "id", "method", "params", "extra"];
				let full = rng.chance(1, 2);
				for i in 0..k {
					let name = if full && (i as usize) < 4 { rnames[i as usize] } else { *rng.pick(&rnames) };
					let v = match name {
						"jsonrpc" => if rng.chance(5, 6) { "\"2.0\"".to_string() } else { (*rng.pick(&["\"2\"", "2.0", "null", "\"2\\u002e0\""])).to_string() },
						"id" => if rng.chance(3, 4) { gen_id(rng).spell(rng) } else { gen_non_id(rng) },
						"method" => if rng.chance(5, 6) { let s = gen_str_content(rng); spell_string(rng, &s) } else { (*rng.pick(&["1", "null", "[]", "\"\\ud800\""])).to_string() },
						_ => gen_json(rng, 2),
					};
					let key = if rng.chance(1, 12) { spell_string(rng, name) } else { format!("\"{name}\"") };
					parts.push(format!("{}{}{}:{}{}", ws(rng), key, ws(rng), ws(rng), v));
				}
				if rng.chance(1, 3) {
					let i = rng.below(parts.len() as u64) as usize;
					let j = rng.below(parts.len() as u64) as usize;
					parts.swap(i, j);
				}
				let mut t = format!("{}{{{}{}}}{}", ws(rng), parts.join(","), ws(rng), ws(rng));
				if rng.chance(1, 8) {
					t = mutate(rng, &t);
				}
				if rng.chance(1, 20) {
					// positional (array) form of derived structs
					t = format!("[\"2.0\",{},\"m\",{}]", gen_id(rng).spell(rng), gen_json(rng, 1));
				}
				lines.push(format!("req_dec {}", hexs(&t)));
				lines.push(format!("notif_dec {}", hexs(&t)));
				lines.push(format!("inv_dec {}", hexs(&t)));
			}
			10 => {
				let i = 3;
				let v = *rng.pick(vals[i]);
				let t = if rng.chance(1, 3) { mutate(rng, v) } else { v.to_string() };
				lines.push(format!("err_dec {}", hexs(&t)));
				let code = match rng.below(6) { 0 => "2147483647".to_string(), 1 => "2147483648".into(), 2 => "-2147483648".into(), 3 => "-2147483649".into(), 4 => "-0".into(), _ => (rng.next() as i32).to_string() };
				let t = format!("{{\"message\":{},\"code\":{}{}}}", { let s = gen_str_content(rng); spell_string(rng, &s) }, code, if rng.chance(1, 2) { format!(",\"data\":{}", gen_json(rng, 2)) } else { String::new() });
				lines.push(format!("err_dec {}", hexs(&t)));
			}
			_ => {
				let depth = rng.range(0, 5) as u32;
				let mut t = format!("{}{}{}", ws(rng), gen_json(rng, depth), ws(rng));
				if rng.chance(1, 3) {
					t = mutate(rng, &t);
					if rng.chance(1, 3) {
						t = mutate(rng, &t);
					}
				}
				lines.push(format!("valid {}", hexs(&t)));
				lines.push(format!("elements {}", hexs(&t)));
				lines.push(format!("members {}", hexs(&t)));
			}
		}
	}
}

fn main() {
	let a = args();
	let mut out = Out::new();
	let mut lines = vec![];
	if let Some(r) = &a.replay {
		lines = read_case_lines(r);
	} else {
		lines.extend(corpus_lines("C15"));
		let n = a.cases.unwrap_or(if a.tier == "thorough" { 400000 } else { 4000 });
		let mut rng = Rng::new(a.seed);
		gen_lines(&mut rng, n, &mut lines);
	}
	for l in &lines {
		do_line(&mut out, l);
	}
	// exhaustive implementation-side sweep of all i32 codes (thorough): pure oracle, no model line
	if a.tier == "thorough" && a.replay.is_none() {
		let mut bad = 0u64;
		let mut first = None;
		for c in i32::MIN..=i32::MAX {
			if ErrorCode::from(c).code() != c {
				bad += 1;
				first.get_or_insert(c);
			}
		}
		out.notes.push(format!("exhaustive i32 sweep of ErrorCode::from(c).code()==c: 4294967296 codes, {bad} failures"));
		if let Some(c) = first {
			out.line(format!("code {c}"), "sweep".into(), Err(format!("code {c} does not round-trip")), true);
		}
	}
	out.write(&a.out);
	if a.replay.is_some() {
		for i in 0..out.ops.len() {
			println!("op:     {}\nimpl:   {}\noracle: {}", out.ops[i], out.impl_[i], out.oracle[i]);
		}
	}
}
