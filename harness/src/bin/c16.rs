//! C16 — params decoding (`Params`, `ParamsSequence`) vs the model; oracle = plain serde_json parse.
use jrpc_harness::common::*;
use jrpc_harness::gens::*;
use jsonrpsee_types::{ErrorObjectOwned, Params};
use serde_json::value::RawValue;

#[derive(Debug, Clone, PartialEq)]
enum PVal {
	U(u64),
	I(i64),
	S(String),
	B(bool),
	Any(String),
	Vec(Vec<String>),
}
impl PVal {
	fn repr(&self) -> String {
		match self {
			PVal::U(n) => n.to_string(),
			PVal::I(n) => n.to_string(),
			PVal::S(s) => hexs(s),
			PVal::B(b) => b.to_string(),
			PVal::Any(r) => hexs(r),
			PVal::Vec(v) => format!("[{}]", v.iter().map(|e| hexs(e)).collect::<Vec<_>>().join(",")),
		}
	}
}
#[derive(Debug, Clone, PartialEq)]
enum Got {
	Val(PVal),
	Abs,
	Err(i32),
}
impl Got {
	fn repr(&self) -> String {
		match self {
			Got::Val(v) => format!("v:{}", v.repr()),
			Got::Abs => "abs".into(),
			Got::Err(c) => format!("E:{c}"),
		}
	}
}
fn e(err: ErrorObjectOwned) -> Got {
	Got::Err(err.code())
}

fn read_next(seq: &mut jsonrpsee_types::params::ParamsSequence<'_>, ty: &str, optional: bool) -> Got {
	macro_rules! rd {
		($t:ty, $f:expr) => {
			if optional {
				match seq.optional_next::<$t>() {
					Ok(Some(v)) => Got::Val($f(v)),
					Ok(None) => Got::Abs,
					Err(er) => e(er),
				}
			} else {
				match seq.next::<$t>() {
					Ok(v) => Got::Val($f(v)),
					Err(er) => e(er),
				}
			}
		};
	}
	match ty {
		"u64" => rd!(u64, PVal::U),
		"u8" => rd!(u8, |v: u8| PVal::U(v as u64)),
		"i64" => rd!(i64, PVal::I),
		"i32" => rd!(i32, |v: i32| PVal::I(v as i64)),
		"str" => rd!(String, PVal::S),
		"bool" => rd!(bool, PVal::B),
		"any" => rd!(Box<RawValue>, |v: Box<RawValue>| PVal::Any(v.get().to_string())),
		"vec" => rd!(Vec<Box<RawValue>>, |v: Vec<Box<RawValue>>| PVal::Vec(v.iter().map(|x| x.get().to_string()).collect())),
		_ => panic!("type {ty}"),
	}
}

fn whole<'a>(p: &'a Params<'a>, ty: &str, verb: &str) -> Got {
	macro_rules! w {
		($t:ty, $f:expr) => {
			match verb {
				"parse" => match p.parse::<$t>() {
					Ok(v) => Got::Val($f(v)),
					Err(er) => e(er),
				},
				"optparse" => match p.parse::<Option<$t>>() {
					Ok(Some(v)) => Got::Val($f(v)),
					Ok(None) => Got::Abs,
					Err(er) => e(er),
				},
				_ => match p.one::<$t>() {
					Ok(v) => Got::Val($f(v)),
					Err(er) => e(er),
				},
			}
		};
	}
	match ty {
		"u64" => w!(u64, PVal::U),
		"u8" => w!(u8, |v: u8| PVal::U(v as u64)),
		"i64" => w!(i64, PVal::I),
		"i32" => w!(i32, |v: i32| PVal::I(v as i64)),
		"str" => w!(String, PVal::S),
		"bool" => w!(bool, PVal::B),
		"any" => w!(Box<RawValue>, |v: Box<RawValue>| PVal::Any(v.get().to_string())),
		"vec" => w!(Vec<Box<RawValue>>, |v: Vec<Box<RawValue>>| PVal::Vec(v.iter().map(|x| x.get().to_string()).collect())),
		_ => panic!("type {ty}"),
	}
}

/// plain-JSON view of one raw element under a type: Some(value) if a plain parse of the slice gives that type
fn plain(raw: &str, ty: &str) -> Option<PVal> {
	match ty {
		"u64" => serde_json::from_str::<u64>(raw).ok().map(PVal::U),
		"u8" => serde_json::from_str::<u8>(raw).ok().map(|v| PVal::U(v as u64)),
		"i64" => serde_json::from_str::<i64>(raw).ok().map(PVal::I),
		"i32" => serde_json::from_str::<i32>(raw).ok().map(|v| PVal::I(v as i64)),
		"str" => serde_json::from_str::<String>(raw).ok().map(PVal::S),
		"bool" => serde_json::from_str::<bool>(raw).ok().map(PVal::B),
		"any" => serde_json::from_str::<Box<RawValue>>(raw).ok().map(|v| PVal::Any(v.get().to_string())),
		"vec" => serde_json::from_str::<Vec<Box<RawValue>>>(raw).ok().map(|v| PVal::Vec(v.iter().map(|x| x.get().to_string()).collect())),
		_ => None,
	}
}

/// Oracle for a sequence script on a text that a plain parse accepts as a JSON array:
/// reads must return the elements in order (typed by a plain parse of the element), `abs` at null / past the end
/// for optional reads, -32602 on type mismatch / exhaustion, and after the first error only errors or `abs`.
fn seq_oracle(text: Option<&str>, script: &[(String, bool)], got: &[Got]) -> Result<(), String> {
	for g in got {
		if let Got::Err(c) = g {
			if *c != -32602 {
				return Err(format!("error code {c} is not -32602"));
			}
		}
	}
	let elems: Vec<String> = match text {
		None => vec![],
		Some(t) => match serde_json::from_str::<Vec<Box<RawValue>>>(t) {
			Ok(v) => v.iter().map(|x| x.get().to_string()).collect(),
			Err(_) => {
				// not an array: nothing may be returned as a value unless ... the statement only speaks about arrays;
				// still: never a panic (we got here) and errors are -32602 (checked above)
				return Ok(());
			}
		},
	};
	let mut pos = 0usize; // number of successful reads so far
	let mut failed = false;
	for (i, ((ty, optional), g)) in script.iter().zip(got.iter()).enumerate() {
		if failed {
			match g {
				Got::Val(v) => return Err(format!("read {i} returned a value {v:?} after an earlier failed read")),
				_ => continue,
			}
		}
		if pos >= elems.len() {
			// exhausted
			let want = if *optional { Got::Abs } else { Got::Err(-32602) };
			if *g != want {
				return Err(format!("read {i} past the end gave {g:?}, expected {want:?}"));
			}
			if !*optional {
				// "No more params" is an error but not a failed *element* read: later reads still see exhaustion
			}
			continue;
		}
		let raw = &elems[pos];
		let expect = if *optional && raw == "null" {
			Got::Abs
		} else {
			match plain(raw, ty) {
				Some(v) => Got::Val(v),
				None => Got::Err(-32602),
			}
		};
		if *g != expect {
			return Err(format!("read {i} (type {ty}, optional {optional}) at element {pos} `{raw}` gave {g:?}, plain parse says {expect:?}"));
		}
		match g {
			Got::Err(_) => failed = true,
			_ => pos += 1,
		}
	}
	Ok(())
}

fn do_line(out: &mut Out, line: &str) {
	let w: Vec<&str> = line.split(' ').collect();
	let text: Option<String> = if w[1] == "none" { None } else { Some(String::from_utf8(unhex(w[1])).unwrap()) };
	let borrowed = Params::new(text.as_deref());
	// every third line reads from an owned copy (`Params::into_owned`), which must behave identically;
	// the accessors must reflect the text the reader was built from
	let accessors_ok = borrowed.as_str().map(|s| s.len()) == Some(borrowed.len_bytes()) || (borrowed.as_str().is_none() && borrowed.len_bytes() == 0);
	let owned_variant = out.ops.len() % 3 == 2;
	let params = if owned_variant { borrowed.clone().into_owned() } else { borrowed.clone() };
	if params.as_str() != borrowed.as_str() || params.is_object() != borrowed.is_object() || !accessors_ok {
		out.line(line.into(), "ACCESSORS".into(), Err(format!("Params accessors disagree: as_str {:?} vs {:?}, len_bytes {}", params.as_str(), borrowed.as_str(), borrowed.len_bytes())), true);
		return;
	}
	out.count(if owned_variant { "params.owned" } else { "params.borrowed" });
	match w[0] {
		"seq" => {
			let script: Vec<(String, bool)> = w[2..].iter().map(|s| (s[2..].to_string(), s.starts_with("o:"))).collect();
			let res = std::panic::catch_unwind(std::panic::AssertUnwindSafe(|| {
				let mut seq = params.sequence();
				script.iter().map(|(ty, opt)| read_next(&mut seq, ty, *opt)).collect::<Vec<Got>>()
			}));
			match res {
				Ok(got) => {
					let o = std::iter::once("r".to_string()).chain(got.iter().map(|g| g.repr())).collect::<Vec<_>>().join(" ");
					let orc = seq_oracle(text.as_deref(), &script, &got);
					let is_arr = text.as_deref().map(|t| serde_json::from_str::<Vec<Box<RawValue>>>(t).is_ok()).unwrap_or(false);
					out.count(if is_arr { "seq.array" } else { "seq.nonarray" });
					for g in &got {
						out.count(match g {
							Got::Val(_) => "read.val",
							Got::Abs => "read.abs",
							Got::Err(_) => "read.err",
						});
					}
					out.line(line.into(), o, orc, is_arr && got.iter().any(|g| matches!(g, Got::Val(_))));
				}
				Err(_) => out.line(line.into(), "PANIC".into(), Err("reader panicked".into()), true),
			}
		}
		"parse" | "optparse" | "one" => {
			let ty = w[2];
			let res = std::panic::catch_unwind(std::panic::AssertUnwindSafe(|| whole(&params, ty, w[0])));
			match res {
				Ok(g) => {
					// oracle: agree with a plain parse of the same text
					let t = text.clone().unwrap_or("null".into());
					let expect = match w[0] {
						"parse" => plain(&t, ty).map(Got::Val).unwrap_or(Got::Err(-32602)),
						"optparse" => {
							if serde_json::from_str::<()>(&t).is_ok() {
								Got::Abs
							} else {
								plain(&t, ty).map(Got::Val).unwrap_or(Got::Err(-32602))
							}
						}
						_ => match serde_json::from_str::<Vec<Box<RawValue>>>(&t) {
							Ok(v) if v.len() == 1 => plain(v[0].get(), ty).map(Got::Val).unwrap_or(Got::Err(-32602)),
							_ => Got::Err(-32602),
						},
					};
					// the statement quantifies over JSON texts: for a text that is not JSON (e.g. surrounded by
					// non-JSON Unicode whitespace, which `Params::new` trims) only "no panic, -32602" is required
					let is_json = serde_json::from_str::<Box<RawValue>>(&t).is_ok();
					let orc = if g == expect || (!is_json && !matches!(g, Got::Err(c) if c != -32602)) {
						Ok(())
					} else {
						Err(format!("{} gave {g:?}, plain parse says {expect:?}", w[0]))
					};
					out.count(&format!("{}.{}", w[0], if matches!(g, Got::Err(_)) { "err" } else { "ok" }));
					out.line(line.into(), g.repr(), orc, !matches!(g, Got::Err(_)));
				}
				Err(_) => out.line(line.into(), "PANIC".into(), Err("parse panicked".into()), true),
			}
		}
		"isobj" => {
			let o = if params.is_object() { "1" } else { "0" };
			// independent reading: params are "by name" exactly when the (trimmed) text starts a JSON object
			let expect = text.as_deref().map(|t| t.trim_start().starts_with('{')).unwrap_or(false);
			let orc = if params.is_object() == expect { Ok(()) } else { Err(format!("is_object() = {} for params {:?}", params.is_object(), text)) };
			out.line(line.into(), o.into(), orc, false);
		}
		_ => panic!("verb {line}"),
	}
}

const TYPES: [&str; 8] = ["u64", "str", "bool", "any", "vec", "u8", "i64", "i32"];

fn gen_elem(rng: &mut Rng) -> String {
	match rng.below(12) {
		0 => "null".into(),
		1 | 2 => GId::Num(rng.below(100)).spell(rng),
		3 => gen_number(rng),
		4 | 5 => {
			let s = gen_str_content(rng);
			spell_string(rng, &s)
		}
		6 => (*rng.pick(&["true", "false"])).to_string(),
		7 => (*rng.pick(&["[]", "[ ]", "{}", "{ }", "[[]]", "[[ ],[]]", "[null]", "[null,7]", "[ null , 7]", "[[null]]", "[[null],2]", "{\"a\":null}", "[null,null]", "[true]", "[\"null\"]", "\"]\"", "\",\"", "\"[\"", "\"\\\"\"", "\"\\\\\""])).to_string(),
		_ => gen_json(rng, 3),
	}
}

fn gen_array(rng: &mut Rng) -> String {
	let n = match rng.below(8) {
		0 => 0,
		1 | 2 => 1,
		_ => rng.range(2, 6),
	};
	let mut o = String::new();
	o.push_str(&ws(rng));
	o.push('[');
	o.push_str(&ws(rng));
	for i in 0..n {
		if i > 0 {
			o.push(',');
			o.push_str(&ws(rng));
		}
		o.push_str(&gen_elem(rng));
		o.push_str(&ws(rng));
	}
	o.push(']');
	o.push_str(&ws(rng));
	o
}

/// a script that mostly matches the element types of `arr`
fn gen_script(rng: &mut Rng, arr: &str) -> Vec<String> {
	let elems: Vec<String> = serde_json::from_str::<Vec<Box<RawValue>>>(arr).map(|v| v.iter().map(|x| x.get().to_string()).collect()).unwrap_or_default();
	let n = rng.range(1, 8) as usize;
	let mut s = vec![];
	for i in 0..n {
		let ty = if i < elems.len() && rng.chance(3, 4) {
			let r = &elems[i];
			if r.starts_with('"') {
				"str"
			} else if r == "true" || r == "false" {
				"bool"
			} else if r.starts_with('[') {
				*rng.pick(&["vec", "any"])
			} else if serde_json::from_str::<u64>(r).is_ok() {
				"u64"
			} else {
				"any"
			}
		} else {
			*rng.pick(&TYPES)
		};
		let opt = rng.chance(1, 3);
		s.push(format!("{}:{ty}", if opt { "o" } else { "n" }));
	}
	s
}

fn gen_lines(rng: &mut Rng, n: u64, lines: &mut Vec<String>) {
	// fixed boundary texts first
	for t in ["[]", "[ ]", "[\t\n]", " [] ", "[1]", "[1 ]", "[ 1]", "[1,2]", "[1 , 2]", "[null]", "[null,null]", "[[]]", "[[ ]]", "[1,", "[1,]", "[,1]", "1", "{}", "{\"a\":1}", "", " ", "null", "[1]x", "[1 2]", "[\"a\"x]", "[truex]", "[1\u{a0},2]", "\u{a0}[1]\u{a0}", "[\u{c}]", "[1,\u{c}2]"] {
		for script in [vec!["n:any"], vec!["o:any"], vec!["n:u64", "n:u64", "n:u64"], vec!["o:u64", "o:u64", "o:u64"], vec!["n:any", "o:any", "n:any", "o:any"]] {
			lines.push(format!("seq {} {}", hexs(t), script.join(" ")));
		}
		for ty in TYPES {
			lines.push(format!("parse {} {ty}", hexs(t)));
			lines.push(format!("optparse {} {ty}", hexs(t)));
			lines.push(format!("one {} {ty}", hexs(t)));
		}
		lines.push(format!("isobj {}", hexs(t)));
	}
	for script in [vec!["n:any"], vec!["o:any"], vec!["o:u64", "n:u64"]] {
		lines.push(format!("seq none {}", script.join(" ")));
	}
	lines.push("isobj none".into());
	for ty in TYPES {
		lines.push(format!("parse none {ty}"));
		lines.push(format!("optparse none {ty}"));
		lines.push(format!("one none {ty}"));
	}
	for _ in 0..n {
		let mut t = match rng.below(10) {
			0..=6 => gen_array(rng),
			7 => format!("{}{}{}", ws(rng), gen_json(rng, 3), ws(rng)),
			_ => {
				let a = gen_array(rng);
				mutate(rng, &a)
			}
		};
		if rng.chance(1, 15) {
			t = mutate(rng, &t);
		}
		let script = gen_script(rng, &t);
		lines.push(format!("seq {} {}", hexs(&t), script.join(" ")));
		if rng.chance(1, 4) {
			let ty = *rng.pick(&TYPES);
			let verb = *rng.pick(&["parse", "optparse", "one"]);
			lines.push(format!("{verb} {} {ty}", hexs(&t)));
		}
		if rng.chance(1, 10) {
			lines.push(format!("isobj {}", hexs(&t)));
		}
	}
}

fn main() {
	let a = args();
	if std::env::var("VERIF_DEBUG").is_err() {
		std::panic::set_hook(Box::new(|_| {}));
	}
	let mut out = Out::new();
	let mut lines = vec![];
	if let Some(r) = &a.replay {
		lines = read_case_lines(r);
	} else {
		lines.extend(corpus_lines("C16"));
		let n = a.cases.unwrap_or(if a.tier == "thorough" { 1000000 } else { 8000 });
		let mut rng = Rng::new(a.seed);
		gen_lines(&mut rng, n, &mut lines);
	}
	for l in &lines {
		do_line(&mut out, l);
	}
	out.write(&a.out);
	if a.replay.is_some() {
		for i in 0..out.ops.len() {
			println!("op:     {}\nimpl:   {}\noracle: {}", out.ops[i], out.impl_[i], out.oracle[i]);
		}
	}
}
