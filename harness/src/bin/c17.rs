//! C17 — generated APIs: a call of a macro-generated client stub reaches the macro-generated server
//! glue with equal arguments (positional / by-name, optional tails passed, null or omitted), and
//! the client receives what the server method returned.
//!
//! Real `#[rpc(client, server)]` traits; real async `Client` connected over an in-memory duplex +
//! soketto to a real `TowerService` serving the `into_rpc()` modules.  The wire text of every
//! request is recorded by the transport adapter, the arguments the server method received are
//! recorded by the impls.  Descriptors (parameter names, optionality, type tags) are written next
//! to the traits and travel on the op line, so the Lean model needs no copy of the API table.
use std::sync::{Arc, Mutex};

use futures_util::io::{BufReader, BufWriter};
use jrpc_harness::common::*;
use jrpc_harness::gens::*;
use jsonrpsee::core::client::{ClientBuilder, ReceivedMessage, TransportReceiverT, TransportSenderT};
use jsonrpsee::core::{RpcResult, SubscriptionResult, async_trait};
use jsonrpsee::proc_macros::rpc;
use jsonrpsee::server::{PendingSubscriptionSink, RpcModule, Server, ServerConfig, SubscriptionMessage, stop_channel};
use serde::{Deserialize, Serialize};
use serde_json::Value;
use tokio_util::compat::TokioAsyncReadCompatExt;

#[derive(Clone, Debug, Serialize, Deserialize, PartialEq)]
pub struct P {
	pub a: i64,
	pub b: String,
}

type Log = Arc<Mutex<Vec<(String, Vec<Option<String>>)>>>;

fn js<T: Serialize>(v: &T) -> Option<String> {
	Some(serde_json::to_string(v).unwrap())
}
fn jo<T: Serialize>(v: &Option<T>) -> Option<String> {
	v.as_ref().map(|x| serde_json::to_string(x).unwrap())
}
fn ret_raw(args: &[Option<String>]) -> Vec<Box<serde_json::value::RawValue>> {
	args.iter().map(|a| serde_json::value::RawValue::from_string(a.clone().unwrap_or("null".into())).unwrap()).collect()
}
fn ret(args: &[Option<String>]) -> Vec<Value> {
	args.iter().map(|a| a.as_ref().map(|s| serde_json::from_str(s).unwrap()).unwrap_or(Value::Null)).collect()
}

#[rpc(client, server)]
pub trait Api0 {
	#[method(name = "zero")]
	async fn zero(&self) -> RpcResult<Vec<Value>>;
	#[method(name = "one")]
	fn one(&self, a: u64) -> RpcResult<Vec<Value>>;
	#[method(name = "two_opt")]
	async fn two_opt(&self, a: String, b: Option<u64>) -> RpcResult<Vec<Value>>;
	#[method(name = "three")]
	async fn three(&self, a: P, b: Option<Vec<u32>>, c: Option<String>) -> RpcResult<Vec<Value>>;
	#[method(name = "blk", blocking)]
	fn blk(&self, a: i64, b: bool) -> RpcResult<Vec<Value>>;
	#[method(name = "four")]
	async fn four(&self, a: u64, b: String, c: Vec<u32>, d: Option<P>) -> RpcResult<Vec<Value>>;
}

#[rpc(client, server, namespace = "ns", namespace_separator = ".")]
pub trait Api1 {
	#[method(name = "named", param_kind = map)]
	async fn named(&self, first_arg: u64, secondArg: Option<String>) -> RpcResult<Vec<Value>>;
	#[method(name = "renamed", param_kind = map)]
	fn renamed(&self, #[argument(rename = "type")] ty: String, count: Option<u64>) -> RpcResult<Vec<Value>>;
	#[method(name = "odd_names", param_kind = map)]
	async fn odd_names(&self, #[argument(rename = "Block-Hash")] hash: String, #[argument(rename = "Type")] kind: Option<u64>) -> RpcResult<Vec<Value>>;
	#[method(name = "aliased", aliases = ["ns.alias1", "other_alias"])]
	async fn aliased(&self, a: u64) -> RpcResult<Vec<Value>>;
	#[subscription(name = "sub" => "subNotif", unsubscribe = "unsub", item = Vec<Value>)]
	async fn sub(&self, a: u64, b: Option<String>) -> SubscriptionResult;
	#[subscription(name = "subm" => "submNotif", unsubscribe = "unsubm", item = Vec<Value>, param_kind = map)]
	async fn subm(&self, first: String, second_arg: Option<u64>) -> SubscriptionResult;
	#[method(name = "raw_kw", param_kind = map)]
	async fn raw_kw(&self, r#type: String, r#ref: Option<u64>) -> RpcResult<Vec<Value>>;
	#[method(name = "raw_pos")]
	fn raw_pos(&self, r#type: u64, r#fn: Option<String>) -> RpcResult<Vec<Value>>;
	// `with_extensions` variants (the server method additionally receives the connection's Extensions):
	// sync / async methods and subscriptions, with and without a notification-name override
	#[method(name = "ext_async", with_extensions)]
	async fn ext_async(&self, a: u64, b: Option<String>) -> RpcResult<Vec<Value>>;
	#[method(name = "ext_sync", with_extensions, param_kind = map)]
	fn ext_sync(&self, a: u64, b: Option<String>) -> RpcResult<Vec<Value>>;
	#[subscription(name = "subx" => "subxNotif", unsubscribe = "unsubx", item = Vec<Value>, with_extensions)]
	async fn subx(&self, a: u64) -> SubscriptionResult;
	#[subscription(name = "suby", unsubscribe = "unsuby", item = Vec<Value>, with_extensions, param_kind = map)]
	async fn suby(&self, a: u64, b: Option<String>) -> SubscriptionResult;
	#[subscription(name = "subsync" => "subsyncNotif", unsubscribe = "unsubsync", item = Vec<Value>, with_extensions)]
	fn subsync(&self, a: u64) -> SubscriptionResult;
	// a server method that returns the response payload itself
	#[method(name = "rp_payload")]
	async fn rp_payload(&self, a: u64, b: Option<String>) -> jsonrpsee::ResponsePayload<'static, Vec<Value>>;
	// every parameter optional: the call may carry no params at all
	#[method(name = "all_opt")]
	async fn all_opt(&self, a: Option<u64>, b: Option<String>) -> RpcResult<Vec<Value>>;
	#[method(name = "all_opt_named", param_kind = map)]
	fn all_opt_named(&self, a: Option<u64>, b: Option<String>) -> RpcResult<Vec<Value>>;
	// a method that answers with an error object built from its arguments: the client must receive exactly it
	#[method(name = "fail_with")]
	async fn fail_with(&self, code: i32, msg: String, data: Option<P>) -> RpcResult<Vec<Value>>;
	// optional tails spelled with every path `Option` can be named by
	#[method(name = "opt_paths")]
	async fn opt_paths(&self, a: u64, b: core::option::Option<u64>, c: std::option::Option<String>, d: ::core::option::Option<bool>) -> RpcResult<Vec<Value>>;
	#[method(name = "opt_paths_named", param_kind = map)]
	async fn opt_paths_named(&self, a: u64, b: ::std::option::Option<u64>, c: core::option::Option<String>) -> RpcResult<Vec<Value>>;
	#[subscription(name = "suba" => "subaNotif", unsubscribe = "unsuba", aliases = ["ns.suba_alias", "bare_suba"], unsubscribe_aliases = ["ns.unsuba_alias", "bare_unsuba"], item = Vec<Value>)]
	async fn suba(&self, a: u64) -> SubscriptionResult;
	// integers wider than 64 bits (no `serde_json::Value` can hold them: arguments and results travel as raw text)
	#[method(name = "wide")]
	async fn wide(&self, a: u128, b: Option<i128>) -> RpcResult<Vec<Box<serde_json::value::RawValue>>>;
	#[method(name = "wide_named", param_kind = map)]
	fn wide_named(&self, a: i128, b: Option<u128>) -> RpcResult<Vec<Box<serde_json::value::RawValue>>>;
}

struct Impl(Log);

#[async_trait]
impl Api0Server for Impl {
	async fn zero(&self) -> RpcResult<Vec<Value>> {
		self.0.lock().unwrap().push(("zero".into(), vec![]));
		Ok(vec![])
	}
	fn one(&self, a: u64) -> RpcResult<Vec<Value>> {
		let args = vec![js(&a)];
		self.0.lock().unwrap().push(("one".into(), args.clone()));
		Ok(ret(&args))
	}
	async fn two_opt(&self, a: String, b: Option<u64>) -> RpcResult<Vec<Value>> {
		let args = vec![js(&a), jo(&b)];
		self.0.lock().unwrap().push(("two_opt".into(), args.clone()));
		Ok(ret(&args))
	}
	async fn three(&self, a: P, b: Option<Vec<u32>>, c: Option<String>) -> RpcResult<Vec<Value>> {
		let args = vec![js(&a), jo(&b), jo(&c)];
		self.0.lock().unwrap().push(("three".into(), args.clone()));
		Ok(ret(&args))
	}
	fn blk(&self, a: i64, b: bool) -> RpcResult<Vec<Value>> {
		let args = vec![js(&a), js(&b)];
		self.0.lock().unwrap().push(("blk".into(), args.clone()));
		Ok(ret(&args))
	}
	async fn four(&self, a: u64, b: String, c: Vec<u32>, d: Option<P>) -> RpcResult<Vec<Value>> {
		let args = vec![js(&a), js(&b), js(&c), jo(&d)];
		self.0.lock().unwrap().push(("four".into(), args.clone()));
		Ok(ret(&args))
	}
}

#[async_trait]
impl Api1Server for Impl {
	async fn named(&self, first_arg: u64, second_arg: Option<String>) -> RpcResult<Vec<Value>> {
		let args = vec![js(&first_arg), jo(&second_arg)];
		self.0.lock().unwrap().push(("named".into(), args.clone()));
		Ok(ret(&args))
	}
	fn renamed(&self, ty: String, count: Option<u64>) -> RpcResult<Vec<Value>> {
		let args = vec![js(&ty), jo(&count)];
		self.0.lock().unwrap().push(("renamed".into(), args.clone()));
		Ok(ret(&args))
	}
	async fn odd_names(&self, hash: String, kind: Option<u64>) -> RpcResult<Vec<Value>> {
		let args = vec![js(&hash), jo(&kind)];
		self.0.lock().unwrap().push(("odd_names".into(), args.clone()));
		Ok(ret(&args))
	}
	async fn aliased(&self, a: u64) -> RpcResult<Vec<Value>> {
		let args = vec![js(&a)];
		self.0.lock().unwrap().push(("aliased".into(), args.clone()));
		Ok(ret(&args))
	}
	async fn sub(&self, pending: PendingSubscriptionSink, a: u64, b: Option<String>) -> SubscriptionResult {
		let args = vec![js(&a), jo(&b)];
		self.0.lock().unwrap().push(("sub".into(), args.clone()));
		let sink = pending.accept().await?;
		let msg = SubscriptionMessage::from(serde_json::value::to_raw_value(&ret(&args)).unwrap());
		sink.send(msg).await?;
		Ok(())
	}
	async fn subm(&self, pending: PendingSubscriptionSink, first: String, second_arg: Option<u64>) -> SubscriptionResult {
		let args = vec![js(&first), jo(&second_arg)];
		self.0.lock().unwrap().push(("subm".into(), args.clone()));
		let sink = pending.accept().await?;
		let msg = SubscriptionMessage::from(serde_json::value::to_raw_value(&ret(&args)).unwrap());
		sink.send(msg).await?;
		Ok(())
	}
	async fn raw_kw(&self, r#type: String, r#ref: Option<u64>) -> RpcResult<Vec<Value>> {
		let args = vec![js(&r#type), jo(&r#ref)];
		self.0.lock().unwrap().push(("raw_kw".into(), args.clone()));
		Ok(ret(&args))
	}
	async fn ext_async(&self, _ext: &jsonrpsee::Extensions, a: u64, b: Option<String>) -> RpcResult<Vec<Value>> {
		let args = vec![js(&a), jo(&b)];
		self.0.lock().unwrap().push(("ext_async".into(), args.clone()));
		Ok(ret(&args))
	}
	fn ext_sync(&self, _ext: &jsonrpsee::Extensions, a: u64, b: Option<String>) -> RpcResult<Vec<Value>> {
		let args = vec![js(&a), jo(&b)];
		self.0.lock().unwrap().push(("ext_sync".into(), args.clone()));
		Ok(ret(&args))
	}
	async fn subx(&self, pending: PendingSubscriptionSink, _ext: &jsonrpsee::Extensions, a: u64) -> SubscriptionResult {
		let args = vec![js(&a)];
		self.0.lock().unwrap().push(("subx".into(), args.clone()));
		let sink = pending.accept().await?;
		sink.send(SubscriptionMessage::from(serde_json::value::to_raw_value(&ret(&args)).unwrap())).await?;
		// stay open until the client unsubscribes
		sink.closed().await;
		Ok(())
	}
	async fn suby(&self, pending: PendingSubscriptionSink, _ext: &jsonrpsee::Extensions, a: u64, b: Option<String>) -> SubscriptionResult {
		let args = vec![js(&a), jo(&b)];
		self.0.lock().unwrap().push(("suby".into(), args.clone()));
		let sink = pending.accept().await?;
		sink.send(SubscriptionMessage::from(serde_json::value::to_raw_value(&ret(&args)).unwrap())).await?;
		Ok(())
	}
	fn subsync(&self, pending: PendingSubscriptionSink, _ext: &jsonrpsee::Extensions, a: u64) -> SubscriptionResult {
		let args = vec![js(&a)];
		self.0.lock().unwrap().push(("subsync".into(), args.clone()));
		let r = ret(&args);
		tokio::spawn(async move {
			if let Ok(sink) = pending.accept().await {
				let _ = sink.send(SubscriptionMessage::from(serde_json::value::to_raw_value(&r).unwrap())).await;
				sink.closed().await;
			}
		});
		Ok(())
	}
	async fn rp_payload(&self, a: u64, b: Option<String>) -> jsonrpsee::ResponsePayload<'static, Vec<Value>> {
		let args = vec![js(&a), jo(&b)];
		self.0.lock().unwrap().push(("rp_payload".into(), args.clone()));
		jsonrpsee::ResponsePayload::success(ret(&args))
	}
	async fn all_opt(&self, a: Option<u64>, b: Option<String>) -> RpcResult<Vec<Value>> {
		let args = vec![jo(&a), jo(&b)];
		self.0.lock().unwrap().push(("all_opt".into(), args.clone()));
		Ok(ret(&args))
	}
	fn all_opt_named(&self, a: Option<u64>, b: Option<String>) -> RpcResult<Vec<Value>> {
		let args = vec![jo(&a), jo(&b)];
		self.0.lock().unwrap().push(("all_opt_named".into(), args.clone()));
		Ok(ret(&args))
	}
	async fn wide(&self, a: u128, b: Option<i128>) -> RpcResult<Vec<Box<serde_json::value::RawValue>>> {
		let args = vec![js(&a), jo(&b)];
		self.0.lock().unwrap().push(("wide".into(), args.clone()));
		Ok(ret_raw(&args))
	}
	fn wide_named(&self, a: i128, b: Option<u128>) -> RpcResult<Vec<Box<serde_json::value::RawValue>>> {
		let args = vec![js(&a), jo(&b)];
		self.0.lock().unwrap().push(("wide_named".into(), args.clone()));
		Ok(ret_raw(&args))
	}
	async fn fail_with(&self, code: i32, msg: String, data: Option<P>) -> RpcResult<Vec<Value>> {
		let args = vec![js(&code), js(&msg), jo(&data)];
		self.0.lock().unwrap().push(("fail_with".into(), args.clone()));
		Err(jsonrpsee::types::ErrorObjectOwned::owned(code, msg, data))
	}
	async fn opt_paths(&self, a: u64, b: Option<u64>, c: Option<String>, d: Option<bool>) -> RpcResult<Vec<Value>> {
		let args = vec![js(&a), jo(&b), jo(&c), jo(&d)];
		self.0.lock().unwrap().push(("opt_paths".into(), args.clone()));
		Ok(ret(&args))
	}
	async fn opt_paths_named(&self, a: u64, b: Option<u64>, c: Option<String>) -> RpcResult<Vec<Value>> {
		let args = vec![js(&a), jo(&b), jo(&c)];
		self.0.lock().unwrap().push(("opt_paths_named".into(), args.clone()));
		Ok(ret(&args))
	}
	fn raw_pos(&self, r#type: u64, r#fn: Option<String>) -> RpcResult<Vec<Value>> {
		let args = vec![js(&r#type), jo(&r#fn)];
		self.0.lock().unwrap().push(("raw_pos".into(), args.clone()));
		Ok(ret(&args))
	}
	async fn suba(&self, pending: PendingSubscriptionSink, a: u64) -> SubscriptionResult {
		let args = vec![js(&a)];
		self.0.lock().unwrap().push(("suba".into(), args.clone()));
		let sink = pending.accept().await?;
		let msg = SubscriptionMessage::from(serde_json::value::to_raw_value(&ret(&args)).unwrap());
		sink.send(msg).await?;
		// stay open until the client unsubscribes
		sink.closed().await;
		Ok(())
	}
}

// ---- descriptors (written next to the traits; trusted glue, cross-checked through both sides)
#[derive(Clone)]
struct PD {
	name: &'static str,
	optional: bool,
	ty: u8, // 1 u64, 2 string, 3 bool, 4 array, 5 i64, 6 object, 7 i32, 8 u128, 9 i128
}
#[derive(Clone)]
struct MD {
	key: &'static str,
	rpc_name: &'static str,
	aliases: &'static [&'static str],
	map: bool,
	params: Vec<PD>,
}
/// wire names of raw-identifier parameters (as the macro spells them on HEAD)
const RAW_TYPE: &str = "r#type";
const RAW_REF: &str = "r#ref";

/// name table of one declared item, for the `mres` op (registration order: name, unsubscribe name,
/// aliases, unsubscribe aliases)
#[derive(Clone)]
struct ND {
	key: &'static str,
	ns: Option<(&'static str, &'static str)>,
	is_sub: bool,
	name: &'static str,
	aliases: &'static [&'static str],
	unsub: &'static str,
	unsub_aliases: &'static [&'static str],
}
fn items() -> Vec<ND> {
	let ns = Some(("ns", "."));
	vec![
		ND { key: "zero", ns: None, is_sub: false, name: "zero", aliases: &[], unsub: "", unsub_aliases: &[] },
		ND { key: "blk", ns: None, is_sub: false, name: "blk", aliases: &[], unsub: "", unsub_aliases: &[] },
		ND { key: "named", ns, is_sub: false, name: "named", aliases: &[], unsub: "", unsub_aliases: &[] },
		ND { key: "aliased", ns, is_sub: false, name: "aliased", aliases: &["ns.alias1", "other_alias"], unsub: "", unsub_aliases: &[] },
		ND { key: "sub", ns, is_sub: true, name: "sub", aliases: &[], unsub: "unsub", unsub_aliases: &[] },
		ND { key: "subx", ns, is_sub: true, name: "subx", aliases: &[], unsub: "unsubx", unsub_aliases: &[] },
		ND { key: "subsync", ns, is_sub: true, name: "subsync", aliases: &[], unsub: "unsubsync", unsub_aliases: &[] },
		ND { key: "suba", ns, is_sub: true, name: "suba", aliases: &["ns.suba_alias", "bare_suba"], unsub: "unsuba", unsub_aliases: &["ns.unsuba_alias", "bare_unsuba"] },
	]
}
impl ND {
	fn full(&self, n: &str) -> String {
		match self.ns {
			Some((a, b)) => format!("{a}{b}{n}"),
			None => n.to_string(),
		}
	}
	fn wire_names(&self) -> Vec<String> {
		let mut v = vec![self.full(self.name)];
		if self.is_sub {
			v.push(self.full(self.unsub));
		}
		v.extend(self.aliases.iter().map(|s| s.to_string()));
		v.extend(self.unsub_aliases.iter().map(|s| s.to_string()));
		v
	}
	fn line(&self, idx: u64) -> String {
		let l = |v: &[&str]| if v.is_empty() { "-".to_string() } else { v.iter().map(|a| hexs(a)).collect::<Vec<_>>().join(",") };
		format!(
			"mres {} {idx} {} {} {} {} {} {} {}",
			self.key,
			self.ns.map(|n| hexs(n.0)).unwrap_or("none".into()),
			self.ns.map(|n| hexs(n.1)).unwrap_or("none".into()),
			if self.is_sub { 1 } else { 0 },
			hexs(self.name),
			l(self.aliases),
			if self.is_sub { hexs(self.unsub) } else { "-".into() },
			l(self.unsub_aliases)
		)
	}
}

fn pd(name: &'static str, optional: bool, ty: u8) -> PD {
	PD { name, optional, ty }
}
fn methods() -> Vec<MD> {
	vec![
		MD { key: "zero", rpc_name: "zero", aliases: &[], map: false, params: vec![] },
		MD { key: "one", rpc_name: "one", aliases: &[], map: false, params: vec![pd("a", false, 1)] },
		MD { key: "two_opt", rpc_name: "two_opt", aliases: &[], map: false, params: vec![pd("a", false, 2), pd("b", true, 1)] },
		MD { key: "three", rpc_name: "three", aliases: &[], map: false, params: vec![pd("a", false, 6), pd("b", true, 4), pd("c", true, 2)] },
		MD { key: "blk", rpc_name: "blk", aliases: &[], map: false, params: vec![pd("a", false, 5), pd("b", false, 3)] },
		MD { key: "four", rpc_name: "four", aliases: &[], map: false, params: vec![pd("a", false, 1), pd("b", false, 2), pd("c", false, 4), pd("d", true, 6)] },
		MD { key: "named", rpc_name: "ns.named", aliases: &[], map: true, params: vec![pd("first_arg", false, 1), pd("secondArg", true, 2)] },
		MD { key: "renamed", rpc_name: "ns.renamed", aliases: &[], map: true, params: vec![pd("type", false, 2), pd("count", true, 1)] },
		MD { key: "odd_names", rpc_name: "ns.odd_names", aliases: &[], map: true, params: vec![pd("Block-Hash", false, 2), pd("Type", true, 1)] },
		MD { key: "aliased", rpc_name: "ns.aliased", aliases: &["ns.alias1", "other_alias"], map: false, params: vec![pd("a", false, 1)] },
		MD { key: "sub", rpc_name: "ns.sub", aliases: &[], map: false, params: vec![pd("a", false, 1), pd("b", true, 2)] },
		MD { key: "subm", rpc_name: "ns.subm", aliases: &[], map: true, params: vec![pd("first", false, 2), pd("second_arg", true, 1)] },
		MD { key: "raw_kw", rpc_name: "ns.raw_kw", aliases: &[], map: true, params: vec![pd(RAW_TYPE, false, 2), pd(RAW_REF, true, 1)] },
		MD { key: "raw_pos", rpc_name: "ns.raw_pos", aliases: &[], map: false, params: vec![pd(RAW_TYPE, false, 1), pd("r#fn", true, 2)] },
		MD { key: "ext_async", rpc_name: "ns.ext_async", aliases: &[], map: false, params: vec![pd("a", false, 1), pd("b", true, 2)] },
		MD { key: "ext_sync", rpc_name: "ns.ext_sync", aliases: &[], map: true, params: vec![pd("a", false, 1), pd("b", true, 2)] },
		MD { key: "subx", rpc_name: "ns.subx", aliases: &[], map: false, params: vec![pd("a", false, 1)] },
		MD { key: "suby", rpc_name: "ns.suby", aliases: &[], map: true, params: vec![pd("a", false, 1), pd("b", true, 2)] },
		MD { key: "subsync", rpc_name: "ns.subsync", aliases: &[], map: false, params: vec![pd("a", false, 1)] },
		MD { key: "rp_payload", rpc_name: "ns.rp_payload", aliases: &[], map: false, params: vec![pd("a", false, 1), pd("b", true, 2)] },
		MD { key: "all_opt", rpc_name: "ns.all_opt", aliases: &[], map: false, params: vec![pd("a", true, 1), pd("b", true, 2)] },
		MD { key: "all_opt_named", rpc_name: "ns.all_opt_named", aliases: &[], map: true, params: vec![pd("a", true, 1), pd("b", true, 2)] },
		MD { key: "fail_with", rpc_name: "ns.fail_with", aliases: &[], map: false, params: vec![pd("code", false, 7), pd("msg", false, 2), pd("data", true, 6)] },
		MD { key: "opt_paths", rpc_name: "ns.opt_paths", aliases: &[], map: false, params: vec![pd("a", false, 1), pd("b", true, 1), pd("c", true, 2), pd("d", true, 3)] },
		MD { key: "opt_paths_named", rpc_name: "ns.opt_paths_named", aliases: &[], map: true, params: vec![pd("a", false, 1), pd("b", true, 1), pd("c", true, 2)] },
		MD { key: "suba", rpc_name: "ns.suba", aliases: &["ns.suba_alias", "bare_suba"], map: false, params: vec![pd("a", false, 1)] },
		MD { key: "wide", rpc_name: "ns.wide", aliases: &[], map: false, params: vec![pd("a", false, 8), pd("b", true, 9)] },
		MD { key: "wide_named", rpc_name: "ns.wide_named", aliases: &[], map: true, params: vec![pd("a", false, 9), pd("b", true, 8)] },
	]
}
fn desc_token(m: &MD) -> String {
	use heck::{ToLowerCamelCase, ToSnakeCase};
	if m.params.is_empty() {
		return "-".into();
	}
	m.params.iter().map(|p| format!("{}:{}:{}:{}:{}", p.name, p.name.to_snake_case(), p.name.to_lower_camel_case(), if p.optional { 1 } else { 0 }, p.ty)).collect::<Vec<_>>().join(",")
}

// ---- transport adapter over soketto, recording outgoing texts
type Sock = BufReader<BufWriter<tokio_util::compat::Compat<tokio::io::DuplexStream>>>;
struct TxA(soketto::Sender<Sock>, Arc<Mutex<Vec<String>>>);
struct RxA(soketto::Receiver<Sock>);
#[derive(Debug)]
struct TErr(String);
impl std::fmt::Display for TErr {
	fn fmt(&self, f: &mut std::fmt::Formatter) -> std::fmt::Result {
		write!(f, "{}", self.0)
	}
}
impl std::error::Error for TErr {}
impl TransportSenderT for TxA {
	type Error = TErr;
	async fn send(&mut self, msg: String) -> Result<(), TErr> {
		self.1.lock().unwrap().push(msg.clone());
		self.0.send_text(msg).await.map_err(|e| TErr(e.to_string()))?;
		self.0.flush().await.map_err(|e| TErr(e.to_string()))
	}
}
impl TransportReceiverT for RxA {
	type Error = TErr;
	async fn receive(&mut self) -> Result<ReceivedMessage, TErr> {
		let mut data = Vec::new();
		self.0.receive_data(&mut data).await.map_err(|e| TErr(e.to_string()))?;
		Ok(ReceivedMessage::Bytes(data))
	}
}

fn gen_arg(rng: &mut Rng, ty: u8) -> String {
	match ty {
		1 => serde_json::to_string(&match rng.below(5) { 0 => 0u64, 1 => u64::MAX, 2 => 1u64 << 53, _ => rng.next() >> rng.below(64) }).unwrap(),
		2 => serde_json::to_string(&gen_str_content(rng)).unwrap(),
		3 => (*rng.pick(&["true", "false"])).to_string(),
		4 => serde_json::to_string(&(0..rng.below(4)).map(|_| rng.next() as u32).collect::<Vec<u32>>()).unwrap(),
		5 => serde_json::to_string(&match rng.below(5) { 0 => i64::MIN, 1 => i64::MAX, 2 => -1, _ => rng.next() as i64 }).unwrap(),
		8 => match rng.below(6) {
			0 => u128::MAX.to_string(),
			1 => (u64::MAX as u128 + 1).to_string(),
			2 => "0".to_string(),
			3 => (u64::MAX as u128).to_string(),
			_ => (((rng.next() as u128) << 64 | rng.next() as u128) >> rng.below(128)).to_string(),
		},
		9 => match rng.below(7) {
			0 => i128::MIN.to_string(),
			1 => i128::MAX.to_string(),
			2 => (i64::MIN as i128 - 1).to_string(),
			3 => (u64::MAX as i128 + 1).to_string(),
			4 => "-1".to_string(),
			_ => ((((rng.next() as u128) << 64 | rng.next() as u128) >> rng.below(128)) as i128).to_string(),
		},
		7 => serde_json::to_string(&match rng.below(9) { 0 => i32::MIN, 1 => i32::MAX, 2 => -1, 3 => 0, 4 => -32700, 5 => -32602, 6 => -32000, 7 => 1, _ => rng.next() as i32 }).unwrap(),
		_ => serde_json::to_string(&P { a: rng.next() as i64, b: gen_str_content(rng) }).unwrap(),
	}
}

fn params_of_request(wire: &str) -> Option<String> {
	#[derive(Deserialize)]
	struct R<'a> {
		#[serde(borrow)]
		params: Option<&'a serde_json::value::RawValue>,
	}
	serde_json::from_str::<R>(wire).ok().and_then(|r| r.params.map(|p| p.get().to_string()))
}

fn args_repr(a: &[Option<String>]) -> String {
	if a.is_empty() { "-".into() } else { a.iter().map(|x| x.as_ref().map(|s| hexs(s)).unwrap_or("none".into())).collect::<Vec<_>>().join(",") }
}

async fn run(lines: Vec<String>, out: &mut Out) {
	let log: Log = Arc::new(Mutex::new(vec![]));
	let mut module = RpcModule::new(());
	module.merge(Api0Server::into_rpc(Impl(log.clone()))).unwrap();
	module.merge(Api1Server::into_rpc(Impl(log.clone()))).unwrap();
	let (stop, handle) = stop_channel();
	// the name-resolution probes leave subscriptions open on purpose: no cap on this one long-lived connection
	let svc = Server::builder().set_config(ServerConfig::builder().max_subscriptions_per_connection(u32::MAX).build()).to_service_builder().build(module.clone(), stop);
	let (c, s) = tokio::io::duplex(1 << 22);
	let h2 = handle.clone();
	tokio::spawn(async move {
		let _ = jsonrpsee::server::serve_with_graceful_shutdown(s, svc, async move { h2.stopped().await }).await;
	});
	let mut hs = soketto::handshake::Client::new(BufReader::new(BufWriter::new(c.compat())), "localhost", "/");
	hs.handshake().await.unwrap();
	let (tx, rx) = hs.into_builder().finish();
	let wire: Arc<Mutex<Vec<String>>> = Arc::new(Mutex::new(vec![]));
	let client = ClientBuilder::default().build_with_tokio(TxA(tx, wire.clone()), RxA(rx));
	let mds = methods();

	for line in lines {
		let w: Vec<&str> = line.split(' ').collect();
		if w[0] == "mres" {
			// mres <key> <idx> …: which handler the idx-th registered name of the item reaches, probed by behaviour
			use jsonrpsee::core::client::{ClientT, SubscriptionClientT, SubscriptionKind};
			use jsonrpsee::rpc_params;
			let nd = items().into_iter().find(|n| n.key == w[1]).unwrap();
			let names = nd.wire_names();
			let idx = w[2].parse::<usize>().unwrap() % names.len();
			let n = names[idx].clone();
			log.lock().unwrap().clear();
			let target: String = if nd.is_sub {
				let params = if nd.key == "sub" { rpc_params![7u64, "x"] } else { rpc_params![7u64] };
				match client.subscribe::<Vec<Value>, _>(&names[0], params, &names[1]).await {
					Err(e) => format!("E:subscribe:{e}"),
					Ok(mut s0) => {
						let _ = s0.next().await;
						let id = match s0.kind() {
							SubscriptionKind::Subscription(id) => serde_json::to_value(id).unwrap(),
							_ => Value::Null,
						};
						log.lock().unwrap().clear();
						let r = client.request::<Value, _>(&n, rpc_params![id.clone()]).await;
						tokio::time::sleep(std::time::Duration::from_millis(1)).await;
						let ran = log.lock().unwrap().first().map(|(k, _)| k.clone());
						let t = match (&r, &ran) {
							(Ok(Value::Bool(true)), None) => {
								// a second unsubscribe of the same id must now answer false
								match client.request::<Value, _>(&n, rpc_params![id]).await {
									Ok(Value::Bool(false)) => "unsubscribe".to_string(),
									other => format!("E:second-unsubscribe:{other:?}"),
								}
							}
							// the subscription of `sub` ends by itself after one item: the unsubscribe handler answers false
							(Ok(Value::Bool(false)), None) if nd.key == "sub" => "unsubscribe".to_string(),
							(Ok(_), Some(k)) if *k == nd.key => "subscribe".to_string(),
							(Ok(v), k) => format!("E:answered:{v}:ran:{k:?}"),
							(Err(e), Some(k)) if *k == nd.key => { let _ = e; "subscribe".to_string() }
							(Err(e), k) => format!("E:{e}:ran:{k:?}"),
						};
						drop(s0);
						tokio::time::sleep(std::time::Duration::from_millis(1)).await;
						t
					}
				}
			} else {
				let md = mds.iter().find(|m| m.key == nd.key).unwrap();
				let mut rngp = Rng::new(idx as u64 + 1);
				let r = if md.map {
					let mut b = jsonrpsee::core::params::ObjectParams::new();
					for p in &md.params {
						b.insert(p.name, serde_json::from_str::<Value>(&gen_arg(&mut rngp, p.ty)).unwrap()).unwrap();
					}
					client.request::<Value, _>(&n, b).await
				} else {
					let mut b = jsonrpsee::core::params::ArrayParams::new();
					for p in &md.params {
						b.insert(serde_json::from_str::<Value>(&gen_arg(&mut rngp, p.ty)).unwrap()).unwrap();
					}
					client.request::<Value, _>(&n, b).await
				};
				let ran = log.lock().unwrap().first().map(|(k, _)| k.clone());
				match (&r, &ran) {
					(Ok(_), Some(k)) if *k == nd.key => "method".to_string(),
					(r, k) => format!("E:{r:?}:ran:{k:?}"),
				}
			};
			let expected = if !nd.is_sub { "method" } else if idx == 1 || idx >= 2 + nd.aliases.len() { "unsubscribe" } else { "subscribe" };
			let orc = if target == expected { Ok(()) } else { Err(format!("request naming {n} (declared for the {expected} side of `{}`) reached: {target}", nd.key)) };
			let t_out = if target.starts_with("E:") { format!("E:{}", hexs(&target)) } else { target.clone() };
			out.count(&format!("mres.{}", expected));
			out.line(line.clone(), format!("n={} t={}", hexs(&n), t_out), orc, true);
			continue;
		}
		let md = mds.iter().find(|m| m.key == w[1]).unwrap().clone();
		match w[0] {
			"mcall" => {
				// mcall <key> <kind> <desc> <args...>
				let args: Vec<Option<String>> = w[4..].iter().map(|a| if *a == "none" { None } else { Some(String::from_utf8(unhex(a)).unwrap()) }).collect();
				macro_rules! a {
					($i:expr, $t:ty) => {
						serde_json::from_str::<$t>(args[$i].as_ref().unwrap()).unwrap()
					};
				}
				macro_rules! o {
					($i:expr, $t:ty) => {
						args[$i].as_ref().map(|s| serde_json::from_str::<$t>(s).unwrap())
					};
				}
				log.lock().unwrap().clear();
				wire.lock().unwrap().clear();
				// results that no `Value` can hold come back as raw texts
				let mut raw_ret: Option<String> = None;
				let res: Result<Vec<Value>, String> = match md.key {
					"wide" | "wide_named" => {
						let r = if md.key == "wide" {
							Api1Client::wide(&client, a!(0, u128), o!(1, i128)).await
						} else {
							Api1Client::wide_named(&client, a!(0, i128), o!(1, u128)).await
						};
						match r {
							Ok(v) => {
								raw_ret = Some(format!("[{}]", v.iter().map(|x| x.get().to_string()).collect::<Vec<_>>().join(",")));
								Ok(vec![])
							}
							Err(e) => Err(e.to_string()),
						}
					}
					"zero" => Api0Client::zero(&client).await.map_err(|e| e.to_string()),
					"one" => Api0Client::one(&client, a!(0, u64)).await.map_err(|e| e.to_string()),
					"two_opt" => Api0Client::two_opt(&client, a!(0, String), o!(1, u64)).await.map_err(|e| e.to_string()),
					"three" => Api0Client::three(&client, a!(0, P), o!(1, Vec<u32>), o!(2, String)).await.map_err(|e| e.to_string()),
					"blk" => Api0Client::blk(&client, a!(0, i64), a!(1, bool)).await.map_err(|e| e.to_string()),
					"four" => Api0Client::four(&client, a!(0, u64), a!(1, String), a!(2, Vec<u32>), o!(3, P)).await.map_err(|e| e.to_string()),
					"named" => Api1Client::named(&client, a!(0, u64), o!(1, String)).await.map_err(|e| e.to_string()),
					"renamed" => Api1Client::renamed(&client, a!(0, String), o!(1, u64)).await.map_err(|e| e.to_string()),
					"odd_names" => Api1Client::odd_names(&client, a!(0, String), o!(1, u64)).await.map_err(|e| e.to_string()),
					"aliased" => Api1Client::aliased(&client, a!(0, u64)).await.map_err(|e| e.to_string()),
					"sub" => match Api1Client::sub(&client, a!(0, u64), o!(1, String)).await {
						Ok(mut s) => s.next().await.map(|r| r.map_err(|e| e.to_string())).unwrap_or(Err("stream ended".into())),
						Err(e) => Err(e.to_string()),
					},
					"raw_kw" => Api1Client::raw_kw(&client, a!(0, String), o!(1, u64)).await.map_err(|e| e.to_string()),
					"ext_async" => Api1Client::ext_async(&client, a!(0, u64), o!(1, String)).await.map_err(|e| e.to_string()),
					"ext_sync" => Api1Client::ext_sync(&client, a!(0, u64), o!(1, String)).await.map_err(|e| e.to_string()),
					"subx" => match Api1Client::subx(&client, a!(0, u64)).await {
						Ok(mut s) => s.next().await.map(|r| r.map_err(|e| e.to_string())).unwrap_or(Err("stream ended".into())),
						Err(e) => Err(e.to_string()),
					},
					"suby" => match Api1Client::suby(&client, a!(0, u64), o!(1, String)).await {
						Ok(mut s) => s.next().await.map(|r| r.map_err(|e| e.to_string())).unwrap_or(Err("stream ended".into())),
						Err(e) => Err(e.to_string()),
					},
					"subsync" => match Api1Client::subsync(&client, a!(0, u64)).await {
						Ok(mut s) => s.next().await.map(|r| r.map_err(|e| e.to_string())).unwrap_or(Err("stream ended".into())),
						Err(e) => Err(e.to_string()),
					},
					"rp_payload" => Api1Client::rp_payload(&client, a!(0, u64), o!(1, String)).await.map_err(|e| e.to_string()),
					"all_opt" => Api1Client::all_opt(&client, o!(0, u64), o!(1, String)).await.map_err(|e| e.to_string()),
					"all_opt_named" => Api1Client::all_opt_named(&client, o!(0, u64), o!(1, String)).await.map_err(|e| e.to_string()),
					"fail_with" => match Api1Client::fail_with(&client, a!(0, i32), a!(1, String), o!(2, P)).await {
						Ok(_) => Err("fail_with returned Ok".to_string()),
						Err(jsonrpsee::core::client::Error::Call(e)) => Err(format!("CALL:{}:{}:{}", e.code(), hexs(e.message()), e.data().map(|d| hexs(d.get())).unwrap_or("none".into()))),
						Err(e) => Err(e.to_string()),
					},
					"opt_paths" => Api1Client::opt_paths(&client, a!(0, u64), o!(1, u64), o!(2, String), o!(3, bool)).await.map_err(|e| e.to_string()),
					"opt_paths_named" => Api1Client::opt_paths_named(&client, a!(0, u64), o!(1, u64), o!(2, String)).await.map_err(|e| e.to_string()),
					"raw_pos" => Api1Client::raw_pos(&client, a!(0, u64), o!(1, String)).await.map_err(|e| e.to_string()),
					"suba" => match Api1Client::suba(&client, a!(0, u64)).await {
						Ok(mut s) => s.next().await.map(|r| r.map_err(|e| e.to_string())).unwrap_or(Err("stream ended".into())),
						Err(e) => Err(e.to_string()),
					},
					"subm" => match Api1Client::subm(&client, a!(0, String), o!(1, u64)).await {
						Ok(mut s) => s.next().await.map(|r| r.map_err(|e| e.to_string())).unwrap_or(Err("stream ended".into())),
						Err(e) => Err(e.to_string()),
					},
					_ => unreachable!(),
				};
				// a subscription stub's stream was dropped at the end of the call above: the generated client must
				// now unsubscribe through the (namespaced) unsubscribe method the server registered
				let mut unsub_repr = String::new();
				let mut unsub_orc: Result<(), String> = Ok(());
				if md.key.starts_with("sub") && res.is_ok() {
					tokio::time::sleep(std::time::Duration::from_millis(1)).await;
					tokio::time::sleep(std::time::Duration::from_millis(1)).await;
					let expect = format!("ns.un{}", md.key);
					let msgs = wire.lock().unwrap().clone();
					let methods: Vec<String> = msgs.iter().skip(1).filter_map(|m| serde_json::from_str::<Value>(m).ok()).filter_map(|v| v.get("method").and_then(|x| x.as_str()).map(|x| x.to_string())).collect();
					if methods.iter().any(|m| *m == expect) {
						unsub_repr = " unsub=ok".into();
					} else {
						unsub_repr = format!(" unsub=WRONG:{}", hexs(&methods.join(",")));
						unsub_orc = Err(format!("after the stream of `{}` was dropped the client called {methods:?}, the server registered `{expect}` for unsubscribing", md.key));
					}
				}
				let needle = format!("\"method\":\"{}\"", md.rpc_name);
				let sent = wire.lock().unwrap().iter().find(|m| m.contains(&needle)).cloned().unwrap_or_default();
				let p = params_of_request(&sent);
				let recv = log.lock().unwrap().first().cloned();
				let r_repr = match &recv {
					Some((k, a)) if *k == md.key => args_repr(a),
					Some((k, _)) => format!("WRONG-METHOD:{k}"),
					None => "E".into(),
				};
				let ret_repr = match &res {
					Ok(_) if raw_ret.is_some() => hexs(raw_ret.as_ref().unwrap()),
					Ok(v) => hexs(&serde_json::to_string(v).unwrap()),
					Err(e) if e.starts_with("CALL:") => e.clone(),
					Err(e) => format!("ERR:{}", hexs(e)),
				};
				let o = format!("p={} r={} ret={}{}", p.as_ref().map(|s| hexs(s)).unwrap_or("none".into()), r_repr, ret_repr, unsub_repr);
				// oracle: received == sent (as serde values), returned == produced
				let orc = (|| {
					let Some((k, got)) = &recv else { return Err("server method was not invoked".to_string()) };
					if *k != md.key {
						return Err(format!("client stub {} reached server method {k}", md.key));
					}
					if got.len() != args.len() {
						return Err("argument count differs".into());
					}
					for (g, s) in got.iter().zip(args.iter()) {
						let gv: Option<Value> = g.as_ref().map(|x| serde_json::from_str(x).unwrap());
						let sv: Option<Value> = s.as_ref().map(|x| serde_json::from_str(x).unwrap());
						if gv != sv || (raw_ret.is_some() && g != s) {
							return Err(format!("server received {g:?}, client passed {s:?}"));
						}
					}
					match &res {
						Ok(_) if raw_ret.is_some() => {
							let want = format!("[{}]", got.iter().map(|x| x.clone().unwrap_or("null".into())).collect::<Vec<_>>().join(","));
							if raw_ret.as_deref() != Some(want.as_str()) {
								return Err(format!("client received {raw_ret:?}, the server returned {want}"));
							}
						}
						Ok(v) => {
							if *v != ret(got) {
								return Err("client received a value different from what the server returned".into());
							}
						}
						Err(e) if md.key == "fail_with" => {
							// the client must receive exactly the error object the server method returned
							let code: i32 = serde_json::from_str(args[0].as_ref().unwrap()).unwrap();
							let msg: String = serde_json::from_str(args[1].as_ref().unwrap()).unwrap();
							let want = format!("CALL:{code}:{}:{}", hexs(&msg), args[2].as_ref().map(|d| hexs(d)).unwrap_or("none".into()));
							if *e != want {
								return Err(format!("client received `{e}`, the server method returned `{want}`"));
							}
						}
						Err(e) => return Err(format!("client call failed: {e}")),
					}
					// the wire method name is the namespaced name
					let ok_name = sent.contains(&format!("\"method\":\"{}\"", md.rpc_name));
					if !ok_name {
						return Err(format!("wire request does not name {}: {sent}", md.rpc_name));
					}
					Ok(())
				})();
				let orc = orc.and(unsub_orc);
				out.count(&format!("mcall.{}", md.key));
				out.line(line.clone(), o, orc, !args.is_empty());
			}
			"mraw" => {
				// mraw <key> <kind> <desc> <alias index> <paramshex|none>
				let names: Vec<&str> = std::iter::once(md.rpc_name).chain(md.aliases.iter().copied()).collect();
				let name = names[w[4].parse::<usize>().unwrap() % names.len()];
				let params = if w[5] == "none" { None } else { Some(String::from_utf8(unhex(w[5])).unwrap()) };
				let req = match &params {
					Some(p) => format!("{{\"jsonrpc\":\"2.0\",\"id\":1,\"method\":\"{name}\",\"params\":{p}}}"),
					None => format!("{{\"jsonrpc\":\"2.0\",\"id\":1,\"method\":\"{name}\"}}"),
				};
				log.lock().unwrap().clear();
				let res = module.raw_json_request(&req, 4).await;
				tokio::time::sleep(std::time::Duration::from_millis(1)).await;
				let recv = log.lock().unwrap().first().cloned();
				let (o, orc) = match (&res, &recv) {
					(Ok((resp, _)), Some((k, a))) if *k == md.key => {
						let is_err = resp.get().contains("\"error\"");
						if is_err && !md.key.starts_with("sub") && md.key != "fail_with" {
							(format!("r={}", args_repr(a)), Err(format!("method ran but answered an error: {}", resp.get())))
						} else {
							(format!("r={}", args_repr(a)), Ok(()))
						}
					}
					(Ok((resp, _)), None) => {
						let code = if resp.get().contains("-32602") { "E:-32602".to_string() } else { format!("E:other:{}", hexs(resp.get())) };
						let orc = if params.is_none() && md.params.iter().all(|p| p.optional) {
							Err(format!("a call without params to a method whose parameters are all optional was rejected: {}", resp.get()))
						} else if resp.get().contains("-32602") {
							Ok(())
						} else {
							Err(format!("undecodable params answered {}", resp.get()))
						};
						(format!("r={code}"), orc)
					}
					(Ok(_), Some((k, _))) => (format!("r=WRONG-METHOD:{k}"), Err(format!("request for {name} ran {k}"))),
					(Err(e), _) => (format!("r=BADREQ:{e}"), Ok(())),
				};
				out.count(if recv.is_some() { "mraw.invoked" } else { "mraw.rejected" });
				out.line(line.clone(), o, orc, recv.is_some());
			}
			_ => panic!("verb {line}"),
		}
	}
	drop(client);
	handle.stop().ok();
}

fn gen_lines(rng: &mut Rng, n: u64, lines: &mut Vec<String>) {
	let all = methods();
	// every registered name of the name-table items, once
	for nd in items() {
		for i in 0..nd.wire_names().len() {
			lines.push(nd.line(i as u64));
		}
	}
	// the wide-integer methods, from their own generator (the stream of the other methods stays as it was)
	{
		let mut wr = Rng::new(0x77_1de);
		let wide: Vec<MD> = all.iter().filter(|m| m.key.starts_with("wide")).cloned().collect();
		for i in 0..(8 + n / 20) {
			let md = &wide[(i % 2) as usize];
			let kind = if md.map { "m" } else { "a" };
			let args: Vec<String> = md.params.iter().map(|p| if p.optional && wr.chance(1, 3) { "none".to_string() } else { hexs(&gen_arg(&mut wr, p.ty)) }).collect();
			lines.push(format!("mcall {} {kind} {} {}", md.key, desc_token(md), args.join(" ")).trim_end().to_string());
		}
	}
	let mds: Vec<MD> = all.into_iter().filter(|m| !m.key.starts_with("wide")).collect();
	for _ in 0..n {
		if rng.chance(1, 40) {
			let nds = items();
			let nd = rng.pick(&nds).clone();
			lines.push(nd.line(rng.below(8)));
		}
		let md = rng.pick(&mds).clone();
		let kind = if md.map { "m" } else { "a" };
		let desc = desc_token(&md);
		// a stub call with generated arguments
		let args: Vec<String> = md.params.iter().map(|p| if p.optional && rng.chance(1, 3) { "none".to_string() } else { hexs(&gen_arg(rng, p.ty)) }).collect();
		lines.push(format!("mcall {} {kind} {desc} {}", md.key, args.join(" ")).trim_end().to_string());
		// raw requests: omitted tail / null / by-name with alternative spellings / wrong types / surplus
		if rng.chance(2, 3) && !md.params.is_empty() {
			use heck::{ToLowerCamelCase, ToSnakeCase};
			let vals: Vec<String> = md.params.iter().map(|p| match rng.below(8) {
				0 if p.optional => "null".to_string(),
				1 => { let t = 1 + rng.below(6) as u8; gen_arg(rng, t) } // maybe the wrong type
				_ => gen_arg(rng, p.ty),
			}).collect();
			let params = match rng.below(8) {
				0 => None,
				1 | 2 => {
					let k = rng.below(vals.len() as u64 + 1) as usize; // omit a tail
					Some(format!("[{}]", vals[..k].join(",")))
				}
				3 => Some(format!("[{}{}]", vals.join(","), if rng.chance(1, 2) { ",1" } else { "" })),
				4 => Some(format!("[ {} ]", vals.join(" , "))),
				_ => {
					// by name, random spelling per member, random subset/order, maybe a duplicate via another spelling
					let mut ms: Vec<String> = vec![];
					for (p, v) in md.params.iter().zip(vals.iter()) {
						if p.optional && rng.chance(1, 4) {
							continue;
						}
						let sp = match rng.below(4) { 0 => p.name.to_snake_case(), 1 => p.name.to_lower_camel_case(), _ => p.name.to_string() };
						ms.push(format!("\"{sp}\":{v}"));
						if rng.chance(1, 12) {
							ms.push(format!("\"{}\":{v}", p.name.to_lower_camel_case()));
						}
					}
					if rng.chance(1, 5) {
						ms.push("\"unknown\":1".into());
					}
					if rng.chance(1, 2) {
						ms.reverse();
					}
					Some(format!("{{{}}}", ms.join(",")))
				}
			};
			lines.push(format!("mraw {} {kind} {desc} {} {}", md.key, rng.below(3), params.map(|p| hexs(&p)).unwrap_or("none".into())));
		}
	}
}

fn main() {
	let a = args();
	if std::env::var("VERIF_DEBUG").is_err() {
		std::panic::set_hook(Box::new(|_| {}));
	}
	let mut out = Out::new();
	let mut lines = vec![];
	if let Some(r) = &a.replay {
		lines = read_case_lines(r);
	} else {
		lines.extend(corpus_lines("C17"));
		let n = a.cases.unwrap_or(if a.tier == "thorough" { 250000 } else { 2500 });
		let mut rng = Rng::new(a.seed);
		gen_lines(&mut rng, n, &mut lines);
	}
	let rt = tokio::runtime::Builder::new_current_thread().enable_all().start_paused(true).build().unwrap();
	rt.block_on(run(lines, &mut out));
	out.write(&a.out);
	if a.replay.is_some() {
		for i in 0..out.ops.len() {
			println!("op:     {}\nimpl:   {}\noracle: {}", out.ops[i], out.impl_[i], out.oracle[i]);
		}
	}
}
