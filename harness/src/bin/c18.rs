//! C18 — client: bookkeeping returns to empty.  Real `Client` on the mock transport; after every
//! cycle of {call, batch, subscribe accepted/refused, unsubscribe, drop, server-side close,
//! lag-close, abandoned subscribe, notification handler register/unregister} with the acknowledgements
//! in every order, the cfg-guarded accessor reports the sizes of the four manager tables.
use jrpc_harness::client_mock::*;
use jrpc_harness::client_spell::*;
use jrpc_harness::common::*;
use serde_json::Value;
use std::collections::BTreeMap;

// ---------------------------------------------------------------------------------------------
// oracle: its own notion of "what is still open", from the script and the wire only

#[derive(Debug, Clone, PartialEq)]
enum SubState {
	/// subscribe sent, no answer yet
	Pending,
	Refused,
	Active,
	/// the client wrote the unsubscribe request; waiting for the server's answer to it
	UnsubSent,
	UnsubAcked,
	ClosedByServer,
	/// the application dropped the subscribe future before the answer; the answer accepted it
	AbandonedAccepted,
}

#[derive(Debug, Clone)]
struct SubInfo {
	sub_req: Value,
	unsub_req: Option<Value>,
	sid: Option<String>,
	state: SubState,
	abandoned: bool,
	/// how it ended on the client side (for the matcher)
	ended_by_client: bool,
}

/// life of a notification handler (subscribe_to_method) as the application and the wire see it
#[derive(Debug, Clone, PartialEq)]
enum HState {
	/// registration sent to the back end, not acknowledged yet (`abandoned`: the caller gave up meanwhile)
	Pending { abandoned: bool },
	Live,
	/// the application is done with it and the back end has certainly been told (or has noticed)
	Finished,
	/// dropped / abandoned while the request queue may have been full: the back end notices at the latest with
	/// the next notification for the method (`need_gate_open`: only once the registration itself has been processed)
	GoneAfterNotification { need_gate_open: bool },
	/// explicit unsubscribe() issued while the send task was blocked: takes effect when the gate opens
	GoneAfterGateOpen,
}

#[derive(Default)]
struct Oracle {
	n_ops: usize,
	/// op -> pending call id
	calls: BTreeMap<usize, Value>,
	batches: BTreeMap<usize, Vec<Value>>,
	subs: BTreeMap<usize, SubInfo>,
	handlers: BTreeMap<usize, (String, HState)>,
	gate_shut: bool,
	/// explicit `unsubscribe()` calls whose completion is still expected: op -> must be done by the next line with the gate open
	unsub_waiting: Vec<usize>,
	unsent: Vec<(usize, &'static str)>,
	/// leak counters for the matcher: (a) refused, (b) unsubscribed+acked, (c) closed by server, (d) abandoned
	residue: [usize; 4],
	last_requests: usize,
	/// request ids whose work is certainly over (answered call; subscribe id and unsubscribe id of an ended subscription)
	finished_ids: Vec<Value>,
	/// what the last delivered text decided about a pending subscribe: (op, "in-use" | "accepted" | "accepted-twin")
	sub_events: Vec<(usize, &'static str, String)>,
	/// calls the last delivered text answered
	answered_calls: Vec<usize>,
}

impl Oracle {
	fn quiescent(&self) -> bool {
		self.unsent.is_empty()
			&& self.calls.is_empty()
			&& self.batches.is_empty()
			&& self.handlers.values().all(|h| h.1 == HState::Finished)
			&& self.subs.values().all(|s| matches!(s.state, SubState::Refused | SubState::UnsubAcked | SubState::ClosedByServer))
	}

	fn wire(&mut self, text: &str) {
		let Ok(v) = serde_json::from_str::<Value>(text) else { return };
		if let Value::Array(a) = &v {
			if let Some(pos) = self.unsent.iter().position(|(_, k)| *k == "batch") {
				let (op, _) = self.unsent.remove(pos);
				self.batches.insert(op, a.iter().filter_map(|e| e.get("id").cloned()).collect());
			}
			return;
		}
		let method = v.get("method").and_then(|m| m.as_str()).unwrap_or("");
		let id = v.get("id").cloned();
		match (method, id) {
			("unsub", Some(id)) => {
				let sid = v.get("params").and_then(|p| p.get(0)).map(|s| s.to_string());
				for s in self.subs.values_mut() {
					if s.sid == sid && matches!(s.state, SubState::Active | SubState::AbandonedAccepted) {
						s.state = SubState::UnsubSent;
						s.unsub_req = Some(id.clone());
						s.ended_by_client = true;
						break;
					}
				}
			}
			("sub", Some(id)) => {
				if let Some(pos) = self.unsent.iter().position(|(_, k)| *k == "sub") {
					let (op, _) = self.unsent.remove(pos);
					if let Some(s) = self.subs.get_mut(&op) {
						s.sub_req = id;
					}
				}
			}
			("m", Some(id)) => {
				if let Some(pos) = self.unsent.iter().position(|(_, k)| *k == "call") {
					let (op, _) = self.unsent.remove(pos);
					self.calls.insert(op, id);
				}
			}
			_ => {}
		}
	}

	fn deliver(&mut self, text: &str) {
		let Ok(v) = serde_json::from_str::<Value>(text) else { return };
		match &v {
			Value::Array(a) => {
				// a batch reply (ids of one pending batch) or notifications
				let ids: Vec<Value> = a.iter().filter_map(|e| if e.get("method").is_none() { e.get("id").cloned() } else { None }).collect();
				if !ids.is_empty() {
					let key = self.batches.iter().find(|(_, want)| {
						let mut x: Vec<String> = want.iter().map(|v| v.to_string()).collect();
						let mut y: Vec<String> = ids.iter().map(|v| v.to_string()).collect();
						x.sort();
						y.sort();
						x == y
					});
					if let Some((op, _)) = key {
						let op = *op;
						self.batches.remove(&op);
					}
				}
				for e in a {
					self.notif(e);
				}
			}
			Value::Object(o) if msg_kind(&v) == MsgKind::Response => {
				let id = o.get("id").cloned().unwrap_or(Value::Null);
				let is_err = o.contains_key("error");
				if let Some(op) = self.calls.iter().find(|(_, v)| **v == id).map(|(k, _)| *k) {
					self.calls.remove(&op);
					self.finished_ids.push(id);
					self.answered_calls.push(op);
					return;
				}
				// subscription ids in use on this connection right now: accepted, not closed by the server, and the client has
				// not written the unsubscribe call yet (an id is the JSON kind and the value: 7 and "7" are two ids)
				let in_use: Vec<String> = self.subs.values().filter(|s| s.state == SubState::Active).filter_map(|s| s.sid.clone()).collect();
				let digits = |t: &str| t.trim_matches('"').to_string();
				for (op, s) in self.subs.iter_mut() {
					if s.state == SubState::Pending && s.sub_req == id {
						let res = o.get("result");
						let sid_ok = res.map(|r| r.is_u64() || r.is_string()).unwrap_or(false);
						let new_sid = res.map(|r| r.to_string()).unwrap_or_default();
						if !is_err && sid_ok && in_use.contains(&new_sid) {
							// the server handed out an id twice: the client refuses the second subscription; nothing of it stays
							s.state = SubState::Refused;
							self.finished_ids.push(id.clone());
							self.residue[0] += 1;
							self.sub_events.push((*op, "in-use", new_sid));
							return;
						}
						if !is_err && sid_ok {
							let twin = in_use.iter().any(|u| *u != new_sid && digits(u) == digits(&new_sid));
							self.sub_events.push((*op, if twin { "accepted-twin" } else { "accepted" }, new_sid.clone()));
						}
						if is_err || !sid_ok {
							s.state = SubState::Refused;
							self.finished_ids.push(id.clone());
							self.residue[0] += 1;
						} else if s.abandoned {
							s.sid = res.map(|r| r.to_string());
							s.state = SubState::AbandonedAccepted;
							self.residue[3] += 1;
						} else {
							s.sid = res.map(|r| r.to_string());
							s.state = SubState::Active;
						}
						return;
					}
					if s.state == SubState::UnsubSent && s.unsub_req.as_ref() == Some(&id) {
						s.state = SubState::UnsubAcked;
						self.finished_ids.push(id.clone());
						self.finished_ids.push(s.sub_req.clone());
						self.residue[1] += 1;
						return;
					}
				}
			}
			other => self.notif(other),
		}
	}

	fn notif(&mut self, e: &Value) {
		if let (Some(Value::String(m)), true) = (e.get("method"), msg_kind(e) == MsgKind::Notification) {
			let is_sub_shaped = e.get("params").and_then(|p| p.as_object()).map(|p| p.contains_key("subscription")).unwrap_or(false);
			if !is_sub_shaped {
				let shut = self.gate_shut;
				for h in self.handlers.values_mut() {
					if h.0 == *m {
						if let HState::GoneAfterNotification { need_gate_open } = h.1 {
							if !(need_gate_open && shut) {
								h.1 = HState::Finished;
							}
						}
					}
				}
			}
		}
		let Some(p) = e.get("params").and_then(|p| p.as_object()) else { return };
		if let (Some(sid), true) = (p.get("subscription"), p.contains_key("error")) {
			let sid = sid.to_string();
			for s in self.subs.values_mut() {
				if s.sid.as_deref() == Some(sid.as_str()) && s.state == SubState::Active {
					s.state = SubState::ClosedByServer;
					self.finished_ids.push(s.sub_req.clone());
					self.residue[2] += 1;
				}
			}
		}
	}
}

fn run_one(out: &mut Out, lines: &[String]) {
	let mut orc = Oracle::default();
	let mut recs: Vec<(String, String, Result<(), String>, bool)> = vec![];
	let mut dead = false;
	run_case(lines, |line, obs| {
		let w: Vec<&str> = line.split(' ').collect();
		let mut verdict: Result<(), String> = Ok(());
		let mut nontrivial = false;
		if w[0] == "cl" && obs.literal.is_none() && !dead {
			match w[1] {
				"call" => {
					orc.unsent.push((orc.n_ops, "call"));
					orc.n_ops += 1;
				}
				"batch" | "tbatch" => {
					orc.unsent.push((orc.n_ops, "batch"));
					orc.n_ops += 1;
				}
				"subscribe" => {
					orc.unsent.push((orc.n_ops, "sub"));
					orc.subs.insert(
						orc.n_ops,
						SubInfo { sub_req: Value::Null, unsub_req: None, sid: None, state: SubState::Pending, abandoned: false, ended_by_client: false },
					);
					orc.n_ops += 1;
				}
				"regnotif" => {
					let m = String::from_utf8(unhex(w[2])).unwrap_or_default();
					orc.handlers.insert(orc.n_ops, (m, HState::Pending { abandoned: false }));
					orc.n_ops += 1;
				}
				"abandon" => {
					let op: usize = w[2].parse().unwrap_or(0);
					if let Some(s) = orc.subs.get_mut(&op) {
						s.abandoned = true;
					}
					orc.calls.remove(&op);
					if let Some(h) = orc.handlers.get_mut(&op) {
						if matches!(h.1, HState::Pending { .. }) {
							h.1 = HState::Pending { abandoned: true };
						}
					}
				}
				"drop" => {
					let op: usize = w[2].parse().unwrap_or(0);
					let shut = orc.gate_shut;
					if let Some(h) = orc.handlers.get_mut(&op) {
						// Drop only *tries* to tell the back end: with the send task blocked the queue may be full
						h.1 = if shut { HState::GoneAfterNotification { need_gate_open: false } } else { HState::Finished };
					}
				}
				"unsub" => {
					let op: usize = w[2].parse().unwrap_or(0);
					let shut = orc.gate_shut;
					if let Some(h) = orc.handlers.get_mut(&op) {
						h.1 = if shut { HState::GoneAfterGateOpen } else { HState::Finished };
					}
					if orc.handlers.contains_key(&op) || orc.subs.contains_key(&op) {
						orc.unsub_waiting.push(op);
					}
				}
				"gate" => {
					orc.gate_shut = w[2] == "shut";
					if !orc.gate_shut {
						for h in orc.handlers.values_mut() {
							match h.1 {
								HState::GoneAfterGateOpen => h.1 = HState::Finished,
								// an abandoned registration is processed now: the entry exists, its receiver is gone
								HState::Pending { abandoned: true } => h.1 = HState::GoneAfterNotification { need_gate_open: true },
								_ => {}
							}
						}
					}
				}
				_ => {}
			}
			// acknowledgements of registrations (in the same line, or when the gate opens)
			for (op, comp) in &obs.comps {
				let Some(name) = orc.handlers.get(op).map(|h| h.0.clone()) else { continue };
				match comp {
					Comp::Reg => {
						if let Some(h) = orc.handlers.get_mut(op) {
							if matches!(h.1, HState::Pending { .. }) {
								h.1 = HState::Live;
							}
						}
					}
					Comp::E(e) if e == "already" => {
						// refused: fine only if some handler of that name may still be registered
						let occupied = orc.handlers.iter().any(|(k, h)| k != op && h.0 == name && !matches!(h.1, HState::Finished));
						if !occupied && verdict.is_ok() {
							verdict = Err(format!(
								"subscribe_to_method({name:?}) refused with AlreadyRegistered although every earlier handler of that name is finished (its entry still captures the name)"
							));
						}
						if let Some(h) = orc.handlers.get_mut(op) {
							h.1 = HState::Finished;
						}
					}
					_ => {
						if let Some(h) = orc.handlers.get_mut(op) {
							h.1 = HState::Finished;
						}
					}
				}
			}
			// abandoned registrations with the gate open are processed at once
			if !orc.gate_shut {
				for h in orc.handlers.values_mut() {
					if h.1 == (HState::Pending { abandoned: true }) {
						h.1 = HState::GoneAfterNotification { need_gate_open: true };
					}
				}
			}
			// explicit unsubscribe() must complete as soon as the send task can process it
			orc.unsub_waiting.retain(|op| !obs.unsub_done.contains(op));
			if !orc.gate_shut && !orc.unsub_waiting.is_empty() {
				if verdict.is_ok() {
					verdict = Err(format!("unsubscribe() of stream(s) {:?} did not complete although the send task is free", orc.unsub_waiting));
				}
				orc.unsub_waiting.clear();
			}
			// what the client received comes before what it wrote as a consequence …
			if w[1] == "deliverx" {
				nontrivial = true;
				out.count("near-miss.delivered");
				if obs.fatal.is_none() || !obs.comps.is_empty() {
					verdict = Err(format!("a text that is no legal message was accepted: {}", obs.render()));
				}
				dead = true;
			}
			if w[1] == "deliver" {
				let text = String::from_utf8(unhex(w[2])).unwrap_or_default();
				// a single response bearing the id of finished work matches nothing pending
				if let Ok(v) = serde_json::from_str::<Value>(&text) {
					if let (Some(id), true) = (v.get("id"), msg_kind(&v) == MsgKind::Response) {
						// … and when no work is open at all (the oracle's own bookkeeping), no response matches anything, whatever
						// its id: in particular the id reserved for the unsubscribe call of a subscription that never came to be
						let idle = orc.quiescent();
						if idle {
							out.count("stale-response.at-quiescence");
						}
						if orc.finished_ids.contains(id) || idle {
							nontrivial = true;
							out.count("stale-response.checked");
							let rejected = obs.fatal.as_deref().map(|f| f.starts_with("notpending:")).unwrap_or(false);
							if !rejected {
								verdict = Err(format!(
									"a response bearing the id {id} of finished work was accepted (fatal = {:?}): a stale table entry captured it",
									obs.fatal
								));
							}
						}
					}
				}
				// the responses of an array never just vanish: a batch completes or the whole array is refused
				if array_has_response(&text) && obs.fatal.is_none() && !obs.comps.iter().any(|(_, c)| matches!(c, Comp::Batch { .. } | Comp::E(_))) && verdict.is_ok() {
					verdict = Err(format!("the responses inside the array {text} took no effect: no batch completed and the connection was not given up"));
				}
				// whatever the server says about a subscription or a method in a well-formed notification, the connection survives it
				if let Ok(v) = serde_json::from_str::<Value>(&text) {
					if v.is_object() && msg_kind(&v) == MsgKind::Notification {
						out.count("notification.survived.checked");
						if let (Some(f), true) = (&obs.fatal, verdict.is_ok()) {
							verdict = Err(format!("the well-formed notification {text} ended the connection ({f})"));
						}
					}
				}
				orc.sub_events.clear();
				orc.answered_calls.clear();
				orc.deliver(&text);
				// the answer to a call the application still waits for completes it (the connection works)
				for op in &orc.answered_calls {
					out.count("call-answer.checked");
					if obs.fatal.is_none() && verdict.is_ok() && !obs.comps.iter().any(|(o, c)| o == op && matches!(c, Comp::Ok(_) | Comp::CallErr { .. })) {
						verdict = Err(format!("the answer {text} to call {op} did not complete it: completions {:?}", obs.comps.iter().map(|(o, c)| format!("{o}:{}", c.render())).collect::<Vec<_>>()));
					}
				}
				// the answer to a subscribe call: an id already in use on this connection is refused with InvalidSubscriptionId,
				// any other id (also the same digits in the other JSON kind) is accepted
				for (op, what, sid) in &orc.sub_events {
					let abandoned = orc.subs.get(op).map(|s| s.abandoned).unwrap_or(false);
					let mine: Vec<&Comp> = obs.comps.iter().filter(|(o, _)| o == op).map(|(_, c)| c).collect();
					nontrivial = true;
					out.count(&format!("subscribe-answer.{what}{}", if abandoned { ".abandoned" } else { "" }));
					if obs.fatal.is_some() || verdict.is_err() {
						continue;
					}
					let bad = match (*what, abandoned) {
						("in-use", false) => !matches!(mine.as_slice(), [Comp::E(e)] if e == "invalidsubid"),
						("in-use", true) => !mine.is_empty() || obs.wires.iter().any(|t| t.contains("\"unsub\"")),
						(_, false) => !matches!(mine.as_slice(), [Comp::Sub(_)]),
						(_, true) => !mine.is_empty(),
					};
					if bad {
						verdict = Err(format!(
							"subscribe {op} answered with subscription id {sid} ({what}{}): completions {:?}, written {:?}",
							if abandoned { ", abandoned by the application" } else { "" },
							mine.iter().map(|c| c.render()).collect::<Vec<_>>(),
							obs.wires
						));
					}
				}
				if obs.fatal.is_some() {
					dead = true;
				}
			}
			// … except requests of new front-end operations, which `deliver` lines never carry
			for wt in &obs.wires {
				orc.wire(wt);
			}
			if let Some(sz) = &obs.sizes {
				let q = orc.quiescent();
				out.count(if q { "sizes.quiescent" } else { "sizes.busy" });
				if q {
					nontrivial = true;
					if *sz != [0, 0, 0, 0] {
						// pre-fix (F-10 a/b/c) the requests table kept one PendingMethodCall(None) entry per refused /
						// unsubscribed+acknowledged / server-closed subscription
						verdict = Err(format!(
							"tables {sz:?} are not empty at a quiescent point (so far: refused={}, unsubscribed+acked={}, closed by server={})",
							orc.residue[0], orc.residue[1], orc.residue[2]
						));
					}
				} else {
					// not quiescent: whatever is in the tables must be accounted for by open work or known residue
					let open_calls = orc.calls.len() + orc.unsent.iter().filter(|u| u.1 == "call").count();
					let open_subs = orc
						.subs
						.values()
						.filter(|s| matches!(s.state, SubState::Pending | SubState::Active | SubState::UnsubSent | SubState::AbandonedAccepted))
						.count();
					let bound = open_calls + 2 * open_subs;
					if sz[0] > bound {
						verdict = Err(format!("requests table has {} entries but only {bound} are accounted for by open work", sz[0]));
					}
					if sz[2] > orc.batches.len() + orc.unsent.iter().filter(|u| u.1 == "batch").count() {
						verdict = Err(format!("batches table has {} entries, open batches {}", sz[2], orc.batches.len()));
					}
				}
				orc.last_requests = sz[0];
			}
			// (d): an accepted-but-abandoned subscription must be unsubscribed on the wire
			if w[1] == "deliver" && verdict.is_ok() {
				for (op, s) in &orc.subs {
					if s.state == SubState::AbandonedAccepted && !obs.wires.iter().any(|t| t.contains("\"unsub\"")) && !s.ended_by_client {
						verdict = Err(format!(
							"subscribe {op} was abandoned by the application and then accepted by the server, but no unsubscribe request was written"
						));
					}
				}
			}
		}
		recs.push((line.to_string(), obs.render(), verdict, nontrivial));
	});
	for (l, o, v, nt) in recs {
		out.line(l, o, v, nt);
	}
}

// ---------------------------------------------------------------------------------------------
// generator

fn idj(n: u64, str_ids: bool) -> String {
	if str_ids { format!("\"{n}\"") } else { n.to_string() }
}

struct G {
	/// subscription ids of streams that have been ended (the server may hand them out again)
	old_sids: Vec<String>,
	str_ids: bool,
	cap: u64,
	/// capacity of the front-end -> back-end request queue (max_concurrent_requests)
	fcap: u64,
	next_id: u64,
	next_op: usize,
	sid_counter: u64,
	lines: Vec<String>,
	/// request ids reserved for the unsubscribe call of a subscribe the client refused (subscription id in use)
	reserved_of_refused: Vec<u64>,
	/// rotation through the exits of the subscribe-response step (cycle 22), so that coverage does not depend on the seed
	exit_rot: u64,
}

/// a pending acknowledgement the "server" still owes
#[derive(Clone)]
enum Owed {
	CallAnswer(u64),
	BatchAnswer(u64, u64),
	/// answer to the unsubscribe request with this id; the payload kind is drawn when the cycle is generated
	UnsubAck(u64, u64),
}

impl G {
	fn deliver(&mut self, t: &str) {
		self.lines.push(format!("cl deliver {}", hexs(t)));
	}
	fn sizes(&mut self) {
		self.lines.push("cl sizes".into());
	}
	fn owed_text(&self, o: &Owed) -> String {
		match o {
			Owed::CallAnswer(id) => format!("{{\"jsonrpc\":\"2.0\",\"id\":{},\"result\":{}}}", idj(*id, self.str_ids), id),
			Owed::BatchAnswer(start, n) => {
				let es: Vec<String> =
					(0..*n).rev().map(|i| format!("{{\"jsonrpc\":\"2.0\",\"id\":{},\"result\":{}}}", idj(start + i, self.str_ids), i)).collect();
				format!("[{}]", es.join(","))
			}
			Owed::UnsubAck(id, kind) => {
				// whatever the server says to an unsubscribe call, the call is over
				let payload = match kind {
					0..=3 => "\"result\":true".to_string(),
					4 | 5 => "\"result\":false".to_string(),
					6 => "\"error\":{\"code\":-32000,\"message\":\"subscription not found\"}".to_string(),
					7 => "\"error\":{\"code\":1,\"message\":\"\",\"data\":[1,{\"a\":null}]}".to_string(),
					8 => "\"error\":{\"code\":-32601,\"message\":\"Method not found\"}".to_string(),
					9 => "\"error\":{\"code\":-32602,\"message\":\"Invalid params\",\"data\":\"x\"}".to_string(),
					14 => "\"error\":[-32000,\"by position\",null]".to_string(),
					15 => format!("\"error\":{}", "{\"message\":\"m\",\"data\":{\"code\":1},\"code\":2147483647}"),
					10 => "\"result\":null".to_string(),
					11 => "\"result\":\"gone\"".to_string(),
					12 => "\"result\":{\"ok\":0}".to_string(),
					_ => "\"result\":0".to_string(),
				};
				format!("{{\"jsonrpc\":\"2.0\",\"id\":{},{payload}}}", idj(*id, self.str_ids))
			}
		}
	}
	/// one cycle of the given kind; returns what the server still owes afterwards
	fn cycle(&mut self, rng: &mut Rng, kind: u64, out: &mut Out) -> Vec<Owed> {
		match kind {
			0 => {
				out.count("cycle.call");
				self.lines.push("cl call".into());
				let id = self.next_id;
				self.next_id += 1;
				self.next_op += 1;
				vec![Owed::CallAnswer(id)]
			}
			1 => {
				out.count("cycle.batch");
				let n = rng.range(1, 4);
				self.lines.push(format!("cl batch {n}"));
				let id = self.next_id;
				self.next_id += n;
				self.next_op += 1;
				vec![Owed::BatchAnswer(id, n)]
			}
			2..=5 => {
				// accepted subscription, ended by: 2 unsub, 3 drop, 4 server close, 5 lag
				self.lines.push("cl subscribe".into());
				let id = self.next_id;
				self.next_id += 2;
				let op = self.next_op;
				self.next_op += 1;
				self.sid_counter += 1;
				let sid = if !self.old_sids.is_empty() && rng.chance(1, 4) {
					// the second time: subscribe again and get an id that has been used before
					out.count("second.resubscribe-same-sid");
					rng.pick(&self.old_sids).clone()
				} else if rng.chance(1, 2) {
					format!("\"S{}\"", self.sid_counter)
				} else {
					format!("{}", 1000 + self.sid_counter)
				};
				self.old_sids.push(sid.clone());
				self.deliver(&format!("{{\"jsonrpc\":\"2.0\",\"id\":{},\"result\":{sid}}}", idj(id, self.str_ids)));
				if rng.chance(1, 2) {
					self.deliver(&format!("{{\"jsonrpc\":\"2.0\",\"method\":\"sub\",\"params\":{{\"subscription\":{sid},\"result\":1}}}}"));
					self.lines.push(format!("cl next {op}"));
				}
				match kind {
					2 => {
						out.count("cycle.sub.unsub");
						self.lines.push(format!("cl unsub {op}"));
						vec![Owed::UnsubAck(id + 1, rng.below(16))]
					}
					3 => {
						out.count("cycle.sub.drop");
						self.lines.push(format!("cl drop {op}"));
						vec![Owed::UnsubAck(id + 1, rng.below(16))]
					}
					4 => {
						out.count("cycle.sub.server-close");
						self.deliver(&format!("{{\"jsonrpc\":\"2.0\",\"method\":\"sub\",\"params\":{{\"subscription\":{sid},\"error\":\"bye\"}}}}"));
						if rng.chance(1, 2) {
							self.lines.push(format!("cl drop {op}"));
						}
						vec![]
					}
					_ => {
						out.count("cycle.sub.lag");
						for v in 0..=self.cap {
							self.deliver(&format!("{{\"jsonrpc\":\"2.0\",\"method\":\"sub\",\"params\":{{\"subscription\":{sid},\"result\":{v}}}}}"));
						}
						if rng.chance(1, 2) {
							self.lines.push(format!("cl drop {op}"));
						}
						vec![Owed::UnsubAck(id + 1, rng.below(16))]
					}
				}
			}
			6 => {
				out.count("cycle.sub.refused");
				self.lines.push("cl subscribe".into());
				let id = self.next_id;
				self.next_id += 2;
				self.next_op += 1;
				let t = match rng.below(3) {
					0 => format!("{{\"jsonrpc\":\"2.0\",\"id\":{},\"error\":{{\"code\":-32000,\"message\":\"no\"}}}}", idj(id, self.str_ids)),
					1 => format!("{{\"jsonrpc\":\"2.0\",\"id\":{},\"result\":{{\"not\":\"an id\"}}}}", idj(id, self.str_ids)),
					_ => format!("{{\"jsonrpc\":\"2.0\",\"id\":{},\"result\":null}}", idj(id, self.str_ids)),
				};
				self.deliver(&t);
				vec![]
			}
			7 => {
				out.count("cycle.handler");
				let m = format!("h{}", rng.below(3));
				self.lines.push(format!("cl regnotif {}", hexs(&m)));
				let op = self.next_op;
				self.next_op += 1;
				if rng.chance(1, 2) {
					self.deliver(&format!("{{\"jsonrpc\":\"2.0\",\"method\":\"{m}\",\"params\":[1]}}"));
				}
				self.lines.push(format!("cl {} {op}", if rng.chance(1, 2) { "drop" } else { "unsub" }));
				vec![]
			}
			13 => {
				out.count("cycle.notification");
				self.lines.push("cl notify".into());
				self.next_id += 1;
				vec![]
			}
			14 => {
				out.count("cycle.typed-batch");
				let n = rng.range(1, 3);
				self.lines.push(format!("cl tbatch {} {n}", rng.pick(&TYPED_KINDS)));
				let id = self.next_id;
				self.next_id += n;
				self.next_op += 1;
				vec![Owed::BatchAnswer(id, n)]
			}
			15 => {
				out.count("cycle.is_connected");
				self.lines.push("cl connected".into());
				vec![]
			}
			9 => {
				// a handler that ends while the send task is blocked and the request queue is full: Drop cannot tell
				// the back end (try_send fails), so the entry has to go with the next notification for its method
				out.count("cycle.handler.full-queue");
				let m = format!("h{}", rng.below(3));
				let note = format!("{{\"jsonrpc\":\"2.0\",\"method\":\"{m}\",\"params\":[7]}}");
				self.lines.push(format!("cl regnotif {}", hexs(&m)));
				let a = self.next_op;
				self.next_op += 1;
				if rng.chance(1, 2) {
					self.deliver(&note);
					if rng.chance(1, 2) {
						self.lines.push(format!("cl next {a}"));
					}
				}
				self.lines.push("cl gate shut".into());
				let ncalls = if self.fcap <= 3 { self.fcap + 1 + rng.below(2) } else { rng.range(1, 3) };
				let mut owed = vec![];
				for _ in 0..ncalls {
					self.lines.push("cl call".into());
					owed.push(Owed::CallAnswer(self.next_id));
					self.next_id += 1;
					self.next_op += 1;
				}
				self.lines.push(format!("cl {} {a}", if rng.chance(3, 4) { "drop" } else { "unsub" }));
				if rng.chance(1, 3) {
					self.deliver(&note);
				}
				self.lines.push("cl gate open".into());
				if rng.chance(1, 2) {
					self.sizes();
				}
				self.deliver(&note);
				if rng.chance(1, 2) {
					self.sizes();
				}
				// the name is free again, and the new handler gets the next notification
				self.lines.push(format!("cl regnotif {}", hexs(&m)));
				let b = self.next_op;
				self.next_op += 1;
				if rng.chance(1, 2) {
					self.deliver(&note);
					self.lines.push(format!("cl next {b}"));
				}
				self.lines.push(format!("cl {} {b}", if rng.chance(1, 2) { "drop" } else { "unsub" }));
				owed
			}
			10 => {
				// registration abandoned by the caller before the back end got to it
				out.count("cycle.handler.abandoned");
				let m = format!("h{}", rng.below(3));
				let note = format!("{{\"jsonrpc\":\"2.0\",\"method\":\"{m}\",\"params\":[8]}}");
				self.lines.push("cl gate shut".into());
				self.lines.push("cl call".into());
				let owed = vec![Owed::CallAnswer(self.next_id)];
				self.next_id += 1;
				self.next_op += 1;
				self.lines.push(format!("cl regnotif {}", hexs(&m)));
				let a = self.next_op;
				self.next_op += 1;
				self.lines.push(format!("cl abandon {a}"));
				if rng.chance(1, 3) {
					self.deliver(&note);
				}
				self.lines.push("cl gate open".into());
				if rng.chance(1, 2) {
					self.sizes();
				}
				self.deliver(&note);
				if rng.chance(1, 2) {
					self.sizes();
				}
				self.lines.push(format!("cl regnotif {}", hexs(&m)));
				let b = self.next_op;
				self.next_op += 1;
				if rng.chance(1, 2) {
					self.deliver(&note);
					self.lines.push(format!("cl next {b}"));
				}
				self.lines.push(format!("cl {} {b}", if rng.chance(1, 2) { "drop" } else { "unsub" }));
				owed
			}
			11 => {
				// explicit unsubscribe() of a handler, notifications before and after, name reused
				out.count("cycle.handler.unsub-reuse");
				let m = format!("h{}", rng.below(3));
				let note = |v: u64| format!("{{\"jsonrpc\":\"2.0\",\"method\":\"{m}\",\"params\":[{v}]}}");
				self.lines.push(format!("cl regnotif {}", hexs(&m)));
				let a = self.next_op;
				self.next_op += 1;
				if rng.chance(2, 3) {
					self.deliver(&note(1));
					if rng.chance(1, 2) {
						self.lines.push(format!("cl next {a}"));
					}
				}
				self.lines.push(format!("cl unsub {a}"));
				if rng.chance(2, 3) {
					self.deliver(&note(2));
				}
				if rng.chance(1, 3) {
					self.sizes();
				}
				self.lines.push(format!("cl regnotif {}", hexs(&m)));
				let b = self.next_op;
				self.next_op += 1;
				self.deliver(&note(3));
				self.lines.push(format!("cl next {b}"));
				self.lines.push(format!("cl {} {b}", if rng.chance(1, 2) { "drop" } else { "unsub" }));
				if rng.chance(1, 2) {
					self.deliver(&note(4));
				}
				vec![]
			}
			16..=20 => {
				// The server answers a subscribe call with a subscription id that is STILL IN USE on this connection (a server
				// that de-duplicates identical subscriptions): the client refuses the second subscription and keeps nothing of
				// it.  The same digits in the other JSON kind are another id.  The active subscription is not disturbed and ends
				// by: 16 unsubscribe, 17 drop, 18 server close, 19 lag, 20 unsubscribe written but not yet acknowledged when
				// the id comes again (then it is free and the new subscription is accepted).
				out.count(match kind {
					16 => "cycle.sub.id-in-use.unsub",
					17 => "cycle.sub.id-in-use.drop",
					18 => "cycle.sub.id-in-use.server-close",
					19 => "cycle.sub.id-in-use.lag",
					_ => "cycle.sub.id-in-use.unsub-unacked",
				});
				self.sid_counter += 1;
				let digits = 5000 + self.sid_counter;
				let (sid, twin) = if rng.chance(1, 2) { (format!("{digits}"), format!("\"{digits}\"")) } else { (format!("\"{digits}\""), format!("{digits}")) };
				let str_ids = self.str_ids;
				let accept = |id: u64, sid: &str| format!("{{\"jsonrpc\":\"2.0\",\"id\":{},\"result\":{sid}}}", idj(id, str_ids));
				let note = |sid: &str, v: u64| format!("{{\"jsonrpc\":\"2.0\",\"method\":\"sub\",\"params\":{{\"subscription\":{sid},\"result\":{v}}}}}");
				let mut owed = vec![];
				// A: accepted, stays active
				self.lines.push("cl subscribe".into());
				let a_id = self.next_id;
				let a_op = self.next_op;
				self.next_id += 2;
				self.next_op += 1;
				self.deliver(&accept(a_id, &sid));
				if rng.chance(1, 2) {
					self.deliver(&note(&sid, 1));
					self.lines.push(format!("cl next {a_op}"));
				}
				if kind == 20 {
					self.lines.push(format!("cl {} {a_op}", if rng.chance(1, 2) { "unsub" } else { "drop" }));
					owed.push(Owed::UnsubAck(a_id + 1, rng.below(16)));
				}
				// B (1..3 times): answered with the id of A
				let mut twin_op: Option<(usize, u64)> = None;
				for round in 0..rng.range(1, 3) {
					self.lines.push("cl subscribe".into());
					let b_id = self.next_id;
					let b_op = self.next_op;
					self.next_id += 2;
					self.next_op += 1;
					let abandoned = rng.chance(1, 4);
					if abandoned {
						self.lines.push(format!("cl abandon {b_op}"));
					}
					if rng.chance(1, 3) {
						// something else in between
						self.lines.push("cl call".into());
						owed.push(Owed::CallAnswer(self.next_id));
						self.next_id += 1;
						self.next_op += 1;
					}
					self.deliver(&accept(b_id, &sid));
					if kind == 20 && round == 0 {
						// the id was free again: B holds it now (if abandoned, the client has written the unsubscribe call itself)
						if !abandoned {
							self.deliver(&note(&sid, 2));
							self.lines.push(format!("cl next {b_op}"));
							self.lines.push(format!("cl {} {b_op}", if rng.chance(1, 2) { "unsub" } else { "drop" }));
						}
						owed.push(Owed::UnsubAck(b_id + 1, rng.below(16)));
						break;
					}
					if kind == 20 {
						break;
					}
					self.reserved_of_refused.push(b_id + 1);
					if rng.chance(1, 3) {
						self.sizes();
					}
					// the other kind with the same digits is a different id: accepted (once), a second time it is in use itself
					if rng.chance(1, 2) {
						self.lines.push("cl subscribe".into());
						let c_id = self.next_id;
						let c_op = self.next_op;
						self.next_id += 2;
						self.next_op += 1;
						self.deliver(&accept(c_id, &twin));
						if twin_op.is_none() {
							twin_op = Some((c_op, c_id));
						} else {
							self.reserved_of_refused.push(c_id + 1);
						}
					}
				}
				if kind != 20 {
					// A still gets what is sent for its id, the twin what is sent for the twin
					self.deliver(&note(&sid, 3));
					self.lines.push(format!("cl next {a_op}"));
					if let Some((c_op, _)) = twin_op {
						self.deliver(&note(&twin, 4));
						self.lines.push(format!("cl next {c_op}"));
					}
					if rng.chance(1, 2) {
						self.sizes();
					}
					match kind {
						16 => {
							self.lines.push(format!("cl unsub {a_op}"));
							owed.push(Owed::UnsubAck(a_id + 1, rng.below(16)));
						}
						17 => {
							self.lines.push(format!("cl drop {a_op}"));
							owed.push(Owed::UnsubAck(a_id + 1, rng.below(16)));
						}
						18 => {
							self.deliver(&format!("{{\"jsonrpc\":\"2.0\",\"method\":\"sub\",\"params\":{{\"subscription\":{sid},\"error\":\"bye\"}}}}"));
							if rng.chance(1, 2) {
								self.lines.push(format!("cl drop {a_op}"));
							}
						}
						_ => {
							for v in 0..=self.cap {
								self.deliver(&note(&sid, 10 + v));
							}
							if rng.chance(1, 2) {
								self.lines.push(format!("cl drop {a_op}"));
							}
							owed.push(Owed::UnsubAck(a_id + 1, rng.below(16)));
						}
					}
					if let Some((c_op, c_id)) = twin_op {
						self.lines.push(format!("cl {} {c_op}", if rng.chance(1, 2) { "unsub" } else { "drop" }));
						owed.push(Owed::UnsubAck(c_id + 1, rng.below(16)));
					}
					// now the id is free: handed out again, it is accepted
					if rng.chance(1, 3) {
						out.count("second.resubscribe-sid-free-again");
						self.lines.push("cl subscribe".into());
						let e_id = self.next_id;
						let e_op = self.next_op;
						self.next_id += 2;
						self.next_op += 1;
						self.deliver(&accept(e_id, &sid));
						self.lines.push(format!("cl drop {e_op}"));
						owed.push(Owed::UnsubAck(e_id + 1, rng.below(16)));
					}
				}
				self.old_sids.push(sid);
				owed
			}
			21 => {
				// Between the client's unsubscribe request and the server's answer to it, the server still talks about that
				// subscription id: (a) its close notification (the server ended the stream on its own at the same moment),
				// (b) ordinary notifications in flight, (c) the id handed out again to a new subscribe — in every order.  The
				// id is free on the client from the moment the unsubscribe call is written (seeded mutant C09-R7 kept the reverse
				// mapping until the acknowledgement: the close notification then panics the read task).
				out.count("cycle.sub.between-unsub-and-ack");
				self.sid_counter += 1;
				let sid = if rng.chance(1, 2) { format!("\"B{}\"", self.sid_counter) } else { format!("{}", 7000 + self.sid_counter) };
				let str_ids = self.str_ids;
				let accept = |id: u64, sid: &str| format!("{{\"jsonrpc\":\"2.0\",\"id\":{},\"result\":{sid}}}", idj(id, str_ids));
				let note = |sid: &str, v: u64| format!("{{\"jsonrpc\":\"2.0\",\"method\":\"sub\",\"params\":{{\"subscription\":{sid},\"result\":{v}}}}}");
				let close = |sid: &str| format!("{{\"jsonrpc\":\"2.0\",\"method\":\"sub\",\"params\":{{\"subscription\":{sid},\"error\":\"closed by the server\"}}}}");
				let mut owed = vec![];
				self.lines.push("cl subscribe".into());
				let a_id = self.next_id;
				let a_op = self.next_op;
				self.next_id += 2;
				self.next_op += 1;
				self.deliver(&accept(a_id, &sid));
				if rng.chance(1, 2) {
					self.deliver(&note(&sid, 1));
					self.lines.push(format!("cl next {a_op}"));
				}
				match rng.below(3) {
					0 => {
						out.count("between.ended-by.unsub");
						self.lines.push(format!("cl unsub {a_op}"));
					}
					1 => {
						out.count("between.ended-by.drop");
						self.lines.push(format!("cl drop {a_op}"));
					}
					_ => {
						out.count("between.ended-by.lag");
						for v in 0..=self.cap {
							self.deliver(&note(&sid, 10 + v));
						}
					}
				}
				owed.push(Owed::UnsubAck(a_id + 1, rng.below(16)));
				// what the server says about the id before it answers the unsubscribe call
				let mut events: Vec<u8> = vec![];
				if rng.chance(3, 4) {
					events.push(b'a');
				}
				for _ in 0..rng.below(3) {
					events.push(b'b');
				}
				if rng.chance(1, 2) {
					events.push(b'c');
				}
				if rng.chance(1, 4) {
					events.push(b'a');
				}
				if events.is_empty() {
					events.push(b'a');
				}
				for i in (1..events.len()).rev() {
					let j = rng.below(i as u64 + 1) as usize;
					events.swap(i, j);
				}
				out.count(&format!("between.first.{}", events[0] as char));
	for k in [b'a', b'b', b'c'] {
		if events.contains(&k) {
			out.count(&format!("between.has.{}", k as char));
		}
	}
	if events.iter().position(|e| *e == b'c').zip(events.iter().rposition(|e| *e == b'a')).map(|(c, a)| c < a).unwrap_or(false) {
		out.count("between.close-after-resubscribe");
	}
				// the new holder of the id, if any: (op, request id, still open)
				let mut holder: Option<(usize, u64)> = None;
				let mut v = 100;
				for e in events {
					match e {
						b'a' => {
							self.deliver(&close(&sid));
							holder = None;
						}
						b'b' => {
							v += 1;
							self.deliver(&note(&sid, v));
							if let Some((c_op, _)) = holder {
								self.lines.push(format!("cl next {c_op}"));
							}
						}
						_ => {
							if let Some((c_op, c_id)) = holder.take() {
								self.lines.push(format!("cl drop {c_op}"));
								owed.push(Owed::UnsubAck(c_id + 1, rng.below(16)));
							}
							self.lines.push("cl subscribe".into());
							let c_id = self.next_id;
							let c_op = self.next_op;
							self.next_id += 2;
							self.next_op += 1;
							self.deliver(&accept(c_id, &sid));
							holder = Some((c_op, c_id));
						}
					}
					if rng.chance(1, 4) {
						self.sizes();
					}
				}
				if let Some((c_op, c_id)) = holder {
					self.lines.push(format!("cl {} {c_op}", if rng.chance(1, 2) { "unsub" } else { "drop" }));
					owed.push(Owed::UnsubAck(c_id + 1, rng.below(16)));
				}
				// the connection still works
				if rng.chance(1, 2) {
					self.lines.push("cl call".into());
					owed.push(Owed::CallAnswer(self.next_id));
					self.next_id += 1;
					self.next_op += 1;
				}
				self.old_sids.push(sid);
				owed
			}
			22 => {
				// A subscribe the application has ABANDONED (future dropped / timed out) is answered: all four exits of the
				// subscribe-response step with nobody waiting — an error object, a result that is no subscription id, an id in
				// use, a fresh id.  The refusals leave nothing behind (neither the entry nor the request id reserved for the
				// unsubscribe call), the acceptance is unsubscribed by the client at once (seeded mutant C18-R9 kept the
				// reserved id when the error could not be handed to the gone caller).  The exits rotate: every fourth cycle each.
				let exit = self.exit_rot % 4;
				let variant = self.exit_rot / 4;
				self.exit_rot += 1;
				let str_ids = self.str_ids;
				let mut owed = vec![];
				// for "id in use": a subscription that holds the id
				let mut holder: Option<(usize, u64, String)> = None;
				if exit == 2 {
					self.sid_counter += 1;
					let sid = if variant % 2 == 0 { format!("\"U{}\"", self.sid_counter) } else { format!("{}", 9000 + self.sid_counter) };
					self.lines.push("cl subscribe".into());
					let a_id = self.next_id;
					let a_op = self.next_op;
					self.next_id += 2;
					self.next_op += 1;
					self.deliver(&format!("{{\"jsonrpc\":\"2.0\",\"id\":{},\"result\":{sid}}}", idj(a_id, str_ids)));
					holder = Some((a_op, a_id, sid));
				}
				self.lines.push("cl subscribe".into());
				let id = self.next_id;
				let op = self.next_op;
				self.next_id += 2;
				self.next_op += 1;
				// given up at once, or after something else was issued
				if variant % 3 == 1 {
					self.lines.push("cl call".into());
					owed.push(Owed::CallAnswer(self.next_id));
					self.next_id += 1;
					self.next_op += 1;
				}
				self.lines.push(format!("cl abandon {op}"));
				if rng.chance(1, 3) {
					self.sizes();
				}
				let idt = idj(id, str_ids);
				match exit {
					0 => {
						out.count("cycle.sub.abandoned.refused-error");
						let errors = [
							"{\"code\":-32000,\"message\":\"no\"}",
							"{\"code\":-32601,\"message\":\"Method not found\"}",
							"{\"code\":-32602,\"message\":\"Invalid params\",\"data\":\"x\"}",
							"{\"code\":1,\"message\":\"\",\"data\":[1,{\"a\":null}]}",
							"{\"code\":-32603,\"message\":\"Internal error\",\"data\":null}",
							"{\"message\":\"m\",\"data\":{\"code\":1},\"code\":2147483647}",
							"[-32000,\"by position\",null]",
							"{\"code\":-2147483648,\"message\":\"too many subscriptions\"}",
						];
						let e = errors[(variant as usize) % errors.len()];
						self.deliver(&format!("{{\"jsonrpc\":\"2.0\",\"id\":{idt},\"error\":{e}}}"));
						self.reserved_of_refused.push(id + 1);
					}
					1 => {
						out.count("cycle.sub.abandoned.refused-not-an-id");
						let results = ["null", "{\"not\":\"an id\"}", "true", "[1]", "-1", "1.5", "[]"];
						let r = results[(variant as usize) % results.len()];
						self.deliver(&format!("{{\"jsonrpc\":\"2.0\",\"id\":{idt},\"result\":{r}}}"));
						self.reserved_of_refused.push(id + 1);
					}
					2 => {
						out.count("cycle.sub.abandoned.refused-id-in-use");
						let (a_op, a_id, sid) = holder.clone().unwrap();
						self.deliver(&format!("{{\"jsonrpc\":\"2.0\",\"id\":{idt},\"result\":{sid}}}"));
						self.reserved_of_refused.push(id + 1);
						// the holder is not disturbed
						self.deliver(&format!("{{\"jsonrpc\":\"2.0\",\"method\":\"sub\",\"params\":{{\"subscription\":{sid},\"result\":1}}}}"));
						self.lines.push(format!("cl next {a_op}"));
						self.lines.push(format!("cl {} {a_op}", if variant % 2 == 0 { "drop" } else { "unsub" }));
						owed.push(Owed::UnsubAck(a_id + 1, rng.below(16)));
					}
					_ => {
						out.count("cycle.sub.abandoned.accepted");
						self.sid_counter += 1;
						let sid = if variant % 2 == 0 { format!("\"F{}\"", self.sid_counter) } else { format!("{}", 9500 + self.sid_counter) };
						self.deliver(&format!("{{\"jsonrpc\":\"2.0\",\"id\":{idt},\"result\":{sid}}}"));
						owed.push(Owed::UnsubAck(id + 1, rng.below(16)));
					}
				}
				if rng.chance(1, 3) {
					self.sizes();
				}
				owed
			}
			_ => {
				out.count("cycle.sub.abandoned");
				self.lines.push("cl subscribe".into());
				let id = self.next_id;
				self.next_id += 2;
				let op = self.next_op;
				self.next_op += 1;
				self.lines.push(format!("cl abandon {op}"));
				self.sid_counter += 1;
				let sid = format!("\"A{}\"", self.sid_counter);
				self.deliver(&format!("{{\"jsonrpc\":\"2.0\",\"id\":{},\"result\":{sid}}}", idj(id, self.str_ids)));
				vec![Owed::UnsubAck(id + 1, rng.below(16))]
			}
		}
	}
}

fn gen_case(rng: &mut Rng, caseno: u64, out: &mut Out, long: Option<(u64, u64)>) -> Vec<String> {
	let str_ids = rng.chance(1, 3);
	let cap = rng.range(1, 3);
	// a small request queue makes "the back end cannot be told" reachable (handler cycles 9 and 10)
	let want_small = matches!(long, Some((9, _)) | Some((10, _))) || rng.chance(1, 3);
	let fcap = if want_small { rng.range(1, 2) } else { 64 };
	let opts = case_opts(rng, |k| out.count(k));
	let mut g = G {
		old_sids: vec![],
		str_ids,
		cap,
		fcap,
		next_id: 0,
		next_op: 0,
		sid_counter: 0,
		reserved_of_refused: vec![],
		exit_rot: 0,
		lines: vec![format!("case {caseno} client {} {cap} {fcap}{opts}", if str_ids { "str" } else { "num" })],
	};
	match long {
		Some((kind, reps)) => {
			// one cycle kind repeated many times, each brought to quiescence
			for i in 0..reps {
				let owed = g.cycle(rng, kind, out);
				for o in owed {
					let t = g.owed_text(&o);
					g.deliver(&t);
				}
				if i % 10 == 9 || i + 1 == reps {
					g.sizes();
				}
			}
		}
		None => {
			// several cycles open at once, acknowledgements in random order, sizes at random points
			let rounds = rng.range(1, 4);
			for _ in 0..rounds {
				let k = rng.range(1, 4);
				let mut owed: Vec<Owed> = vec![];
				let single_kind = if rng.chance(2, 3) { Some(rng.below(23)) } else { None };
				for _ in 0..k {
					let kind = single_kind.unwrap_or_else(|| rng.below(24));
					owed.extend(g.cycle(rng, kind, out));
					if rng.chance(1, 5) {
						g.sizes();
					}
				}
				while !owed.is_empty() {
					let i = rng.below(owed.len() as u64) as usize;
					let o = owed.remove(i);
					let t = g.owed_text(&o);
					g.deliver(&t);
					if rng.chance(1, 4) {
						g.sizes();
					}
				}
				g.sizes();
			}
		}
	}
	// everything is finished now: a response bearing any id used so far matches nothing pending and must make the
	// client give up the connection (last line of the case: the connection is gone afterwards)
	let probe_reserved = !g.reserved_of_refused.is_empty() && rng.chance(1, 2);
	if g.next_id > 0 && (probe_reserved || rng.chance(1, 3)) {
		let id = if probe_reserved {
			out.count("stale-response.reserved-id-of-refused-subscribe");
			*rng.pick(&g.reserved_of_refused)
		} else {
			rng.below(g.next_id)
		};
		if rng.chance(2, 3) {
			out.count("stale-response");
			let payload = if rng.chance(1, 2) { "\"result\":true" } else { "\"error\":{\"code\":-32000,\"message\":\"late\"}" };
			let t = format!("{{\"jsonrpc\":\"2.0\",\"id\":{},{payload}}}", idj(id, g.str_ids));
			g.deliver(&t);
		} else {
			if rng.chance(1, 4) {
				// a binary frame whose bytes are no UTF-8: the well-formed answer to a call that is pending, with one damaged
				// character inside a string (or a notification of that kind)
				g.lines.push("cl call".into());
				let cid = g.next_id;
				g.next_id += 1;
				g.next_op += 1;
				let place = rng.below(UTF8_PLACES as u64) as usize;
				let bytes = utf8_corruption(rng, place, &idj(cid, g.str_ids), "\"S1\"", |k| out.count(k));
				g.lines.push(format!("cl deliverx {} bin", hex(&bytes)));
			} else {
				let (name, text) = near_miss(rng, &idj(id, g.str_ids));
				out.count(name);
				g.lines.push(format!("cl deliverx {}", hexs(&text)));
			}
		}
		// the API once more on the connection the client has given up
		out.count("second.api-after-connection-given-up");
		g.lines.push((*rng.pick(&["cl call", "cl subscribe", "cl batch 2", "cl connected", "cl notify"])).to_string());
		g.lines.push("cl connected".into());
	}
	g.lines
}

/// every `cl deliver` line of a case, half of them in another spelling
fn respell_delivers(rng: &mut Rng, lines: Vec<String>, out: &mut Out) -> Vec<String> {
	lines
		.into_iter()
		.map(|l| match l.strip_prefix("cl deliver ") {
			Some(h) => {
				let text = String::from_utf8(unhex(h)).unwrap_or_default();
				deliver_line(rng, &text, |k| out.count(k))
			}
			None => l,
		})
		.collect()
}

fn main() {
	let a = args();
	let mut out = Out::new();
	let mut lines: Vec<String> = vec![];
	if let Some(r) = &a.replay {
		lines = read_case_lines(r);
	} else {
		lines.extend(corpus_lines("C18"));
		let n = a.cases.unwrap_or(if a.tier == "thorough" { 20000 } else { 1500 });
		let mut rng = Rng::new(a.seed);
		let mut caseno = 0u64;
		// every cycle kind repeated: 1..200 (quick: 3 lengths), thorough adds 2000
		let reps: Vec<u64> = if a.tier == "thorough" { vec![1, 2, 7, 50, 200, 2000] } else { vec![1, 5, 200] };
		for kind in 0..23u64 {
			for r in &reps {
				caseno += 1;
				let ls = gen_case(&mut rng, caseno, &mut out, Some((kind, *r)));
				lines.extend(respell_delivers(&mut rng, ls, &mut out));
			}
		}
		for _ in 0..n {
			caseno += 1;
			let ls = gen_case(&mut rng, caseno, &mut out, None);
			lines.extend(respell_delivers(&mut rng, ls, &mut out));
		}
	}
	for case in split_cases(&lines) {
		run_one(&mut out, &case);
	}
	out.write(&a.out);
	if a.replay.is_some() {
		for i in 0..out.ops.len() {
			println!("op:     {}\nimpl:   {}\noracle: {}", out.ops[i], out.impl_[i], out.oracle[i]);
		}
	}
}
