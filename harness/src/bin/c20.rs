//! C20 — params builders (`ArrayParams`, `ObjectParams`, `rpc_params!`, tuples/slices/maps,
//! `BatchRequestBuilder`) vs the model; oracle = plain serde_json parse of the output.
use jrpc_harness::common::*;
use jrpc_harness::gens::*;
use jsonrpsee_core::params::{ArrayParams, BatchRequestBuilder, ObjectParams};
use jsonrpsee_core::traits::ToRpcParams;
use serde::ser::{SerializeSeq, Serializer};
use serde_json::value::RawValue;

/// A value whose serialisation writes some elements of a sequence and then fails.
struct FailAfter {
	elems: Vec<Box<RawValue>>,
	as_map: bool,
}
impl serde::Serialize for FailAfter {
	fn serialize<S: Serializer>(&self, s: S) -> Result<S::Ok, S::Error> {
		if self.as_map {
			use serde::ser::SerializeMap;
			let mut m = s.serialize_map(None)?;
			for (i, e) in self.elems.iter().enumerate() {
				m.serialize_entry(&format!("k{i}"), e)?;
			}
			// a non-string key fails in serde_json after the separator was written
			m.serialize_key(&vec![1u8])?;
			m.end()
		} else {
			let mut q = s.serialize_seq(None)?;
			for e in &self.elems {
				q.serialize_element(e)?;
			}
			Err(serde::ser::Error::custom("boom"))
		}
	}
}
fn emitted(f: &FailAfter) -> String {
	let mut v = Vec::new();
	let r = serde_json::to_writer(&mut v, f);
	assert!(r.is_err());
	String::from_utf8(v).unwrap()
}

enum V {
	Ok(Box<RawValue>),
	Fail(FailAfter),
}

fn parse_op(s: &str) -> V {
	if let Some(h) = s.strip_prefix("ok:") {
		V::Ok(RawValue::from_string(String::from_utf8(unhex(h)).unwrap()).unwrap())
	} else if let Some(h) = s.strip_prefix("failseq:") {
		V::Fail(FailAfter { elems: h.split(',').filter(|x| !x.is_empty()).map(|x| RawValue::from_string(String::from_utf8(unhex(x)).unwrap()).unwrap()).collect(), as_map: false })
	} else if let Some(h) = s.strip_prefix("failmap:") {
		V::Fail(FailAfter { elems: h.split(',').filter(|x| !x.is_empty()).map(|x| RawValue::from_string(String::from_utf8(unhex(x)).unwrap()).unwrap()).collect(), as_map: true })
	} else {
		panic!("op {s}")
	}
}

/// the op as the model sees it: ok:<hex text> | fail:<hex emitted prefix>
fn model_op(v: &V) -> String {
	match v {
		V::Ok(r) => format!("ok:{}", hexs(r.get())),
		V::Fail(f) => format!("fail:{}", hexs(&emitted(f))),
	}
}

fn values_equal(a: &str, b: &str) -> bool {
	// compare as plain JSON values, but without interpreting numbers (1e400): compare raw element-wise
	match (serde_json::from_str::<serde_json::Value>(a), serde_json::from_str::<serde_json::Value>(b)) {
		(Ok(x), Ok(y)) => x == y,
		_ => a == b,
	}
}

type Built = std::thread::Result<(Vec<bool>, Result<Option<Box<RawValue>>, serde_json::Error>)>;

/// `new()` and `default()` of a params builder are two spellings of "an empty builder": same insert results, same text
fn ctor_differs(a: &Built, b: &Built) -> Option<String> {
	let show = |r: &Built| match r {
		Err(_) => "PANIC".to_string(),
		Ok((f, Ok(t))) => format!("{f:?} {:?}", t.as_ref().map(|t| t.get().to_string())),
		Ok((f, Err(e))) => format!("{f:?} E {e}"),
	};
	let (x, y) = (show(a), show(b));
	if x == y { None } else { Some(format!("builds {y}, new() builds {x}")) }
}

fn do_case(out: &mut Out, line: &str) {
	let w: Vec<&str> = line.split(' ').collect();
	match w[0] {
		"arr" => {
			let ops: Vec<V> = w[1..].iter().map(|s| parse_op(s)).collect();
			let mline = std::iter::once("arr".to_string()).chain(ops.iter().map(model_op)).collect::<Vec<_>>().join(" ");
			let oks: Vec<String> = ops.iter().filter_map(|v| if let V::Ok(r) = v { Some(r.get().to_string()) } else { None }).collect();
			let run = |fresh: fn() -> ArrayParams| {
				std::panic::catch_unwind(std::panic::AssertUnwindSafe(|| {
					let mut b = fresh();
					let mut flags = vec![];
					for v in &ops {
						let r = match v {
							V::Ok(r) => b.insert(r).is_ok(),
							V::Fail(f) => b.insert(f).is_ok(),
						};
						flags.push(r);
					}
					(flags, b.to_rpc_params())
				}))
			};
			let res = run(ArrayParams::new);
			// the other way to get an empty builder must build the same params
			if let Some(d) = ctor_differs(&res, &run(<ArrayParams as Default>::default)) {
				out.line(mline, "DEFAULT".into(), Err(format!("ArrayParams::default() {d}")), true);
				return;
			}
			match res {
				Ok((flags, Ok(built))) => {
					let o = format!("r {} | {}", flags.iter().map(|f| if *f { "1" } else { "0" }).collect::<Vec<_>>().join(" "), built.as_ref().map(|r| hexs(r.get())).unwrap_or("none".into()));
					let o = o.replace("r  |", "r |");
					let orc = (|| {
						for (v, f) in ops.iter().zip(flags.iter()) {
							if matches!(v, V::Ok(_)) != *f {
								return Err("insert result flag does not match serialisation outcome".to_string());
							}
						}
						match &built {
							None => if ops.is_empty() { Ok(()) } else { Err("non-empty builder built None".into()) },
							Some(r) => {
								if ops.is_empty() {
									return Err("empty builder produced params".into());
								}
								let es = serde_json::from_str::<Vec<Box<RawValue>>>(r.get()).map_err(|e| format!("built text is not a JSON array: {e}: {}", r.get()))?;
								if es.len() != oks.len() {
									return Err(format!("built {} elements, {} were inserted successfully", es.len(), oks.len()));
								}
								for (a, b) in es.iter().zip(oks.iter()) {
									if !values_equal(a.get(), b) {
										return Err(format!("element `{}` differs from inserted `{}`", a.get(), b));
									}
								}
								Ok(())
							}
						}
					})();
					out.count(if ops.iter().any(|v| matches!(v, V::Fail(_))) { "arr.with_failure" } else { "arr.all_ok" });
					out.line(mline, o, orc, !ops.is_empty());
				}
				Ok((_, Err(e))) => out.line(mline, format!("E {e}"), Err("to_rpc_params returned Err".into()), true),
				Err(_) => out.line(mline, "PANIC".into(), Err("builder panicked".into()), true),
			}
		}
		"obj" => {
			// obj <namehex>=<op> ...
			let ops: Vec<(String, V)> = w[1..].iter().map(|s| { let (k, v) = s.split_once('=').unwrap(); (String::from_utf8(unhex(k)).unwrap(), parse_op(v)) }).collect();
			let mline = std::iter::once("obj".to_string()).chain(ops.iter().map(|(k, v)| format!("{}={}", hexs(k), model_op(v)))).collect::<Vec<_>>().join(" ");
			let oks: Vec<(String, String)> = ops.iter().filter_map(|(k, v)| if let V::Ok(r) = v { Some((k.clone(), r.get().to_string())) } else { None }).collect();
			let run = |fresh: fn() -> ObjectParams| {
				std::panic::catch_unwind(std::panic::AssertUnwindSafe(|| {
					let mut b = fresh();
					let mut flags = vec![];
					for (k, v) in &ops {
						let r = match v {
							V::Ok(r) => b.insert(k, r).is_ok(),
							V::Fail(f) => b.insert(k, f).is_ok(),
						};
						flags.push(r);
					}
					(flags, b.to_rpc_params())
				}))
			};
			let res = run(ObjectParams::new);
			if let Some(d) = ctor_differs(&res, &run(<ObjectParams as Default>::default)) {
				out.line(mline, "DEFAULT".into(), Err(format!("ObjectParams::default() {d}")), true);
				return;
			}
			match res {
				Ok((flags, Ok(built))) => {
					let o = format!("r {} | {}", flags.iter().map(|f| if *f { "1" } else { "0" }).collect::<Vec<_>>().join(" "), built.as_ref().map(|r| hexs(r.get())).unwrap_or("none".into()));
					let o = o.replace("r  |", "r |");
					let orc = (|| {
						match &built {
							None => if ops.is_empty() { Ok(()) } else { Err("non-empty builder built None".to_string()) },
							Some(r) => {
								let ms = serde_json::from_str::<RawMembers>(r.get()).map_err(|e| format!("built text is not a JSON object: {e}: {}", r.get()))?;
								if ms.0.len() != oks.len() {
									return Err(format!("built {} members, {} were inserted successfully", ms.0.len(), oks.len()));
								}
								for ((k, v), (k2, v2)) in ms.0.iter().zip(oks.iter()) {
									if k != k2 || !values_equal(v.get(), v2) {
										return Err(format!("member {k}:{} differs from inserted {k2}:{v2}", v.get()));
									}
								}
								Ok(())
							}
						}
					})();
					out.count(if ops.iter().any(|(_, v)| matches!(v, V::Fail(_))) { "obj.with_failure" } else { "obj.all_ok" });
					out.line(mline, o, orc, !ops.is_empty());
				}
				Ok((_, Err(e))) => out.line(mline, format!("E {e}"), Err("to_rpc_params returned Err".into()), true),
				Err(_) => out.line(mline, "PANIC".into(), Err("builder panicked".into()), true),
			}
		}
		"tuple" => {
			// whole-value serialisation: tuples of arity 1..16, slices, Vec, arrays and rpc_params!
			let elems: Vec<Box<RawValue>> = w[1..].iter().map(|h| RawValue::from_string(String::from_utf8(unhex(h)).unwrap()).unwrap()).collect();
			let n = elems.len();
			macro_rules! tup {
				($($i:tt),+) => { ($(elems[$i].clone(),)+).to_rpc_params() };
			}
			let variants: Vec<(&str, Result<Option<Box<RawValue>>, serde_json::Error>)> = vec![
				("vec", elems.clone().to_rpc_params()),
				("slice", (&elems[..]).to_rpc_params()),
				("tuple", match n {
					1 => tup!(0), 2 => tup!(0,1), 3 => tup!(0,1,2), 4 => tup!(0,1,2,3), 5 => tup!(0,1,2,3,4), 6 => tup!(0,1,2,3,4,5),
					7 => tup!(0,1,2,3,4,5,6), 8 => tup!(0,1,2,3,4,5,6,7), 9 => tup!(0,1,2,3,4,5,6,7,8), 10 => tup!(0,1,2,3,4,5,6,7,8,9),
					11 => tup!(0,1,2,3,4,5,6,7,8,9,10), 12 => tup!(0,1,2,3,4,5,6,7,8,9,10,11), 13 => tup!(0,1,2,3,4,5,6,7,8,9,10,11,12),
					14 => tup!(0,1,2,3,4,5,6,7,8,9,10,11,12,13), 15 => tup!(0,1,2,3,4,5,6,7,8,9,10,11,12,13,14),
					16 => tup!(0,1,2,3,4,5,6,7,8,9,10,11,12,13,14,15),
					_ => elems.clone().to_rpc_params(),
				}),
				("array", match n {
					1 => [elems[0].clone()].to_rpc_params(),
					2 => [elems[0].clone(), elems[1].clone()].to_rpc_params(),
					3 => [elems[0].clone(), elems[1].clone(), elems[2].clone()].to_rpc_params(),
					4 => [elems[0].clone(), elems[1].clone(), elems[2].clone(), elems[3].clone()].to_rpc_params(),
					5 => [elems[0].clone(), elems[1].clone(), elems[2].clone(), elems[3].clone(), elems[4].clone()].to_rpc_params(),
					_ => elems.clone().to_rpc_params(),
				}),
				("rpc_params!", match n {
					1 => jsonrpsee_core::rpc_params![&elems[0]].to_rpc_params(),
					2 => jsonrpsee_core::rpc_params![&elems[0], &elems[1]].to_rpc_params(),
					3 => jsonrpsee_core::rpc_params![&elems[0], &elems[1], &elems[2]].to_rpc_params(),
					4 => jsonrpsee_core::rpc_params![&elems[0], &elems[1], &elems[2], &elems[3]].to_rpc_params(),
					_ => elems.clone().to_rpc_params(),
				}),
				("macro", {
					// rpc_params! expands to ArrayParams inserts
					let mut p = ArrayParams::new();
					for e in &elems { p.insert(e).unwrap(); }
					if n == 0 { Ok(Some(RawValue::from_string("[]".into()).unwrap())) } else { p.to_rpc_params() }
				}),
			];
			let first = variants[0].1.as_ref().ok().and_then(|o| o.as_ref().map(|r| r.get().to_string()));
			let mut orc = Ok(());
			for (name, r) in &variants {
				let got = r.as_ref().ok().and_then(|o| o.as_ref().map(|r| r.get().to_string()));
				if got != first {
					orc = Err(format!("{name} serialises to {got:?}, vec to {first:?}"));
				}
			}
			if let Some(t) = &first {
				match serde_json::from_str::<Vec<Box<RawValue>>>(t) {
					Ok(es) if es.len() == n && es.iter().zip(elems.iter()).all(|(a, b)| a.get() == b.get()) => {}
					_ => orc = Err(format!("`{t}` does not parse back to the {n} inserted values")),
				}
			} else {
				orc = Err("no output".into());
			}
			out.count(&format!("tuple.arity{n}"));
			out.line(line.into(), first.map(|t| hexs(&t)).unwrap_or("none".into()), orc, n > 0);
		}
		"batchb" => {
			let n: usize = w[1].parse().unwrap();
			let mut b = BatchRequestBuilder::new();
			for i in 0..n {
				b.insert("m", vec![i as u64]).unwrap();
			}
			let r = b.build();
			let o = match &r {
				Ok(v) => format!("ok {}", v.len()),
				Err(_) => "empty".into(),
			};
			let orc = match &r {
				Ok(v) if n > 0 && v.len() == n && v.iter().enumerate().all(|(i, (m, p))| *m == "m" && p.as_ref().map(|p| p.get().to_string()) == Some(format!("[{i}]"))) => Ok(()),
				Err(_) if n == 0 => Ok(()),
				_ => Err("batch builder lost or reordered entries".into()),
			};
			out.line(line.into(), o, orc, n > 0);
		}
		"map" => {
			// map <keyhex>=<valuehex> …: `serde_json::Map<String, Value>` as params (by name); model-independent check
			let kvs: Vec<(String, String)> = w[1..].iter().map(|s| { let (k, v) = s.split_once('=').unwrap(); (String::from_utf8(unhex(k)).unwrap(), String::from_utf8(unhex(v)).unwrap()) }).collect();
			let mut m = serde_json::Map::new();
			let mut ok = true;
			for (k, v) in &kvs {
				match serde_json::from_str::<serde_json::Value>(v) {
					Ok(val) => { m.insert(k.clone(), val); }
					Err(_) => ok = false, // out-of-range number: cannot be held by a Value
				}
			}
			if !ok {
				out.line(line.into(), "#skip unrepresentable".into(), Ok(()), false);
				return;
			}
			let r = std::panic::catch_unwind(std::panic::AssertUnwindSafe(|| m.clone().to_rpc_params()));
			let orc = match &r {
				Ok(Ok(Some(t))) => match serde_json::from_str::<serde_json::Value>(t.get()) {
					Ok(serde_json::Value::Object(back)) if back == m => Ok(()),
					other => Err(format!("map params `{}` parse back to {other:?}, inserted {m:?}", t.get())),
				},
				Ok(Ok(None)) => Err("map produced no params".into()),
				Ok(Err(e)) => Err(format!("map params failed: {e}")),
				Err(_) => Err("to_rpc_params panicked".into()),
			};
			out.count("map");
			out.line(line.into(), "#skip map".into(), orc, true);
		}
		"batchb2" => {
			// batchb2 <seed>: a batch builder filled with every kind of params (array / object builder, tuple,
			// vec, slice, none) and, now and then, a value that fails to serialise: the failed insert reports an
			// error and the entries built so far (and later ones) are exactly the successful ones, in order
			let mut rng = Rng::new(w[1].parse().unwrap());
			let n = rng.range(0, 7);
			let mut b = if n % 2 == 0 { BatchRequestBuilder::new() } else { BatchRequestBuilder::default() };
			let mut expect: Vec<(String, Option<String>)> = vec![];
			let mut orc = Ok(());
			for i in 0..n {
				let method: &'static str = ["m0", "m1", "m2", "rpc.m3"][rng.below(4) as usize];
				let a = rng.below(100);
				let c = gen_str_content(&mut rng);
				let (res, exp): (Result<(), serde_json::Error>, Option<String>) = match rng.below(7) {
					0 => (b.insert(method, jsonrpsee_core::rpc_params![]), None),
					1 => (b.insert(method, jsonrpsee_core::rpc_params![a, &c]), Some(format!("[{a},{}]", serde_json::to_string(&c).unwrap()))),
					2 => (b.insert(method, (a, c.clone())), Some(format!("[{a},{}]", serde_json::to_string(&c).unwrap()))),
					3 => (b.insert(method, vec![a, i]), Some(format!("[{a},{i}]"))),
					4 => {
						let mut o = ObjectParams::new();
						o.insert("a", a).unwrap();
						o.insert(&c, i).unwrap();
						(b.insert(method, o), Some(format!("{{\"a\":{a},{}:{i}}}", serde_json::to_string(&c).unwrap())))
					}
					5 => (b.insert(method, &[a][..]), Some(format!("[{a}]"))),
					_ => {
						let f = FailAfter { elems: vec![RawValue::from_string("1".into()).unwrap()], as_map: false };
						let r = b.insert(method, (f,));
						if r.is_ok() {
							orc = Err("inserting params that fail to serialise reported success".to_string());
						}
						continue;
					}
				};
				if let Err(e) = res {
					orc = Err(format!("insert of serialisable params failed: {e}"));
				}
				expect.push((method.to_string(), exp));
			}
			let got: Vec<(String, Option<String>)> = b.iter().map(|(m, p)| (m.to_string(), p.as_ref().map(|p| p.get().to_string()))).collect();
			// the three ways out of the builder hold the same entries
			let via_into_iter: Vec<(String, Option<String>)> = b.clone().into_iter().map(|(m, p)| (m.to_string(), p.map(|p| p.get().to_string()))).collect();
			let built = b.build();
			let via_build: Vec<(String, Option<String>)> =
				built.as_ref().map(|v| v.iter().map(|(m, p)| (m.to_string(), p.as_ref().map(|p| p.get().to_string()))).collect()).unwrap_or_default();
			if orc.is_ok() && (via_into_iter != got || via_build != got) {
				orc = Err(format!("iter() = {got:?}, clone().into_iter() = {via_into_iter:?}, build() = {via_build:?}"));
			}
			if orc.is_ok() {
				if got != expect {
					orc = Err(format!("batch builder holds {got:?}, inserted {expect:?}"));
				} else {
					match &built {
						Ok(v) if !expect.is_empty() && v.len() == expect.len() => {}
						Err(_) if expect.is_empty() => {}
						_ => orc = Err("build() disagrees with the entries held".into()),
					}
				}
			}
			out.count("batchb2");
			out.line(line.into(), "#skip batchb2".into(), orc, n > 0);
		}
		_ => panic!("verb {line}"),
	}
}

struct RawMembers<'a>(Vec<(String, &'a RawValue)>);
impl<'de> serde::Deserialize<'de> for RawMembers<'de> {
	fn deserialize<D: serde::Deserializer<'de>>(d: D) -> Result<Self, D::Error> {
		struct Vis;
		impl<'de> serde::de::Visitor<'de> for Vis {
			type Value = RawMembers<'de>;
			fn expecting(&self, f: &mut std::fmt::Formatter) -> std::fmt::Result {
				f.write_str("object")
			}
			fn visit_map<A: serde::de::MapAccess<'de>>(self, mut map: A) -> Result<Self::Value, A::Error> {
				let mut v = vec![];
				while let Some(k) = map.next_key::<String>()? {
					let val: &'de RawValue = map.next_value()?;
					v.push((k, val));
				}
				Ok(RawMembers(v))
			}
		}
		d.deserialize_map(Vis)
	}
}

fn gen_value(rng: &mut Rng) -> String {
	// what serde_json emits for a value: compact text
	match rng.below(6) {
		0 => gen_id(rng).spell(rng),
		1 => {
			let s = gen_str_content(rng);
			serde_json::to_string(&s).unwrap()
		}
		_ => {
			let d = rng.range(0, 3) as u32;
			gen_json_compact(rng, d)
		}
	}
}

fn gen_op(rng: &mut Rng) -> String {
	if rng.chance(3, 4) {
		format!("ok:{}", hexs(&gen_value(rng)))
	} else {
		let k = rng.below(4);
		let elems: Vec<String> = (0..k).map(|_| hexs(&gen_value(rng))).collect();
		format!("{}:{}", if rng.chance(1, 2) { "failseq" } else { "failmap" }, elems.join(","))
	}
}

fn gen_lines(rng: &mut Rng, n: u64, lines: &mut Vec<String>) {
	lines.push("arr".into());
	lines.push("obj".into());
	for k in 0..=3 {
		lines.push(format!("batchb {k}"));
	}
	// a failing insert at every position of short sequences
	for len in 1..=4usize {
		for pos in 0..len {
			let ops: Vec<String> = (0..len).map(|i| if i == pos { "failmap:31".to_string() } else { format!("ok:{}", hexs(&i.to_string())) }).collect();
			lines.push(format!("arr {}", ops.join(" ")));
			let ops: Vec<String> = (0..len).map(|i| format!("{}={}", hexs(&format!("k{i}")), if i == pos { "failseq:31,32".to_string() } else { format!("ok:{}", hexs(&i.to_string())) })).collect();
			lines.push(format!("obj {}", ops.join(" ")));
		}
	}
	for arity in 1..=17usize {
		let es: Vec<String> = (0..arity).map(|_| hexs(&gen_value(rng))).collect();
		lines.push(format!("tuple {}", es.join(" ")));
	}
	for _ in 0..n {
		match rng.below(10) {
			0..=4 => {
				let k = rng.range(1, 8);
				let ops: Vec<String> = (0..k).map(|_| gen_op(rng)).collect();
				lines.push(format!("arr {}", ops.join(" ")));
			}
			5..=7 => {
				let k = rng.range(1, 8);
				let ops: Vec<String> = (0..k).map(|_| { let name = if rng.chance(1, 3) { gen_str_content(rng) } else { format!("p{}", rng.below(5)) }; format!("{}={}", hexs(&name), gen_op(rng)) }).collect();
				lines.push(format!("obj {}", ops.join(" ")));
			}
			8 => {
				let k = rng.range(1, 16);
				let es: Vec<String> = (0..k).map(|_| hexs(&gen_value(rng))).collect();
				lines.push(format!("tuple {}", es.join(" ")));
			}
			_ => match rng.below(3) {
				0 => lines.push(format!("batchb {}", rng.below(6))),
				1 => lines.push(format!("batchb2 {}", rng.next() >> 1)),
				_ => {
					let k = rng.range(0, 6);
					let kv: Vec<String> = (0..k).map(|_| { let name = if rng.chance(1, 3) { gen_str_content(rng) } else { format!("p{}", rng.below(4)) }; format!("{}={}", hexs(&name), hexs(&gen_value(rng))) }).collect();
					lines.push(format!("map {}", kv.join(" ")).trim_end().to_string());
				}
			},
		}
	}
}

fn main() {
	let a = args();
	if std::env::var("VERIF_DEBUG").is_err() {
		std::panic::set_hook(Box::new(|_| {}));
	}
	let mut out = Out::new();
	let mut lines = vec![];
	if let Some(r) = &a.replay {
		lines = read_case_lines(r);
	} else {
		lines.extend(corpus_lines("C20"));
		let n = a.cases.unwrap_or(if a.tier == "thorough" { 600000 } else { 6000 });
		let mut rng = Rng::new(a.seed);
		gen_lines(&mut rng, n, &mut lines);
	}
	for l in &lines {
		// building params never panics (C20): a panic anywhere in a case is that case's failure, not the harness's
		let before = out.ops.len();
		if std::panic::catch_unwind(std::panic::AssertUnwindSafe(|| do_case(&mut out, l))).is_err() && out.ops.len() == before {
			out.line(l.clone(), "#skip PANIC".into(), Err("the builder / conversion panicked on this case".into()), true);
		}
	}
	out.write(&a.out);
	if a.replay.is_some() {
		for i in 0..out.ops.len() {
			println!("op:     {}\nimpl:   {}\noracle: {}", out.ops[i], out.impl_[i], out.oracle[i]);
		}
	}
}
