//! `server` family harness (C01 C02 C07 C08 C19): drives the real TowerService (HTTP in-process,
//! WebSocket over a duplex) with generated messages; one binary, generator/oracle chosen by --prop.
//!
//! Line protocol
//!   case <n> <maxReq> <maxResp> <batch d|u|l:N>          -> case
//!   msg <hex>          same bytes as one HTTP POST (one chunk) and as one WS message
//!                      -> h:<status>:<bodyhex> w:<k>[:<framehex>]* | <invH> | <invW>
//!   ws <hex>           WS only        -> w:<k>[:<framehex>]* | <inv>
//!   http <METHOD> <cthex|none> <cl none|N> <chunkhex>*   -> h:<status>:<bodyhex> | <inv>
use jrpc_harness::common::*;
use jrpc_harness::gens::*;
use jrpc_harness::rpc_env::*;
use jsonrpsee::server::BatchRequestConfig;
use serde_json::value::RawValue;

fn inv_repr(v: &[(String, String)]) -> String {
	if v.is_empty() { "-".into() } else { v.iter().map(|(m, p)| format!("{}:{}", hexs(m), hexs(p))).collect::<Vec<_>>().join(",") }
}

struct Case {
	env: Env,
	ws: Option<WsPeer>,
}

fn parse_batch(s: &str) -> BatchRequestConfig {
	match s {
		"d" => BatchRequestConfig::Disabled,
		"u" => BatchRequestConfig::Unlimited,
		_ => BatchRequestConfig::Limit(s[2..].parse().unwrap()),
	}
}

const METHODS: [&str; 13] = ["echo", "a_echo", "blk_echo", "sum", "a_sum", "fail", "str", "esc", "blk_boom", "sub", "unsub", "rpc.e", "badser"];

/// plain-JSON reading of a message for the oracle (independent of jsonrpsee's own types)
#[derive(Debug)]
enum Plain {
	NotJson,
	/// object with unique member names
	Obj { jsonrpc_ok: bool, method: Option<String>, id: PlainId, has_params: bool },
	DupKeys,
	Array(Vec<String>),
	Other,
}
#[derive(Debug, Clone, PartialEq)]
enum PlainId {
	Absent,
	InDomain(String), // canonical serialisation
	OutOfDomain,
}
fn plain_id(raw: &str) -> PlainId {
	if raw == "null" {
		return PlainId::InDomain("null".into());
	}
	if let Ok(n) = serde_json::from_str::<u64>(raw) {
		// u64 from an integer literal only
		if raw.bytes().all(|b| b.is_ascii_digit()) {
			return PlainId::InDomain(n.to_string());
		}
	}
	if raw.starts_with('"') {
		if let Ok(s) = serde_json::from_str::<String>(raw) {
			return PlainId::InDomain(serde_json::to_string(&s).unwrap());
		}
	}
	PlainId::OutOfDomain
}
struct RawMembers<'a>(Vec<(String, &'a RawValue)>);
impl<'de> serde::Deserialize<'de> for RawMembers<'de> {
	fn deserialize<D: serde::Deserializer<'de>>(d: D) -> Result<Self, D::Error> {
		struct Vis;
		impl<'de> serde::de::Visitor<'de> for Vis {
			type Value = RawMembers<'de>;
			fn expecting(&self, f: &mut std::fmt::Formatter) -> std::fmt::Result {
				f.write_str("object")
			}
			fn visit_map<A: serde::de::MapAccess<'de>>(self, mut map: A) -> Result<Self::Value, A::Error> {
				let mut v = vec![];
				while let Some(k) = map.next_key::<String>()? {
					let val: &'de RawValue = map.next_value()?;
					v.push((k, val));
				}
				Ok(RawMembers(v))
			}
		}
		d.deserialize_map(Vis)
	}
}
fn plain(bytes: &[u8]) -> Plain {
	let Ok(t) = std::str::from_utf8(bytes) else { return Plain::NotJson };
	if serde_json::from_str::<&RawValue>(t).is_err() {
		return Plain::NotJson;
	}
	if let Ok(ms) = serde_json::from_str::<RawMembers>(t) {
		// serde's derived visitors reject a repeated *known* member; unknown members are skipped, repeated or not
		let mut names: Vec<&str> = ms.0.iter().map(|(k, _)| k.as_str()).filter(|k| ["jsonrpc", "id", "method", "params"].contains(k)).collect();
		names.sort();
		if names.windows(2).any(|w| w[0] == w[1]) {
			return Plain::DupKeys;
		}
		let get = |k: &str| ms.0.iter().find(|(kk, _)| kk == k).map(|(_, v)| v.get());
		let jsonrpc_ok = get("jsonrpc").map(|r| serde_json::from_str::<String>(r).map(|s| s == "2.0").unwrap_or(false)).unwrap_or(false);
		let method = get("method").and_then(|r| serde_json::from_str::<String>(r).ok());
		let id = match get("id") {
			None => PlainId::Absent,
			Some(r) => plain_id(r),
		};
		return Plain::Obj { jsonrpc_ok, method, id, has_params: get("params").is_some() };
	}
	if let Ok(v) = serde_json::from_str::<Vec<&RawValue>>(t) {
		return Plain::Array(v.iter().map(|e| e.get().to_string()).collect());
	}
	Plain::Other
}

/// a frame must be exactly one well-formed JSON-RPC 2.0 response object; returns (id canonical, code or None)
fn check_response(frame: &[u8]) -> Result<(String, Option<i64>), String> {
	let t = std::str::from_utf8(frame).map_err(|_| "frame is not UTF-8".to_string())?;
	let ms = serde_json::from_str::<RawMembers>(t).map_err(|e| format!("frame is not a JSON object: {e}: {t}"))?;
	let cnt = |k: &str| ms.0.iter().filter(|(kk, _)| kk == k).count();
	let get = |k: &str| ms.0.iter().find(|(kk, _)| kk == k).map(|(_, v)| v.get());
	if get("jsonrpc") != Some("\"2.0\"") || cnt("jsonrpc") != 1 {
		return Err(format!("frame without jsonrpc 2.0: {t}"));
	}
	if cnt("id") != 1 {
		return Err(format!("frame without exactly one id: {t}"));
	}
	if cnt("result") + cnt("error") != 1 {
		return Err(format!("frame without exactly one of result/error: {t}"));
	}
	if ms.0.len() != 3 {
		return Err(format!("frame with extra members: {t}"));
	}
	let id = match plain_id(get("id").unwrap()) {
		PlainId::InDomain(s) => s,
		_ => return Err(format!("frame id outside the id domain: {t}")),
	};
	let code = match get("error") {
		Some(e) => {
			let em = serde_json::from_str::<RawMembers>(e).map_err(|_| format!("error member is not an object: {t}"))?;
			let c = em.0.iter().find(|(k, _)| k == "code").and_then(|(_, v)| serde_json::from_str::<i64>(v.get()).ok());
			let m = em.0.iter().find(|(k, _)| k == "message").and_then(|(_, v)| serde_json::from_str::<String>(v.get()).ok());
			if c.is_none() || m.is_none() {
				return Err(format!("error object without code/message: {t}"));
			}
			c
		}
		None => None,
	};
	Ok((id, code))
}

/// C01 oracle for one message answered over one transport: `frames` = everything received for it.
fn oracle_single(cfg: &EnvCfg, msg: &[u8], frames: &[Vec<u8>], inv: &[(String, String)], http: bool) -> Result<(), String> {
	// sniffing window: up to 127 leading ASCII-whitespace bytes
	let lead = msg.iter().take_while(|b| b.is_ascii_whitespace()).count();
	let body = &msg[lead.min(msg.len())..];
	let p = if lead > 127 { Plain::NotJson } else { plain(body) };
	if std::str::from_utf8(msg).is_err() {
		// outside the text model: serde_json does not validate UTF-8 inside *ignored* members, so such a
		// message may still be classified by the members it does read; only the structural clause is checked
		// (DESIGN §7: invalid UTF-8 inside an ignored member / ignored string content is not seen by serde_json)
		for f in frames {
			check_response(f)?;
		}
		if frames.len() > 1 || inv.len() > 1 {
			return Err("non-UTF-8 message produced several frames or ran several handlers".into());
		}
		// bytes that do not even start a JSON object / array cannot be a notification: they are answered
		// (parse error, id null), never left unanswered and never run a handler
		let shaped = lead <= 127 && matches!(body.first(), Some(b'{') | Some(b'['));
		if !shaped && msg.len() <= cfg.max_req as usize {
			if frames.len() != 1 || !inv.is_empty() {
				return Err(format!("bytes that are neither UTF-8 nor object/array shaped got {} replies and ran {} handlers (exactly one -32700 reply expected)", frames.len(), inv.len()));
			}
			let (id, code) = check_response(&frames[0])?;
			if id != "null" || code != Some(-32700) {
				return Err(format!("such bytes were answered with id {id} code {code:?} instead of -32700 / null"));
			}
		}
		return Ok(());
	}
	let is_batch_shape = lead <= 127 && body.first() == Some(&b'[');
	if msg.len() > cfg.max_req as usize {
		return Ok(()); // C07's business
	}
	let sub_call = matches!(&p, Plain::Obj { jsonrpc_ok: true, method: Some(m), id: PlainId::InDomain(_), .. } if m == "sub");
	if frames.len() > 1 && !sub_call && !is_batch_shape {
		return Err(format!("{} frames for one non-subscription message", frames.len()));
	}
	for (m, _) in inv {
		match &p {
			Plain::Obj { jsonrpc_ok: true, method: Some(mm), id: PlainId::InDomain(_), .. } if mm == m => {}
			Plain::Array(_) => {}
			_ => return Err(format!("handler {m} ran for a message that is not a valid call to it")),
		}
	}
	if is_batch_shape {
		return Ok(()); // C02's business
	}
	match &p {
		Plain::NotJson | Plain::Other | Plain::Array(_) => {
			// not JSON (or JSON that is not an object): -32700 null, or -32600/-32700 for non-request JSON
			if frames.len() != 1 {
				return Err("no reply to a non-notification message".into());
			}
			let (id, code) = check_response(&frames[0])?;
			let okc = if matches!(p, Plain::NotJson) { code == Some(-32700) } else { code == Some(-32700) || code == Some(-32600) };
			if !okc || (matches!(p, Plain::NotJson) && id != "null") {
				return Err(format!("unexpected reply to non-JSON/non-request text: id={id} code={code:?}"));
			}
			Ok(())
		}
		Plain::DupKeys => {
			// repeated member names: meaning undefined (RFC 8259 §4) — only well-formedness of any reply
			for f in frames {
				check_response(f)?;
			}
			Ok(())
		}
		Plain::Obj { jsonrpc_ok, method, id, .. } => {
			let is_request_shape = *jsonrpc_ok && method.is_some();
			if is_request_shape {
				match id {
					PlainId::InDomain(idc) => {
						// valid request: exactly one reply with the identical id
						if frames.is_empty() {
							return Err("valid request got no reply".into());
						}
						let (rid, code) = check_response(frames.last().unwrap())?;
						if &rid != idc {
							return Err(format!("reply id {rid} differs from request id {idc}"));
						}
						let m = method.as_ref().unwrap();
						let registered = METHODS.contains(&m.as_str());
						if !registered && code != Some(-32601) {
							return Err(format!("unknown method answered with {code:?}"));
						}
						if registered && code == Some(-32601) {
							return Err("registered method answered -32601".into());
						}
						if registered && !http && m != "unsub" && m != "sub" && inv.len() != 1 {
							return Err(format!("registered method invoked {} times", inv.len()));
						}
						Ok(())
					}
					PlainId::Absent | PlainId::OutOfDomain => {
						// notification: no reply, no handler
						if !frames.is_empty() {
							return Err("notification was answered".into());
						}
						if !inv.is_empty() {
							return Err("notification executed a handler".into());
						}
						Ok(())
					}
				}
			} else {
				// JSON object that is not a request: -32600 (id when recoverable) or -32700 null
				if frames.len() != 1 {
					return Err("non-request object got no reply".into());
				}
				let (rid, code) = check_response(&frames[0])?;
				match (code, id) {
					(Some(-32600), PlainId::InDomain(idc)) if &rid == idc => Ok(()),
					(Some(-32700), PlainId::Absent | PlainId::OutOfDomain) if rid == "null" => Ok(()),
					_ => Err(format!("non-request object answered id={rid} code={code:?} (its id: {id:?})")),
				}
			}
		}
	}
}

/// C02 oracle: `frames` for a message whose first non-ws byte is `[`.
fn oracle_batch(cfg: &EnvCfg, body: &[u8], frames: &[Vec<u8>], inv: &[(String, String)], singles: &dyn Fn(&str) -> Option<String>) -> Result<(), String> {
	let p = plain(body);
	let one_error = |code: i64| -> Result<(), String> {
		if frames.len() != 1 {
			return Err(format!("expected one error object, got {} frames", frames.len()));
		}
		let (id, c) = check_response(&frames[0])?;
		if id != "null" || c != Some(code) {
			return Err(format!("expected error {code} with id null, got id={id} code={c:?}"));
		}
		if !inv.is_empty() {
			return Err("an entry was executed although the batch was refused".into());
		}
		Ok(())
	};
	if matches!(cfg.batch, BatchRequestConfig::Disabled) {
		return one_error(-32005);
	}
	let Plain::Array(es) = p else {
		return one_error(-32700);
	};
	if let BatchRequestConfig::Limit(n) = cfg.batch {
		if es.len() > n as usize {
			return one_error(-32010);
		}
	}
	if es.is_empty() {
		return one_error(-32600);
	}
	// expected replies per entry
	let mut expect: Vec<Option<String>> = vec![]; // per answered entry: Some(single reply) for valid calls, None for invalid entries
	let mut invalid_ids: Vec<Option<String>> = vec![]; // for invalid entries: Some(expected id)
	let mut has_sub = false;
	for e in &es {
		match plain(e.as_bytes()) {
			Plain::Obj { jsonrpc_ok: true, method: Some(m), id: PlainId::InDomain(_), .. } => {
				if m == "sub" {
					has_sub = true;
				}
				expect.push(singles(e));
				invalid_ids.push(None);
			}
			Plain::Obj { jsonrpc_ok: true, method: Some(_), id: PlainId::Absent | PlainId::OutOfDomain, .. } => {}
			Plain::DupKeys => return Ok(()), // undefined
			Plain::Obj { id: PlainId::InDomain(idc), .. } => {
				expect.push(None);
				invalid_ids.push(Some(idc));
			}
			_ => {
				expect.push(None);
				invalid_ids.push(Some("null".into()));
			}
		}
	}
	let array_frame = frames.last();
	if expect.is_empty() {
		if !frames.is_empty() {
			return Err("a batch of notifications was answered".into());
		}
		return Ok(());
	}
	let Some(af) = array_frame else { return Err("batch with call entries got no reply".into()) };
	if frames.len() > 1 {
		if has_sub {
			return Err(format!("KF ws-batch-contains-subscribe-call {} frames for a batch containing a subscribe call (the subscribe response is also sent outside the array)", frames.len()));
		}
		return Err(format!("{} frames for one batch", frames.len()));
	}
	let t = std::str::from_utf8(af).map_err(|_| "reply not UTF-8".to_string())?;
	match serde_json::from_str::<Vec<&RawValue>>(t) {
		Ok(rs) => {
			if rs.len() != expect.len() {
				return Err(format!("array has {} replies, {} entries must be answered", rs.len(), expect.len()));
			}
			for ((r, e), inv_id) in rs.iter().zip(expect.iter()).zip(invalid_ids.iter()) {
				let (rid, code) = check_response(r.get().as_bytes())?;
				if let Some(es) = e {
					if canon_resp(r.get()) != canon_resp(es) && !has_sub {
						return Err(format!("entry reply {} differs from its single reply {}", r.get(), es));
					}
				}
				if let Some(want) = inv_id {
					if code != Some(-32600) || &rid != want {
						return Err(format!("invalid entry answered id={rid} code={code:?}, expected -32600 with id {want}"));
					}
				}
			}
			Ok(())
		}
		Err(_) => {
			// only the response-size limit may replace the array by one error
			let (id, c) = check_response(af)?;
			if id == "null" && c == Some(-32011) { Ok(()) } else { Err(format!("batch answered by a non-array: {t}")) }
		}
	}
}

async fn run(lines: Vec<String>, prop: String, out: &mut Out) {
	let mut case: Option<Case> = None;
	for line in lines {
		let w: Vec<&str> = line.split(' ').collect();
		match w[0] {
			"case" => {
				let cfg = EnvCfg { max_req: w[3].parse().unwrap(), max_resp: w[4].parse().unwrap(), batch: parse_batch(w[5]), max_subs: 1024 };
				// every third case runs on the low-level assembly (ws::connect + http::call_with_service_builder)
				let n: u64 = w[1].parse().unwrap_or(0);
				let assembly = if n % 3 == 2 { Assembly::LowLevel } else { Assembly::Tower };
				out.count(if assembly == Assembly::LowLevel { "assembly.lowlevel" } else { "assembly.tower" });
				case = Some(Case { env: Env::with_assembly(cfg, assembly), ws: None });
				out.line(line.clone(), "case".into(), Ok(()), false);
			}
			"msg" | "ws" => {
				let c = case.as_mut().unwrap();
				let data = unhex(w[1]);
				let utf8 = std::str::from_utf8(&data).is_ok();
				let mut parts = vec![];
				let mut orc: Result<(), String> = Ok(());
				let mut http_body: Option<Vec<u8>> = None;
				let mut http_status = 0u16;
				let mut http_inv = 0usize;
				let cfg = c.env.cfg.clone();
				if w[0] == "msg" {
					let (st, body) = c.env.http("POST", &[("content-type".into(), b"application/json".to_vec())], vec![data.clone()]).await;
					quiesce().await;
					let inv = c.env.take_log();
					let cb = canon_resp(&String::from_utf8_lossy(&body));
					parts.push(format!("h:{st}:{}", hexs(&cb)));
					parts.push(format!("| {}", inv_repr(&inv)));
					let frames: Vec<Vec<u8>> = if body == b"null" { vec![] } else { vec![body.clone()] };
					if prop == "C01" || prop == "C08" {
						if let Err(e) = oracle_single(&cfg, &data, &frames, &inv, true) {
							orc = Err(format!("http: {e}"));
						}
					}
					http_body = Some(body);
					http_status = st;
					http_inv = inv.len();
				}
				if c.ws.is_none() {
					c.ws = Some(c.env.ws().await);
				}
				let peer = c.ws.as_mut().unwrap();
				let sent_ok = peer.send(&data, false).await;
				quiesce().await;
				let frames = peer.take();
				let conn_lost = !sent_ok || peer.is_closed();
				let inv = c.env.take_log();
				let mut wpart = format!("w:{}", frames.len());
				for f in &frames {
					wpart.push(':');
					wpart.push_str(&hexs(&canon_resp(&String::from_utf8_lossy(f))));
				}
				if w[0] == "msg" {
					parts.insert(1, wpart);
				} else {
					parts.push(wpart);
				}
				parts.push(format!("| {}", inv_repr(&inv)));
				if orc.is_ok() {
					let lead = data.iter().take_while(|b| b.is_ascii_whitespace()).count();
					let is_batch = lead <= 127 && data.get(lead) == Some(&b'[') && data.len() <= cfg.max_req as usize;
					if prop == "C02" && is_batch {
						// single replies of each entry: ask a fresh connection of the same service (deterministic handlers)
						let env2 = Env::new(cfg.clone());
						let mut peer2 = env2.ws().await;
						let es: Vec<String> = serde_json::from_slice::<Vec<&RawValue>>(&data[lead..]).map(|v| v.iter().map(|e| e.get().to_string()).collect()).unwrap_or_default();
						let mut singles: std::collections::HashMap<String, Option<String>> = Default::default();
						for e in &es {
							if singles.contains_key(e) {
								continue;
							}
							// an entry sent alone: objects go through the single path; non-objects would be sniffed
							// differently ("[..]" = batch, scalars = parse error), the statement's "classified exactly
							// as single messages" covers objects
							let r = if e.starts_with('{') {
								peer2.send(e.as_bytes(), false).await;
								quiesce().await;
								peer2.take().last().map(|f| String::from_utf8_lossy(f).to_string())
							} else {
								None
							};
							singles.insert(e.clone(), r);
						}
						let f = |e: &str| singles.get(e).cloned().flatten();
						orc = oracle_batch(&cfg, &data[lead..], &frames, &inv, &f).map_err(|e| if e.starts_with("KF ") { e } else { format!("ws batch: {e}") });
						if orc.is_ok() {
							if let Some(hb) = &http_body {
								let hf: Vec<Vec<u8>> = if hb == b"null" { vec![] } else { vec![hb.clone()] };
								let has_sub = es.iter().any(|e| matches!(plain(e.as_bytes()), Plain::Obj { method: Some(m), .. } if m == "sub" || m == "unsub"));
								if !has_sub {
									orc = oracle_batch(&cfg, &data[lead..], &hf, &[], &f).map_err(|e| format!("http batch: {e}"));
								}
							}
						}
					} else if prop == "C01" || prop == "C08" {
						if let Err(e) = oracle_single(&cfg, &data, &frames, &inv, false) {
							orc = Err(format!("ws: {e}"));
						} else if let Some(hb) = &http_body {
							// same response object over HTTP and WS for non-subscription methods
							let lead = data.iter().take_while(|b| b.is_ascii_whitespace()).count();
							let is_sub = matches!(plain(&data[lead.min(data.len())..]), Plain::Obj { method: Some(m), .. } if m == "sub" || m == "unsub")
								|| String::from_utf8_lossy(&data).contains("sub");
							let wsb: Vec<u8> = frames.last().cloned().unwrap_or(b"null".to_vec());
							if !is_sub && &wsb != hb && data.len() <= cfg.max_req as usize {
								orc = Err(format!("HTTP body {} differs from WS frame {}", String::from_utf8_lossy(hb), String::from_utf8_lossy(&wsb)));
							}
						}
					}
					if prop == "C08" && orc.is_ok() {
						// no reply above max_response_body_size except the fixed library errors
						for f in &frames {
							if f.len() > cfg.max_resp as usize {
								let t = String::from_utf8_lossy(f);
								let lib = t.contains("\"code\":-32008") || t.contains("\"code\":-32011") || t.contains("\"code\":-32700") || t.contains("\"code\":-32600") || t.contains("\"code\":-32601") || t.contains("\"code\":-32005") || t.contains("\"code\":-32010") || t.contains("\"code\":-32007") || t.contains("\"code\":-32603");
								if !lib {
									orc = Err(format!("reply of {} bytes exceeds max_response_body_size {}", f.len(), cfg.max_resp));
								}
							}
						}
					}
					if prop == "C07" {
						orc = oracle_c07(&cfg, &data, &frames, &inv, http_body.as_deref().map(|b| (http_status, b, http_inv)));
					}
				}
				let o = parts.join(" ");
				let o = if utf8 { o } else { format!("#skip {o}") };
				out.count(if utf8 { "msg.utf8" } else { "msg.non_utf8" });
				let nontrivial = !frames.is_empty();
				// the connection must keep serving: a connection the server closed is a failure of this line, and the
				// next line gets a fresh connection (the harness goes on instead of crashing)
				let orc = if conn_lost && orc.is_ok() { Err("the server closed the WebSocket connection on this message (later messages cannot be served)".to_string()) } else { orc };
				if conn_lost {
					case.as_mut().unwrap().ws = None;
				}
				out.line(line.clone(), o, orc, nontrivial);
			}
			"burst" => {
				// pipelined messages on a fresh connection whose send queue (message_buffer_capacity) is small
				// and whose peer does not read until everything has been sent: replies pile up behind the
				// bounded queue.  Every call must still be answered exactly once.
				let c = case.as_mut().unwrap();
				let mb: u32 = w[1].parse().unwrap();
				let dup: usize = w[2].parse().unwrap();
				let msgs: Vec<Vec<u8>> = w[3..].iter().map(|h| unhex(h)).collect();
				let env = Env::with_opts(c.env.cfg.clone(), c.env.assembly, Some(mb));
				let mut peer = env.ws_opts(dup, true).await;
				let mut released = false;
				for m in &msgs {
					if !matches!(tokio::time::timeout(std::time::Duration::from_secs(1), peer.send(m, false)).await, Ok(true)) {
						// the server stopped reading until the peer drains: let the peer read
						if !released {
							peer.release();
							released = true;
						}
						out.count("burst.send_blocked");
					}
				}
				quiesce().await;
				if !released {
					peer.release();
				}
				quiesce().await;
				let frames = peer.take();
				let mut invs: Vec<String> = env.take_log().iter().map(|(m, p)| format!("{}:{}", hexs(m), hexs(p))).collect();
				invs.sort();
				let inv_s = if invs.is_empty() { "-".to_string() } else { invs.join(",") };
				let mut fh: Vec<String> = frames.iter().map(|f| hexs(&canon_resp(&String::from_utf8_lossy(f)))).collect();
				fh.sort();
				let o = format!("b:{}:{} | {}", fh.len(), fh.join(":"), inv_s);
				// oracle: ids expected vs ids answered, each exactly once
				let mut orc: Result<(), String> = Ok(());
				let mut expected: Vec<String> = vec![];
				let mut arrays_expected = 0usize;
				for m in &msgs {
					// a message above max_request_body_size is refused as a whole: one -32007 reply with id null
					if m.len() as u64 > c.env.cfg.max_req as u64 {
						expected.push("null".into());
						continue;
					}
					match plain(m) {
						Plain::Obj { id: PlainId::InDomain(i), .. } => expected.push(i),
						Plain::Array(es) => {
							let refused = match c.env.cfg.batch {
								BatchRequestConfig::Disabled => true,
								BatchRequestConfig::Limit(n) => es.len() > n as usize,
								BatchRequestConfig::Unlimited => false,
							};
							if refused {
								expected.push("null".into());
								continue;
							}
							let mut any = false;
							for e in es {
								if let Plain::Obj { id: PlainId::InDomain(i), .. } = plain(e.as_bytes()) {
									expected.push(i);
									any = true;
								}
							}
							if any {
								arrays_expected += 1;
							}
						}
						_ => {}
					}
				}
				let mut got: Vec<String> = vec![];
				let mut arrays_got = 0usize;
				for f in &frames {
					if f.first() == Some(&b'[') {
						arrays_got += 1;
						match serde_json::from_slice::<Vec<&RawValue>>(f) {
							Ok(v) => {
								for e in v {
									match check_response(e.get().as_bytes()) {
										Ok((id, _)) => got.push(id),
										Err(e) => orc = Err(e),
									}
								}
							}
							Err(_) => orc = Err(format!("array frame is not JSON: {}", String::from_utf8_lossy(f))),
						}
					} else {
						match check_response(f) {
							Ok((id, _)) => got.push(id),
							Err(e) => orc = Err(e),
						}
					}
				}
				expected.sort();
				got.sort();
				if orc.is_ok() && (expected != got || arrays_expected != arrays_got) {
					orc = Err(format!("pipelined burst (send queue {mb}): expected exactly one response for ids {expected:?} ({arrays_expected} arrays), got {got:?} ({arrays_got} arrays)"));
				}
				if peer.is_closed() && orc.is_ok() {
					orc = Err("connection closed during a pipelined burst".into());
				}
				out.count("burst");
				out.line(line.clone(), o, orc, true);
			}
			"http" => {
				let c = case.as_mut().unwrap();
				let method = w[1];
				let mut headers: Vec<(String, Vec<u8>)> = vec![];
				if w[2] != "none" {
					for ct in w[2].split(',') {
						headers.push(("content-type".into(), unhex(ct)));
					}
				}
				if w[3] != "none" {
					// several Content-Length headers travel comma-separated
					for cl in w[3].split(',') {
						headers.push(("content-length".into(), cl.as_bytes().to_vec()));
					}
				}
				let chunks: Vec<Vec<u8>> = w[4..].iter().map(|h| unhex(h)).collect();
				let (st, body) = c.env.http(method, &headers, chunks.clone()).await;
				quiesce().await;
				let inv = c.env.take_log();
				let cb = canon_resp(&String::from_utf8_lossy(&body));
				let o = format!("h:{st}:{} | {}", hexs(&cb), inv_repr(&inv));
				// the model reads frames as bytes; only a body that is not UTF-8 as a whole is outside it
				let o = if std::str::from_utf8(&chunks.concat()).is_ok() { o } else { format!("#skip {o}") };
				// C19 oracle: gate + chunk independence (compare with the one-chunk, no-content-length run)
				let mut orc = Ok(());
				let ct_ok = headers.iter().find(|(k, _)| k == "content-type").map(|(_, v)| {
					let v = String::from_utf8_lossy(v).to_ascii_lowercase();
					["application/json", "application/json; charset=utf-8", "application/json;charset=utf-8", "application/json-rpc", "application/json-rpc;charset=utf-8", "application/json-rpc; charset=utf-8"].contains(&v.as_str())
				}).unwrap_or(false);
				if method != "POST" {
					if st != 405 || !inv.is_empty() {
						orc = Err(format!("non-POST method answered {st}, handlers run: {}", inv.len()));
					}
				} else if !ct_ok {
					if st != 415 || !inv.is_empty() {
						orc = Err(format!("POST with a non-JSON content type answered {st}, handlers run: {}", inv.len()));
					}
				} else {
					let all: Vec<u8> = chunks.concat();
					// effective Content-Length: exactly one value that parses as u32, else the header is ignored
					let eff_cl: Option<usize> = if w[3] == "none" || w[3].contains(',') { None } else { w[3].parse::<u32>().ok().map(|v| v as usize) };
					let declared_ok = eff_cl.is_none() || eff_cl == Some(all.len());
					// the statement speaks about JSON-RPC bodies: garbage that is also oversize may be rejected as
					// malformed or as too large depending on where the chunk boundary falls
					let lead = all.iter().take_while(|b| b.is_ascii_whitespace()).count();
					let sniffable = lead <= 127 && matches!(all.get(lead), Some(b'{') | Some(b'['));
					if declared_ok && (all.len() <= c.env.cfg.max_req as usize || sniffable) {
						let (st2, body2) = c.env.http("POST", &[("content-type".into(), b"application/json".to_vec())], vec![all]).await;
						quiesce().await;
						let _ = c.env.take_log();
						if st2 != st || body2 != body {
							orc = Err(format!("chunked/header variant answered {st} {} but the same bytes in one chunk {st2} {}", String::from_utf8_lossy(&body), String::from_utf8_lossy(&body2)));
						}
					}
				}
				if prop == "C07" {
					// size gate on the HTTP path, however the body is chunked and whatever whitespace it starts with
					let all: Vec<u8> = chunks.concat();
					let declared: Option<usize> = if w[3] == "none" || w[3].contains(',') { None } else { w[3].parse::<u32>().ok().map(|v| v as usize) };
					let over = all.len() > c.env.cfg.max_req as usize || declared.map(|d| d > c.env.cfg.max_req as usize).unwrap_or(false);
					orc = Ok(());
					if method == "POST" && ct_ok {
						if over {
							if st < 400 || !inv.is_empty() {
								orc = Err(format!("body of {} bytes (declared {declared:?}) over max_request_body_size {} answered {st}, handlers run: {}", all.len(), c.env.cfg.max_req, inv.len()));
							}
						} else if st == 413 {
							orc = Err(format!("in-limit body of {} bytes rejected as too large (limit {})", all.len(), c.env.cfg.max_req));
						} else if let Plain::Obj { jsonrpc_ok: true, method: Some(m), id: PlainId::InDomain(_), .. } = plain(&all[all.iter().take_while(|b| b.is_ascii_whitespace()).count().min(all.len())..]) {
							if m == "echo" && all.iter().take_while(|b| b.is_ascii_whitespace()).count() <= 127 && (st != 200 || inv.len() != 1) {
								orc = Err(format!("in-limit echo call answered {st}, handlers run: {}", inv.len()));
							}
						}
					}
				}
				if std::str::from_utf8(&chunks.concat()).is_ok() && chunks.iter().any(|c| std::str::from_utf8(c).is_err()) {
					out.count("http.frame_boundary_inside_char");
				}
				out.count(&format!("http.{st}"));
				out.line(line.clone(), o, orc, st == 200);
			}
			_ => panic!("verb {line}"),
		}
	}
}

/// C07: a message above max_request_body_size is never dispatched and is rejected; up to the limit processed normally.
fn oracle_c07(cfg: &EnvCfg, data: &[u8], frames: &[Vec<u8>], inv: &[(String, String)], http: Option<(u16, &[u8], usize)>) -> Result<(), String> {
	let over = data.len() > cfg.max_req as usize;
	if over {
		if !inv.is_empty() {
			return Err(format!("handler ran for a message of {} bytes > max_request_body_size {}", data.len(), cfg.max_req));
		}
		if frames.len() != 1 {
			return Err(format!("oversize WS message got {} frames", frames.len()));
		}
		let (id, code) = check_response(&frames[0])?;
		if id != "null" || code != Some(-32007) {
			return Err(format!("oversize WS message answered id={id} code={code:?}"));
		}
		if let Some((st, hb, hinv)) = http {
			let t = String::from_utf8_lossy(hb);
			if st < 400 || hinv != 0 {
				return Err(format!("oversize HTTP body not rejected: status {st} {t}, handlers run {hinv}"));
			}
		}
	} else {
		if let Some((st, hb, _)) = http {
			if st == 413 || String::from_utf8_lossy(hb).contains("-32007") {
				return Err(format!("in-limit HTTP body ({} <= {}) rejected as too large", data.len(), cfg.max_req));
			}
		}
		// processed normally: a valid echo call must be answered by its result
		if let Plain::Obj { jsonrpc_ok: true, method: Some(m), id: PlainId::InDomain(idc), .. } = plain(data) {
			if m == "echo" {
				if frames.len() != 1 {
					return Err("in-limit echo call not answered".into());
				}
				let (id, code) = check_response(&frames[0])?;
				if id != idc || (code.is_some() && code != Some(-32008)) {
					return Err(format!("in-limit echo call answered id={id} code={code:?}"));
				}
				if inv.len() != 1 {
					return Err("in-limit echo call not dispatched exactly once".into());
				}
			}
		}
	}
	Ok(())
}

// ------------------------------------------------------------------------------------------------ generators

fn gen_params(rng: &mut Rng) -> Option<String> {
	match rng.below(10) {
		0 => None,
		1 => Some("null".into()),
		2 => Some(format!("[{},{}]", rng.below(100), rng.below(100))),
		3 => Some(format!("[{}]", rng.below(40))),
		4 => Some((*rng.pick(&["[18446744073709551615,1]", "[18446744073709551615,0]", "[1.0,2]", "[1e0,1]", "[-1,2]", "[-0,1]", "[18446744073709551616,0]", "[\"1\",2]", "[1]", "[1,2,3]", "[]", "[ ]", "{}", "{\"a\":1,\"b\":2}", "[01,2]", "[1,null]", "[null,null]", "[[1,2]]", "[1 ,\t2\n]", "[100000]", "[100001]", "[0]", "[4294967296]"])).to_string()),
		5 => Some(format!("{{\"a\":{}}}", gen_json(rng, 2))),
		6 => Some(format!("[{}]", gen_json(rng, 2))),
		_ => {
			let d = rng.range(0, 3) as u32;
			Some(gen_json(rng, d))
		}
	}
}

fn gen_method(rng: &mut Rng) -> String {
	match rng.below(12) {
		0..=7 => (*rng.pick(&["echo", "echo", "a_echo", "blk_echo", "sum", "a_sum", "fail", "str", "esc", "rpc.e"])).to_string(),
		8 => "blk_boom".into(),
		9 => (*rng.pick(&["nope", "", "Echo", "echo ", "rpc.echo"])).to_string(),
		_ => gen_str_content(rng),
	}
}

/// a request-like object; `valid` biases towards well-formed requests
fn gen_request(rng: &mut Rng, allow_sub: bool) -> String {
	let mut members: Vec<(String, String)> = vec![];
	let method = if allow_sub && rng.chance(1, 12) { (*rng.pick(&["sub", "unsub"])).to_string() } else { gen_method(rng) };
	members.push(("jsonrpc".into(), if rng.chance(19, 20) { "\"2.0\"".into() } else { (*rng.pick(&["\"1.0\"", "2.0", "null", "\"2\\u002e0\""])).to_string() }));
	match rng.below(10) {
		0 => {}
		1 => members.push(("id".into(), gen_non_id(rng))),
		_ => members.push(("id".into(), gen_id(rng).spell(rng))),
	}
	if rng.chance(19, 20) {
		let m = if rng.chance(1, 10) { spell_string(rng, &method) } else { serde_json::to_string(&method).unwrap() };
		members.push(("method".into(), m));
	} else if rng.chance(1, 2) {
		members.push(("method".into(), (*rng.pick(&["1", "null", "[\"echo\"]"])).to_string()));
	}
	if let Some(p) = gen_params(rng) {
		members.push(("params".into(), p));
	}
	if rng.chance(1, 10) {
		members.push(("extra".into(), gen_json(rng, 1)));
	}
	if rng.chance(1, 25) {
		let i = rng.below(members.len() as u64) as usize;
		let d = members[i].clone();
		members.push(d);
	}
	// order permutation
	for i in (1..members.len()).rev() {
		let j = rng.below(i as u64 + 1) as usize;
		members.swap(i, j);
	}
	// member names are JSON strings too: now and then spelled with escapes (`"\u0069d"` is the member `id`)
	let body: Vec<String> = members
		.iter()
		.map(|(k, v)| {
			let key = if rng.chance(1, 12) { spell_string(rng, k) } else { format!("\"{k}\"") };
			format!("{}{}{}:{}{}", ws(rng), key, ws(rng), ws(rng), v)
		})
		.collect();
	format!("{{{}{}}}{}", body.join(","), ws(rng), ws(rng))
}

fn lead_ws(rng: &mut Rng) -> String {
	match rng.below(12) {
		0..=7 => String::new(),
		8 => " ".into(),
		9 => {
			let n = rng.range(1, 130);
			(0..n).map(|_| *rng.pick(&[' ', '\t', '\n', '\r', '\u{c}'])).collect()
		}
		10 => " ".repeat(*rng.pick(&[126usize, 127, 128, 129])),
		_ => "\u{c}".into(),
	}
}

const TOKENS: [&str; 15] = ["{", "}", "[", "]", ",", ":", "\"jsonrpc\"", "\"2.0\"", "\"method\"", "\"echo\"", "\"id\"", "1", "null", "\"params\"", "\"x\""];

fn gen_message(rng: &mut Rng, allow_sub: bool) -> Vec<u8> {
	match rng.below(20) {
		0..=9 => format!("{}{}", lead_ws(rng), gen_request(rng, allow_sub)).into_bytes(),
		10..=12 => {
			let r = gen_request(rng, allow_sub);
			let mut t = mutate(rng, &r);
			if rng.chance(1, 3) {
				t = mutate(rng, &t);
			}
			format!("{}{}", lead_ws(rng), t).into_bytes()
		}
		13 | 14 => {
			let k = rng.range(1, 7);
			(0..k).map(|_| *rng.pick(&TOKENS)).collect::<Vec<_>>().join(if rng.chance(1, 2) { "" } else { " " }).into_bytes()
		}
		15 if rng.chance(1, 3) => {
			// a byte order mark (or another non-ASCII space) in front of a request is not whitespace to the server
			let pre = *rng.pick(&["\u{feff}", " \u{feff}", "\u{a0}", "\u{2028}", "\u{feff} "]);
			format!("{pre}{}", gen_request(rng, allow_sub)).into_bytes()
		}
		15 => format!("{}{}", lead_ws(rng), gen_json(rng, 3)).into_bytes(),
		16 => {
			// arbitrary bytes, possibly invalid UTF-8
			let n = rng.range(0, 24);
			(0..n).map(|_| rng.below(256) as u8).collect()
		}
		17 => {
			// never a subscription call: a byte-damaged message is outside the text model, and it must not be
			// able to move connection state (the subscription-id counter) that the model then does not see
			let _ = allow_sub;
			let mut b = gen_request(rng, false).into_bytes();
			let i = rng.below(b.len() as u64) as usize;
			b[i] = *rng.pick(&[0xff, 0xc0, 0x80, 0xed]);
			b
		}
		_ => {
			// deep nesting in params (echo keeps it raw)
			let d = *rng.pick(&[10usize, 100, 200]);
			format!("{{\"jsonrpc\":\"2.0\",\"id\":1,\"method\":\"echo\",\"params\":{}1{}}}", "[".repeat(d), "]".repeat(d)).into_bytes()
		}
	}
}

fn gen_entry(rng: &mut Rng) -> String {
	match rng.below(12) {
		0..=5 => gen_request(rng, true),
		6 => format!("{{\"jsonrpc\":\"2.0\",\"method\":\"{}\"}}", gen_method(rng).replace(['"', '\\'], "")),
		7 => format!("{{\"id\":{}}}", gen_id(rng).spell(rng)),
		8 => (*rng.pick(&["1", "null", "\"x\"", "[]", "[1]", "{}", "true", "{\"foo\":\"bar\"}", "{\"jsonrpc\":\"2.0\",\"id\":5,\"result\":1}", "{\"jsonrpc\":\"2.0\",\"id\":\"r\",\"error\":{\"code\":-32000,\"message\":\"x\"}}", "{\"jsonrpc\":\"2.0\",\"id\":null,\"result\":null}", "{\"id\":6,\"result\":[]}", "{\"jsonrpc\":\"2.0\",\"method\":\"echo\",\"result\":1,\"id\":7}", "{\"jsonrpc\":\"2.0\",\"method\":1}", "{\"jsonrpc\":\"2.0\",\"id\":7,\"method\":1}", "{\"method\":\"echo\"}", "{\"jsonrpc\":\"1.0\",\"id\":\"x\",\"method\":\"echo\"}"])).to_string(),
		9 => format!("{{\"jsonrpc\":\"2.0\",\"id\":1,\"method\":\"echo\",\"params\":[{}]}}", rng.below(10)),
		10 => format!("{{\"jsonrpc\":\"2.0\",\"id\":{},\"method\":\"{}\"}}", rng.below(3), *rng.pick(&["sub", "unsub", "echo"])),
		_ => {
			let r = gen_request(rng, false);
			mutate(rng, &r)
		}
	}
}

fn gen_entry_safe(rng: &mut Rng) -> String {
	// entries whose replies have a size the model knows exactly (no serde error texts)
	match rng.below(8) {
		0 | 1 => format!("{{\"jsonrpc\":\"2.0\",\"id\":{},\"method\":\"echo\",\"params\":{}}}", gen_id(rng).spell(rng), gen_json(rng, 2)),
		2 => format!("{{\"jsonrpc\":\"2.0\",\"id\":{},\"method\":\"fail\",\"params\":[{}]}}", rng.below(50), rng.below(1000)),
		3 => format!("{{\"jsonrpc\":\"2.0\",\"id\":{},\"method\":\"esc\"}}", rng.below(50)),
		4 => "{\"jsonrpc\":\"2.0\",\"method\":\"echo\"}".to_string(),
		5 => format!("{{\"id\":{}}}", gen_id(rng).spell(rng)),
		6 => format!("{{\"jsonrpc\":\"2.0\",\"id\":{},\"method\":\"nope\"}}", rng.below(9)),
		_ => format!("{{\"jsonrpc\":\"2.0\",\"id\":{},\"method\":\"str\",\"params\":[{}]}}", rng.below(9), rng.below(60)),
	}
}

fn gen_batch_safe(rng: &mut Rng) -> String {
	let n = rng.range(1, 8);
	let es: Vec<String> = (0..n).map(|_| gen_entry_safe(rng)).collect();
	format!("[{}]", es.join(","))
}

fn gen_batch(rng: &mut Rng) -> String {
	let n = match rng.below(10) {
		0 => 0,
		1 | 2 => 1,
		_ => rng.range(2, 9),
	};
	let es: Vec<String> = (0..n).map(|_| gen_entry(rng)).collect();
	let mut t = format!("{}[{}{}]", lead_ws(rng), ws(rng), es.iter().map(|e| format!("{}{}", e, ws(rng))).collect::<Vec<_>>().join(","));
	if rng.chance(1, 20) {
		t = mutate(rng, &t);
	}
	t
}

fn batch_cfg(rng: &mut Rng) -> String {
	match rng.below(8) {
		0 => "d".into(),
		1 => format!("l:{}", rng.below(4)),   // includes the boundary Limit(0): every non-empty batch is too long
		2 => "l:8".into(),
		_ => "u".into(),
	}
}

fn sentinel(n: u64) -> String {
	format!("msg {}", hexs(&format!("{{\"jsonrpc\":\"2.0\",\"id\":\"sentinel\",\"method\":\"echo\",\"params\":[{n}]}}")))
}

/// pipelined burst: valid calls with distinct ids (all handler kinds, big and failing results),
/// notifications, and small batches of calls
fn gen_burst(rng: &mut Rng) -> String {
	let k = rng.range(2, 40);
	let mut next_id = 0u64;
	let mut id = |rng: &mut Rng| {
		next_id += 1;
		if rng.chance(1, 4) { format!("\"i{next_id}\"") } else { next_id.to_string() }
	};
	fn call(rng: &mut Rng, id: &str) -> String {
		match rng.below(10) {
			0 => format!("{{\"jsonrpc\":\"2.0\",\"id\":{id},\"method\":\"str\",\"params\":[{}]}}", rng.range(0, 3000)),
			1 => format!("{{\"jsonrpc\":\"2.0\",\"id\":{id},\"method\":\"fail\",\"params\":[{}]}}", rng.below(100)),
			2 => format!("{{\"jsonrpc\":\"2.0\",\"id\":{id},\"method\":\"nope\"}}"),
			3 => format!("{{\"jsonrpc\":\"2.0\",\"id\":{id},\"method\":\"blk_boom\"}}"),
			4 => format!("{{\"jsonrpc\":\"2.0\",\"id\":{id},\"method\":\"{}\",\"params\":[{},{}]}}", *rng.pick(&["sum", "a_sum"]), rng.below(100), rng.below(100)),
			_ => format!("{{\"jsonrpc\":\"2.0\",\"id\":{id},\"method\":\"{}\",\"params\":{}}}", *rng.pick(&["echo", "a_echo", "blk_echo"]), gen_json(rng, 2)),
		}
	}
	let mut msgs: Vec<String> = vec![];
	for _ in 0..k {
		match rng.below(12) {
			0 => msgs.push("{\"jsonrpc\":\"2.0\",\"method\":\"echo\",\"params\":[1]}".into()),
			1 => {
				let n = rng.range(1, 4);
				let es: Vec<String> = (0..n).map(|_| { let i = id(rng); call(rng, &i) }).collect();
				msgs.push(format!("[{}]", es.join(",")));
			}
			2 => msgs.push(format!("{{\"id\":{}}}", id(rng))),
			_ => { let i = id(rng); msgs.push(call(rng, &i)) }
		}
	}
	let mb = *rng.pick(&[1u32, 1, 2, 3, 8, 1024]);
	let dup = *rng.pick(&[256usize, 4096, 1 << 22]);
	format!("burst {mb} {dup} {}", msgs.iter().map(|m| hexs(m)).collect::<Vec<_>>().join(" "))
}

fn gen_c01(rng: &mut Rng, n: u64, lines: &mut Vec<String>) {
	let mut cn = 0;
	let mut left = n;
	// boundary messages first: empty, whitespace-only (inside and beyond the sniffing window), window edges
	lines.push("case 0 srv 100000 100000 u".into());
	let call = "{\"jsonrpc\":\"2.0\",\"id\":1,\"method\":\"echo\",\"params\":[1]}";
	for m in ["".to_string(), " ".into(), "\n\t\r ".into(), "\u{c}".into(), " ".repeat(127), " ".repeat(128), " ".repeat(129), format!("{}{call}", " ".repeat(126)), format!("{}{call}", " ".repeat(127)), format!("{}{call}", " ".repeat(128)), format!("\u{c}{call}"), format!(" \u{c}\n{call}"), format!("\u{c}[{call}]"), format!("{call} "), format!("{call}\u{c}"), format!("{call}{call}")] {
		lines.push(format!("msg {}", hexs(&m)));
	}
	lines.push(sentinel(0));
	while left > 0 {
		cn += 1;
		lines.push(format!("case {cn} srv 100000 100000 {}", batch_cfg(rng)));
		let k = rng.range(3, 12).min(left);
		for _ in 0..k {
			lines.push(format!("msg {}", hex(&gen_message(rng, true))));
		}
		if cn % 4 == 1 {
			lines.push(gen_burst(rng));
		}
		lines.push(sentinel(cn));
		left -= k;
	}
}

fn gen_c02(rng: &mut Rng, n: u64, lines: &mut Vec<String>) {
	let mut cn = 0;
	let mut left = n;
	// all permutations of small multisets of entry kinds
	let kinds = ["{\"jsonrpc\":\"2.0\",\"id\":1,\"method\":\"echo\",\"params\":[1]}", "{\"jsonrpc\":\"2.0\",\"method\":\"echo\"}", "{\"id\":2}", "7", "{\"jsonrpc\":\"2.0\",\"id\":1,\"method\":\"nope\"}"];
	for cfgs in ["u", "l:2", "d"] {
		cn += 1;
		lines.push(format!("case {cn} srv 100000 100000 {cfgs}"));
		for a in 0..kinds.len() {
			for b in 0..kinds.len() {
				for c in 0..kinds.len() {
					if rng.chance(1, 3) {
						lines.push(format!("msg {}", hexs(&format!("[{},{},{}]", kinds[a], kinds[b], kinds[c]))));
					}
				}
				lines.push(format!("msg {}", hexs(&format!("[{},{}]", kinds[a], kinds[b]))));
			}
			lines.push(format!("msg {}", hexs(&format!("[{}]", kinds[a]))));
		}
		lines.push(format!("msg {}", hexs("[]")));
		lines.push(format!("msg {}", hexs(" [ ] ")));
	}
	while left > 0 {
		cn += 1;
		let maxresp = if rng.chance(1, 6) { rng.range(60, 400) } else { 100000 };
		lines.push(format!("case {cn} srv 100000 {maxresp} {}", batch_cfg(rng)));
		let k = rng.range(3, 10).min(left);
		for _ in 0..k {
			let b = if maxresp < 100000 { gen_batch_safe(rng) } else { gen_batch(rng) };
			lines.push(format!("msg {}", hexs(&b)));
		}
		lines.push(sentinel(cn));
		left -= k;
	}
}

fn echo_call(id: &str, payload: &str) -> String {
	format!("{{\"jsonrpc\":\"2.0\",\"id\":{id},\"method\":\"echo\",\"params\":{payload}}}")
}

fn gen_c08(rng: &mut Rng, n: u64, lines: &mut Vec<String>) {
	let mut cn = 0;
	let limits: [u64; 15] = [0, 1, 2, 37, 38, 39, 63, 64, 65, 100, 127, 128, 129, 1000, 4000];
	for i in 0..n {
		cn += 1;
		let limit = if i % 3 == 0 { rng.range(30, 300) } else { *rng.pick(&limits) };
		lines.push(format!("case {cn} srv 1000000 {limit} u"));
		// results sized limit-2..limit+2: response is {"jsonrpc":"2.0","id":<id>,"result":<payload>} = 33 + |id| + |payload| bytes
		let id = match rng.below(3) { 0 => "1".to_string(), 1 => "\"ab\"".to_string(), _ => rng.range(10, 99999).to_string() };
		let fixed = 33 + id.len() as i64;
		for delta in -2i64..=2 {
			let want = limit as i64 + delta - fixed;
			if want >= 2 {
				// a string payload "aaaa" of exactly `want` bytes (with some multi-byte / escaped chars)
				let filler = match rng.below(4) {
					0 => "a".repeat((want - 2) as usize),
					1 => { let k = ((want - 2) / 2) as usize; format!("{}{}", "é".repeat(k), "a".repeat((want - 2) as usize - 2 * k)) }
					2 => { let k = ((want - 2) / 4) as usize; format!("{}{}", "😀".repeat(k), "a".repeat((want - 2) as usize - 4 * k)) }
					_ => { let k = ((want - 2) / 2) as usize; format!("{}{}", "\\n".repeat(k), "a".repeat((want - 2) as usize - 2 * k)) }
				};
				lines.push(format!("msg {}", hexs(&echo_call(&id, &format!("\"{filler}\"")))));
			}
			let wn = limit as i64 + delta - fixed - 2;
			if (0..5000).contains(&wn) {
				lines.push(format!("msg {}", hexs(&format!("{{\"jsonrpc\":\"2.0\",\"id\":{id},\"method\":\"str\",\"params\":[{wn}]}}"))));
			}
		}
		lines.push(format!("msg {}", hexs(&format!("{{\"jsonrpc\":\"2.0\",\"id\":{id},\"method\":\"fail\",\"params\":[{}]}}", "1,".repeat(rng.below(20) as usize) + "1"))));
		lines.push(format!("msg {}", hexs(&format!("{{\"jsonrpc\":\"2.0\",\"id\":{id},\"method\":\"esc\"}}"))));
		// one-entry batches (alone / between notifications) whose array is exactly limit-1 .. limit+2 bytes:
		// array = 2 + reply, reply = 33 + |id| + |payload|
		for delta in -1i64..=2 {
			let want = limit as i64 + delta - 2 - fixed;
			if want >= 2 {
				let e = echo_call(&id, &format!("\"{}\"", "c".repeat((want - 2) as usize)));
				lines.push(format!("msg {}", hexs(&format!("[{e}]"))));
				lines.push(format!("msg {}", hexs(&format!("[{{\"jsonrpc\":\"2.0\",\"method\":\"echo\"}},{e},{{\"jsonrpc\":\"2.0\",\"method\":\"esc\"}}]"))));
			}
		}
		// batches whose running total crosses the limit at every entry position
		let m = rng.range(1, 6);
		let es: Vec<String> = (0..m).map(|j| echo_call(&j.to_string(), &format!("\"{}\"", "b".repeat(rng.below(40) as usize)))).collect();
		lines.push(format!("msg {}", hexs(&format!("[{}]", es.join(",")))));
		if i % 7 == 0 {
			lines.push(format!("msg {}", hexs(&gen_batch_safe(rng))));
		}
		// a too-big result of a call whose string id is so long that even the -32008 error exceeds the limit:
		// the error still carries the call's id
		if i % 5 == 2 {
			cn += 1;
			let limit = *rng.pick(&[116u64, 120, 150, 200, 300]);
			lines.push(format!("case {cn} srv 1000000 {limit} u"));
			for idlen in [1usize, 10, 40, 100, 250] {
				let lid = format!("\"{}\"", "i".repeat(idlen));
				lines.push(format!("msg {}", hexs(&format!("{{\"jsonrpc\":\"2.0\",\"id\":{lid},\"method\":\"str\",\"params\":[{}]}}", limit + 10))));
				lines.push(format!("msg {}", hexs(&format!("[{{\"jsonrpc\":\"2.0\",\"id\":{lid},\"method\":\"str\",\"params\":[{}]}}]", limit + 10))));
			}
			lines.push(format!("msg {}", hexs(&format!("{{\"jsonrpc\":\"2.0\",\"id\":18446744073709551615,\"method\":\"str\",\"params\":[{}]}}", limit + 10))));
		}
		// batches in which ONE entry is too big on its own while the array with its -32008 replacement fits
		// (positions first / middle / last), and batches whose entries each fit but not together
		if i % 4 == 1 {
			cn += 1;
			let limit = *rng.pick(&[250u64, 300, 400, 1000]);
			lines.push(format!("case {cn} srv 1000000 {limit} u"));
			let small = |j: u64| echo_call(&format!("{}", 100 + j), "\"s\"");
			let big = format!("{{\"jsonrpc\":\"2.0\",\"id\":9,\"method\":\"str\",\"params\":[{}]}}", limit);
			for shape in [vec![small(0), big.clone()], vec![big.clone(), small(0)], vec![small(0), big.clone(), small(1)], vec![big.clone()], vec![big.clone(), big.clone()]] {
				lines.push(format!("msg {}", hexs(&format!("[{}]", shape.join(",")))));
			}
			let half = format!("{{\"jsonrpc\":\"2.0\",\"id\":8,\"method\":\"str\",\"params\":[{}]}}", limit / 2);
			lines.push(format!("msg {}", hexs(&format!("[{half},{half}]"))));
			lines.push(format!("msg {}", hexs(&format!("[{},{half},{half}]", small(2)))));
		}
	}
}

fn gen_c07(rng: &mut Rng, n: u64, lines: &mut Vec<String>) {
	let mut cn = 0;
	let grid: [(u64, u64); 6] = [(64, 4096), (4096, 64), (100, 100), (80, 1000000), (20000, 1), (300, 300)];
	for i in 0..n {
		cn += 1;
		let (mr, mp) = if i % 2 == 0 { *rng.pick(&grid) } else { (rng.range(60, 600), rng.range(1, 2000)) };
		lines.push(format!("case {cn} srv {mr} {mp} u"));
		// {"jsonrpc":"2.0","id":1,"method":"echo","params":"<pad>"} = 52 + pad
		for size in [mr as i64 - 1, mr as i64, mr as i64 + 1, mr as i64 * 10, mr as i64 + 2, mr as i64 - 2] {
			let pad = size - 52;
			if pad >= 0 {
				lines.push(format!("msg {}", hexs(&format!("{{\"jsonrpc\":\"2.0\",\"id\":1,\"method\":\"echo\",\"params\":\"{}\"}}", "p".repeat(pad as usize)))));
			}
		}
		// HTTP: the same sizes as 2-3 chunks, with leading whitespace (counted!) in its own chunk or not,
		// with / without / with a lying Content-Length
		let ct = hexs("application/json");
		for total in [mr as i64 - 1, mr as i64, mr as i64 + 1, mr as i64 + 40] {
			let wsn = rng.range(0, 60) as i64;
			let pad = total - 52 - wsn;
			if pad < 0 {
				continue;
			}
			let wsb: String = (0..wsn).map(|_| *rng.pick(&[' ', '\n', '\t', '\r'])).collect();
			let req = format!("{{\"jsonrpc\":\"2.0\",\"id\":1,\"method\":\"echo\",\"params\":\"{}\"}}", "q".repeat(pad as usize));
			let cut = rng.below(req.len() as u64 + 1) as usize;
			let cl = match rng.below(3) { 0 => total.to_string(), _ => "none".to_string() };
			lines.push(format!("http POST {ct} {cl} {} {} {}", hexs(&wsb), hex(&req.as_bytes()[..cut]), hex(&req.as_bytes()[cut..])));
			lines.push(format!("http POST {ct} none {}", hex(format!("{wsb}{req}").as_bytes())));
			let k = rng.below(wsb.len() as u64 + 1) as usize;
			lines.push(format!("http POST {ct} none {} {}", hexs(&wsb[..k]), hex(format!("{}{req}", &wsb[k..]).as_bytes())));
		}
		lines.push(format!("http POST {ct} {} {}", mr + 1, hexs("{\"jsonrpc\":\"2.0\",\"id\":1,\"method\":\"echo\"}")));
		// an oversize body whose within-limit PREFIX is a complete call (call, then whitespace padding beyond
		// the limit): the frames up to the limit must not be processed on their own
		{
			let call = "{\"jsonrpc\":\"2.0\",\"id\":1,\"method\":\"echo\",\"params\":[7]}";
			let pad = (mr as usize + 45).saturating_sub(call.len());
			let body = format!("{call}{}", " ".repeat(pad));
			if call.len() <= mr as usize {
				let cuts = [call.len(), (mr as usize).min(body.len()), call.len() + 1];
				for c in cuts {
					let c = c.min(body.len());
					lines.push(format!("http POST {ct} none {} {}", hexs(&body[..c]), hexs(&body[c..])));
				}
				lines.push(format!("http POST {ct} none {} {} {}", hexs(call), hexs(&" ".repeat(pad / 2)), hexs(&" ".repeat(pad - pad / 2))));
				// the same message over WebSocket (one oversize message)
				lines.push(format!("msg {}", hexs(&body)));
			}
		}
		// a Content-Length that claims less than the body really holds (possible wherever the body is
		// application-supplied: TowerService, http::call_with_service*): the real size decides
		for total in [mr as i64 + 1, mr as i64 + 40, mr as i64 * 3] {
			let pad = total - 52;
			if pad < 0 {
				continue;
			}
			let req = format!("{{\"jsonrpc\":\"2.0\",\"id\":1,\"method\":\"echo\",\"params\":\"{}\"}}", "r".repeat(pad as usize));
			let cl = *rng.pick(&[0i64, 1, 52, mr as i64 - 1, mr as i64]);
			let cut = rng.below(req.len() as u64 + 1) as usize;
			if rng.chance(1, 2) {
				lines.push(format!("http POST {ct} {cl} {}", hexs(&req)));
			} else {
				lines.push(format!("http POST {ct} {cl} {} {}", hex(&req.as_bytes()[..cut]), hex(&req.as_bytes()[cut..])));
			}
		}
		lines.push(sentinel(1));
	}
}

fn gen_c19(rng: &mut Rng, n: u64, lines: &mut Vec<String>) {
	let cts = ["application/json", "application/json; charset=utf-8", "application/json;charset=utf-8", "application/json-rpc", "application/json-rpc;charset=utf-8", "application/json-rpc; charset=utf-8"];
	let near = ["application/jsonx", "application/json ", " application/json", "application/json; charset=utf-16", "text/plain", "application/json;", "json", "application/json-rpcx", "application/json;  charset=utf-8", "", "application/jsonp; charset=utf-8", "application/json-patch+json;charset=utf-8", "application/json-rpcx;charset=utf-8", "application/json; boundary=x; charset=utf-8", "text/plain; charset=utf-8", "application/jsonx;charset=utf-8", "application/json-rpc; charset=utf-8 ", "application/json-rpc ;charset=utf-8", "charset=utf-8", "application/json;charset=utf-8;", "application/json,application/json", "APPLICATION/JSONS"];
	let methods = ["GET", "PUT", "DELETE", "HEAD", "OPTIONS", "PATCH", "TRACE", "CONNECT", "post", "Post"];
	let mut cn = 0;
	// every byte position of a body with 2-, 3- and 4-byte characters (frame boundaries inside characters),
	// in two and in three frames, with and without Content-Length
	lines.push("case 0 srv 100000 100000 u".into());
	{
		let ct = hexs("application/json");
		// a body that starts with a byte order mark, cut at every position of its first bytes
		let bom_body = "\u{feff}{\"jsonrpc\":\"2.0\",\"id\":1,\"method\":\"echo\",\"params\":[1]}".as_bytes().to_vec();
		for p in 0..=6usize {
			lines.push(format!("http POST {ct} none {} {}", hex(&bom_body[..p]), hex(&bom_body[p..])));
			lines.push(format!("http POST {ct} {} {} {}", bom_body.len(), hex(&bom_body[..p]), hex(&bom_body[p..])));
		}
		let body = "\u{c} {\"jsonrpc\":\"2.0\",\"id\":\"ü\",\"method\":\"echo\",\"params\":[\"grüße €5 😀\",\"𝄞\"]}".as_bytes().to_vec();
		for p in 0..=body.len() {
			let cl = if p % 3 == 0 { body.len().to_string() } else { "none".into() };
			lines.push(format!("http POST {ct} {cl} {} {}", hex(&body[..p]), hex(&body[p..])));
			if p + 2 <= body.len() {
				lines.push(format!("http POST {ct} none {} {} {}", hex(&body[..p]), hex(&body[p..p + 1]), hex(&body[p + 1..])));
			}
		}
	}
	lines.push(sentinel(0));
	// the limit at, just below and just above the size of the body: the same bytes announced by Content-Length
	// or not, in one frame or two, get the same answer (and exactly-at-the-limit is within the limit)
	{
		let ct = hexs("application/json");
		for body in ["{\"jsonrpc\":\"2.0\",\"id\":7,\"method\":\"echo\",\"params\":[1]}", " {\"jsonrpc\":\"2.0\",\"id\":\"\u{fc}\",\"method\":\"echo\",\"params\":[\"\u{20ac}\"]}\n", "[{\"jsonrpc\":\"2.0\",\"id\":1,\"method\":\"echo\"},{\"jsonrpc\":\"2.0\",\"id\":2,\"method\":\"sum\",\"params\":[1,2]}]"] {
			let b = body.as_bytes();
			for limit in [b.len() - 1, b.len(), b.len() + 1] {
				cn += 1;
				lines.push(format!("case {} srv {limit} 100000 u", 900000 + cn));
				let half = b.len() / 2;
				lines.push(format!("http POST {ct} none {}", hex(b)));
				lines.push(format!("http POST {ct} {} {}", b.len(), hex(b)));
				lines.push(format!("http POST {ct} none {} {}", hex(&b[..half]), hex(&b[half..])));
				lines.push(format!("http POST {ct} {} {} {}", b.len(), hex(&b[..half]), hex(&b[half..])));
				lines.push(format!("http POST {ct} {} {} {}", b.len(), hex(&b[..1]), hex(&b[1..])));
				lines.push(sentinel(0));
			}
		}
		cn = 0;
	}
	for i in 0..n {
		cn += 1;
		lines.push(format!("case {cn} srv {} 100000 {}", if rng.chance(1, 5) { rng.range(40, 200) } else { 100000 }, batch_cfg(rng)));
		let body: Vec<u8> = match rng.below(6) {
			0 => gen_batch(rng).into_bytes(),
			1 => gen_message(rng, false),
			_ => format!("{}{}", lead_ws(rng), gen_request(rng, false)).into_bytes(),
		};
		let body: Vec<u8> = if std::str::from_utf8(&body).is_ok() { body } else { b"{\"jsonrpc\":\"2.0\",\"id\":1,\"method\":\"echo\"}".to_vec() };
		let ct = |rng: &mut Rng| -> String {
			let c = *rng.pick(&cts);
			hexs(&c.chars().map(|ch| if rng.chance(1, 3) { ch.to_ascii_uppercase() } else { ch }).collect::<String>())
		};
		// gate
		if i % 4 == 0 {
			lines.push(format!("http {} {} none {}", *rng.pick(&methods), ct(rng), hex(&body)));
			lines.push(format!("http POST {} none {}", hexs(*rng.pick(&near)), hex(&body)));
			lines.push(format!("http POST {} none {}", hexs(*rng.pick(&near)), hex(&body)));
			lines.push(format!("http POST none none {}", hex(&body)));
			lines.push(format!("http {} {} none {}", *rng.pick(&methods), hexs(*rng.pick(&near)), hex(&body)));
			lines.push(format!("http {} none none {}", *rng.pick(&methods), hex(&body)));
			lines.push(format!("http POST {},{} none {}", hexs("text/plain"), ct(rng), hex(&body)));
			lines.push(format!("http POST {},{} none {}", ct(rng), hexs("text/plain"), hex(&body)));
		}
		// all splits into 2 chunks at every position (bounded), some 3-splits, empty / whitespace chunks inserted
		let len = body.len();
		let positions: Vec<usize> = if len <= 24 { (0..=len).collect() } else { (0..12).map(|_| rng.below(len as u64 + 1) as usize).chain([0, 1, len - 1, len]).collect() };
		for p in positions {
			let cl = if rng.chance(1, 3) { len.to_string() } else { "none".into() };
			lines.push(format!("http POST {} {cl} {} {}", ct(rng), hex(&body[..p]), hex(&body[p..])));
		}
		for _ in 0..4 {
			let a = rng.below(len as u64 + 1) as usize;
			let b = a + rng.below((len - a) as u64 + 1) as usize;
			let mut chunks = vec![hex(&body[..a]), hex(&body[a..b]), hex(&body[b..])];
			if rng.chance(1, 2) {
				let pos = rng.below(4) as usize;
				chunks.insert(pos, (*rng.pick(&["-", "20", "0a", "2020", "09"])).to_string());
			}
			lines.push(format!("http POST {} none {}", ct(rng), chunks.join(" ")));
		}
		// lying content-length
		lines.push(format!("http POST {} {} {}", ct(rng), len + 1000000, hex(&body)));
		// Content-Length spellings: `+n`, leading zeros, not a number, negative, beyond u32, repeated header
		let odd = match rng.below(9) {
			0 => format!("+{len}"),
			1 => format!("00{len}"),
			2 => "abc".to_string(),
			3 => "-1".to_string(),
			4 => "4294967296".to_string(),
			5 => "4294967295".to_string(),
			6 => format!("{len},{len}"),
			7 => format!("{},{len}", len + 5000000),
			_ => format!("{len}x"),
		};
		lines.push(format!("http POST {} {odd} {}", ct(rng), hex(&body)));
		lines.push(format!("http POST {} none", ct(rng)));
	}
}

fn main() {
	let a = args();
	let v: Vec<String> = std::env::args().collect();
	let prop = v.iter().position(|x| x == "--prop").map(|i| v[i + 1].clone()).unwrap_or("C01".into());
	if std::env::var("VERIF_DEBUG").is_err() {
		std::panic::set_hook(Box::new(|_| {}));
	}
	let mut out = Out::new();
	let mut lines = vec![];
	if let Some(r) = &a.replay {
		lines = read_case_lines(r);
	} else {
		lines.extend(corpus_lines(&prop));
		let mut rng = Rng::new(a.seed);
		let thorough = a.tier == "thorough";
		match prop.as_str() {
			"C01" => gen_c01(&mut rng, a.cases.unwrap_or(if thorough { 200000 } else { 2500 }), &mut lines),
			"C02" => gen_c02(&mut rng, a.cases.unwrap_or(if thorough { 100000 } else { 1200 }), &mut lines),
			"C08" => gen_c08(&mut rng, a.cases.unwrap_or(if thorough { 20000 } else { 300 }), &mut lines),
			"C07" => gen_c07(&mut rng, a.cases.unwrap_or(if thorough { 8000 } else { 120 }), &mut lines),
			"C19" => gen_c19(&mut rng, a.cases.unwrap_or(if thorough { 15000 } else { 200 }), &mut lines),
			_ => panic!("prop"),
		}
	}
	let rt = rt();
	rt.block_on(run(lines, prop, &mut out));
	out.write(&a.out);
	if a.replay.is_some() {
		for i in 0..out.ops.len() {
			println!("op:     {}\nimpl:   {}\noracle: {}", out.ops[i], out.impl_[i], out.oracle[i]);
		}
	}
}
