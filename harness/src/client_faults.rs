//! C09 extension of the async-client family: a mock transport with **three gates** (send, close,
//! receive) and fault switches, and a `FaultSession` that runs a real `Client` on it (current-thread
//! runtime, paused tokio clock ⇒ `barrier()` returns when every task is idle).  Reuses the
//! canonical forms of `client_mock` (`Comp`, `classify_err`, `fatal_class`, `MockErr`, `barrier`).
//!
//! Op lines (family tag `ct`, mirrored by lean/JrpcVerif/Driver/ClientTasksFamily.lean):
//!   ct call | ct subscribe | ct batch <n> | ct notify | ct drop <ticket> | ct unsub <ticket>
//!   | ct deliver <text hex> | ct fault send_err <k> | ct fault recv_err <k> | ct fault peer_close
//!   | ct fault garbage <text hex> | ct gate send|close|recv|all open|shut | ct probe | ct end
//!   | ct deliverbytes <hex> | ct deepdeliver <depth>          (outside the text model: `#skip` from there on)
//! Front-end operations are numbered 0,1,2,… in script order (ticket), notifications included.
//!
//! Output of a line: `<events> | conn=<0|1> disc=<pending|E:…> tc=<0|1>` where events are the new
//! wire texts `w:<hex>`, the futures resolved since the previous line `t<k>=<comp>`, and for `end`
//! the unresolved tickets `unres=<k,k,…>` and the state of every stream `s<k>=end|open`.
use crate::client_mock::{Comp, MockErr, barrier, classify_err};
use crate::common::*;
use futures_util::FutureExt;
use jsonrpsee_core::client::{
	BatchResponse, Client, ClientBuilder, ClientT, Error, IdKind, ReceivedMessage, Subscription, SubscriptionClientT,
	TransportReceiverT, TransportSenderT,
};
use jsonrpsee_core::params::{ArrayParams, BatchRequestBuilder};
use serde_json::value::RawValue;
use std::sync::{Arc, Mutex};
use std::time::Duration;
use tokio::sync::{mpsc, watch};
use tokio::task::JoinHandle;

#[derive(Default, Debug)]
pub struct FCtl {
	pub wire: Vec<String>,
	/// the next `send` fails with this text
	pub send_fail: Option<String>,
	/// a `send` has failed
	pub send_failed: bool,
	/// `close` returned
	pub closed: bool,
	/// `close` was entered
	pub close_entered: bool,
	/// `close` returns `Err` (after having closed)
	pub close_fail: bool,
	/// the next `send_ping` fails with this text
	pub ping_fail: Option<String>,
	/// number of `send_ping` calls
	pub pings: usize,
}

async fn wait_open(g: &mut watch::Receiver<bool>) {
	while !*g.borrow_and_update() {
		if g.changed().await.is_err() {
			return;
		}
	}
}

pub struct FSender {
	ctl: Arc<Mutex<FCtl>>,
	send_gate: watch::Receiver<bool>,
	close_gate: watch::Receiver<bool>,
}

impl TransportSenderT for FSender {
	type Error = MockErr;
	async fn send(&mut self, msg: String) -> Result<(), MockErr> {
		wait_open(&mut self.send_gate).await;
		let mut c = self.ctl.lock().unwrap();
		if let Some(e) = c.send_fail.take() {
			c.send_failed = true;
			return Err(MockErr(e));
		}
		c.wire.push(msg);
		Ok(())
	}
	async fn send_ping(&mut self) -> Result<(), MockErr> {
		let mut c = self.ctl.lock().unwrap();
		c.pings += 1;
		if let Some(e) = c.ping_fail.take() {
			c.send_failed = true;
			return Err(MockErr(e));
		}
		Ok(())
	}
	async fn close(&mut self) -> Result<(), MockErr> {
		self.ctl.lock().unwrap().close_entered = true;
		wait_open(&mut self.close_gate).await;
		let mut c = self.ctl.lock().unwrap();
		c.closed = true;
		if c.close_fail { Err(MockErr("close failed".into())) } else { Ok(()) }
	}
}

pub struct FReceiver {
	rx: mpsc::UnboundedReceiver<Result<ReceivedMessage, MockErr>>,
	gate: watch::Receiver<bool>,
}

impl TransportReceiverT for FReceiver {
	type Error = MockErr;
	async fn receive(&mut self) -> Result<ReceivedMessage, MockErr> {
		// an item is handed to the client only while the gate is open
		let item = self.rx.recv().await;
		wait_open(&mut self.gate).await;
		match item {
			Some(r) => r,
			None => Err(MockErr("peer closed".into())),
		}
	}
}

type Raw = Box<RawValue>;
type Stream = Subscription<Raw>;

enum FSlot {
	Call(JoinHandle<Result<Raw, Error>>),
	Subscribe(JoinHandle<Result<Stream, Error>>),
	Batch(JoinHandle<Result<Comp, Error>>),
	Notify(JoinHandle<Result<(), Error>>),
	/// `subscribe_to_method`
	Reg(JoinHandle<Result<Stream, Error>>),
	/// the application awaits `on_disconnect()`
	Watch(JoinHandle<Error>),
	Stream(Stream),
	/// inside `Subscription::unsubscribe()` (resolves when the stream has ended)
	Unsub(JoinHandle<()>),
	Done,
}

/// Observation of one op line.
#[derive(Debug, Default, Clone)]
pub struct FObs {
	pub wires: Vec<String>,
	/// (ticket, canonical completion); a notification that was queued renders as `sent`
	pub comps: Vec<(usize, String)>,
	pub unres: Option<Vec<usize>>,
	/// `on_disconnect()` waiters still pending (reported by `end`)
	pub watching: Vec<usize>,
	/// (ticket, ended, items that were still buffered — `None` for a stream inside `unsubscribe()`)
	pub streams: Vec<(usize, bool, Option<usize>)>,
	pub conn: bool,
	pub disc: String,
	pub tclosed: bool,
	pub panics: Vec<String>,
	pub literal: Option<String>,
}

impl FObs {
	pub fn render(&self) -> String {
		if let Some(l) = &self.literal {
			return l.clone();
		}
		let mut parts: Vec<String> = self.wires.iter().map(|w| format!("w:{}", hexs(w))).collect();
		let mut cs = self.comps.clone();
		cs.sort_by_key(|c| c.0);
		parts.extend(cs.iter().map(|(k, c)| format!("t{k}={c}")));
		if let Some(u) = &self.unres {
			let l: Vec<String> = u.iter().map(|k| k.to_string()).collect();
			parts.push(format!("unres={}", if l.is_empty() { "-".to_string() } else { l.join(",") }));
		}
		if !self.watching.is_empty() {
			let l: Vec<String> = self.watching.iter().map(|k| k.to_string()).collect();
			parts.push(format!("wp={}", l.join(",")));
		}
		for (k, ended, n) in &self.streams {
			let st = if *ended { "end" } else { "open" };
			parts.push(match n {
				Some(n) => format!("s{k}={st}/{n}"),
				None => format!("s{k}={st}"),
			});
		}
		for p in &self.panics {
			parts.push(format!("PANIC:{}", hexs(p)));
		}
		let ev = if parts.is_empty() { "-".to_string() } else { parts.join(" ") };
		format!("{ev} | conn={} disc={} tc={}", self.conn as u8, self.disc, self.tclosed as u8)
	}
}

static PANICS: Mutex<Vec<String>> = Mutex::new(Vec::new());

/// Install (once) a panic hook that records every panic message, also those of tasks spawned by
/// the client (tokio catches them; the hook still runs).
pub fn install_panic_hook() {
	static ONCE: std::sync::Once = std::sync::Once::new();
	ONCE.call_once(|| {
		std::panic::set_hook(Box::new(|info| {
			let msg = if let Some(s) = info.payload().downcast_ref::<&str>() {
				s.to_string()
			} else if let Some(s) = info.payload().downcast_ref::<String>() {
				s.clone()
			} else {
				"<non-string panic>".to_string()
			};
			let loc = info.location().map(|l| format!("{}:{}", l.file(), l.line())).unwrap_or_default();
			if let Ok(mut p) = PANICS.lock() {
				p.push(format!("{msg} @ {loc}"));
			}
		}));
	});
}

pub fn take_panics() -> Vec<String> {
	PANICS.lock().map(|mut p| std::mem::take(&mut *p)).unwrap_or_default()
}

pub struct FaultSession {
	/// `None` once the application has dropped the client
	pub client: Option<Arc<Client>>,
	pub ctl: Arc<Mutex<FCtl>>,
	send_gate: watch::Sender<bool>,
	close_gate: watch::Sender<bool>,
	recv_gate: watch::Sender<bool>,
	to_client: Option<mpsc::UnboundedSender<Result<ReceivedMessage, MockErr>>>,
	slots: Vec<FSlot>,
	wire_seen: usize,
	/// something outside the text model was delivered: lines are no longer compared
	pub unmodelled: bool,
}

fn batch_comp(r: &BatchResponse<'_, Raw>) -> Comp {
	let entries = r
		.iter()
		.map(|e| match e {
			Ok(v) => Ok(v.get().to_string()),
			Err(eo) => Err((eo.code(), eo.message().to_string(), eo.data().map(|d| d.get().to_string()))),
		})
		.collect();
	Comp::Batch { succ: r.num_successful_calls(), fail: r.num_failed_calls(), view: crate::client_mock::batch_view(r), entries }
}

fn sub_id_repr(s: &jsonrpsee_types::SubscriptionId<'_>) -> String {
	match s {
		jsonrpsee_types::SubscriptionId::Num(n) => format!("n:{n}"),
		jsonrpsee_types::SubscriptionId::Str(s) => format!("s:{}", hexs(s)),
	}
}

/// client configuration beyond id kind and capacities
#[derive(Clone, Debug)]
pub struct FOpts {
	pub request_timeout: Duration,
	/// WS pings: (ping interval, inactive limit, max failures) in milliseconds
	pub ping: Option<(u64, u64, usize)>,
}

impl FaultSession {
	/// must be called inside the runtime
	pub fn new(str_ids: bool, cap: usize, fcap: usize, request_timeout: Duration) -> FaultSession {
		Self::with_opts(str_ids, cap, fcap, FOpts { request_timeout, ping: None })
	}

	pub fn with_opts(str_ids: bool, cap: usize, fcap: usize, opts: FOpts) -> FaultSession {
		let request_timeout = opts.request_timeout;
		let ctl = Arc::new(Mutex::new(FCtl::default()));
		let (send_gate, sg) = watch::channel(true);
		let (close_gate, cg) = watch::channel(true);
		let (recv_gate, rg) = watch::channel(true);
		let (to_client, rx) = mpsc::unbounded_channel();
		let sender = FSender { ctl: ctl.clone(), send_gate: sg, close_gate: cg };
		let receiver = FReceiver { rx, gate: rg };
		let mut b = ClientBuilder::default()
			.request_timeout(request_timeout)
			.max_concurrent_requests(fcap)
			.max_buffer_capacity_per_subscription(cap)
			.id_format(if str_ids { IdKind::String } else { IdKind::Number });
		if let Some((iv, inact, maxf)) = opts.ping {
			b = b.enable_ws_ping(
				jsonrpsee_core::client::async_client::PingConfig::new()
					.ping_interval(Duration::from_millis(iv))
					.inactive_limit(Duration::from_millis(inact))
					.max_failures(maxf),
			);
		}
		let client: Client = b.build_with_tokio(sender, receiver);
		FaultSession {
			client: Some(Arc::new(client)),
			ctl,
			send_gate,
			close_gate,
			recv_gate,
			to_client: Some(to_client),
			slots: vec![],
			wire_seen: 0,
			unmodelled: false,
		}
	}

	pub fn inject(&self, item: Result<ReceivedMessage, MockErr>) {
		if let Some(tx) = &self.to_client {
			let _ = tx.send(item);
		}
	}

	pub fn set_gate(&self, which: &str, open: bool) -> bool {
		let g = match which {
			"send" => &self.send_gate,
			"close" => &self.close_gate,
			"recv" => &self.recv_gate,
			_ => return false,
		};
		let _ = g.send(open);
		true
	}

	pub fn call(&mut self) {
		let Some(c) = self.client.clone() else { return };
		self.slots.push(FSlot::Call(tokio::spawn(async move { c.request::<Raw, _>("m", ArrayParams::new()).await })));
	}

	fn new_wires(&mut self) -> Vec<String> {
		let c = self.ctl.lock().unwrap();
		let v = c.wire[self.wire_seen..].to_vec();
		self.wire_seen = c.wire.len();
		v
	}

	async fn harvest(&mut self, panics: &mut Vec<String>) -> Vec<(usize, String)> {
		let mut out = vec![];
		for i in 0..self.slots.len() {
			let finished = match &self.slots[i] {
				FSlot::Call(h) => h.is_finished(),
				FSlot::Subscribe(h) => h.is_finished(),
				FSlot::Batch(h) => h.is_finished(),
				FSlot::Notify(h) => h.is_finished(),
				FSlot::Reg(h) => h.is_finished(),
				FSlot::Watch(h) => h.is_finished(),
				_ => false,
			};
			if !finished {
				continue;
			}
			let slot = std::mem::replace(&mut self.slots[i], FSlot::Done);
			let mut joinerr = |e: tokio::task::JoinError| {
				if e.is_panic() {
					panics.push(format!("front-end future {i} panicked"));
				}
			};
			match slot {
				FSlot::Call(h) => match h.await {
					Ok(Ok(v)) => out.push((i, Comp::Ok(v.get().to_string()).render())),
					Ok(Err(e)) => out.push((i, classify_err(&e).render())),
					Err(e) => joinerr(e),
				},
				FSlot::Subscribe(h) => match h.await {
					Ok(Ok(s)) => {
						let id = match s.kind() {
							jsonrpsee_core::client::SubscriptionKind::Subscription(id) => sub_id_repr(id),
							_ => "?".into(),
						};
						out.push((i, Comp::Sub(id).render()));
						self.slots[i] = FSlot::Stream(s);
					}
					Ok(Err(e)) => out.push((i, classify_err(&e).render())),
					Err(e) => joinerr(e),
				},
				FSlot::Batch(h) => match h.await {
					Ok(Ok(c)) => out.push((i, c.render())),
					Ok(Err(e)) => out.push((i, classify_err(&e).render())),
					Err(e) => joinerr(e),
				},
				FSlot::Notify(h) => match h.await {
					Ok(Ok(())) => out.push((i, "sent".to_string())),
					Ok(Err(e)) => out.push((i, classify_err(&e).render())),
					Err(e) => joinerr(e),
				},
				FSlot::Reg(h) => match h.await {
					Ok(Ok(st)) => {
						out.push((i, Comp::Reg.render()));
						self.slots[i] = FSlot::Stream(st);
					}
					Ok(Err(e)) => out.push((i, classify_err(&e).render())),
					Err(e) => joinerr(e),
				},
				FSlot::Watch(h) => match h.await {
					Ok(e) => out.push((i, classify_err(&e).render())),
					Err(e) => joinerr(e),
				},
				_ => {}
			}
		}
		out
	}

	/// start a front-end operation without waiting for quiescence (real-time tests)
	pub fn exec_nobarrier(&mut self, line: &str) {
		let Some(c) = self.client.clone() else { return };
		match line {
			"ct call" => self.call(),
			"ct subscribe" => self.slots.push(FSlot::Subscribe(tokio::spawn(async move {
				c.subscribe::<Raw, _>("sub", ArrayParams::new(), "unsub").await
			}))),
			"ct batch 2" => self.slots.push(FSlot::Batch(tokio::spawn(async move {
				let mut b = BatchRequestBuilder::new();
				b.insert("m", ArrayParams::new()).unwrap();
				b.insert("m", ArrayParams::new()).unwrap();
				let r: BatchResponse<'_, Raw> = c.batch_request(b).await?;
				Ok(batch_comp(&r))
			}))),
			_ => panic!("exec_nobarrier: unsupported line {line}"),
		}
	}

	/// the futures that have resolved since the last harvest (real-time tests)
	pub async fn harvest_now(&mut self) -> Vec<(usize, String)> {
		let mut p = vec![];
		self.harvest(&mut p).await
	}

	pub fn disc_repr(&self) -> String {
		match &self.client {
			None => "dropped".into(),
			Some(c) => match c.on_disconnect().now_or_never() {
				None => "pending".into(),
				Some(e) => classify_err(&e).render(),
			},
		}
	}

	async fn settle(&mut self, obs: &mut FObs) {
		barrier().await;
		let mut panics = take_panics();
		obs.wires.extend(self.new_wires());
		obs.comps.extend(self.harvest(&mut panics).await);
		obs.conn = self.client.as_ref().map(|c| c.is_connected()).unwrap_or(false);
		obs.disc = self.disc_repr();
		obs.tclosed = self.ctl.lock().unwrap().closed;
		obs.panics.extend(panics);
	}

	pub fn unresolved(&self) -> Vec<usize> {
		self.slots
			.iter()
			.enumerate()
			.filter(|(_, s)| matches!(s, FSlot::Call(_) | FSlot::Subscribe(_) | FSlot::Batch(_) | FSlot::Notify(_) | FSlot::Reg(_)))
			.map(|(i, _)| i)
			.collect()
	}

	/// tickets of `on_disconnect()` waiters that have not resolved
	pub fn watching(&self) -> Vec<usize> {
		self.slots.iter().enumerate().filter(|(_, s)| matches!(s, FSlot::Watch(_))).map(|(i, _)| i).collect()
	}

	/// abort every pending front-end future (their `Arc<Client>` clones go with them)
	fn abort_pending(&mut self) {
		for s in self.slots.iter_mut() {
			match s {
				FSlot::Call(h) => h.abort(),
				FSlot::Subscribe(h) => h.abort(),
				FSlot::Batch(h) => h.abort(),
				FSlot::Notify(h) => h.abort(),
				FSlot::Reg(h) => h.abort(),
				FSlot::Watch(h) => h.abort(),
				_ => continue,
			}
			*s = FSlot::Done;
		}
	}

	/// drain every stream: `(ticket, ended, buffered items that came out)`
	fn streams(&mut self) -> Vec<(usize, bool, Option<usize>)> {
		let mut out = vec![];
		for (i, s) in self.slots.iter_mut().enumerate() {
			if let FSlot::Stream(st) = s {
				let mut n = 0;
				let ended = loop {
					match st.next().now_or_never() {
						Some(Some(_)) => n += 1,
						Some(None) => break true,
						None => break false,
					}
				};
				out.push((i, ended, Some(n)));
			} else if let FSlot::Unsub(h) = s {
				out.push((i, h.is_finished(), None));
			}
		}
		out
	}

	pub async fn exec(&mut self, line: &str) -> FObs {
		let mut o = self.exec_inner(line).await;
		if self.unmodelled && o.literal.as_deref() == Some("bad-op") {
			o.literal = Some("#skip bad-op".into());
		}
		o
	}

	async fn exec_inner(&mut self, line: &str) -> FObs {
		let w: Vec<&str> = line.split(' ').filter(|s| !s.is_empty()).collect();
		let mut obs = FObs::default();
		let bad = |mut o: FObs| {
			o.literal = Some("bad-op".into());
			o
		};
		if w.len() < 2 || w[0] != "ct" {
			return bad(obs);
		}
		let txt = |s: &str| String::from_utf8(unhex(s)).ok();
		match (w[1], &w[2..]) {
			("call", []) => {
				if self.client.is_none() {
					return bad(obs);
				}
				self.call();
				self.settle(&mut obs).await;
			}
			("subscribe", []) => {
				let Some(c) = self.client.clone() else { return bad(obs) };
				self.slots.push(FSlot::Subscribe(tokio::spawn(async move {
					c.subscribe::<Raw, _>("sub", ArrayParams::new(), "unsub").await
				})));
				self.settle(&mut obs).await;
			}
			("batch", [n]) => {
				let Ok(n) = n.parse::<usize>() else { return bad(obs) };
				if n == 0 || n > 64 {
					return bad(obs);
				}
				let Some(c) = self.client.clone() else { return bad(obs) };
				self.slots.push(FSlot::Batch(tokio::spawn(async move {
					let mut b = BatchRequestBuilder::new();
					for _ in 0..n {
						b.insert("m", ArrayParams::new()).unwrap();
					}
					let r: BatchResponse<'_, Raw> = c.batch_request(b).await?;
					Ok(batch_comp(&r))
				})));
				self.settle(&mut obs).await;
			}
			("notify", []) => {
				let Some(c) = self.client.clone() else { return bad(obs) };
				self.slots.push(FSlot::Notify(tokio::spawn(async move { c.notification("m", ArrayParams::new()).await })));
				self.settle(&mut obs).await;
			}
			("regnotif", [m]) => {
				// `subscribe_to_method`
				let Some(method) = txt(m) else { return bad(obs) };
				let Some(c) = self.client.clone() else { return bad(obs) };
				self.slots.push(FSlot::Reg(tokio::spawn(async move { c.subscribe_to_method::<Raw>(&method).await })));
				self.settle(&mut obs).await;
			}
			("ondisc", []) => {
				// the application awaits `on_disconnect()` (before / during / after the failure)
				let Some(c) = self.client.clone() else { return bad(obs) };
				self.slots.push(FSlot::Watch(tokio::spawn(async move { c.on_disconnect().await })));
				self.settle(&mut obs).await;
			}
			("pong", []) => {
				self.inject(Ok(ReceivedMessage::Pong));
				self.settle(&mut obs).await;
			}
			("dropclient", []) => {
				// the application lets go of the client and of every future it was awaiting
				self.unmodelled = true;
				self.abort_pending();
				self.client = None;
				self.settle(&mut obs).await;
			}
			("advance", [ms]) => {
				// let the (paused) clock run: ping timers fire
				let Ok(ms) = ms.parse::<u64>() else { return bad(obs) };
				self.unmodelled = true;
				tokio::time::sleep(Duration::from_millis(ms)).await;
				self.settle(&mut obs).await;
			}
			("fault", ["close_err"]) => {
				self.ctl.lock().unwrap().close_fail = true;
				self.settle(&mut obs).await;
			}
			("fault", ["ping_err", k]) => {
				if k.parse::<u64>().is_err() {
					return bad(obs);
				}
				self.unmodelled = true;
				self.ctl.lock().unwrap().ping_fail = Some(format!("p{k}"));
				self.settle(&mut obs).await;
			}
			("drop", [k]) => {
				// the application drops an accepted subscription: `Drop` queues SubscriptionClosed (try_send)
				let Ok(k) = k.parse::<usize>() else { return bad(obs) };
				if !matches!(self.slots.get(k), Some(FSlot::Stream(_))) {
					return bad(obs);
				}
				self.slots[k] = FSlot::Done;
				self.settle(&mut obs).await;
			}
			("unsub", [k]) => {
				let Ok(k) = k.parse::<usize>() else { return bad(obs) };
				if !matches!(self.slots.get(k), Some(FSlot::Stream(_))) {
					return bad(obs);
				}
				if let FSlot::Stream(st) = std::mem::replace(&mut self.slots[k], FSlot::Done) {
					self.slots[k] = FSlot::Unsub(tokio::spawn(async move {
						let _ = st.unsubscribe().await;
					}));
				}
				self.settle(&mut obs).await;
			}
			("deliver", [h]) | ("fault", ["garbage", h]) => {
				let Some(t) = txt(h) else { return bad(obs) };
				self.inject(Ok(ReceivedMessage::Text(t)));
				self.settle(&mut obs).await;
			}
			("deliverbytes", [h]) | ("fault", ["garbageb", h]) => {
				// a binary frame: the same handler as text; outside the model only if it is not UTF-8
				if String::from_utf8(unhex(h)).is_err() {
					self.unmodelled = true;
				}
				self.inject(Ok(ReceivedMessage::Bytes(unhex(h))));
				self.settle(&mut obs).await;
			}
			("deepdeliver", [d]) => {
				let Ok(d) = d.parse::<usize>() else { return bad(obs) };
				self.unmodelled = true;
				let t = format!("{}{}", "[".repeat(d), "]".repeat(d));
				self.inject(Ok(ReceivedMessage::Text(t)));
				self.settle(&mut obs).await;
			}
			("fault", ["send_err", k]) => {
				if k.parse::<u64>().is_err() {
					return bad(obs);
				}
				self.ctl.lock().unwrap().send_fail = Some(format!("s{k}"));
				self.settle(&mut obs).await;
			}
			("fault", ["recv_err", k]) => {
				if k.parse::<u64>().is_err() {
					return bad(obs);
				}
				self.inject(Err(MockErr(format!("r{k}"))));
				self.settle(&mut obs).await;
			}
			("fault", ["peer_close"]) => {
				self.to_client = None;
				self.settle(&mut obs).await;
			}
			("gate", [which, state]) => {
				let open = match *state {
					"open" => true,
					"shut" => false,
					_ => return bad(obs),
				};
				if *which == "all" {
					// all three at once (send, receive, close in this order): the tasks are released in the same round
					for g in ["send", "recv", "close"] {
						self.set_gate(g, open);
					}
				} else if !self.set_gate(which, open) {
					return bad(obs);
				}
				self.settle(&mut obs).await;
			}
			("probe", []) => {
				self.settle(&mut obs).await;
			}
			("end", []) => {
				for g in ["send", "close", "recv"] {
					self.set_gate(g, true);
					self.settle(&mut obs).await;
				}
				obs.unres = Some(self.unresolved());
				obs.watching = self.watching();
				obs.streams = self.streams();
			}
			_ => return bad(obs),
		}
		if self.unmodelled {
			obs.literal = Some(format!("#skip {}", obs.render()));
		}
		obs
	}
}

/// `case <n> ctasks <num|str> <cap> [<opts>]` with opts = comma-separated `t=<secs>` (request timeout,
/// default 3600), `ping=<interval ms>/<inactive ms>/<max failures>`, `fcap=<n>` (front channel)
pub fn parse_ct_header_opts(line: &str) -> Option<(bool, usize, usize, FOpts)> {
	let w: Vec<&str> = line.split(' ').filter(|s| !s.is_empty()).collect();
	if (w.len() == 5 || w.len() == 6) && w[0] == "case" && w[2] == "ctasks" && (w[3] == "num" || w[3] == "str") {
		let cap: usize = w[4].parse().ok()?;
		if cap == 0 {
			return None;
		}
		let mut opts = FOpts { request_timeout: Duration::from_secs(3600), ping: None };
		let mut fcap = FCAP;
		if let Some(o) = w.get(5) {
			for kv in o.split(',') {
				let (k, v) = kv.split_once('=')?;
				match k {
					"t" => opts.request_timeout = Duration::from_secs(v.parse().ok()?),
					"fcap" => fcap = v.parse().ok().filter(|f| *f > 0)?,
					"ping" => {
						let p: Vec<&str> = v.split('/').collect();
						if p.len() != 3 {
							return None;
						}
						opts.ping = Some((p[0].parse().ok()?, p[1].parse().ok()?, p[2].parse().ok().filter(|m| *m > 0)?));
					}
					_ => return None,
				}
			}
		}
		Some((w[3] == "str", cap, fcap, opts))
	} else {
		None
	}
}

pub fn parse_ct_header(line: &str) -> Option<(bool, usize)> {
	parse_ct_header_opts(line).map(|(s, c, _, _)| (s, c))
}

/// capacity of the front channel in correspondence cases: never full, so no caller blocks on it
pub const FCAP: usize = 64;

/// Run one case on a fresh current-thread runtime with a paused clock.  Returns the panics that
/// happened while the client was torn down (they belong to the case as well).
pub fn run_ct_case(lines: &[String], mut on_line: impl FnMut(&str, &FObs)) -> Vec<String> {
	install_panic_hook();
	let Some((str_ids, cap)) = parse_ct_header(&lines[0]) else {
		for l in lines {
			on_line(l, &FObs { literal: Some("bad-op".into()), ..Default::default() });
		}
		return vec![];
	};
	let rt = tokio::runtime::Builder::new_current_thread().enable_time().start_paused(true).build().unwrap();
	rt.block_on(async {
		let mut s = FaultSession::new(str_ids, cap, FCAP, Duration::from_secs(3600));
		on_line(&lines[0], &FObs { literal: Some("case".into()), ..Default::default() });
		for l in &lines[1..] {
			let obs = s.exec(l).await;
			on_line(l, &obs);
		}
		drop(s);
		barrier().await;
	});
	take_panics()
}
