//! Shared machinery of the async-client family (C03 C05 C12 C18, later C09): a mock transport
//! (channels + gate + fault switches) and a `Session` that runs a **real** `Client` built with
//! `ClientBuilder::build_with_tokio` on a current-thread runtime with a paused tokio clock, so that
//! `sleep(1ms)` returns only when every task of the client is idle (deterministic quiescence
//! barrier).  One op line in, one structured observation (`Obs`) out.
//!
//! Op lines (family tag `cl`, mirrored by lean/JrpcVerif/Driver/ClientFamily.lean):
//!   cl call [<method hex> [<params hex>]] | cl subscribe | cl batch <n> | cl regnotif <method hex>
//!   | cl notify | cl abandon <op> | cl deliver <text hex> [for=<op>] [bin] | cl next <op> | cl drop <op>
//!   | cl unsub <op> | cl gate open|shut | cl sizes | cl subscribe <u64|str|bool|pt|optu64>  (typed stream)
//! `bin`: the message arrives as a binary frame (`ReceivedMessage::Bytes`); only then may the hex be other than UTF-8.
//! Front-end operations are numbered 0,1,2,… in script order (`op` = ticket).
use crate::common::*;
use crate::typed_batch_on;
use futures_util::FutureExt;
use jsonrpsee_core::client::{
	BatchResponse, Client, ClientBuilder, ClientT, Error, IdKind, ReceivedMessage, Subscription, SubscriptionClientT,
	SubscriptionCloseReason, TransportReceiverT, TransportSenderT,
};
use jsonrpsee_core::params::{ArrayParams, BatchRequestBuilder};
use jsonrpsee_core::traits::ToRpcParams;
use jsonrpsee_types::{ErrorObject, InvalidRequestId, SubscriptionId};
use serde_json::value::RawValue;
use std::sync::{Arc, Mutex};
use std::time::Duration;
use tokio::sync::{mpsc, watch};
use tokio::task::JoinHandle;

#[derive(Debug)]
pub struct MockErr(pub String);
impl std::fmt::Display for MockErr {
	fn fmt(&self, f: &mut std::fmt::Formatter<'_>) -> std::fmt::Result {
		write!(f, "mock:{}", self.0)
	}
}
impl std::error::Error for MockErr {}

/// State shared between the harness and the mock transport halves.
#[derive(Default, Debug)]
pub struct Ctl {
	/// everything the client handed to `TransportSenderT::send`, in order
	pub wire: Vec<String>,
	/// fault switch: the next `send` fails with this text (C09)
	pub send_fail: Option<String>,
	/// `close` was called
	pub closed: bool,
}

pub struct MockSender {
	ctl: Arc<Mutex<Ctl>>,
	gate: watch::Receiver<bool>,
	close_gate: watch::Receiver<bool>,
}

impl TransportSenderT for MockSender {
	type Error = MockErr;
	async fn send(&mut self, msg: String) -> Result<(), MockErr> {
		// wait for the gate: the send task sits here while the gate is shut
		while !*self.gate.borrow_and_update() {
			if self.gate.changed().await.is_err() {
				return Err(MockErr("gate dropped".into()));
			}
		}
		let mut c = self.ctl.lock().unwrap();
		if let Some(e) = c.send_fail.take() {
			return Err(MockErr(e));
		}
		c.wire.push(msg);
		Ok(())
	}
	async fn close(&mut self) -> Result<(), MockErr> {
		while !*self.close_gate.borrow_and_update() {
			if self.close_gate.changed().await.is_err() {
				break;
			}
		}
		self.ctl.lock().unwrap().closed = true;
		Ok(())
	}
}

pub struct MockReceiver {
	rx: mpsc::UnboundedReceiver<Result<ReceivedMessage, MockErr>>,
}

impl TransportReceiverT for MockReceiver {
	type Error = MockErr;
	async fn receive(&mut self) -> Result<ReceivedMessage, MockErr> {
		match self.rx.recv().await {
			Some(r) => r,
			None => Err(MockErr("peer closed".into())),
		}
	}
}

/// What a front-end future resolved with (canonical).
#[derive(Debug, Clone, PartialEq)]
pub enum Comp {
	/// call: `Ok(result text)`
	Ok(String),
	/// call / subscribe: `Error::Call(error object)`
	CallErr { code: i32, msg: String, data: Option<String> },
	/// subscribe: `Ok(Subscription)` with this subscription id
	Sub(String),
	/// subscribe_to_method: ok
	Reg,
	/// batch: counters and entries in request order
	Batch { succ: usize, fail: usize, view: String, entries: Vec<Result<String, (i32, String, Option<String>)>> },
	/// any other error, as a small enum
	E(String),
}

fn err_repr(code: i32, msg: &str, data: &Option<String>) -> String {
	format!("err:{}:{}:{}", code, hexs(msg), data.as_ref().map(|d| hexs(d)).unwrap_or("none".into()))
}

impl Comp {
	pub fn render(&self) -> String {
		match self {
			Comp::Ok(v) => format!("ok:{}", hexs(v)),
			Comp::CallErr { code, msg, data } => err_repr(*code, msg, data),
			Comp::Sub(s) => format!("sub:{s}"),
			Comp::Reg => "reg".into(),
			Comp::Batch { succ, fail, view, entries } => {
				let es: Vec<String> = entries
					.iter()
					.map(|e| match e {
						Ok(v) => format!("ok:{}", hexs(v)),
						Err((c, m, d)) => err_repr(*c, m, d),
					})
					.collect();
				format!("batch:{succ}:{fail}:{view}:{}", es.join(","))
			}
			Comp::E(s) => format!("E:{s}"),
		}
	}
}

#[derive(Debug, Clone, PartialEq)]
pub enum NextRes {
	Item(String),
	/// a typed stream yielded `Some(Err(_))`: the payload is not a value of the stream's item type
	Bad,
	Pending,
	End { lagged: bool },
}

/// Observation of one op line.
#[derive(Debug, Default, Clone)]
pub struct Obs {
	pub wires: Vec<String>,
	pub comps: Vec<(usize, Comp)>,
	pub next: Option<NextRes>,
	pub fatal: Option<String>,
	pub sizes: Option<[usize; 4]>,
	pub literal: Option<String>,
	/// ops whose `Subscription::unsubscribe()` future has completed since the last line (not rendered:
	/// the model has no front-end futures for it; used by oracles only)
	pub unsub_done: Vec<usize>,
}

impl Obs {
	pub fn render(&self) -> String {
		if let Some(l) = &self.literal {
			return l.clone();
		}
		if let Some(f) = &self.fatal {
			return format!("fatal:{f}");
		}
		if let Some(s) = &self.sizes {
			return format!("sizes {} {} {} {}", s[0], s[1], s[2], s[3]);
		}
		let mut parts: Vec<String> = self.wires.iter().map(|w| format!("w:{}", hexs(w))).collect();
		let mut cs = self.comps.clone();
		cs.sort_by_key(|c| c.0);
		parts.extend(cs.iter().map(|(k, c)| format!("t{k}={}", c.render())));
		match &self.next {
			Some(NextRes::Item(p)) => parts.push(format!("item:{}", hexs(p))),
			Some(NextRes::Bad) => parts.push("item:bad".into()),
			Some(NextRes::Pending) => parts.push("pending".into()),
			Some(NextRes::End { lagged }) => parts.push(if *lagged { "end:lagged".into() } else { "end:closed".into() }),
			None => {}
		}
		if parts.is_empty() { "-".into() } else { parts.join(" ") }
	}
}

type Raw = Box<RawValue>;

/// a subscription stream of any of the item types the harness instantiates (`Raw` for `cl subscribe` without a type)
pub enum Stream {
	Raw(Subscription<Raw>),
	U64(Subscription<u64>),
	Str(Subscription<String>),
	Bool(Subscription<bool>),
	Pt(Subscription<Pt>),
	OptU64(Subscription<Option<u64>>),
}

macro_rules! on_stream {
	($s:expr, $x:ident => $e:expr) => {
		match $s {
			Stream::Raw($x) => $e,
			Stream::U64($x) => $e,
			Stream::Str($x) => $e,
			Stream::Bool($x) => $e,
			Stream::Pt($x) => $e,
			Stream::OptU64($x) => $e,
		}
	};
}

impl Stream {
	fn next_now(&mut self) -> Option<Option<Result<String, ()>>> {
		match self {
			Stream::Raw(s) => s.next().now_or_never().map(|o| o.map(|r| r.map(|v| v.get().to_string()).map_err(|_| ()))),
			Stream::U64(s) => s.next().now_or_never().map(|o| o.map(|r| r.map(|v| v.show()).map_err(|_| ()))),
			Stream::Str(s) => s.next().now_or_never().map(|o| o.map(|r| r.map(|v| v.show()).map_err(|_| ()))),
			Stream::Bool(s) => s.next().now_or_never().map(|o| o.map(|r| r.map(|v| v.show()).map_err(|_| ()))),
			Stream::Pt(s) => s.next().now_or_never().map(|o| o.map(|r| r.map(|v| v.show()).map_err(|_| ()))),
			Stream::OptU64(s) => s.next().now_or_never().map(|o| o.map(|r| r.map(|v| v.show()).map_err(|_| ()))),
		}
	}
	fn close_reason(&self) -> Option<SubscriptionCloseReason> {
		on_stream!(self, s => s.close_reason())
	}
	fn sub_id(&self) -> String {
		on_stream!(self, s => match s.kind() {
			jsonrpsee_core::client::SubscriptionKind::Subscription(id) => sub_id_repr(id),
			_ => "?".into(),
		})
	}
	async fn unsubscribe(self) {
		on_stream!(self, s => {
			let _ = s.unsubscribe().await;
		})
	}
}

enum Slot {
	Call(JoinHandle<Result<Raw, Error>>),
	Subscribe(JoinHandle<Result<Stream, Error>>),
	Batch(JoinHandle<Result<Comp, Error>>),
	Reg(JoinHandle<Result<Stream, Error>>),
	Stream(Stream),
	Unsubscribing(JoinHandle<()>),
	Done,
}

pub struct Session {
	pub client: Arc<Client>,
	pub ctl: Arc<Mutex<Ctl>>,
	gate_tx: watch::Sender<bool>,
	_close_gate_tx: watch::Sender<bool>,
	to_client: mpsc::UnboundedSender<Result<ReceivedMessage, MockErr>>,
	slots: Vec<Slot>,
	wire_seen: usize,
	pub dead: bool,
	unsub_done: Vec<usize>,
}

pub async fn barrier() {
	tokio::time::sleep(Duration::from_millis(1)).await;
}

fn sub_id_repr(s: &SubscriptionId<'_>) -> String {
	match s {
		SubscriptionId::Num(n) => format!("n:{n}"),
		SubscriptionId::Str(s) => format!("s:{}", hexs(s)),
	}
}

fn err_obj(e: &ErrorObject<'_>) -> (i32, String, Option<String>) {
	(e.code(), e.message().to_string(), e.data().map(|d| d.get().to_string()))
}

/// small enum for every error a front-end future can resolve with
pub fn classify_err(e: &Error) -> Comp {
	match e {
		Error::Call(eo) => {
			let (code, msg, data) = err_obj(eo);
			Comp::CallErr { code, msg, data }
		}
		Error::ParseError(_) => Comp::E("parse".into()),
		Error::InvalidSubscriptionId => Comp::E("invalidsubid".into()),
		Error::InvalidRequestId(InvalidRequestId::Occupied(_)) => Comp::E("occupied".into()),
		Error::InvalidRequestId(InvalidRequestId::NotPendingRequest(s)) => Comp::E(format!("notpending:{}", hexs(s))),
		Error::InvalidRequestId(InvalidRequestId::Invalid(s)) => Comp::E(format!("invalid:{}", hexs(s))),
		Error::RegisterMethod(_) => Comp::E("already".into()),
		Error::RestartNeeded(inner) => Comp::E(format!("restart({})", fatal_class(inner))),
		Error::RequestTimeout => Comp::E("timeout".into()),
		Error::Transport(t) => Comp::E(format!("transport({t})")),
		Error::Custom(s) if s.starts_with("Error reason could not be found") => Comp::E("placeholder".into()),
		Error::Custom(s) => Comp::E(format!("custom({})", hexs(s))),
		Error::EmptyBatchRequest(_) => Comp::E("emptybatch".into()),
		other => Comp::E(format!("other({})", hexs(&other.to_string()))),
	}
}

/// class of the error that ended a background task
pub fn fatal_class(e: &Error) -> String {
	match e {
		Error::Custom(s) if s.starts_with("Unparseable message") => "unparseable".into(),
		Error::InvalidRequestId(InvalidRequestId::NotPendingRequest(s)) => format!("notpending:{}", hexs(s)),
		Error::InvalidRequestId(InvalidRequestId::Invalid(s)) => format!("invalid:{}", hexs(s)),
		Error::InvalidRequestId(InvalidRequestId::Occupied(s)) => format!("occupied:{}", hexs(s)),
		Error::EmptyBatchRequest(_) => "emptybatch".into(),
		Error::Transport(t) => format!("transport({t})"),
		Error::Custom(s) => format!("custom({})", hexs(s)),
		other => format!("other({})", hexs(&other.to_string())),
	}
}

struct RawParams(Option<String>);
impl ToRpcParams for RawParams {
	fn to_rpc_params(self) -> Result<Option<Box<RawValue>>, serde_json::Error> {
		match self.0 {
			Some(s) => RawValue::from_string(s).map(Some),
			None => Ok(None),
		}
	}
}

/// Client options of a case that do not change what the histories of this harness observe: the request timeout
/// (never reached: `futures_timer` runs on the wall clock and cases take milliseconds) and WS pings (interval of
/// a day of the paused tokio clock).  Header: `case <n> client <num|str> <cap> <fcap> [t=<secs>,ping=<0|1>]`.
#[derive(Debug, Clone, Copy)]
pub struct CaseOpts {
	pub timeout_secs: u64,
	pub ping: bool,
}
impl Default for CaseOpts {
	fn default() -> Self {
		CaseOpts { timeout_secs: 3600, ping: false }
	}
}

pub fn parse_case_opts(line: &str) -> CaseOpts {
	let mut o = CaseOpts::default();
	let w: Vec<&str> = line.split(' ').filter(|s| !s.is_empty()).collect();
	if let Some(opts) = w.get(6) {
		for kv in opts.split(',') {
			match kv.split_once('=') {
				Some(("t", v)) => o.timeout_secs = v.parse().unwrap_or(3600).max(60),
				Some(("ping", v)) => o.ping = v == "1",
				_ => {}
			}
		}
	}
	o
}

impl Session {
	/// must be called inside the runtime
	pub fn new(str_ids: bool, cap: usize, fcap: usize) -> Session {
		Session::new_with(str_ids, cap, fcap, CaseOpts::default())
	}

	pub fn new_with(str_ids: bool, cap: usize, fcap: usize, opts: CaseOpts) -> Session {
		let ctl = Arc::new(Mutex::new(Ctl::default()));
		let (gate_tx, gate_rx) = watch::channel(true);
		let (close_gate_tx, close_gate_rx) = watch::channel(true);
		let (to_client, rx) = mpsc::unbounded_channel();
		let sender = MockSender { ctl: ctl.clone(), gate: gate_rx, close_gate: close_gate_rx };
		let receiver = MockReceiver { rx };
		let mut builder = ClientBuilder::default()
			.request_timeout(Duration::from_secs(opts.timeout_secs))
			.max_concurrent_requests(fcap)
			.max_buffer_capacity_per_subscription(cap)
			.id_format(if str_ids { IdKind::String } else { IdKind::Number });
		if opts.ping {
			let day = Duration::from_secs(86_400);
			builder = builder.enable_ws_ping(jsonrpsee_core::client::async_client::PingConfig::new().ping_interval(day).inactive_limit(day * 2));
		}
		let client: Client = builder.build_with_tokio(sender, receiver);
		Session {
			client: Arc::new(client),
			ctl,
			gate_tx,
			_close_gate_tx: close_gate_tx,
			to_client,
			slots: vec![],
			wire_seen: 0,
			dead: false,
			unsub_done: vec![],
		}
	}

	/// inject a raw item into the mock receiver (faults: `Err(..)`)
	pub fn inject(&self, item: Result<ReceivedMessage, MockErr>) {
		let _ = self.to_client.send(item);
	}

	pub fn set_gate(&self, open: bool) {
		let _ = self.gate_tx.send(open);
	}

	fn new_wires(&mut self) -> Vec<String> {
		let c = self.ctl.lock().unwrap();
		let v = c.wire[self.wire_seen..].to_vec();
		self.wire_seen = c.wire.len();
		v
	}

	/// collect every front-end future that has resolved since the last call
	async fn harvest(&mut self) -> Vec<(usize, Comp)> {
		let mut out = vec![];
		self.unsub_done.clear();
		for i in 0..self.slots.len() {
			let finished = match &self.slots[i] {
				Slot::Call(h) => h.is_finished(),
				Slot::Subscribe(h) => h.is_finished(),
				Slot::Batch(h) => h.is_finished(),
				Slot::Reg(h) => h.is_finished(),
				Slot::Unsubscribing(h) => h.is_finished(),
				_ => false,
			};
			if !finished {
				continue;
			}
			let slot = std::mem::replace(&mut self.slots[i], Slot::Done);
			match slot {
				Slot::Call(h) => match h.await {
					Ok(Ok(v)) => out.push((i, Comp::Ok(v.get().to_string()))),
					Ok(Err(e)) => out.push((i, classify_err(&e))),
					Err(_) => {} // aborted
				},
				Slot::Subscribe(h) => match h.await {
					Ok(Ok(s)) => {
						let id = s.sub_id();
						out.push((i, Comp::Sub(id)));
						self.slots[i] = Slot::Stream(s);
					}
					Ok(Err(e)) => out.push((i, classify_err(&e))),
					Err(_) => {}
				},
				Slot::Reg(h) => match h.await {
					Ok(Ok(s)) => {
						out.push((i, Comp::Reg));
						self.slots[i] = Slot::Stream(s);
					}
					Ok(Err(e)) => out.push((i, classify_err(&e))),
					Err(_) => {}
				},
				Slot::Batch(h) => match h.await {
					Ok(Ok(c)) => out.push((i, c)),
					Ok(Err(e)) => out.push((i, classify_err(&e))),
					Err(_) => {}
				},
				Slot::Unsubscribing(h) => {
					let _ = h.await;
					self.unsub_done.push(i);
				}
				_ => {}
			}
		}
		out
	}

	/// quiescence barrier, then everything observable since the previous op
	async fn settle(&mut self, obs: &mut Obs) {
		barrier().await;
		if !self.dead && self.to_client.is_closed() {
			// the read task has ended: let the send task finish too, then read the recorded cause
			self.dead = true;
			self.set_gate(true);
			barrier().await;
			let cause = match self.client.on_disconnect().now_or_never() {
				Some(Error::RestartNeeded(inner)) => fatal_class(&inner),
				Some(other) => match classify_err(&other) {
					Comp::E(s) => s,
					c => c.render(),
				},
				None => "no-disconnect".into(),
			};
			obs.fatal = Some(cause);
		}
		obs.wires = self.new_wires();
		obs.comps = self.harvest().await;
		obs.unsub_done = self.unsub_done.clone();
	}

	pub fn n_ops(&self) -> usize {
		self.slots.len()
	}

	pub fn is_stream(&self, op: usize) -> bool {
		matches!(self.slots.get(op), Some(Slot::Stream(_)))
	}

	pub fn is_pending(&self, op: usize) -> bool {
		matches!(self.slots.get(op), Some(Slot::Call(_) | Slot::Subscribe(_) | Slot::Batch(_) | Slot::Reg(_)))
	}

	/// Execute one op line (without the `cl` tag already split off: `w[0] == "cl"`).
	pub async fn exec(&mut self, line: &str) -> Obs {
		let w: Vec<&str> = line.split(' ').filter(|s| !s.is_empty()).collect();
		let mut obs = Obs::default();
		if self.dead && !matches!(w[1], "call" | "batch" | "tbatch" | "subscribe" | "regnotif" | "notify" | "connected") {
			obs.literal = Some("#skip dead".into());
			return obs;
		}
		let txt = |s: &str| String::from_utf8(unhex(s)).unwrap();
		match (w[1], &w[2..]) {
			("call", rest) => {
				let method = if rest.is_empty() { "m".to_string() } else { txt(rest[0]) };
				let params = if rest.len() > 1 { Some(txt(rest[1])) } else { None };
				let c = self.client.clone();
				self.slots.push(Slot::Call(tokio::spawn(async move { c.request::<Raw, _>(&method, RawParams(params)).await })));
				self.settle(&mut obs).await;
			}
			("subscribe", rest) => {
				let c = self.client.clone();
				macro_rules! sub {
					($t:ty, $v:ident) => {
						tokio::spawn(async move { c.subscribe::<$t, _>("sub", ArrayParams::new(), "unsub").await.map(Stream::$v) })
					};
				}
				let h = match rest.first().copied() {
					None => sub!(Raw, Raw),
					Some("u64") => sub!(u64, U64),
					Some("str") => sub!(String, Str),
					Some("bool") => sub!(bool, Bool),
					Some("pt") => sub!(Pt, Pt),
					Some("optu64") => sub!(Option<u64>, OptU64),
					Some(_) => {
						obs.literal = Some("bad-op".into());
						return obs;
					}
				};
				self.slots.push(Slot::Subscribe(h));
				self.settle(&mut obs).await;
			}
			("batch", [n]) => {
				let n: usize = n.parse().unwrap();
				let c = self.client.clone();
				self.slots.push(Slot::Batch(tokio::spawn(async move {
					let mut b = BatchRequestBuilder::new();
					for _ in 0..n {
						b.insert("m", ArrayParams::new()).unwrap();
					}
					let r: BatchResponse<'_, Raw> = c.batch_request(b).await?;
					Ok(batch_comp(&r))
				})));
				self.settle(&mut obs).await;
			}
			("tbatch", [ty, n]) => {
				let n: usize = n.parse().unwrap();
				if !TYPED_KINDS.contains(ty) || n == 0 {
					obs.literal = Some("bad-op".into());
					return obs;
				}
				let ty = ty.to_string();
				let c = self.client.clone();
				self.slots.push(Slot::Batch(tokio::spawn(async move { typed_batch_on!(c, ty.as_str(), n) })));
				self.settle(&mut obs).await;
			}
			("regnotif", [m]) => {
				let method = txt(m);
				let c = self.client.clone();
				self.slots.push(Slot::Reg(tokio::spawn(async move { c.subscribe_to_method::<Raw>(&method).await.map(Stream::Raw) })));
				self.settle(&mut obs).await;
			}
			("notify", _) => {
				let c = self.client.clone();
				// a notification has no ticket; its future resolves as soon as the message is queued
				let h = tokio::spawn(async move { c.notification("m", ArrayParams::new()).await });
				self.settle(&mut obs).await;
				drop(h);
			}
			("abandon", [k]) => {
				let k: usize = k.parse().unwrap();
				match self.slots.get(k) {
					Some(Slot::Call(h)) => h.abort(),
					Some(Slot::Subscribe(h)) => h.abort(),
					Some(Slot::Batch(h)) => h.abort(),
					Some(Slot::Reg(h)) => h.abort(),
					_ => {}
				}
				self.settle(&mut obs).await;
			}
			("connected", _) => {
				// `Client::is_connected`
				barrier().await;
				obs.literal = Some(format!("connected {}", self.client.is_connected()));
			}
			// (an optional third word `for=<op>` names the operation the server made the reply for; it is for the oracles)
			("deliver", [h, rest @ ..]) | ("deliverx", [h, rest @ ..]) => {
				if rest.contains(&"bin") {
					// a binary frame: the same handler, but the transport has not checked that it is UTF-8
					self.inject(Ok(ReceivedMessage::Bytes(unhex(h))));
				} else {
					let Ok(t) = String::from_utf8(unhex(h)) else {
						obs.literal = Some("bad-op".into());
						return obs;
					};
					self.inject(Ok(ReceivedMessage::Text(t)));
				}
				self.settle(&mut obs).await;
				if obs.fatal.is_some() {
					// what the pending futures resolve with afterwards belongs to C09
					obs.wires.clear();
					obs.comps.clear();
				}
			}
			("next", [k]) => {
				let k: usize = k.parse().unwrap();
				let r = match self.slots.get_mut(k) {
					Some(Slot::Stream(s)) => {
						let r = match s.next_now() {
							Some(Some(Ok(v))) => NextRes::Item(v),
							Some(Some(Err(()))) => NextRes::Bad,
							Some(None) => NextRes::End { lagged: matches!(s.close_reason(), Some(SubscriptionCloseReason::Lagged)) },
							None => NextRes::Pending,
						};
						// `close_reason()` is `Some` once the stream has ended, and before that at most `Lagged`
						let cr = s.close_reason();
						let consistent = match &r {
							NextRes::End { .. } => cr.is_some(),
							_ => matches!(cr, None | Some(SubscriptionCloseReason::Lagged)),
						};
						if !consistent {
							obs.literal = Some(format!("close-reason-inconsistent:{cr:?}"));
							return obs;
						}
						r
					}
					_ => {
						obs.literal = Some("bad-op".into());
						return obs;
					}
				};
				self.settle(&mut obs).await;
				obs.next = Some(r);
			}
			("drop", [k]) => {
				let k: usize = k.parse().unwrap();
				match self.slots.get(k) {
					Some(Slot::Stream(_)) => {
						self.slots[k] = Slot::Done;
					}
					_ => {
						obs.literal = Some("bad-op".into());
						return obs;
					}
				}
				self.settle(&mut obs).await;
			}
			("unsub", [k]) => {
				let k: usize = k.parse().unwrap();
				match std::mem::replace(self.slots.get_mut(k).unwrap_or(&mut Slot::Done), Slot::Done) {
					Slot::Stream(s) => {
						self.slots[k] = Slot::Unsubscribing(tokio::spawn(async move {
							s.unsubscribe().await;
						}));
					}
					_ => {
						obs.literal = Some("bad-op".into());
						return obs;
					}
				}
				self.settle(&mut obs).await;
			}
			("gate", ["shut"]) => {
				self.set_gate(false);
				self.settle(&mut obs).await;
			}
			("gate", ["open"]) => {
				self.set_gate(true);
				self.settle(&mut obs).await;
			}
			("sizes", _) => {
				// cfg-guarded hook in /repo (commit 57065e9): sizes of the four manager tables
				#[cfg(jsonrpsee_verif)]
				{
					obs.sizes = Some(self.client.verif_table_sizes());
				}
				// built without the hook (every property but C18): the op is not available
				#[cfg(not(jsonrpsee_verif))]
				{
					obs.literal = Some("no-hook".into());
				}
			}
			_ => {
				obs.literal = Some("bad-op".into());
			}
		}
		obs
	}
}

/// Result types the typed batches (`tbatch <ty> <n>`) are instantiated with; `show` is what the
/// harness prints for a decoded value (the model prints the same text, Driver/ClientFamily.lean `TVal.text`).
pub trait TypedR: serde::de::DeserializeOwned + std::fmt::Debug + Clone + Send + 'static {
	fn show(&self) -> String;
}
impl TypedR for u64 {
	fn show(&self) -> String {
		self.to_string()
	}
}
impl TypedR for String {
	fn show(&self) -> String {
		self.clone()
	}
}
impl TypedR for bool {
	fn show(&self) -> String {
		self.to_string()
	}
}
#[derive(serde::Deserialize, Debug, Clone)]
pub struct Pt {
	pub x: u64,
	pub y: u64,
}
impl TypedR for Pt {
	fn show(&self) -> String {
		format!("{},{}", self.x, self.y)
	}
}
impl TypedR for Option<u64> {
	fn show(&self) -> String {
		match self {
			None => "none".into(),
			Some(n) => format!("some:{n}"),
		}
	}
}

pub const TYPED_KINDS: [&str; 5] = ["u64", "str", "bool", "pt", "optu64"];


/// the accessors of a `BatchResponse` must tell one story: `len`, `iter`, the two counters, `ok()`
fn batch_accessors_consistent<R: std::fmt::Debug + Clone>(r: &BatchResponse<'_, R>) -> bool {
	let n = r.iter().count();
	let oks = r.iter().filter(|e| e.is_ok()).count();
	let errs = n - oks;
	let by_ok = match r.ok() {
		Ok(it) => errs == 0 && it.count() == n,
		Err(it) => errs > 0 && it.count() == errs,
	};
	// the consuming spelling of the same question, and the emptiness test
	let by_into_ok = match r.clone().into_ok() {
		Ok(it) => errs == 0 && it.count() == n,
		Err(it) => errs > 0 && it.count() == errs,
	};
	let by_into_iter = r.clone().into_iter().count() == n;
	r.len() == n
		&& r.is_empty() == (n == 0)
		&& r.num_successful_calls() == oks
		&& r.num_failed_calls() == errs
		&& by_ok && by_into_ok && by_into_iter
}

pub fn typed_batch_comp<R: TypedR>(r: &BatchResponse<'_, R>) -> Comp {
	let entries = r
		.iter()
		.map(|e| match e {
			Ok(v) => Ok(v.show()),
			Err(eo) => Err(err_obj(eo)),
		})
		.collect();
	// an inconsistent accessor shows up as an impossible success count
	let succ = if batch_accessors_consistent(r) { r.num_successful_calls() } else { usize::MAX };
	Comp::Batch { succ, fail: r.num_failed_calls(), view: batch_view(r), entries }
}

/// `batch_request::<R>` of `n` entries `m()` on a concrete client, `R` chosen by the type tag of the op line.
/// (A macro rather than a function generic in the client: `impl Future + Send` of the trait method does not
/// pass `tokio::spawn` through a generic `C: ClientT`, rust-lang/rust#100013.)
#[macro_export]
macro_rules! typed_batch_on {
	($client:expr, $ty:expr, $n:expr) => {{
		macro_rules! go {
			($r:ty) => {{
				let mut b = jsonrpsee_core::params::BatchRequestBuilder::new();
				for _ in 0..$n {
					b.insert("m", jsonrpsee_core::params::ArrayParams::new()).unwrap();
				}
				let r: Result<jsonrpsee_core::client::BatchResponse<'_, $r>, jsonrpsee_core::client::Error> = $client.batch_request(b).await;
				r.map(|r| $crate::client_mock::typed_batch_comp(&r))
			}};
		}
		match $ty {
			"u64" => go!(u64),
			"str" => go!(String),
			"bool" => go!(bool),
			"pt" => go!($crate::client_mock::Pt),
			"optu64" => go!(Option<u64>),
			other => panic!("unknown type tag {other}"),
		}
	}};
}

/// What the remaining accessors of a `BatchResponse` answer, as the model's `viewRepr`:
/// `<into_ok>-<ok>-<len><E|N>` with `ok<k>` / `err<k>` = the variant and the number of items it yields.
pub fn batch_view<R: std::fmt::Debug + Clone>(r: &BatchResponse<'_, R>) -> String {
	let a = match r.clone().into_ok() {
		Ok(it) => format!("ok{}", it.count()),
		Err(it) => format!("err{}", it.count()),
	};
	let b = match r.ok() {
		Ok(it) => format!("ok{}", it.count()),
		Err(it) => format!("err{}", it.count()),
	};
	format!("{a}-{b}-{}{}", r.len(), if r.is_empty() { "E" } else { "N" })
}

fn batch_comp(r: &BatchResponse<'_, Raw>) -> Comp {
	let entries = r
		.iter()
		.map(|e| match e {
			Ok(v) => Ok(v.get().to_string()),
			Err(eo) => Err(err_obj(eo)),
		})
		.collect();
	// an inconsistent accessor shows up as an impossible success count
	let succ = if batch_accessors_consistent(r) { r.num_successful_calls() } else { usize::MAX };
	Comp::Batch { succ, fail: r.num_failed_calls(), view: batch_view(r), entries }
}

/// Parameters of a `case <n> client <num|str> <cap> <fcap>` header.
pub fn parse_case_header(line: &str) -> Option<(bool, usize, usize)> {
	let w: Vec<&str> = line.split(' ').filter(|s| !s.is_empty()).collect();
	if (w.len() == 6 || w.len() == 7) && w[0] == "case" && w[2] == "client" {
		Some((w[3] == "str", w[4].parse().ok()?, w[5].parse().ok()?))
	} else {
		None
	}
}

/// Run one case (header + op lines) on a fresh runtime; `on_line(op line, observation)` is called
/// for every line including the header (observation literal `case`).
pub fn run_case(lines: &[String], mut on_line: impl FnMut(&str, &Obs)) {
	let Some((str_ids, cap, fcap)) = parse_case_header(&lines[0]) else {
		for l in lines {
			on_line(l, &Obs { literal: Some("bad-op".into()), ..Default::default() });
		}
		return;
	};
	let rt = tokio::runtime::Builder::new_current_thread().enable_time().start_paused(true).build().unwrap();
	rt.block_on(async {
		let mut s = Session::new_with(str_ids, cap, fcap, parse_case_opts(&lines[0]));
		on_line(&lines[0], &Obs { literal: Some("case".into()), ..Default::default() });
		for l in &lines[1..] {
			let obs = s.exec(l).await;
			on_line(l, &obs);
		}
		// let the client shut down inside the runtime
		drop(s);
		barrier().await;
	});
}

/// Split a flat list of lines into cases at `case` headers.
pub fn split_cases(lines: &[String]) -> Vec<Vec<String>> {
	let mut out: Vec<Vec<String>> = vec![];
	for l in lines {
		if l.starts_with("case ") || out.is_empty() {
			out.push(vec![]);
		}
		out.last_mut().unwrap().push(l.clone());
	}
	out
}
