//! Spellings of the messages a JSON-RPC server may send to a client (used by the client-family
//! generators C03 C05 C12 C18).
//!
//! `respell` rewrites a message text into another text that means the same to a conforming reader:
//! interior whitespace, member order, member names and string values written with `\uXXXX` escapes,
//! unknown members (also repeated ones), `jsonrpc` absent / null / "2.0" on responses.  The oracles
//! read messages through `serde_json::Value`, for which all of these are the same message.
//!
//! `near_miss` produces texts that are *not* a legal message of any kind (id `1.0`, a known member
//! twice, an error object with an unknown member, a notification without `jsonrpc`, broken JSON …);
//! generators send them with the verb `deliverx`, for which the oracles require that the client does
//! not accept them (WS: the connection is given up; HTTP: the call fails).
use crate::common::Rng;
use serde_json::Value;

/// what kind of message a JSON object is (independent of member order / unknown members)
#[derive(Debug, Clone, Copy, PartialEq)]
pub enum MsgKind {
	/// `id` and exactly one of `result` / `error`, no matter what else is there
	Response,
	/// not a response, has `method`
	Notification,
	Other,
}

pub fn msg_kind(v: &Value) -> MsgKind {
	let Value::Object(o) = v else { return MsgKind::Other };
	if o.contains_key("id") && (o.contains_key("result") != o.contains_key("error")) {
		MsgKind::Response
	} else if o.contains_key("method") {
		MsgKind::Notification
	} else {
		MsgKind::Other
	}
}

pub struct Speller<'a> {
	pub rng: &'a mut Rng,
	/// names of the variations applied (for distribution counters)
	pub applied: Vec<&'static str>,
	ws: bool,
	shuffle: bool,
	esc: bool,
}

const WS: [&str; 6] = [" ", "  ", "\t", "\n", "\r\n", " \n\t "];

impl<'a> Speller<'a> {
	pub fn new(rng: &'a mut Rng) -> Self {
		Speller { rng, applied: vec![], ws: false, shuffle: false, esc: false }
	}

	fn note(&mut self, s: &'static str) {
		if !self.applied.contains(&s) {
			self.applied.push(s);
		}
	}

	fn gap(&mut self) -> String {
		if self.ws && self.rng.chance(1, 3) {
			self.note("spell.whitespace");
			(*self.rng.pick(&WS)).to_string()
		} else {
			String::new()
		}
	}

	/// a JSON string token for `s`; with `esc` some characters are written as `\uXXXX`
	fn string_token(&mut self, s: &str, force_esc: bool) -> String {
		if !(force_esc || (self.esc && self.rng.chance(1, 4))) || s.is_empty() {
			return serde_json::to_string(s).unwrap();
		}
		self.note("spell.escaped-string");
		let n = s.chars().count() as u64;
		let which = self.rng.below(n) as usize;
		let all = self.rng.chance(1, 5);
		let mut out = String::from("\"");
		for (i, c) in s.chars().enumerate() {
			if i == which || all {
				let mut buf = [0u16; 2];
				for u in c.encode_utf16(&mut buf) {
					let upper = self.rng.chance(1, 2);
					out.push_str(&if upper { format!("\\u{:04X}", u) } else { format!("\\u{:04x}", u) });
				}
			} else {
				let t = serde_json::to_string(&c.to_string()).unwrap();
				out.push_str(&t[1..t.len() - 1]);
			}
		}
		out.push('"');
		out
	}

	fn value(&mut self, v: &Value) -> String {
		match v {
			Value::Object(o) => {
				let members: Vec<(String, String)> = o.iter().map(|(k, v)| (self.key(k), self.value(v))).collect();
				self.object(members)
			}
			Value::Array(a) => {
				let mut out = String::from("[");
				out.push_str(&self.gap());
				for (i, e) in a.iter().enumerate() {
					if i > 0 {
						out.push(',');
						out.push_str(&self.gap());
					}
					out.push_str(&self.value(e));
					out.push_str(&self.gap());
				}
				out.push(']');
				out
			}
			Value::String(s) => self.string_token(s, false),
			other => other.to_string(),
		}
	}

	fn key(&mut self, k: &str) -> String {
		let force = self.esc && self.rng.chance(1, 6);
		if force {
			self.note("spell.escaped-member-name");
		}
		self.string_token(k, force)
	}

	/// `{ k:v, … }` from already spelled members, in random order when `shuffle`
	fn object(&mut self, mut members: Vec<(String, String)>) -> String {
		if self.shuffle && members.len() > 1 {
			self.note("spell.member-order");
			for i in (1..members.len()).rev() {
				let j = self.rng.below(i as u64 + 1) as usize;
				members.swap(i, j);
			}
		}
		let mut out = String::from("{");
		out.push_str(&self.gap());
		for (i, (k, v)) in members.iter().enumerate() {
			if i > 0 {
				out.push(',');
				out.push_str(&self.gap());
			}
			out.push_str(k);
			out.push_str(&self.gap());
			out.push(':');
			out.push_str(&self.gap());
			out.push_str(v);
			out.push_str(&self.gap());
		}
		out.push('}');
		out
	}

	/// unknown members a conforming reader ignores (a response stays a response with an extra `method`, a notification
	/// stays one with an extra `id`: neither name is ever `result` / `error`)
	fn unknown_members(&mut self, for_response: bool) -> Vec<(String, String)> {
		let mut out = vec![];
		if !self.rng.chance(1, 3) {
			return out;
		}
		self.note("spell.unknown-member");
		let names_resp: [&str; 10] = ["x", "extra", "meta", "ID", "Result", "jsonrpc2", "_", "", "method", "params"];
		let names_notif: [&str; 9] = ["x", "extra", "meta", "Method", "Params", "jsonrpc2", "_", "", "id"];
		let vals: [&str; 8] = ["1", "null", "\"v\"", "{\"id\":7,\"result\":0}", "[{\"method\":\"m\"}]", "true", "-1.5e3", "{\"a\":{\"a\":[[[]]]}}"];
		let k = self.rng.range(1, 2);
		for _ in 0..k {
			let name = if for_response { *self.rng.pick(&names_resp) } else { *self.rng.pick(&names_notif) };
			let key = self.string_token(name, false);
			let val = (*self.rng.pick(&vals)).to_string();
			out.push((key.clone(), val));
			if self.rng.chance(1, 4) {
				// the same unknown member once more
				self.note("spell.unknown-member-repeated");
				out.push((key, (*self.rng.pick(&vals)).to_string()));
			}
		}
		out
	}

	fn message(&mut self, v: &Value) -> String {
		let Value::Object(o) = v else { return self.value(v) };
		let kind = msg_kind(v);
		let mut members: Vec<(String, String)> = vec![];
		for (k, val) in o {
			if kind == MsgKind::Response && k == "jsonrpc" {
				// `Option<TwoPointZero>`: absent, null and "2.0" are the same
				match self.rng.below(6) {
					0 => {
						self.note("spell.jsonrpc-absent");
						continue;
					}
					1 => {
						self.note("spell.jsonrpc-null");
						members.push((self.key(k), "null".into()));
						continue;
					}
					_ => {}
				}
			}
			let spelled = if kind == MsgKind::Response && k == "error" {
				// `ErrorObject` denies unknown members: order / whitespace / escapes only
				self.value(val)
			} else {
				self.value(val)
			};
			members.push((self.key(k), spelled));
		}
		if kind == MsgKind::Response && !o.contains_key("jsonrpc") && self.rng.chance(1, 3) {
			self.note("spell.jsonrpc-added");
			members.push(("\"jsonrpc\"".into(), if self.rng.chance(1, 2) { "\"2.0\"".into() } else { "null".into() }));
		}
		if kind != MsgKind::Other {
			let extra = self.unknown_members(kind == MsgKind::Response);
			// a notification must not gain `id` *and* keep looking like one … it stays one as long as it has no
			// `result` / `error`, which the unknown names never are
			for e in extra {
				let pos = self.rng.below(members.len() as u64 + 1) as usize;
				members.insert(pos, e);
			}
		}
		self.object(members)
	}

	/// a text meaning the same as `text` (a single message or an array of messages)
	pub fn respell(&mut self, text: &str) -> String {
		let Ok(v) = serde_json::from_str::<Value>(text) else { return text.to_string() };
		self.ws = self.rng.chance(1, 2);
		self.shuffle = self.rng.chance(1, 2);
		self.esc = self.rng.chance(1, 3);
		let lead = self.gap();
		let body = match &v {
			Value::Array(a) => {
				let mut out = String::from("[");
				out.push_str(&self.gap());
				for (i, e) in a.iter().enumerate() {
					if i > 0 {
						out.push(',');
						out.push_str(&self.gap());
					}
					out.push_str(&self.message(e));
					out.push_str(&self.gap());
				}
				out.push(']');
				out
			}
			other => self.message(other),
		};
		let trail = self.gap();
		let out = format!("{lead}{body}{trail}");
		// safety net: the respelled text must read as the same value apart from unknown members / jsonrpc
		debug_assert!(serde_json::from_str::<Value>(&out).is_ok(), "respell produced invalid JSON: {out}");
		out
	}
}

/// `respell` with probability 1/2, else the text itself; the names of the variations go to `count`
pub fn maybe_respell(rng: &mut Rng, text: &str, mut count: impl FnMut(&str)) -> String {
	if !rng.chance(1, 2) {
		return text.to_string();
	}
	let mut sp = Speller::new(rng);
	let out = sp.respell(text);
	if serde_json::from_str::<Value>(&out).is_err() {
		return text.to_string();
	}
	for a in &sp.applied {
		count(a);
	}
	out
}

// ---------------------------------------------------------------------------------------------
// near misses

fn obj(members: &[(&str, String)]) -> String {
	let ms: Vec<String> = members.iter().map(|(k, v)| format!("\"{k}\":{v}")).collect();
	format!("{{{}}}", ms.join(","))
}

/// A text that is not a legal server message although it looks like the response to request `id`
/// (JSON text of the id) or like a notification.  Returns (name of the class, text).
pub fn near_miss(rng: &mut Rng, id: &str) -> (&'static str, String) {
	let j = ("jsonrpc", "\"2.0\"".to_string());
	let res = ("result", "1".to_string());
	let idm = ("id", id.to_string());
	match rng.below(29) {
		0 => ("near.id-float", obj(&[j, ("id", (*rng.pick(&["1.0", "1e0", "-0", "0.5", "1E2", "-1"])).to_string()), res])),
		1 => ("near.id-leading-zero", format!("{{\"jsonrpc\":\"2.0\",\"id\":0{},\"result\":1}}", rng.below(9))),
		2 => ("near.id-huge", obj(&[j, ("id", (*rng.pick(&["18446744073709551616", "99999999999999999999999999", "1e400"])).to_string()), res])),
		3 => ("near.id-wrong-type", obj(&[j, ("id", (*rng.pick(&["true", "[1]", "{}", "[]", "{\"id\":1}"])).to_string()), res])),
		4 => ("near.id-twice", format!("{{\"jsonrpc\":\"2.0\",\"id\":{id},\"result\":1,\"id\":{id}}}")),
		5 => ("near.id-twice-escaped", format!("{{\"jsonrpc\":\"2.0\",\"id\":{id},\"result\":1,\"\\u0069d\":{id}}}")),
		6 => ("near.result-twice", format!("{{\"jsonrpc\":\"2.0\",\"id\":{id},\"result\":1,\"result\":1}}")),
		7 => ("near.jsonrpc-twice", format!("{{\"jsonrpc\":\"2.0\",\"jsonrpc\":\"2.0\",\"id\":{id},\"result\":1}}")),
		8 => ("near.result-and-error", obj(&[j, idm, res, ("error", "{\"code\":1,\"message\":\"m\"}".into())])),
		9 => ("near.neither-result-nor-error", obj(&[j, idm])),
		10 => ("near.jsonrpc-wrong", obj(&[("jsonrpc", (*rng.pick(&["\"1.0\"", "2.0", "\"2\"", "\"\"", "\"2.00\"", "true", "[\"2.0\"]"])).to_string()), idm, res])),
		11 => ("near.error-unknown-member", obj(&[j, idm, ("error", "{\"code\":1,\"message\":\"m\",\"extra\":0}".into())])),
		12 => ("near.error-missing-member", obj(&[j, idm, ("error", (*rng.pick(&["{\"code\":1}", "{\"message\":\"m\"}", "{}", "{\"data\":1}"])).to_string())])),
		13 => (
			"near.error-code-out-of-range",
			obj(&[j, idm, ("error", format!("{{\"code\":{},\"message\":\"m\"}}", rng.pick(&["2147483648", "-2147483649", "9223372036854775808", "1.0", "\"1\"", "null", "1e3"])))]),
		),
		14 => ("near.error-wrong-type", obj(&[j, idm, ("error", (*rng.pick(&["null", "\"boom\"", "1", "[1,\"m\"]", "[]"])).to_string())])),
		15 => ("near.error-message-wrong-type", obj(&[j, idm, ("error", (*rng.pick(&["{\"code\":1,\"message\":2}", "{\"code\":1,\"message\":null}", "{\"code\":1,\"message\":[\"m\"]}"])).to_string())])),
		16 => ("near.error-member-twice", obj(&[j, idm, ("error", "{\"code\":1,\"message\":\"m\",\"code\":1}".into())])),
		17 => ("near.truncated", {
			let full = obj(&[j, idm, res]);
			let cut = rng.range(1, full.len() as u64 - 1) as usize;
			full[..cut].to_string()
		}),
		18 => ("near.trailing-garbage", format!("{} {}", obj(&[j, idm, res]), rng.pick(&["x", "{}", "1", ",", "]", "}"]))),
		19 => ("near.not-json", (*rng.pick(&["{'id':1,'result':1}", "{id:1,result:1}", "{\"id\":1,\"result\":1,}", "{\"id\":1 \"result\":1}", "{\"id\":1,\"result\":NaN}", "{\"id\":1,\"result\":01}"])).to_string()),
		20 => ("near.scalar", (*rng.pick(&["7", "\"x\"", "null", "true", " ", "\n", "-", "nul"])).to_string()),
		21 => ("near.notification-no-jsonrpc", (*rng.pick(&["{\"method\":\"m\",\"params\":[1]}", "{\"jsonrpc\":null,\"method\":\"m\",\"params\":[1]}", "{\"jsonrpc\":\"1.0\",\"method\":\"m\"}"])).to_string()),
		22 => ("near.notification-method-wrong-type", (*rng.pick(&["{\"jsonrpc\":\"2.0\",\"method\":1,\"params\":[1]}", "{\"jsonrpc\":\"2.0\",\"method\":null}", "{\"jsonrpc\":\"2.0\",\"params\":[1]}", "{\"jsonrpc\":\"2.0\",\"method\":[\"m\"]}"])).to_string()),
		23 => ("near.notification-member-twice", (*rng.pick(&["{\"jsonrpc\":\"2.0\",\"method\":\"m\",\"method\":\"m\"}", "{\"jsonrpc\":\"2.0\",\"method\":\"m\",\"params\":[1],\"params\":[1]}"])).to_string()),
		24 => ("near.empty-object", (*rng.pick(&["{}", "{ }", "{\"x\":1}"])).to_string()),
		25 => ("near.array-with-bad-element", format!("[{},{}]", obj(&[("jsonrpc", "\"2.0\"".into()), ("method", "\"other\"".into())]), rng.pick(&["1", "{}", "null", "{\"id\":1}", "\"x\"", "{\"jsonrpc\":\"2.0\",\"id\":1.0,\"result\":1}"]))),
		26 => ("near.array-broken", (*rng.pick(&["[", "[{\"jsonrpc\":\"2.0\",\"method\":\"m\"},]", "[,]", "[{\"jsonrpc\":\"2.0\",\"method\":\"m\"}", "[] x"])).to_string()),
		27 => ("near.bad-escape-in-member-name", format!("{{\"jsonrpc\":\"2.0\",\"id\":{id},\"result\":1,\"x\\q\":1}}")),
		_ => ("near.unknown-value-broken", format!("{{\"jsonrpc\":\"2.0\",\"id\":{id},\"result\":1,\"x\":{{\"y\":}}}}")),
	}
}

// ---------------------------------------------------------------------------------------------
// value pools

/// result values of every JSON shape, some deep, some long
pub fn odd_result(rng: &mut Rng) -> String {
	match rng.below(12) {
		0 => "null".into(),
		1 => "[]".into(),
		2 => "{}".into(),
		3 => "\"\"".into(),
		4 => "0".into(),
		5 => "-1.5e-3".into(),
		6 => {
			let d = rng.range(20, 100) as usize;
			format!("{}7{}", "[".repeat(d), "]".repeat(d))
		}
		7 => {
			let d = rng.range(10, 60) as usize;
			format!("{}null{}", "{\"a\":".repeat(d), "}".repeat(d))
		}
		8 => format!("\"{}\"", "x".repeat(rng.range(500, 5000) as usize)),
		9 => format!("[{}]", (0..rng.range(100, 1000)).map(|i| i.to_string()).collect::<Vec<_>>().join(",")),
		10 => "\"\\u00e9\\ud83d\\ude00\\n\\\"q\\\"\"".into(),
		_ => "{\"id\":1,\"result\":2,\"error\":null,\"method\":\"m\"}".into(),
	}
}

/// error objects with unusual but legal contents
pub fn odd_error(rng: &mut Rng) -> String {
	let code = *rng.pick(&["0", "-1", "1", "2147483647", "-2147483648", "-32700", "-32603", "32000"]);
	let msg = *rng.pick(&["\"\"", "\"m\"", "\"\\u00e9 \\\"quoted\\\"\"", "\"Method not found\""]);
	match rng.below(5) {
		0 => format!("{{\"code\":{code},\"message\":{msg}}}"),
		1 => format!("{{\"message\":{msg},\"code\":{code}}}"),
		2 => format!("{{\"code\":{code},\"message\":{msg},\"data\":null}}"),
		3 => format!("{{\"data\":{{\"code\":1,\"message\":\"inner\"}},\"code\":{code},\"message\":{msg}}}"),
		_ => format!("{{\"code\":{code},\"message\":{msg},\"data\":[1,\"two\",[3]]}}"),
	}
}

// ---------------------------------------------------------------------------------------------
// generator helpers shared by the client-family binaries

/// the options word of a case header (may be empty): request timeout small / default / huge, WS pings on / off
pub fn case_opts(rng: &mut Rng, mut count: impl FnMut(&str)) -> String {
	let t = *rng.pick(&[0u64, 60, 3600, 1_000_000_000]);
	let ping = rng.chance(1, 3);
	count(match t {
		0 => "config.timeout.default",
		60 => "config.timeout.small",
		3600 => "config.timeout.hour",
		_ => "config.timeout.huge",
	});
	count(if ping { "config.ping.on" } else { "config.ping.off" });
	match (t, ping) {
		(0, false) => String::new(),
		(0, true) => " ping=1".into(),
		(t, p) => format!(" t={t},ping={}", p as u8),
	}
}

/// `max_concurrent_requests`: 1 / 2 / many
pub fn pick_fcap(rng: &mut Rng, mut count: impl FnMut(&str)) -> u64 {
	let f = *rng.pick(&[1u64, 2, 64, 64, 64]);
	count(match f {
		1 => "config.fcap.1",
		2 => "config.fcap.2",
		_ => "config.fcap.many",
	});
	f
}

/// `cl deliver <hex>` of `text` or of another spelling of it
/// One delivery in four arrives as a binary frame (`ReceivedMessage::Bytes`, trailing word `bin`): the same bytes, but
/// the transport has not checked that they are UTF-8.
pub fn deliver_line(rng: &mut Rng, text: &str, mut count: impl FnMut(&str)) -> String {
	let bin = rng.chance(1, 4);
	count(if bin { "frame.binary" } else { "frame.text" });
	format!("cl deliver {}{}", crate::common::hexs(&maybe_respell(rng, text, count)), if bin { " bin" } else { "" })
}

/// Where a byte-level corruption goes: a legal message of every kind, for the given request id (JSON text) and
/// subscription id (JSON text of a string or a number), with exactly one string value to be damaged.
pub const UTF8_PLACES: usize = 9;

/// A well-formed message (`place` in 0..UTF8_PLACES) in which the bytes of one character inside a JSON string value
/// are replaced by a sequence that is no UTF-8 (a byte 0xFF, a truncated multi-byte sequence, an overlong form, a lone
/// continuation byte, an encoded surrogate, a five-byte form).  Such bytes can only arrive in a binary frame; they are
/// no JSON text, so nothing may be completed or delivered from them — least of all with a "repaired" value.
pub fn utf8_corruption(rng: &mut Rng, place: usize, id: &str, sid: &str, mut count: impl FnMut(&str)) -> Vec<u8> {
	const MARK: char = '\u{e9}';
	let sid_str = if sid.starts_with('"') { format!("\"{}{MARK}\"", sid.trim_matches('"')) } else { format!("\"{MARK}{sid}\"") };
	let id_str = if id.starts_with('"') { format!("\"{}{MARK}\"", id.trim_matches('"')) } else { format!("\"{id}{MARK}\"") };
	let (name, template) = match place {
		0 => ("utf8.in.result", format!("{{\"jsonrpc\":\"2.0\",\"id\":{id},\"result\":\"caf{MARK}!\"}}")),
		1 => ("utf8.in.error-message", format!("{{\"jsonrpc\":\"2.0\",\"id\":{id},\"error\":{{\"code\":-32000,\"message\":\"caf{MARK}!\"}}}}")),
		2 => ("utf8.in.error-data", format!("{{\"jsonrpc\":\"2.0\",\"id\":{id},\"error\":{{\"code\":1,\"message\":\"m\",\"data\":[\"caf{MARK}!\"]}}}}")),
		3 => ("utf8.in.id-string", format!("{{\"jsonrpc\":\"2.0\",\"id\":{id_str},\"result\":1}}")),
		4 => ("utf8.in.method", format!("{{\"jsonrpc\":\"2.0\",\"method\":\"sub{MARK}\",\"params\":{{\"subscription\":{sid},\"result\":1}}}}")),
		5 => ("utf8.in.subscription-id", format!("{{\"jsonrpc\":\"2.0\",\"method\":\"sub\",\"params\":{{\"subscription\":{sid_str},\"result\":1}}}}")),
		6 => ("utf8.in.batch-reply", format!("[{{\"jsonrpc\":\"2.0\",\"id\":{id},\"result\":\"caf{MARK}!\"}}]")),
		7 => ("utf8.in.notification-payload", format!("{{\"jsonrpc\":\"2.0\",\"method\":\"sub\",\"params\":{{\"subscription\":{sid},\"result\":\"caf{MARK}!\"}}}}")),
		_ => ("utf8.in.close-notification", format!("{{\"jsonrpc\":\"2.0\",\"method\":\"sub\",\"params\":{{\"subscription\":{sid},\"error\":\"caf{MARK}!\"}}}}")),
	};
	count(name);
	utf8_damage(rng, &template, count)
}

/// `template` with the bytes of its (single) `é` replaced by an invalid sequence
pub fn utf8_damage(rng: &mut Rng, template: &str, mut count: impl FnMut(&str)) -> Vec<u8> {
	let (how, bad): (&str, &[u8]) = match rng.below(7) {
		0 => ("utf8.byte-ff", &[0xFF]),
		1 => ("utf8.truncated-2", &[0xC3]),
		2 => ("utf8.truncated-3", &[0xE2, 0x82]),
		3 => ("utf8.overlong", &[0xC0, 0xAF]),
		4 => ("utf8.lone-continuation", &[0xA9]),
		5 => ("utf8.surrogate", &[0xED, 0xA0, 0x80]),
		_ => ("utf8.five-byte", &[0xF8, 0x88, 0x80, 0x80, 0x80]),
	};
	count(how);
	let bytes = template.as_bytes();
	let at = bytes.windows(2).position(|w| w == [0xC3, 0xA9]).expect("template has the mark");
	let mut out = bytes[..at].to_vec();
	out.extend_from_slice(bad);
	out.extend_from_slice(&bytes[at + 2..]);
	debug_assert!(std::str::from_utf8(&out).is_err());
	out
}

// ---------------------------------------------------------------------------------------------
// wire-level bookkeeping shared by the oracles

/// Request ids the client has put on the wire and the server has not answered yet.  Judged from the outgoing and
/// incoming texts only: an id is in flight from the request (or batch entry) that bears it until a response bearing
/// it is delivered.
#[derive(Default)]
pub struct InFlight {
	ids: Vec<(String, String)>,
}

impl InFlight {
	/// ids are compared as the batch code compares them: a string that reads as a u64 is that number
	fn key(id: &Value) -> String {
		match id {
			Value::String(s) => s.parse::<u64>().map(|n| n.to_string()).unwrap_or_else(|_| id.to_string()),
			other => other.to_string(),
		}
	}

	fn request_ids(v: &Value) -> Vec<String> {
		match v {
			Value::Array(a) => a.iter().flat_map(Self::request_ids).collect(),
			Value::Object(o) if o.contains_key("method") => o.get("id").map(|i| vec![Self::key(i)]).unwrap_or_default(),
			_ => vec![],
		}
	}

	/// a text the client wrote: every request id in it must differ from every id still in flight (and from the
	/// other ids of the same text)
	pub fn on_wire(&mut self, text: &str) -> Result<(), String> {
		let Ok(v) = serde_json::from_str::<Value>(text) else { return Ok(()) };
		let what = if v.is_array() { "batch" } else { v.get("method").and_then(|m| m.as_str()).unwrap_or("request") }.to_string();
		let mut verdict = Ok(());
		for id in Self::request_ids(&v) {
			if let Some((_, owner)) = self.ids.iter().find(|(x, _)| *x == id) {
				if verdict.is_ok() {
					verdict = Err(format!(
						"the client wrote request id {id} ({what}: {text}) while the {owner} bearing the same id is still in flight: two requests in flight share a wire id"
					));
				}
			}
			self.ids.push((id, format!("{what} request {text}")));
		}
		verdict
	}

	/// a text the server sent: the ids it answers are no longer in flight
	pub fn on_deliver(&mut self, text: &str) {
		let Ok(v) = serde_json::from_str::<Value>(text) else { return };
		let elems: Vec<&Value> = match &v {
			Value::Array(a) => a.iter().collect(),
			other => vec![other],
		};
		for e in elems {
			if msg_kind(e) == MsgKind::Response {
				if let Some(id) = e.get("id") {
					let id = Self::key(id);
					if let Some(pos) = self.ids.iter().position(|(x, _)| *x == id) {
						self.ids.remove(pos);
					}
				}
			}
		}
	}

	pub fn clear(&mut self) {
		self.ids.clear();
	}
}

/// the `for=<op>` tag of a `cl deliver <hex> for=<op>` line: the operation the mock server made this reply for
pub fn reply_tag(words: &[&str]) -> Option<usize> {
	words.iter().skip(3).find_map(|t| t.strip_prefix("for=")).and_then(|n| n.parse().ok())
}

/// Does the incoming text consist of an array with at least one response-shaped element?  The read task hands all
/// responses of an array to the batch code together, so such an array either completes one pending batch or is
/// refused as a whole (the connection is given up) — it can never pass without either, whatever else it carries.
pub fn array_has_response(text: &str) -> bool {
	match serde_json::from_str::<Value>(text) {
		Ok(Value::Array(a)) => a.iter().any(|e| msg_kind(e) == MsgKind::Response),
		_ => false,
	}
}

/// A server push as a single object: subscription notification for `sid` (JSON text of the id) or for nobody, close
/// notification, method notification with or without params.
pub fn push_object(rng: &mut Rng, sids: &[String]) -> String {
	let sid = if sids.is_empty() || rng.chance(1, 4) { "\"nobody\"".to_string() } else { rng.pick(sids).clone() };
	match rng.below(6) {
		0 | 1 => format!("{{\"jsonrpc\":\"2.0\",\"method\":\"sub\",\"params\":{{\"subscription\":{sid},\"result\":{}}}}}", rng.below(1000)),
		2 => format!("{{\"jsonrpc\":\"2.0\",\"method\":\"sub\",\"params\":{{\"subscription\":{sid},\"error\":\"closed\"}}}}"),
		3 => "{\"jsonrpc\":\"2.0\",\"method\":\"other\",\"params\":[1,2]}".to_string(),
		4 => "{\"jsonrpc\":\"2.0\",\"method\":\"m\"}".to_string(),
		_ => format!("{{\"jsonrpc\":\"2.0\",\"method\":\"sub\",\"params\":[{sid},{}]}}", rng.below(1000)),
	}
}

/// `parts` (the elements of a reply array) with 1..3 server pushes inserted at random positions
pub fn mix_pushes(rng: &mut Rng, mut parts: Vec<String>, sids: &[String]) -> Vec<String> {
	for _ in 0..rng.range(1, 3) {
		let pos = rng.below(parts.len() as u64 + 1) as usize;
		let p = push_object(rng, sids);
		parts.insert(pos, p);
	}
	parts
}
