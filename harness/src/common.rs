//! PRNG, hex line protocol, output files, distribution counters.
use std::collections::BTreeMap;
use std::fmt::Write as _;
use std::io::Write as _;

/// SplitMix64 — every random choice of a run derives from one of these.
#[derive(Clone, Debug)]
pub struct Rng(pub u64);
impl Rng {
	pub fn new(seed: u64) -> Self {
		Rng(seed.wrapping_mul(0x9E3779B97F4A7C15).wrapping_add(0x1234_5678_9ABC_DEF1))
	}
	pub fn next(&mut self) -> u64 {
		self.0 = self.0.wrapping_add(0x9E3779B97F4A7C15);
		let mut z = self.0;
		z = (z ^ (z >> 30)).wrapping_mul(0xBF58476D1CE4E5B9);
		z = (z ^ (z >> 27)).wrapping_mul(0x94D049BB133111EB);
		z ^ (z >> 31)
	}
	pub fn below(&mut self, n: u64) -> u64 {
		if n == 0 { 0 } else { self.next() % n }
	}
	pub fn range(&mut self, lo: u64, hi_incl: u64) -> u64 {
		lo + self.below(hi_incl - lo + 1)
	}
	pub fn chance(&mut self, num: u64, den: u64) -> bool {
		self.below(den) < num
	}
	pub fn pick<'a, T>(&mut self, xs: &'a [T]) -> &'a T {
		&xs[self.below(xs.len() as u64) as usize]
	}
	pub fn fork(&mut self) -> Rng {
		Rng(self.next())
	}
}

pub fn hex(s: &[u8]) -> String {
	if s.is_empty() {
		return "-".to_string();
	}
	let mut o = String::with_capacity(s.len() * 2);
	for b in s {
		write!(o, "{:02x}", b).unwrap();
	}
	o
}
pub fn hexs(s: &str) -> String {
	hex(s.as_bytes())
}
pub fn unhex(s: &str) -> Vec<u8> {
	if s == "-" {
		return vec![];
	}
	(0..s.len() / 2).map(|i| u8::from_str_radix(&s[2 * i..2 * i + 2], 16).unwrap()).collect()
}

/// Command-line arguments common to all harness binaries.
pub struct Args {
	pub tier: String,
	pub seed: u64,
	pub out: String,
	pub replay: Option<String>,
	pub cases: Option<u64>,
}
pub fn args() -> Args {
	let mut a = Args { tier: "quick".into(), seed: 1, out: ".".into(), replay: None, cases: None };
	let v: Vec<String> = std::env::args().collect();
	let mut i = 1;
	while i < v.len() {
		match v[i].as_str() {
			"--tier" => {
				a.tier = v[i + 1].clone();
				i += 1
			}
			"--seed" => {
				a.seed = v[i + 1].parse().unwrap_or(1);
				i += 1
			}
			"--out" => {
				a.out = v[i + 1].clone();
				i += 1
			}
			"--replay" => {
				a.replay = Some(v[i + 1].clone());
				i += 1
			}
			"--cases" => {
				a.cases = v[i + 1].parse().ok();
				i += 1
			}
			_ => {}
		}
		i += 1;
	}
	a
}

/// Collects the three line streams of one run plus statistics.
///
/// * `ops`    – one operation per line, fed to the Lean driver
/// * `impl_`  – what the real implementation produced for that line (canonical)
/// * `oracle` – verdict of the model-independent oracle: `ok` or `FAIL <reason>`
pub struct Out {
	pub ops: Vec<String>,
	pub impl_: Vec<String>,
	pub oracle: Vec<String>,
	pub dist: BTreeMap<String, u64>,
	pub nontrivial: std::collections::BTreeSet<u64>,
	pub samples: Vec<String>,
	pub notes: Vec<String>,
}
impl Default for Out {
	fn default() -> Self {
		Self::new()
	}
}
impl Out {
	pub fn new() -> Self {
		Out {
			ops: vec![],
			impl_: vec![],
			oracle: vec![],
			dist: BTreeMap::new(),
			nontrivial: Default::default(),
			samples: vec![],
			notes: vec![],
		}
	}
	pub fn count(&mut self, key: &str) {
		*self.dist.entry(key.to_string()).or_insert(0) += 1;
	}
	/// Record one line. `nontrivial` marks the case as counting towards `distinct_nontrivial`
	/// (distinctness by hash of the op line).
	pub fn line(&mut self, op: String, impl_out: String, oracle: Result<(), String>, nontrivial: bool) {
		if nontrivial {
			self.nontrivial.insert(fxhash(op.as_bytes()));
		}
		if self.samples.len() < 6 && (self.ops.len() % 97 == 0) {
			self.samples.push(format!("{op} => {impl_out}"));
		}
		self.ops.push(op);
		self.impl_.push(impl_out);
		self.oracle.push(match oracle {
			Ok(()) => "ok".into(),
			// an error text of the form "KF <key> <reason>" is a failure that the harness's matcher
			// attributes to the known-finding key <key>; ./check accepts it only if the key is listed
			Err(e) if e.starts_with("KF ") => e.replace(['\n', '\r'], " "),
			Err(e) => format!("FAIL {}", e.replace(['\n', '\r'], " ")),
		});
	}
	pub fn write(&self, dir: &str) {
		std::fs::create_dir_all(dir).unwrap();
		let w = |name: &str, lines: &Vec<String>| {
			let mut f = std::io::BufWriter::new(std::fs::File::create(format!("{dir}/{name}")).unwrap());
			for l in lines {
				writeln!(f, "{l}").unwrap();
			}
		};
		w("ops.txt", &self.ops);
		w("impl.txt", &self.impl_);
		w("oracle.txt", &self.oracle);
		let stats = serde_json::json!({
			"evaluations": self.ops.len(),
			"distinct_nontrivial": self.nontrivial.len(),
			"distribution": self.dist,
			"samples": self.samples,
			"notes": self.notes,
		});
		std::fs::write(format!("{dir}/stats.json"), serde_json::to_string_pretty(&stats).unwrap()).unwrap();
	}
}

pub fn fxhash(b: &[u8]) -> u64 {
	let mut h: u64 = 0xcbf29ce484222325;
	for x in b {
		h ^= *x as u64;
		h = h.wrapping_mul(0x100000001b3);
	}
	h
}

/// Read a replay/corpus file: lines starting with `#` are comments, others are op lines.
pub fn read_case_lines(path: &str) -> Vec<String> {
	std::fs::read_to_string(path)
		.unwrap_or_default()
		.lines()
		.filter(|l| !l.trim().is_empty() && !l.starts_with('#'))
		.map(|l| l.to_string())
		.collect()
}

/// All corpus lines for a property (`/verif/corpus/<id>/*.case`), sorted by file name.
pub fn corpus_lines(id: &str) -> Vec<String> {
	let dir = format!("/verif/corpus/{id}");
	let mut files: Vec<_> = match std::fs::read_dir(&dir) {
		Ok(rd) => rd.filter_map(|e| e.ok()).map(|e| e.path()).filter(|p| p.extension().map(|x| x == "case").unwrap_or(false)).collect(),
		Err(_) => vec![],
	};
	files.sort();
	files.iter().flat_map(|p| read_case_lines(p.to_str().unwrap())).collect()
}
