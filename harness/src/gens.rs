//! Generators shared by the families: JSON texts (grammar-based, with interior whitespace, every
//! escape form, numbers at the u64/i64/f64 edges), Rust strings, ids, and structural mutations.
use crate::common::Rng;

pub const WS: [&str; 4] = [" ", "\t", "\n", "\r"];

pub fn ws(rng: &mut Rng) -> String {
	match rng.below(10) {
		0..=5 => String::new(),
		6..=7 => " ".into(),
		8 => (*rng.pick(&WS)).to_string(),
		_ => {
			let n = rng.range(1, 4);
			(0..n).map(|_| *rng.pick(&WS)).collect()
		}
	}
}

/// Interesting characters for string contents.
pub fn gen_char(rng: &mut Rng) -> char {
	match rng.below(20) {
		0 => '"',
		1 => '\\',
		2 => '/',
		3 => *rng.pick(&['\u{8}', '\u{c}', '\n', '\r', '\t']),
		4 => char::from_u32(rng.below(32) as u32).unwrap(),
		5 => *rng.pick(&['[', ']', '{', '}', ',', ':']),
		6 => *rng.pick(&['é', 'ß', 'ж', '\u{7f}', '\u{80}', '\u{a0}', '\u{7ff}']),
		7 => *rng.pick(&['€', '中', '\u{800}', '\u{ffff}', '\u{2028}', '\u{d7ff}', '\u{e000}']),
		8 => *rng.pick(&['😀', '\u{10000}', '\u{10ffff}', '𝄞']),
		9 => ' ',
		_ => (b'a' + rng.below(26) as u8) as char,
	}
}

pub fn gen_str_content(rng: &mut Rng) -> String {
	let n = match rng.below(10) {
		0 => 0,
		1..=6 => rng.range(1, 6),
		_ => rng.range(6, 20),
	};
	(0..n).map(|_| gen_char(rng)).collect()
}

/// A JSON string literal spelling of `s`, choosing among equivalent escape forms at random.
pub fn spell_string(rng: &mut Rng, s: &str) -> String {
	let mut o = String::from("\"");
	for c in s.chars() {
		let cp = c as u32;
		let force = matches!(c, '"' | '\\') || cp < 0x20;
		let style = if force { rng.below(2) } else { rng.below(12) + 2 };
		match (c, style) {
			('"', 0) => o.push_str("\\\""),
			('\\', 0) => o.push_str("\\\\"),
			('\u{8}', 0) => o.push_str("\\b"),
			('\u{c}', 0) => o.push_str("\\f"),
			('\n', 0) => o.push_str("\\n"),
			('\r', 0) => o.push_str("\\r"),
			('\t', 0) => o.push_str("\\t"),
			('/', 2) => o.push_str("\\/"),
			(_, 0) | (_, 1) | (_, 3) => {
				// \uXXXX form (surrogate pair for astral)
				if cp >= 0x10000 {
					let v = cp - 0x10000;
					let hi = 0xD800 + (v >> 10);
					let lo = 0xDC00 + (v & 0x3ff);
					if rng.chance(1, 2) {
						o.push_str(&format!("\\u{:04x}\\u{:04X}", hi, lo));
					} else {
						o.push_str(&format!("\\u{:04X}\\u{:04x}", hi, lo));
					}
				} else if rng.chance(1, 2) {
					o.push_str(&format!("\\u{:04x}", cp));
				} else {
					o.push_str(&format!("\\u{:04X}", cp));
				}
			}
			_ => o.push(c),
		}
	}
	o.push('"');
	o
}

pub fn gen_number(rng: &mut Rng) -> String {
	const EDGE: [&str; 32] = [
		"0", "-0", "1", "-1", "9", "10", "255", "256", "4294967295", "4294967296", "9007199254740991", "9007199254740992",
		"9007199254740993", "9223372036854775807", "9223372036854775808", "-9223372036854775808",
		"-9223372036854775809", "18446744073709551615", "18446744073709551616", "2147483647", "2147483648",
		"-2147483648", "-2147483649", "1.0", "0.5", "-0.0", "1e2", "1E+2", "1e-2", "1.5e300", "1e400",
		"123456789012345678901234567890",
	];
	match rng.below(4) {
		0 | 1 => (*rng.pick(&EDGE)).to_string(),
		2 => rng.below(1000).to_string(),
		_ => {
			let mut s = String::new();
			if rng.chance(1, 3) {
				s.push('-');
			}
			s.push_str(&rng.below(100000).to_string());
			if rng.chance(1, 3) {
				s.push('.');
				s.push_str(&rng.below(1000).to_string());
			}
			if rng.chance(1, 4) {
				s.push(*rng.pick(&['e', 'E']));
				if rng.chance(1, 2) {
					s.push(*rng.pick(&['+', '-']));
				}
				s.push_str(&rng.below(20).to_string());
			}
			s
		}
	}
}

/// Grammar-based JSON value text with optional interior whitespace.
pub fn gen_json(rng: &mut Rng, depth: u32) -> String {
	let leaf = depth == 0 || rng.chance(2, 5);
	if leaf {
		match rng.below(8) {
			0 => "null".into(),
			1 => "true".into(),
			2 => "false".into(),
			3 | 4 => gen_number(rng),
			_ => {
				let s = gen_str_content(rng);
				spell_string(rng, &s)
			}
		}
	} else if rng.chance(1, 2) {
		let n = match rng.below(6) {
			0 => 0,
			1 | 2 => 1,
			_ => rng.range(2, 4),
		};
		let mut o = String::from("[");
		o.push_str(&ws(rng));
		for i in 0..n {
			if i > 0 {
				o.push(',');
				o.push_str(&ws(rng));
			}
			o.push_str(&gen_json(rng, depth - 1));
			o.push_str(&ws(rng));
		}
		o.push(']');
		o
	} else {
		let n = match rng.below(6) {
			0 => 0,
			1 | 2 => 1,
			_ => rng.range(2, 4),
		};
		let mut o = String::from("{");
		o.push_str(&ws(rng));
		for i in 0..n {
			if i > 0 {
				o.push(',');
				o.push_str(&ws(rng));
			}
			let k = if rng.chance(1, 5) { "k".to_string() } else { gen_str_content(rng) };
			o.push_str(&spell_string(rng, &k));
			o.push_str(&ws(rng));
			o.push(':');
			o.push_str(&ws(rng));
			o.push_str(&gen_json(rng, depth - 1));
			o.push_str(&ws(rng));
		}
		o.push('}');
		o
	}
}

/// Compact JSON value (no interior whitespace outside strings) — what serde_json emits.
pub fn gen_json_compact(rng: &mut Rng, depth: u32) -> String {
	let v: serde_json::Value = loop {
		let t = gen_json(rng, depth);
		if let Ok(v) = serde_json::from_str::<serde_json::Value>(&t) {
			break v;
		}
	};
	serde_json::to_string(&v).unwrap()
}

/// One structural / byte-level mutation that keeps the text valid UTF-8.
pub fn mutate(rng: &mut Rng, s: &str) -> String {
	let chars: Vec<char> = s.chars().collect();
	if chars.is_empty() {
		return "x".into();
	}
	let i = rng.below(chars.len() as u64) as usize;
	let mut c = chars.clone();
	const TOK: [char; 22] =
		['{', '}', '[', ']', ',', ':', '"', '\\', ' ', '\n', '0', '1', '-', '.', 'e', 'n', 't', 'u', 'x', '\u{c}', '\u{1}', 'é'];
	match rng.below(7) {
		0 => {
			c.remove(i);
		}
		1 => c.insert(i, *rng.pick(&TOK)),
		2 => c[i] = *rng.pick(&TOK),
		3 => {
			let ch = c[i];
			c.insert(i, ch);
		}
		4 => c.truncate(i),
		5 => {
			let j = rng.below(chars.len() as u64) as usize;
			c.swap(i, j);
		}
		_ => {
			// duplicate a slice
			let j = (i + rng.range(1, 6) as usize).min(chars.len());
			let slice: Vec<char> = chars[i..j].to_vec();
			for (k, ch) in slice.into_iter().enumerate() {
				c.insert(j + k, ch);
			}
		}
	}
	c.into_iter().collect()
}

#[derive(Clone, Debug, PartialEq)]
pub enum GId {
	Null,
	Num(u64),
	Str(String),
}

pub fn gen_id(rng: &mut Rng) -> GId {
	const NUMS: [u64; 12] = [
		0,
		1,
		2,
		7,
		255,
		4294967296,
		9007199254740991,
		9007199254740993,
		9223372036854775807,
		9223372036854775808,
		18446744073709551614,
		18446744073709551615,
	];
	match rng.below(10) {
		0 => GId::Null,
		1..=3 => GId::Num(*rng.pick(&NUMS)),
		4..=5 => GId::Num(rng.next() >> rng.below(64)),
		6 => GId::Str(rng.below(100).to_string()),
		_ => GId::Str(gen_str_content(rng)),
	}
}

impl GId {
	pub fn repr(&self) -> String {
		match self {
			GId::Null => "null".into(),
			GId::Num(n) => format!("n:{n}"),
			GId::Str(s) => format!("s:{}", crate::common::hexs(s)),
		}
	}
	pub fn to_id(&self) -> jsonrpsee_types::Id<'static> {
		match self {
			GId::Null => jsonrpsee_types::Id::Null,
			GId::Num(n) => jsonrpsee_types::Id::Number(*n),
			GId::Str(s) => jsonrpsee_types::Id::Str(s.clone().into()),
		}
	}
	pub fn from_id(id: &jsonrpsee_types::Id<'_>) -> GId {
		match id {
			jsonrpsee_types::Id::Null => GId::Null,
			jsonrpsee_types::Id::Number(n) => GId::Num(*n),
			jsonrpsee_types::Id::Str(s) => GId::Str(s.to_string()),
		}
	}
	/// a JSON spelling of this id
	pub fn spell(&self, rng: &mut Rng) -> String {
		match self {
			GId::Null => "null".into(),
			GId::Num(n) => n.to_string(),
			GId::Str(s) => spell_string(rng, s),
		}
	}
}

/// Texts in the id position that are *outside* the id domain or malformed.
pub fn gen_non_id(rng: &mut Rng) -> String {
	const BAD: [&str; 16] = [
		"-1", "1.0", "1e2", "-0", "18446744073709551616", "true", "false", "[]", "[1]", "{}", "{\"a\":1}", "\"\\ud800\"",
		"\"\\udc00x\"", "01", "\"\\x\"", "nul",
	];
	(*rng.pick(&BAD)).to_string()
}
