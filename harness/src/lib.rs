//! Shared helpers for the correspondence harness binaries (one binary per property family).
pub mod common;
pub mod gens;
pub mod rpc_env;
pub mod subs_env;
pub mod client_mock;
pub mod client_faults;
pub mod server_env;
