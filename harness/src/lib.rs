//! Shared helpers for the correspondence harness binaries (one binary per property family).
//! `common` and `gens` are used by every binary.  Each family's environment module is behind a
//! cargo feature that only that family's binaries require, so that a change in /repo (or an edit
//! here) that stops one family's module from compiling cannot take the other families' checks down.
pub mod common;
pub mod gens;
#[cfg(feature = "fam-server")]
pub mod rpc_env;
#[cfg(feature = "fam-subs")]
pub mod subs_env;
#[cfg(feature = "fam-client")]
pub mod client_faults;
#[cfg(feature = "fam-client")]
pub mod client_mock;
#[cfg(feature = "fam-client")]
pub mod client_spell;
#[cfg(feature = "fam-conn")]
pub mod server_env;
