//! In-process server environment for the `server` family (C01 C02 C07 C08 C19):
//! a real `TowerService` (same assembly as `Server::start`) called directly for HTTP with a
//! hand-made chunked body, and served over a `tokio::io::duplex` pair for WebSocket with a raw
//! soketto peer.  Handlers are fixed and mirrored in `lean/JrpcVerif/Model/ServerMsg.lean`
//! (`handlerOutcome`).  Run on a current-thread runtime with the clock paused: `quiesce()` returns
//! when every task is idle.
use std::sync::atomic::{AtomicU64, Ordering};
use std::sync::{Arc, Mutex};

use bytes::Bytes;
use futures_util::io::{BufReader, BufWriter};
use http_body_util::BodyExt;
use jsonrpsee::server::{BatchRequestConfig, RpcModule, Server, ServerConfig, ServerHandle, stop_channel};
use jsonrpsee::types::{ErrorObject, ErrorObjectOwned, SubscriptionId};
use jsonrpsee_core::traits::IdProvider;
use serde_json::value::RawValue;
use tokio_util::compat::TokioAsyncReadCompatExt;
use tower::Service;

pub type Log = Arc<Mutex<Vec<(String, String)>>>;

#[derive(Debug)]
pub struct CounterIds(pub AtomicU64);
impl IdProvider for CounterIds {
	fn next_id(&self) -> SubscriptionId<'static> {
		SubscriptionId::Num(self.0.fetch_add(1, Ordering::SeqCst))
	}
}

#[derive(Clone, Debug)]
pub struct EnvCfg {
	pub max_req: u32,
	pub max_resp: u32,
	pub batch: BatchRequestConfig,
	pub max_subs: u32,
}

fn ptxt(p: &jsonrpsee::types::Params<'_>) -> String {
	p.as_str().map(|s| s.to_string()).unwrap_or_else(|| "null".into())
}

fn sum(p: &jsonrpsee::types::Params<'_>) -> Result<u64, ErrorObjectOwned> {
	let mut s = p.sequence();
	let a: u64 = s.next()?;
	let b: u64 = s.next()?;
	a.checked_add(b).ok_or_else(|| ErrorObject::owned(-32000, "overflow", None::<()>))
}

/// The fixed registry (mirrored by the Lean model).
pub fn module(log: Log) -> RpcModule<()> {
	let mut m = RpcModule::new(());
	let l = log.clone();
	m.register_method("echo", move |p, _, _| {
		l.lock().unwrap().push(("echo".into(), ptxt(&p)));
		p.parse::<Box<RawValue>>()
	})
	.unwrap();
	let l = log.clone();
	m.register_method("rpc.e", move |p, _, _| {
		l.lock().unwrap().push(("rpc.e".into(), ptxt(&p)));
		p.parse::<Box<RawValue>>()
	})
	.unwrap();
	// a result that serde_json refuses (a map whose keys are no strings): the library answers Internal error
	let l = log.clone();
	m.register_method("badser", move |p, _, _| {
		l.lock().unwrap().push(("badser".into(), ptxt(&p)));
		let mut r = std::collections::BTreeMap::new();
		r.insert((1u8, 2u8), 3u8);
		Some(r)
	})
	.unwrap();
	let l = log.clone();
	m.register_async_method("a_echo", move |p, _, _| {
		let l = l.clone();
		async move {
			l.lock().unwrap().push(("a_echo".into(), ptxt(&p)));
			tokio::task::yield_now().await;
			p.parse::<Box<RawValue>>()
		}
	})
	.unwrap();
	let l = log.clone();
	m.register_blocking_method("blk_echo", move |p, _, _| {
		l.lock().unwrap().push(("blk_echo".into(), ptxt(&p)));
		p.parse::<Box<RawValue>>()
	})
	.unwrap();
	let l = log.clone();
	m.register_method("sum", move |p, _, _| {
		l.lock().unwrap().push(("sum".into(), ptxt(&p)));
		sum(&p)
	})
	.unwrap();
	let l = log.clone();
	m.register_async_method("a_sum", move |p, _, _| {
		let l = l.clone();
		async move {
			l.lock().unwrap().push(("a_sum".into(), ptxt(&p)));
			sum(&p)
		}
	})
	.unwrap();
	let l = log.clone();
	m.register_method("fail", move |p, _, _| {
		l.lock().unwrap().push(("fail".into(), ptxt(&p)));
		let data: Option<Box<RawValue>> = p.as_str().map(|s| RawValue::from_string(s.to_string()).unwrap());
		Err::<(), _>(ErrorObject::owned(7, "custom", data))
	})
	.unwrap();
	let l = log.clone();
	m.register_method("str", move |p, _, _| {
		l.lock().unwrap().push(("str".into(), ptxt(&p)));
		let n: u64 = p.one()?;
		if n > 100000 {
			return Err(ErrorObject::owned(-32602, "Invalid params", None::<()>));
		}
		Ok::<_, ErrorObjectOwned>("a".repeat(n as usize))
	})
	.unwrap();
	let l = log.clone();
	m.register_method("esc", move |p, _, _| {
		l.lock().unwrap().push(("esc".into(), ptxt(&p)));
		"\"\\\n\u{1}é😀".to_string()
	})
	.unwrap();
	let l = log.clone();
	m.register_blocking_method("blk_boom", move |p, _, _| {
		l.lock().unwrap().push(("blk_boom".into(), ptxt(&p)));
		if true {
			panic!("boom");
		}
		0u8
	})
	.unwrap();
	let l = log.clone();
	m.register_subscription("sub", "sub_n", "unsub", move |p, pending, _, _| {
		let l = l.clone();
		async move {
			l.lock().unwrap().push(("sub".into(), ptxt(&p)));
			let _sink = pending.accept().await;
		}
	})
	.unwrap();
	m
}

pub type Svc = jsonrpsee::server::TowerService<tower::layer::util::Identity, tower::layer::util::Identity>;

/// How the server is assembled: the default tower service (what `Server::start` uses), or the
/// low-level API (`ws::connect` + `http::call_with_service_builder` inside a user-written service).
#[derive(Clone, Copy, Debug, PartialEq)]
pub enum Assembly {
	Tower,
	LowLevel,
}

pub struct Env {
	pub cfg: EnvCfg,
	pub log: Log,
	pub svc: Svc,
	pub handle: ServerHandle,
	pub ids: Arc<CounterIds>,
	pub assembly: Assembly,
	server_cfg: ServerConfig,
	stop: jsonrpsee::server::StopHandle,
	methods: jsonrpsee::server::Methods,
	guard: jsonrpsee::server::ConnectionGuard,
	next_conn: Arc<std::sync::atomic::AtomicU32>,
	next_http: std::sync::atomic::AtomicUsize,
}

#[derive(Debug)]
struct SharedIds(Arc<CounterIds>);
impl IdProvider for SharedIds {
	fn next_id(&self) -> SubscriptionId<'static> {
		self.0.next_id()
	}
}

impl Env {
	pub fn new(cfg: EnvCfg) -> Env {
		Self::with_assembly(cfg, Assembly::Tower)
	}

	pub fn with_assembly(cfg: EnvCfg, assembly: Assembly) -> Env {
		Self::with_opts(cfg, assembly, None)
	}

	/// `msg_buf`: `ServerConfig::set_message_buffer_capacity` (per-connection send queue), default if `None`.
	pub fn with_opts(cfg: EnvCfg, assembly: Assembly, msg_buf: Option<u32>) -> Env {
		let log: Log = Arc::new(Mutex::new(vec![]));
		let ids = Arc::new(CounterIds(AtomicU64::new(0)));
		let server_cfg = ServerConfig::builder()
			.max_request_body_size(cfg.max_req)
			.max_response_body_size(cfg.max_resp)
			.set_batch_request_config(cfg.batch)
			.max_subscriptions_per_connection(cfg.max_subs)
			.set_id_provider(SharedIds(ids.clone()));
		let server_cfg = match msg_buf {
			Some(n) => server_cfg.set_message_buffer_capacity(n),
			None => server_cfg,
		}
		.build();
		let (stop, handle) = stop_channel();
		let m = module(log.clone());
		let methods: jsonrpsee::server::Methods = m.clone().into();
		let svc = Server::builder().set_config(server_cfg.clone()).to_service_builder().build(m, stop.clone());
		Env {
			cfg,
			log,
			svc,
			handle,
			ids,
			assembly,
			server_cfg,
			stop,
			methods,
			guard: jsonrpsee::server::ConnectionGuard::new(1000),
			next_conn: Default::default(),
			next_http: Default::default(),
		}
	}

	fn conn_state(&self) -> jsonrpsee::server::ConnectionState {
		let permit = self.guard.try_acquire().expect("guard has room");
		jsonrpsee::server::ConnectionState::new(self.stop.clone(), self.next_conn.fetch_add(1, Ordering::SeqCst), permit)
	}

	pub fn take_log(&self) -> Vec<(String, String)> {
		std::mem::take(&mut *self.log.lock().unwrap())
	}

	/// One HTTP request with an explicit chunk sequence as body.
	pub async fn http(&mut self, method: &str, headers: &[(String, Vec<u8>)], chunks: Vec<Vec<u8>>) -> (u16, Vec<u8>) {
		let frames: Vec<Result<http_body::Frame<Bytes>, std::convert::Infallible>> =
			chunks.into_iter().map(|c| Ok(http_body::Frame::data(Bytes::from(c)))).collect();
		let body = http_body_util::StreamBody::new(futures_util::stream::iter(frames));
		// what the answer must not depend on rotates from request to request: protocol version, path, query
		let seq = self.next_http.fetch_add(1, Ordering::SeqCst);
		let version = [http::Version::HTTP_11, http::Version::HTTP_10, http::Version::HTTP_2, http::Version::HTTP_11, http::Version::HTTP_3][seq % 5];
		let uri = ["/", "/rpc", "/a/b?x=1", "/", "/?jsonrpc=2.0&id=1", "//", "/%7B%7D"][seq % 7];
		let mut b = http::Request::builder().method(method).uri(uri).version(version);
		for (k, v) in headers {
			b = b.header(k.as_str(), http::HeaderValue::from_bytes(v).unwrap());
		}
		let req = b.body(body).unwrap();
		let rp = match self.assembly {
			Assembly::Tower => self.svc.call(req).await.unwrap(),
			Assembly::LowLevel => {
				jsonrpsee::server::http::call_with_service_builder(
					req,
					self.server_cfg.clone(),
					self.conn_state(),
					self.methods.clone(),
					jsonrpsee::server::middleware::rpc::RpcServiceBuilder::new(),
				)
				.await
			}
		};
		let status = rp.status().as_u16();
		let body = rp.into_body().collect().await.map(|c| c.to_bytes().to_vec()).unwrap_or_default();
		(status, body)
	}

	/// Open a WebSocket session over an in-memory duplex.
	pub async fn ws(&self) -> WsPeer {
		self.ws_opts(1 << 22, false).await
	}

	/// `dup`: capacity of each direction of the in-memory pipe; `gated`: the peer does not read
	/// anything the server sends until `WsPeer::release` is called (back-pressure on the server's
	/// send queue).
	pub async fn ws_opts(&self, dup: usize, gated: bool) -> WsPeer {
		let (client, server) = tokio::io::duplex(dup);
		let stopped = self.handle.clone();
		match self.assembly {
			Assembly::Tower => {
				let svc = self.svc.clone();
				tokio::spawn(async move {
					let _ = jsonrpsee::server::serve_with_graceful_shutdown(server, svc, async move { stopped.stopped().await }).await;
				});
			}
			Assembly::LowLevel => {
				let server_cfg = self.server_cfg.clone();
				let methods = self.methods.clone();
				let stop = self.stop.clone();
				let guard = self.guard.clone();
				let next_conn = self.next_conn.clone();
				let svc = tower::service_fn(move |req: http::Request<hyper::body::Incoming>| {
					let server_cfg = server_cfg.clone();
					let methods = methods.clone();
					let permit = guard.try_acquire().expect("guard has room");
					let conn = jsonrpsee::server::ConnectionState::new(stop.clone(), next_conn.fetch_add(1, Ordering::SeqCst), permit);
					async move {
						if jsonrpsee::server::ws::is_upgrade_request(&req) {
							match jsonrpsee::server::ws::connect(req, server_cfg, methods, conn, jsonrpsee::server::middleware::rpc::RpcServiceBuilder::new()).await {
								Ok((rp, conn_fut)) => {
									tokio::spawn(conn_fut);
									Ok::<_, std::convert::Infallible>(rp)
								}
								Err(rp) => Ok(rp),
							}
						} else {
							Ok(jsonrpsee::server::http::call_with_service_builder(req, server_cfg, conn, methods, jsonrpsee::server::middleware::rpc::RpcServiceBuilder::new()).await)
						}
					}
				});
				tokio::spawn(async move {
					let _ = jsonrpsee::server::serve_with_graceful_shutdown(server, svc, async move { stopped.stopped().await }).await;
				});
			}
		}
		let mut c = soketto::handshake::Client::new(BufReader::new(BufWriter::new(client.compat())), "localhost", "/");
		match c.handshake().await.unwrap() {
			soketto::handshake::ServerResponse::Accepted { .. } => {}
			r => panic!("ws handshake refused: {r:?}"),
		}
		let (sender, mut receiver) = c.into_builder().finish();
		let frames: Arc<Mutex<Vec<Vec<u8>>>> = Arc::new(Mutex::new(vec![]));
		let closed = Arc::new(Mutex::new(false));
		let f2 = frames.clone();
		let c2 = closed.clone();
		let gate = Arc::new(tokio::sync::Semaphore::new(if gated { 0 } else { 1 }));
		let g2 = gate.clone();
		tokio::spawn(async move {
			let _ = g2.acquire().await;
			loop {
				let mut data = Vec::new();
				match receiver.receive_data(&mut data).await {
					Ok(_) => f2.lock().unwrap().push(data),
					Err(_) => {
						*c2.lock().unwrap() = true;
						break;
					}
				}
			}
		});
		WsPeer { sender, frames, closed, gate }
	}
}

pub struct WsPeer {
	sender: soketto::Sender<BufReader<BufWriter<tokio_util::compat::Compat<tokio::io::DuplexStream>>>>,
	frames: Arc<Mutex<Vec<Vec<u8>>>>,
	closed: Arc<Mutex<bool>>,
	gate: Arc<tokio::sync::Semaphore>,
}

impl WsPeer {
	/// `false`: the message could not be written (the server has closed the connection)
	pub async fn send(&mut self, data: &[u8], binary: bool) -> bool {
		let r = if binary || std::str::from_utf8(data).is_err() {
			self.sender.send_binary(data).await
		} else {
			self.sender.send_text(std::str::from_utf8(data).unwrap()).await
		};
		let ok = r.is_ok() && self.sender.flush().await.is_ok();
		if !ok {
			*self.closed.lock().unwrap() = true;
		}
		ok
	}
	/// let a gated peer start reading
	pub fn release(&self) {
		self.gate.add_permits(1);
	}
	pub fn take(&self) -> Vec<Vec<u8>> {
		std::mem::take(&mut *self.frames.lock().unwrap())
	}
	pub fn is_closed(&self) -> bool {
		*self.closed.lock().unwrap()
	}
}

/// Quiescence barrier: with the paused clock a sleep only completes once every task is idle
/// (and no `spawn_blocking` job is outstanding).
pub async fn quiesce() {
	for _ in 0..3 {
		tokio::time::sleep(std::time::Duration::from_millis(1)).await;
	}
}

/// Canonical form shared with the model: the `data` member of a -32602 error (serde's message
/// text) is dropped; everything else byte-for-byte.
pub fn canon_resp(t: &str) -> String {
	use jsonrpsee::types::{Response, ResponsePayload};
	fn one(t: &str) -> Option<String> {
		let r: Response<&RawValue> = serde_json::from_str(t).ok()?;
		match &r.payload {
			ResponsePayload::Error(e) if e.code() == -32602 && e.data().is_some() => {
				let e2 = ErrorObject::owned(e.code(), e.message().to_string(), None::<()>);
				let r2: Response<()> = Response::new(ResponsePayload::error(e2), r.id.clone());
				Some(serde_json::to_string(&r2).unwrap())
			}
			_ => None,
		}
	}
	if let Some(x) = one(t) {
		return x;
	}
	if t.starts_with('[') {
		if let Ok(v) = serde_json::from_str::<Vec<&RawValue>>(t) {
			if v.iter().any(|e| one(e.get()).is_some()) {
				let parts: Vec<String> = v.iter().map(|e| one(e.get()).unwrap_or_else(|| e.get().to_string())).collect();
				return format!("[{}]", parts.join(","));
			}
		}
	}
	t.to_string()
}

pub fn rt() -> tokio::runtime::Runtime {
	tokio::runtime::Builder::new_current_thread().enable_all().start_paused(true).build().unwrap()
}
