//! Shared environment of the server connection-lifecycle harnesses (C11, C10): a REAL jsonrpsee
//! server on loopback TCP (either `Server::start` or the tower-service assembly with an own
//! accept loop + `serve_with_graceful_shutdown`), harness-gated handlers, an HTTP middleware that
//! can hold / drop the `101 Switching Protocols` answer of an upgrade request, a raw HTTP/1.1
//! client and a minimal WebSocket frame codec (so that every byte, close and reset on the wire is
//! decided by the harness).
//!
//! Every wait is "until the expected observable or a generous timeout" (`WAIT`), never a fixed
//! sleep used as synchronisation.
use std::collections::{HashMap, HashSet, VecDeque};
use std::future::Future;
use std::net::SocketAddr;
use std::pin::Pin;
use std::sync::{Arc, Mutex};
use std::task::{Context, Poll};
use std::time::{Duration, Instant};

use jsonrpsee::core::BoxError;
use jsonrpsee::server::{
	ConnectionGuard, ConnectionState, HttpRequest, HttpResponse, PingConfig, RpcModule, Server, ServerConfig, ServerHandle, SubscriptionMessage,
	serve_with_graceful_shutdown, stop_channel,
};
use jsonrpsee::server::middleware::rpc::RpcServiceBuilder;
use jsonrpsee::Extensions;
use tokio::io::{AsyncReadExt, AsyncWriteExt};
use tokio::net::{TcpListener, TcpStream};
use tokio::sync::{mpsc, oneshot};

/// Upper bound of every wait for an expected observable.
pub const WAIT: Duration = Duration::from_secs(5);

/// What handlers and the middleware report to the harness (in program order of one
/// current-thread runtime, so the order of these events is the logical order of the run).
#[derive(Debug)]
pub enum Ev {
	/// `guard` method: a clone of the server's connection guard taken from the request extensions
	Guard(ConnectionGuard),
	/// `hold` handler entered; `avail` = `available_connections()` read through the extension
	Started { tag: u64, avail: Option<usize> },
	/// `hold` handler returned normally
	Finished { tag: u64 },
	/// `hold` handler future was dropped before it returned
	Cancelled { tag: u64 },
	/// the middleware holds the 101 answer of the upgrade request tagged `tag`
	Held { tag: u64 },
	/// subscription `sub` accepted (first item queued)
	SubAccepted { tag: u64 },
	/// subscription task ended (sink closed)
	SubClosed { tag: u64 },
}

pub struct Shared {
	ev_tx: mpsc::UnboundedSender<Ev>,
	gates: Mutex<HashMap<u64, oneshot::Sender<()>>>,
	pre_released: Mutex<HashSet<u64>>,
	holds: Mutex<HashMap<u64, oneshot::Sender<bool>>>,
	/// logical-order log shared with the harness (C10): handler start/finish etc.
	pub log: Mutex<Vec<String>>,
	/// identifies THIS server instance (`whoami` method): other processes on the machine bind
	/// loopback ports too, and a port freed by a stopped server can be taken over at once
	pub nonce: u64,
	/// low-level assemblies: the guard is made by the harness ("user code") and is NOT put into the
	/// request extensions by anybody; handlers read this clone instead
	pub own_guard: Mutex<Option<ConnectionGuard>>,
}

impl Shared {
	fn emit(&self, ev: Ev) {
		let _ = self.ev_tx.send(ev);
	}
	pub fn note(&self, s: String) {
		self.log.lock().unwrap().push(s);
	}
	/// let the gated handler `tag` return (also if it has not started yet)
	pub fn release(&self, tag: u64) {
		// (`gates` is held across the whole decision: handlers may run on other threads)
		let mut gates = self.gates.lock().unwrap();
		match gates.remove(&tag) {
			Some(tx) => {
				let _ = tx.send(());
			}
			None => {
				self.pre_released.lock().unwrap().insert(tag);
			}
		}
	}
	/// let the middleware forward (`true`) or drop (`false`) the held 101 answer
	pub fn hold_release(&self, tag: u64, pass: bool) {
		if let Some(tx) = self.holds.lock().unwrap().remove(&tag) {
			let _ = tx.send(pass);
		}
	}
}

struct EndGuard {
	shared: Arc<Shared>,
	tag: u64,
	done: bool,
}
impl Drop for EndGuard {
	fn drop(&mut self) {
		if !self.done {
			self.shared.note(format!("cancel {}", self.tag));
			self.shared.emit(Ev::Cancelled { tag: self.tag });
		}
	}
}

fn first_u64(params: &jsonrpsee::types::Params<'_>) -> u64 {
	params.sequence().next::<u64>().unwrap_or(0)
}

fn guard_of(shared: &Shared, ext: &Extensions) -> Option<ConnectionGuard> {
	ext.get::<ConnectionGuard>().cloned().or_else(|| shared.own_guard.lock().unwrap().clone())
}

/// The methods of the test server.
pub fn module(shared: Arc<Shared>) -> RpcModule<Arc<Shared>> {
	let mut m = RpcModule::new(shared);
	m.register_method("guard", |_, ctx, ext: &Extensions| {
		let g = guard_of(ctx, ext);
		let a = g.as_ref().map(|g| g.available_connections() as u64);
		if let Some(g) = g {
			ctx.emit(Ev::Guard(g));
		}
		a
	})
	.unwrap();
	m.register_method("whoami", |_, ctx, _| ctx.nonce).unwrap();
	m.register_method("avail", |_, ctx, ext: &Extensions| guard_of(ctx, ext).map(|g| g.available_connections() as u64)).unwrap();
	m.register_async_method("hold", |params, ctx, ext| async move {
		let tag = first_u64(&params);
		let shared: Arc<Shared> = (*ctx).clone();
		let avail = guard_of(&shared, &ext).map(|g| g.available_connections());
		let mut end = EndGuard { shared: shared.clone(), tag, done: false };
		let rx = {
			let mut gates = shared.gates.lock().unwrap();
			if shared.pre_released.lock().unwrap().remove(&tag) {
				None
			} else {
				let (tx, rx) = oneshot::channel();
				gates.insert(tag, tx);
				Some(rx)
			}
		};
		shared.note(format!("start {tag}"));
		shared.emit(Ev::Started { tag, avail });
		if let Some(rx) = rx {
			let _ = rx.await;
		}
		shared.note(format!("finish {tag}"));
		shared.emit(Ev::Finished { tag });
		end.done = true;
		tag
	})
	.unwrap();
	// like `hold`, but the answer is LARGE (4 MB): writing a few of them takes the send task a while
	// and does not fit into the socket buffers unless the client reads
	m.register_async_method("holdbig", |params, ctx, _| async move {
		let tag = first_u64(&params);
		let shared: Arc<Shared> = (*ctx).clone();
		let mut end = EndGuard { shared: shared.clone(), tag, done: false };
		let rx = {
			let mut gates = shared.gates.lock().unwrap();
			if shared.pre_released.lock().unwrap().remove(&tag) {
				None
			} else {
				let (tx, rx) = oneshot::channel();
				gates.insert(tag, tx);
				Some(rx)
			}
		};
		shared.note(format!("start {tag}"));
		shared.emit(Ev::Started { tag, avail: None });
		if let Some(rx) = rx {
			let _ = rx.await;
		}
		shared.note(format!("finish {tag}"));
		shared.emit(Ev::Finished { tag });
		end.done = true;
		"x".repeat(4_000_000)
	})
	.unwrap();
	// a BLOCKING handler (runs on tokio's blocking pool); `holdbp` panics after it was released — for
	// blocking methods jsonrpsee answers a panic with an internal error carrying the request's id
	for (name, panics) in [("holdb", false), ("holdbp", true)] {
		m.register_blocking_method(name, move |params, ctx, ext| {
			let tag = first_u64(&params);
			let shared: Arc<Shared> = (*ctx).clone();
			let avail = guard_of(&shared, &ext).map(|g| g.available_connections());
			let rx = {
				let mut gates = shared.gates.lock().unwrap();
				if shared.pre_released.lock().unwrap().remove(&tag) {
					None
				} else {
					let (tx, rx) = oneshot::channel();
					gates.insert(tag, tx);
					Some(rx)
				}
			};
			shared.note(format!("start {tag}"));
			shared.emit(Ev::Started { tag, avail });
			if let Some(rx) = rx {
				let _ = rx.blocking_recv();
			}
			shared.note(format!("finish {tag}"));
			shared.emit(Ev::Finished { tag });
			if panics {
				panic!("harness: handler {tag} panics on purpose");
			}
			tag
		})
		.unwrap();
	}
	// a chatty subscription: keeps pushing notifications through the connection's bounded writer
	// queue (they compete with call answers for room) until the sink is closed
	m.register_subscription("subchat", "nc", "unsubchat", |params, pending, ctx, _| async move {
		let tag = first_u64(&params);
		let shared: Arc<Shared> = (*ctx).clone();
		let Ok(sink) = pending.accept().await else { return };
		shared.emit(Ev::SubAccepted { tag });
		for i in 0..2000u64 {
			let msg = SubscriptionMessage::from(serde_json::value::to_raw_value(&i).unwrap());
			if sink.send(msg).await.is_err() {
				break;
			}
			tokio::task::yield_now().await;
		}
		shared.note(format!("subclosed {tag}"));
		shared.emit(Ev::SubClosed { tag });
	})
	.unwrap();
	m.register_subscription("sub", "n", "unsub", |params, pending, ctx, _| async move {
		let tag = first_u64(&params);
		let shared: Arc<Shared> = (*ctx).clone();
		let Ok(sink) = pending.accept().await else { return };
		let msg = SubscriptionMessage::from(serde_json::value::to_raw_value(&tag).unwrap());
		let _ = sink.send(msg).await;
		shared.emit(Ev::SubAccepted { tag });
		sink.closed().await;
		shared.note(format!("subclosed {tag}"));
		shared.emit(Ev::SubClosed { tag });
	})
	.unwrap();
	m
}

// ------------------------------------------------------------------------------------------------
// HTTP middleware: hold / drop the 101 answer of upgrade requests carrying `x-hold: <tag>`.

#[derive(Clone)]
pub struct HoldLayer(pub Arc<Shared>);

impl<S> tower::Layer<S> for HoldLayer {
	type Service = HoldSvc<S>;
	fn layer(&self, inner: S) -> HoldSvc<S> {
		HoldSvc { inner, shared: self.0.clone() }
	}
}

#[derive(Clone)]
pub struct HoldSvc<S> {
	inner: S,
	shared: Arc<Shared>,
}

impl<S, B> tower::Service<HttpRequest<B>> for HoldSvc<S>
where
	S: tower::Service<HttpRequest<B>, Response = HttpResponse, Error = BoxError>,
	S::Future: Send + 'static,
{
	type Response = HttpResponse;
	type Error = BoxError;
	type Future = Pin<Box<dyn Future<Output = Result<HttpResponse, BoxError>> + Send>>;

	fn poll_ready(&mut self, cx: &mut Context<'_>) -> Poll<Result<(), BoxError>> {
		self.inner.poll_ready(cx)
	}

	fn call(&mut self, req: HttpRequest<B>) -> Self::Future {
		let tag = req.headers().get("x-hold").and_then(|v| v.to_str().ok()).and_then(|s| s.parse::<u64>().ok());
		let fut = self.inner.call(req);
		let shared = self.shared.clone();
		Box::pin(async move {
			let rp = fut.await?;
			match tag {
				Some(tag) if rp.status().as_u16() == 101 => {
					let (tx, rx) = oneshot::channel();
					shared.holds.lock().unwrap().insert(tag, tx);
					shared.emit(Ev::Held { tag });
					match rx.await {
						Ok(false) => Err("harness middleware: upgrade answer dropped".into()),
						_ => Ok(rp),
					}
				}
				_ => Ok(rp),
			}
		})
	}
}

// ------------------------------------------------------------------------------------------------

/// How the server is assembled.
#[derive(Clone, Copy, Debug, PartialEq, Eq)]
pub enum Assembly {
	/// `Server::builder().set_config(cfg).build(addr)` + `start(module)`  (guard built in `start_inner`)
	Server,
	/// `Server::builder().set_config(cfg).to_service_builder()` + own accept loop +
	/// `serve_with_graceful_shutdown`  (guard built in `to_service_builder`)
	Tower,
	/// as `Tower`, but the limit comes from `TowerServiceBuilder::max_connections(limit)` and the
	/// `ServerConfig` carries a different (large) value
	TowerSet,
	/// as `TowerSet`, with further builder setters applied AFTER `max_connections(limit)`:
	/// `.set_rpc_middleware(..).set_http_middleware(..).connection_id(..)` — each of them rebuilds
	/// the builder and has to carry the guard over
	TowerMw,
	/// the limit is in the `ServerConfig`; the shared builder has no HTTP middleware, and
	/// `.set_rpc_middleware(..).set_http_middleware(..)` is applied to a CLONE of it for every
	/// accepted connection — all those per-connection builders must still share one guard
	TowerClone,
	/// LOW-LEVEL API: the harness plays the user of `jsonrpsee_server_low_level_api.rs`: a hand-made
	/// `ConnectionGuard::new(max)`, `stop_channel()`, an own accept loop and a `tower::service_fn` that
	/// takes the permit itself (429 otherwise), wraps it into `ConnectionState::new(..)` and calls
	/// `ws::connect(..)` (the returned future is spawned) or `http::call_with_service_builder(..)`;
	/// connections are served by `serve_with_graceful_shutdown`
	LowLevel,
	/// as `LowLevel`, served by `serve` (no graceful shutdown of the HTTP connection)
	LowServe,
}

impl Assembly {
	pub fn name(self) -> &'static str {
		match self {
			Assembly::Server => "server",
			Assembly::Tower => "tower",
			Assembly::TowerSet => "towerset",
			Assembly::TowerMw => "towermw",
			Assembly::TowerClone => "towerclone",
			Assembly::LowLevel => "lowlevel",
			Assembly::LowServe => "lowserve",
		}
	}
	pub fn parse(s: &str) -> Option<Self> {
		match s {
			"server" => Some(Assembly::Server),
			"tower" => Some(Assembly::Tower),
			"towerset" => Some(Assembly::TowerSet),
			"towermw" => Some(Assembly::TowerMw),
			"towerclone" => Some(Assembly::TowerClone),
			"lowlevel" => Some(Assembly::LowLevel),
			"lowserve" => Some(Assembly::LowServe),
			_ => None,
		}
	}
}

#[derive(Clone, Copy)]
pub struct EnvCfg {
	pub assembly: Assembly,
	pub max: u32,
	pub http: bool,
	pub ws: bool,
	/// `(ping_interval, inactive_limit)` in ms
	pub ping: Option<(u64, u64)>,
	/// `max_failures` of the ping config
	pub ping_failures: usize,
	pub buffer: u32,
}

pub struct Env {
	pub addr: SocketAddr,
	pub handle: Option<ServerHandle>,
	pub shared: Arc<Shared>,
	ev_rx: mpsc::UnboundedReceiver<Ev>,
	backlog: VecDeque<Ev>,
	pub guard: Option<ConnectionGuard>,
	pub max: u32,
}

pub async fn start_env(cfg: &EnvCfg) -> Env {
	let (ev_tx, ev_rx) = mpsc::unbounded_channel();
	let shared = Arc::new(Shared {
		ev_tx,
		gates: Default::default(),
		pre_released: Default::default(),
		holds: Default::default(),
		log: Default::default(),
		own_guard: Default::default(),
		nonce: {
			static NEXT: std::sync::atomic::AtomicU64 = std::sync::atomic::AtomicU64::new(1);
			let t = std::time::SystemTime::now().duration_since(std::time::UNIX_EPOCH).map(|d| d.as_nanos() as u64).unwrap_or(0);
			let n = NEXT.fetch_add(1, std::sync::atomic::Ordering::Relaxed);
			(t ^ ((std::process::id() as u64) << 40) ^ n.wrapping_mul(0x9E3779B97F4A7C15)) & ((1u64 << 53) - 1)
		},
	});
	let cfg_max = if matches!(cfg.assembly, Assembly::TowerSet | Assembly::TowerMw) { 77 } else { cfg.max };
	// (a small request limit so that an oversized message — the `junk` action — stays cheap; every call the
	// scripts send is far below it)
	let mut b = ServerConfig::builder().max_connections(cfg_max).set_message_buffer_capacity(cfg.buffer).max_request_body_size(JUNK_LIMIT);
	if !cfg.http {
		b = b.ws_only();
	}
	if !cfg.ws {
		b = b.http_only();
	}
	if let Some((iv, lim)) = cfg.ping {
		b = b.enable_ws_ping(
			PingConfig::new().ping_interval(Duration::from_millis(iv)).inactive_limit(Duration::from_millis(lim)).max_failures(cfg.ping_failures.max(1)),
		);
	}
	let scfg = b.build();
	let methods = module(shared.clone());
	let http_mw = tower::ServiceBuilder::new().layer(HoldLayer(shared.clone()));
	// own accept loop of the tower-service assemblies; `$make` yields the service of one connection
	macro_rules! accept_loop {
		($make:expr) => {{
			let listener = TcpListener::bind("127.0.0.1:0").await.expect("bind loopback");
			let addr = listener.local_addr().unwrap();
			let (stop_handle, server_handle) = stop_channel();
			let make = $make;
			tokio::spawn(async move {
				loop {
					let sock = tokio::select! {
						res = listener.accept() => match res { Ok((s, _)) => s, Err(_) => continue },
						_ = stop_handle.clone().shutdown() => break,
					};
					let _ = sock.set_nodelay(true);
					let svc = make(stop_handle.clone());
					tokio::spawn(serve_with_graceful_shutdown(sock, svc, stop_handle.clone().shutdown()));
				}
			});
			(addr, server_handle)
		}};
	}
	let (addr, handle) = match cfg.assembly {
		Assembly::Server => {
			let server = Server::builder().set_config(scfg).set_http_middleware(http_mw).build("127.0.0.1:0").await.expect("bind loopback");
			let addr = server.local_addr().unwrap();
			(addr, server.start(methods))
		}
		Assembly::Tower | Assembly::TowerSet => {
			let mut svc_builder = Server::builder().set_config(scfg).set_http_middleware(http_mw).to_service_builder();
			if cfg.assembly == Assembly::TowerSet {
				svc_builder = svc_builder.max_connections(cfg.max);
			}
			let methods: jsonrpsee::server::Methods = methods.into();
			accept_loop!(move |sh: jsonrpsee::server::StopHandle| svc_builder.clone().build(methods.clone(), sh))
		}
		Assembly::TowerMw => {
			let svc_builder = Server::builder()
				.set_config(scfg)
				.to_service_builder()
				.max_connections(cfg.max)
				.set_rpc_middleware(RpcServiceBuilder::new())
				.set_http_middleware(http_mw)
				.connection_id(1000);
			let methods: jsonrpsee::server::Methods = methods.into();
			accept_loop!(move |sh: jsonrpsee::server::StopHandle| svc_builder.clone().build(methods.clone(), sh))
		}
		Assembly::TowerClone => {
			let shared_builder = Server::builder().set_config(scfg).to_service_builder();
			let methods: jsonrpsee::server::Methods = methods.into();
			accept_loop!(move |sh: jsonrpsee::server::StopHandle| {
				shared_builder.clone().set_rpc_middleware(RpcServiceBuilder::new()).set_http_middleware(http_mw.clone()).build(methods.clone(), sh)
			})
		}
		Assembly::LowLevel | Assembly::LowServe => {
			let graceful = cfg.assembly == Assembly::LowLevel;
			let guard = ConnectionGuard::new(cfg.max as usize);
			*shared.own_guard.lock().unwrap() = Some(guard.clone());
			let methods: jsonrpsee::server::Methods = methods.into();
			let listener = TcpListener::bind("127.0.0.1:0").await.expect("bind loopback");
			let addr = listener.local_addr().unwrap();
			let (stop_handle, server_handle) = stop_channel();
			let conn_id = Arc::new(std::sync::atomic::AtomicU32::new(0));
			let (http_on, ws_on) = (cfg.http, cfg.ws);
			let sh2 = shared.clone();
			tokio::spawn(async move {
				loop {
					let sock = tokio::select! {
						res = listener.accept() => match res { Ok((s, _)) => s, Err(_) => continue },
						_ = stop_handle.clone().shutdown() => break,
					};
					let _ = sock.set_nodelay(true);
					let (guard, methods, scfg, stop_handle2, conn_id, shared) = (guard.clone(), methods.clone(), scfg.clone(), stop_handle.clone(), conn_id.clone(), sh2.clone());
					let svc = tower::service_fn(move |req: HttpRequest<hyper::body::Incoming>| {
						let (guard, methods, scfg, stop_handle, conn_id, shared) = (guard.clone(), methods.clone(), scfg.clone(), stop_handle2.clone(), conn_id.clone(), shared.clone());
						async move {
							// "jsonrpsee expects a conn permit for each connection"
							let Some(permit) = guard.try_acquire() else {
								return Ok::<_, BoxError>(jsonrpsee::server::http::response::too_many_requests());
							};
							let id = conn_id.fetch_add(1, std::sync::atomic::Ordering::Relaxed);
							let conn = ConnectionState::new(stop_handle, id, permit);
							let is_upgrade = jsonrpsee::server::ws::is_upgrade_request(&req);
							if is_upgrade && ws_on {
								let hold = req.headers().get("x-hold").and_then(|v| v.to_str().ok()).and_then(|s| s.parse::<u64>().ok());
								match jsonrpsee::server::ws::connect(req, scfg, methods, conn, RpcServiceBuilder::new()).await {
									Ok((rp, conn_fut)) => {
										tokio::spawn(conn_fut);
										if let Some(tag) = hold {
											let (tx, rx) = oneshot::channel();
											shared.holds.lock().unwrap().insert(tag, tx);
											shared.emit(Ev::Held { tag });
											if let Ok(false) = rx.await {
												// the 101 never leaves: the service fails, hyper ends the connection without upgrading
												return Err("harness service: upgrade answer dropped".into());
											}
										}
										Ok(rp)
									}
									Err(rp) => Ok(rp),
								}
							} else if !is_upgrade && http_on {
								Ok(jsonrpsee::server::http::call_with_service_builder(req, scfg, conn, methods, RpcServiceBuilder::new()).await)
							} else {
								Ok(jsonrpsee::server::http::response::denied())
							}
						}
					});
					if graceful {
						tokio::spawn(serve_with_graceful_shutdown(sock, svc, stop_handle.clone().shutdown()));
					} else {
						tokio::spawn(jsonrpsee::server::serve(sock, svc));
					}
				}
			});
			(addr, server_handle)
		}
	};
	Env { addr, handle: Some(handle), shared, ev_rx, backlog: VecDeque::new(), guard: None, max: cfg.max }
}

impl Env {
	/// Wait for the first event (buffered or new) accepted by `pred`.
	pub async fn wait_ev<T>(&mut self, mut pred: impl FnMut(&Ev) -> Option<T>, timeout: Duration) -> Option<T> {
		for i in 0..self.backlog.len() {
			if let Some(t) = pred(&self.backlog[i]) {
				self.backlog.remove(i);
				return Some(t);
			}
		}
		let deadline = tokio::time::Instant::now() + timeout;
		loop {
			match tokio::time::timeout_at(deadline, self.ev_rx.recv()).await {
				Ok(Some(ev)) => {
					if let Ev::Guard(g) = &ev {
						self.guard = Some(g.clone());
					}
					if let Some(t) = pred(&ev) {
						return Some(t);
					}
					self.backlog.push_back(ev);
				}
				_ => return None,
			}
		}
	}

	/// Pull everything already reported without waiting; `pred` sees (and may take) each event.
	pub fn drain_ev(&mut self, mut take: impl FnMut(&Ev) -> bool) {
		while let Ok(ev) = self.ev_rx.try_recv() {
			if let Ev::Guard(g) = &ev {
				self.guard = Some(g.clone());
			}
			self.backlog.push_back(ev);
		}
		self.backlog.retain(|ev| !take(ev));
	}

	pub fn avail(&self) -> Option<usize> {
		self.guard.as_ref().map(|g| g.available_connections())
	}

	/// Poll `available_connections()` until it equals `expected` or `WAIT` elapsed; returns the
	/// last value read (so a leak shows up as the wrong number, not as a hang).
	pub async fn wait_avail(&self, expected: usize) -> Option<usize> {
		let g = self.guard.as_ref()?;
		let a = wait_until(|| g.available_connections() == expected).await;
		let _ = a;
		Some(g.available_connections())
	}

	/// Stop the server and wait (bounded) for `stopped()`; returns whether it resolved in time.
	pub async fn shutdown(&mut self) -> bool {
		match self.handle.take() {
			Some(h) => {
				let _ = h.stop();
				tokio::time::timeout(WAIT, h.stopped()).await.is_ok()
			}
			None => true,
		}
	}
}

/// Cooperative wait: first yields (lets the server tasks and the IO driver run), then backs off
/// to 1 ms sleeps; gives up after `WAIT`.
pub async fn wait_until(mut cond: impl FnMut() -> bool) -> bool {
	let t0 = Instant::now();
	let mut spins = 0u32;
	loop {
		if cond() {
			return true;
		}
		if t0.elapsed() > WAIT {
			return false;
		}
		spins += 1;
		if spins < 200 {
			tokio::task::yield_now().await;
		} else {
			tokio::time::sleep(Duration::from_millis(1)).await;
		}
	}
}

// ------------------------------------------------------------------------------------------------
// raw HTTP/1.1

pub struct Conn {
	pub sock: TcpStream,
	pub buf: Vec<u8>,
}

#[derive(Debug, Clone)]
pub struct HttpResp {
	pub status: u16,
	pub body: Vec<u8>,
}

impl Conn {
	pub async fn open(addr: SocketAddr) -> std::io::Result<Conn> {
		let sock = tokio::time::timeout(WAIT, TcpStream::connect(addr)).await.map_err(|_| std::io::ErrorKind::TimedOut)??;
		sock.set_nodelay(true)?;
		Ok(Conn { sock, buf: Vec::new() })
	}

	pub async fn send(&mut self, bytes: &[u8]) -> std::io::Result<()> {
		self.sock.write_all(bytes).await?;
		self.sock.flush().await
	}

	async fn fill(&mut self) -> std::io::Result<usize> {
		let mut tmp = [0u8; 4096];
		let n = self.sock.read(&mut tmp).await?;
		self.buf.extend_from_slice(&tmp[..n]);
		Ok(n)
	}

	/// Read one HTTP response (status line, headers, `content-length` body).  `Ok(None)` = the
	/// peer closed the connection before a complete response.
	pub async fn read_response(&mut self) -> std::io::Result<Option<HttpResp>> {
		loop {
			if let Some(pos) = find(&self.buf, b"\r\n\r\n") {
				let head = String::from_utf8_lossy(&self.buf[..pos]).to_string();
				let mut lines = head.split("\r\n");
				let status: u16 = lines.next().and_then(|l| l.split(' ').nth(1)).and_then(|s| s.parse().ok()).unwrap_or(0);
				let mut len = 0usize;
				for l in lines {
					if let Some((k, v)) = l.split_once(':') {
						if k.eq_ignore_ascii_case("content-length") {
							len = v.trim().parse().unwrap_or(0);
						}
					}
				}
				let total = pos + 4 + len;
				while self.buf.len() < total {
					if self.fill().await? == 0 {
						return Ok(None);
					}
				}
				let body = self.buf[pos + 4..total].to_vec();
				self.buf.drain(..total);
				return Ok(Some(HttpResp { status, body }));
			}
			if self.fill().await? == 0 {
				return Ok(None);
			}
		}
	}

	/// Abortive close: RST instead of FIN.
	pub fn reset(self) {
		let _ = self.sock.set_zero_linger();
		drop(self.sock);
	}

	// ---- minimal WebSocket framing (client side: masked frames) ----

	pub async fn ws_send(&mut self, opcode: u8, payload: &[u8]) -> std::io::Result<()> {
		let mut f = Vec::with_capacity(payload.len() + 14);
		f.push(0x80 | (opcode & 0x0f));
		let mask = [0x12u8, 0x34, 0x56, 0x78];
		if payload.len() < 126 {
			f.push(0x80 | payload.len() as u8);
		} else if payload.len() < 65536 {
			f.push(0x80 | 126);
			f.extend_from_slice(&(payload.len() as u16).to_be_bytes());
		} else {
			f.push(0x80 | 127);
			f.extend_from_slice(&(payload.len() as u64).to_be_bytes());
		}
		f.extend_from_slice(&mask);
		f.extend(payload.iter().enumerate().map(|(i, b)| b ^ mask[i % 4]));
		self.send(&f).await
	}

	pub async fn ws_text(&mut self, text: &str) -> std::io::Result<()> {
		self.ws_send(1, text.as_bytes()).await
	}

	pub async fn ws_close(&mut self) -> std::io::Result<()> {
		self.ws_send(8, &1000u16.to_be_bytes()).await
	}

	/// Read one (unfragmented, unmasked) server frame: `(opcode, payload)`; `None` = EOF.
	pub async fn ws_read(&mut self) -> std::io::Result<Option<(u8, Vec<u8>)>> {
		loop {
			if self.buf.len() >= 2 {
				let op = self.buf[0] & 0x0f;
				let l0 = (self.buf[1] & 0x7f) as usize;
				let (hdr, len) = if l0 < 126 {
					(2, Some(l0))
				} else if l0 == 126 {
					(4, if self.buf.len() >= 4 { Some(u16::from_be_bytes([self.buf[2], self.buf[3]]) as usize) } else { None })
				} else {
					(10, if self.buf.len() >= 10 { Some(u64::from_be_bytes(self.buf[2..10].try_into().unwrap()) as usize) } else { None })
				};
				if let Some(len) = len {
					if self.buf.len() >= hdr + len {
						let payload = self.buf[hdr..hdr + len].to_vec();
						self.buf.drain(..hdr + len);
						return Ok(Some((op, payload)));
					}
				}
			}
			if self.fill().await? == 0 {
				return Ok(None);
			}
		}
	}

	/// Read frames until a text frame arrives (pings are ignored — the harness never answers
	/// them); `None` = close frame or EOF.
	pub async fn ws_read_text(&mut self) -> std::io::Result<Option<String>> {
		loop {
			match self.ws_read().await? {
				Some((1, p)) => return Ok(Some(String::from_utf8_lossy(&p).to_string())),
				Some((8, _)) | None => return Ok(None),
				Some(_) => continue,
			}
		}
	}

	/// Read until the server side is gone (close frame followed by EOF, EOF, or an error such
	/// as a reset); bounded by `WAIT`. Returns `true` if the end was observed.
	pub async fn ws_wait_end(&mut self) -> bool {
		let fut = async {
			loop {
				match self.ws_read().await {
					Ok(None) | Err(_) => return,
					Ok(Some(_)) => continue,
				}
			}
		};
		tokio::time::timeout(WAIT, fut).await.is_ok()
	}
}

// ------------------------------------------------------------------------------------------------
// the same readers over any `AsyncRead` (used with split sockets by the C10 reader tasks)

async fn fill_from<R: tokio::io::AsyncRead + Unpin>(r: &mut R, buf: &mut Vec<u8>) -> std::io::Result<usize> {
	let mut tmp = [0u8; 4096];
	let n = r.read(&mut tmp).await?;
	buf.extend_from_slice(&tmp[..n]);
	Ok(n)
}

/// One HTTP response from `r` (`None` = EOF before a complete response).
pub async fn read_http_response<R: tokio::io::AsyncRead + Unpin>(r: &mut R, buf: &mut Vec<u8>) -> std::io::Result<Option<HttpResp>> {
	loop {
		if let Some(pos) = find(buf, b"\r\n\r\n") {
			let head = String::from_utf8_lossy(&buf[..pos]).to_string();
			let mut lines = head.split("\r\n");
			let status: u16 = lines.next().and_then(|l| l.split(' ').nth(1)).and_then(|s| s.parse().ok()).unwrap_or(0);
			let mut len = 0usize;
			for l in lines {
				if let Some((k, v)) = l.split_once(':') {
					if k.eq_ignore_ascii_case("content-length") {
						len = v.trim().parse().unwrap_or(0);
					}
				}
			}
			let total = pos + 4 + len;
			while buf.len() < total {
				if fill_from(r, buf).await? == 0 {
					return Ok(None);
				}
			}
			let body = buf[pos + 4..total].to_vec();
			buf.drain(..total);
			return Ok(Some(HttpResp { status, body }));
		}
		if fill_from(r, buf).await? == 0 {
			return Ok(None);
		}
	}
}

/// One unfragmented server frame `(opcode, payload)` from `r` (`None` = EOF).
pub async fn read_ws_frame<R: tokio::io::AsyncRead + Unpin>(r: &mut R, buf: &mut Vec<u8>) -> std::io::Result<Option<(u8, Vec<u8>)>> {
	loop {
		if buf.len() >= 2 {
			let op = buf[0] & 0x0f;
			let l0 = (buf[1] & 0x7f) as usize;
			let (hdr, len) = if l0 < 126 {
				(2, Some(l0))
			} else if l0 == 126 {
				(4, if buf.len() >= 4 { Some(u16::from_be_bytes([buf[2], buf[3]]) as usize) } else { None })
			} else {
				(10, if buf.len() >= 10 { Some(u64::from_be_bytes(buf[2..10].try_into().unwrap()) as usize) } else { None })
			};
			if let Some(len) = len {
				if buf.len() >= hdr + len {
					let payload = buf[hdr..hdr + len].to_vec();
					buf.drain(..hdr + len);
					return Ok(Some((op, payload)));
				}
			}
		}
		if fill_from(r, buf).await? == 0 {
			return Ok(None);
		}
	}
}

/// A masked client frame.
/// `max_request_body_size` of every server of this environment
pub const JUNK_LIMIT: u32 = 16 * 1024;

pub fn ws_frame(opcode: u8, payload: &[u8]) -> Vec<u8> {
	let mut f = Vec::with_capacity(payload.len() + 14);
	f.push(0x80 | (opcode & 0x0f));
	let mask = [0x12u8, 0x34, 0x56, 0x78];
	if payload.len() < 126 {
		f.push(0x80 | payload.len() as u8);
	} else if payload.len() < 65536 {
		f.push(0x80 | 126);
		f.extend_from_slice(&(payload.len() as u16).to_be_bytes());
	} else {
		f.push(0x80 | 127);
		f.extend_from_slice(&(payload.len() as u64).to_be_bytes());
	}
	f.extend_from_slice(&mask);
	f.extend(payload.iter().enumerate().map(|(i, b)| b ^ mask[i % 4]));
	f
}

/// ids of a reply without parsing a possibly huge payload: `{"jsonrpc":"2.0","id":<n>,…` is how
/// jsonrpsee writes single answers
pub fn reply_ids_fast(body: &[u8]) -> Vec<u64> {
	const P: &[u8] = b"{\"jsonrpc\":\"2.0\",\"id\":";
	if body.len() > 100_000 && body.starts_with(P) {
		let digits: Vec<u8> = body[P.len()..].iter().copied().take_while(|b| b.is_ascii_digit()).collect();
		return String::from_utf8(digits).ok().and_then(|d| d.parse().ok()).into_iter().collect();
	}
	reply_ids(body)
}

/// `id` member of a JSON-RPC reply as u64, if any.
pub fn reply_id(body: &[u8]) -> Option<u64> {
	let v: serde_json::Value = serde_json::from_slice(body).ok()?;
	v.get("id")?.as_u64()
}

fn find(hay: &[u8], needle: &[u8]) -> Option<usize> {
	hay.windows(needle.len()).position(|w| w == needle)
}

pub fn post_request(body: &str) -> Vec<u8> {
	format!(
		"POST / HTTP/1.1\r\nHost: localhost\r\nContent-Type: application/json\r\nContent-Length: {}\r\n\r\n{}",
		body.len(),
		body
	)
	.into_bytes()
}

/// as `post_request`, asking the server to close the connection after the answer (HTTP/1.0 style)
pub fn post_request_close(body: &str) -> Vec<u8> {
	format!(
		"POST / HTTP/1.1\r\nHost: localhost\r\nConnection: close\r\nContent-Type: application/json\r\nContent-Length: {}\r\n\r\n{}",
		body.len(),
		body
	)
	.into_bytes()
}

/// An upgrade request that soketto's `receive_request` must refuse; `variant` selects what is wrong
/// (0: unsupported version, 1: no `Sec-WebSocket-Key`, 2: key of the wrong length).
pub fn bad_upgrade_request(hold: Option<u64>, variant: u64) -> Vec<u8> {
	let mut s = String::from("GET / HTTP/1.1\r\nHost: localhost\r\nUpgrade: websocket\r\nConnection: Upgrade\r\n");
	match variant % 3 {
		0 => s.push_str("Sec-WebSocket-Key: dGhlIHNhbXBsZSBub25jZQ==\r\nSec-WebSocket-Version: 12\r\n"),
		1 => s.push_str("Sec-WebSocket-Version: 13\r\n"),
		_ => s.push_str("Sec-WebSocket-Key: c2hvcnQ=\r\nSec-WebSocket-Version: 13\r\n"),
	}
	if let Some(t) = hold {
		s.push_str(&format!("x-hold: {t}\r\n"));
	}
	s.push_str("\r\n");
	s.into_bytes()
}

/// `result` of the entry with id `id` in a batch reply, or of a single reply with that id
pub fn result_of(body: &[u8], id: u64) -> Option<u64> {
	let v: serde_json::Value = serde_json::from_slice(body).ok()?;
	let one = |e: &serde_json::Value| if e.get("id")?.as_u64()? == id { e.get("result")?.as_u64() } else { None };
	match &v {
		serde_json::Value::Array(a) => a.iter().find_map(one),
		e => one(e),
	}
}

/// ids of all entries of a (single or batch) reply
pub fn reply_ids(body: &[u8]) -> Vec<u64> {
	match serde_json::from_slice::<serde_json::Value>(body) {
		Ok(serde_json::Value::Array(a)) => a.iter().filter_map(|e| e.get("id")?.as_u64()).collect(),
		Ok(e) => e.get("id").and_then(|i| i.as_u64()).into_iter().collect(),
		Err(_) => vec![],
	}
}

pub fn call_json(id: u64, method: &str, tag: u64) -> String {
	format!("{{\"jsonrpc\":\"2.0\",\"id\":{id},\"method\":\"{method}\",\"params\":[{tag}]}}")
}

/// An upgrade request; `valid = false` uses an unsupported `Sec-WebSocket-Version`, which soketto's
/// `receive_request` rejects.  `hold` adds the header that makes the middleware hold the 101.
pub fn upgrade_request(hold: Option<u64>, valid: bool) -> Vec<u8> {
	let mut s = String::from(
		"GET / HTTP/1.1\r\nHost: localhost\r\nUpgrade: websocket\r\nConnection: Upgrade\r\nSec-WebSocket-Key: dGhlIHNhbXBsZSBub25jZQ==\r\n",
	);
	s.push_str(if valid { "Sec-WebSocket-Version: 13\r\n" } else { "Sec-WebSocket-Version: 12\r\n" });
	if let Some(t) = hold {
		s.push_str(&format!("x-hold: {t}\r\n"));
	}
	s.push_str("\r\n");
	s.into_bytes()
}

/// `result` member of a JSON-RPC reply as u64, if any.
pub fn result_u64(body: &[u8]) -> Option<u64> {
	let v: serde_json::Value = serde_json::from_slice(body).ok()?;
	v.get("result")?.as_u64()
}

/// Current-thread runtime with IO and time drivers.
pub fn runtime() -> tokio::runtime::Runtime {
	tokio::runtime::Builder::new_current_thread().enable_all().build().unwrap()
}
