//! Environment of the server subscription family (C06, C04): drives the REAL per-connection
//! machinery of jsonrpsee-server in-process.
//!
//! * `eager` mode: a `TowerService` (the service `Server::start` builds for every accepted socket)
//!   is served over a `tokio::io::duplex` pair with `jsonrpsee_server::serve_with_graceful_shutdown`;
//!   the peer is a raw soketto client.  Permits (-32006), the subscriber tables, unsubscribe,
//!   connection close and server stop are the library's own code (middleware/rpc.rs, ws.rs,
//!   server.rs, subscription.rs, rpc_module.rs).
//! * `manual` mode: the harness owns the bounded connection queue (`mpsc::channel(qcap)` behind a
//!   `MethodSink`) and plays the connection task itself (permit acquisition as middleware/rpc.rs
//!   does, per-message task as ws.rs does), so that the writer can be stepped frame by frame and
//!   the queue bound is visible.  subscription.rs and rpc_module.rs are the library's own.
//!
//! The subscription handlers are scripted: the handler hands its `PendingSubscriptionSink` to the
//! harness and then waits for its `return` command, every sink operation (accept, reject, drop,
//! send, clone, drop of a clone, is_closed) is issued by the script one at a time, each followed
//! by a quiescence barrier (current-thread runtime, paused clock: `sleep(1ms)` returns when every
//! task is idle).
use std::collections::VecDeque;
use std::sync::atomic::{AtomicU64, Ordering};
use std::sync::{Arc, Mutex};
use std::time::Duration;

use futures_util::io::{BufReader, BufWriter};
use jsonrpsee_server::middleware::rpc::RpcServiceBuilder;
use jsonrpsee_server::{
	BoundedSubscriptions, ConnectionId, IdProvider, MethodCallback, MethodSink, Methods, PendingSubscriptionSink, RpcModule,
	Server, ServerConfig, ServerHandle, StopHandle, SubscriptionCloseResponse, SubscriptionMessage, SubscriptionSink,
	SubscriptionState, TowerServiceBuilder, serve_with_graceful_shutdown, stop_channel,
};
use jsonrpsee_types::{ErrorObjectOwned, Id, Params, SubscriptionId};
use serde_json::value::RawValue;
use tokio::sync::{mpsc, oneshot};
use tokio_util::compat::{Compat, TokioAsyncReadCompatExt};

pub const NMETH: usize = 2;
pub const SUB_NAMES: [&str; NMETH] = ["subA", "subB"];
pub const NOTIF_NAMES: [&str; NMETH] = ["nA", "nB"];
pub const UNSUB_NAMES: [&str; NMETH] = ["unsubA", "unsubB"];

/// Deterministic subscription ids: 1, 2, 3, … (one counter per server, as `ServerConfig::id_provider`).
#[derive(Debug, Default)]
pub struct CounterIds(pub AtomicU64);
impl IdProvider for CounterIds {
	fn next_id(&self) -> SubscriptionId<'static> {
		SubscriptionId::Num(self.0.fetch_add(1, Ordering::SeqCst) + 1)
	}
}
#[derive(Debug, Clone)]
pub struct SharedIds(pub Arc<CounterIds>);
impl IdProvider for SharedIds {
	fn next_id(&self) -> SubscriptionId<'static> {
		self.0.next_id()
	}
}

/// What the scripted handler returns.
#[derive(Debug, Clone)]
pub enum Ret {
	None,
	Notif(u64),
	Err(u64),
}

/// A handler invocation handed over to the harness.
pub struct Handover {
	pub conn: usize,
	pub sid: u64,
	pub meth: usize,
	pub pending: Option<PendingSubscriptionSink>,
	pub ret_tx: Option<oneshot::Sender<Ret>>,
	/// set by the handler future's drop guard when it is dropped/cancelled or has returned
	pub gone: Arc<Mutex<bool>>,
}

#[derive(Default)]
pub struct Shared {
	pub handovers: Mutex<Vec<Handover>>,
}

struct GoneGuard(Arc<Mutex<bool>>);
impl Drop for GoneGuard {
	fn drop(&mut self) {
		*self.0.lock().unwrap() = true;
	}
}

pub fn err_msg(e: u64) -> String {
	format!("e{e}")
}

pub fn build_module(shared: Arc<Shared>) -> RpcModule<Arc<Shared>> {
	let mut module = RpcModule::new(shared);
	for m in 0..NMETH {
		module
			.register_subscription(SUB_NAMES[m], NOTIF_NAMES[m], UNSUB_NAMES[m], move |_params, pending, ctx, _ext| async move {
				let (ret_tx, ret_rx) = oneshot::channel::<Ret>();
				let gone = Arc::new(Mutex::new(false));
				let _guard = GoneGuard(gone.clone());
				let sid = match pending.subscription_id() {
					SubscriptionId::Num(n) => n,
					SubscriptionId::Str(_) => u64::MAX,
				};
				let conn = pending.connection_id().0;
				ctx.handovers.lock().unwrap().push(Handover { conn, sid, meth: m, pending: Some(pending), ret_tx: Some(ret_tx), gone });
				match ret_rx.await {
					Ok(Ret::None) | Err(_) => SubscriptionCloseResponse::None,
					Ok(Ret::Notif(p)) => {
						SubscriptionCloseResponse::Notif(SubscriptionMessage::from(serde_json::value::to_raw_value(&p).unwrap()))
					}
					Ok(Ret::Err(e)) => SubscriptionCloseResponse::NotifErr(err_msg(e).into()),
				}
			})
			.unwrap();
	}
	module
}

/// quiescence barrier: with the paused clock the timer only fires once every task is idle
pub async fn barrier() {
	tokio::time::sleep(Duration::from_millis(1)).await;
}

type WsTx = soketto::Sender<BufReader<BufWriter<Compat<tokio::io::DuplexStream>>>>;

/// peer side of one eager (real transport) connection
pub struct Peer {
	pub tx: Option<WsTx>,
	pub inbox: Arc<Mutex<VecDeque<String>>>,
	pub closed_seen: Arc<Mutex<bool>>,
	pub reader: Option<tokio::task::JoinHandle<()>>,
}

/// harness side of one manual connection (the harness plays the connection task)
pub struct ManualConn {
	pub sink: Option<MethodSink>,
	pub rx: Option<mpsc::Receiver<Box<RawValue>>>,
	pub bounded: BoundedSubscriptions,
	pub conn_id: usize,
}

pub enum ConnImpl {
	Eager(Peer),
	Manual(ManualConn),
}

pub struct Env {
	pub shared: Arc<Shared>,
	pub ids: Arc<CounterIds>,
	pub methods: Methods,
	pub conns: Vec<ConnImpl>,
	pub server_handle: Option<ServerHandle>,
	pub stop_handle: Option<StopHandle>,
	pub cap: u32,
	pub qcap: u32,
}

fn server_cfg(cap: u32, qcap: u32, ids: Arc<CounterIds>) -> ServerConfig {
	ServerConfig::builder()
		.max_subscriptions_per_connection(cap)
		.set_message_buffer_capacity(qcap)
		.set_id_provider(SharedIds(ids))
		.max_connections(16)
		.build()
}

impl Env {
	/// `eager`: nconns real connections; `manual`: nconns harness-owned queues of capacity `qcap`
	pub async fn new(eager: bool, nconns: usize, cap: u32, qcap: u32) -> Env {
		let shared = Arc::new(Shared::default());
		let ids = Arc::new(CounterIds::default());
		let module = build_module(shared.clone());
		let methods: Methods = module.into();
		let mut env = Env { shared, ids: ids.clone(), methods: methods.clone(), conns: vec![], server_handle: None, stop_handle: None, cap, qcap };
		if eager {
			let (stop_handle, server_handle) = stop_channel();
			let builder: TowerServiceBuilder<_, _> =
				Server::builder().set_config(server_cfg(cap, qcap, ids)).set_rpc_middleware(RpcServiceBuilder::new()).to_service_builder();
			for _ in 0..nconns {
				let (client_io, server_io) = tokio::io::duplex(1 << 16);
				let svc = builder.clone().build(methods.clone(), stop_handle.clone());
				let stopped = stop_handle.clone().shutdown();
				tokio::spawn(async move {
					let _ = serve_with_graceful_shutdown(server_io, svc, stopped).await;
				});
				let mut client = soketto::handshake::Client::new(BufReader::new(BufWriter::new(client_io.compat())), "localhost", "/");
				match client.handshake().await {
					Ok(soketto::handshake::ServerResponse::Accepted { .. }) => {}
					other => panic!("ws handshake failed: {other:?}"),
				}
				let (tx, mut rx) = client.into_builder().finish();
				let inbox = Arc::new(Mutex::new(VecDeque::new()));
				let closed_seen = Arc::new(Mutex::new(false));
				let (ib, cs) = (inbox.clone(), closed_seen.clone());
				let reader = tokio::spawn(async move {
					loop {
						let mut data = Vec::new();
						match rx.receive_data(&mut data).await {
							Ok(_) => ib.lock().unwrap().push_back(String::from_utf8_lossy(&data).into_owned()),
							Err(_) => {
								*cs.lock().unwrap() = true;
								break;
							}
						}
					}
				});
				env.conns.push(ConnImpl::Eager(Peer { tx: Some(tx), inbox, closed_seen, reader: Some(reader) }));
			}
			env.server_handle = Some(server_handle);
			env.stop_handle = Some(stop_handle);
			barrier().await;
		} else {
			for i in 0..nconns {
				let (tx, rx) = mpsc::channel(qcap.max(1) as usize);
				env.conns.push(ConnImpl::Manual(ManualConn {
					sink: Some(MethodSink::new_with_limit(tx, 10 * 1024 * 1024)),
					rx: Some(rx),
					bounded: BoundedSubscriptions::new(cap),
					conn_id: i,
				}));
			}
		}
		env
	}

	/// Send a request text on connection `c`.  `Err` = the peer side is closed.
	pub async fn request(&mut self, c: usize, text: String) -> Result<(), ()> {
		match &mut self.conns[c] {
			ConnImpl::Eager(p) => {
				if *p.closed_seen.lock().unwrap() {
					return Err(());
				}
				let Some(tx) = p.tx.as_mut() else { return Err(()) };
				if tx.send_text(&text).await.is_err() || tx.flush().await.is_err() {
					return Err(());
				}
				Ok(())
			}
			ConnImpl::Manual(mc) => {
				// what ws.rs's per-message task + middleware/rpc.rs do for a single call
				let Some(sink) = mc.sink.clone() else { return Err(()) };
				if sink.is_closed() {
					return Err(());
				}
				let methods = self.methods.clone();
				let bounded = mc.bounded.clone();
				let ids = SharedIds(self.ids.clone());
				let conn_id = ConnectionId(mc.conn_id);
				tokio::spawn(async move {
					let req: jsonrpsee_types::Request = serde_json::from_str(&text).expect("harness request");
					let id = req.id.clone().into_owned();
					let params = Params::new(req.params.as_ref().map(|p| p.get())).into_owned();
					let rp = match methods.method_with_name(&req.method) {
						Some((_, MethodCallback::Subscription(cb))) => {
							if let Some(p) = bounded.acquire() {
								let st = SubscriptionState { conn_id, id_provider: &ids, subscription_permit: p };
								(cb)(id.clone(), params, sink.clone(), st, Default::default()).await
							} else {
								jsonrpsee_server::MethodResponse::error(
									id,
									jsonrpsee_types::error::reject_too_many_subscriptions(bounded.max()),
								)
							}
						}
						Some((_, MethodCallback::Unsubscription(cb))) => (cb)(id, params, conn_id, usize::MAX, Default::default()),
						_ => panic!("harness only calls subscription methods"),
					};
					if rp.is_method_call() {
						let _ = sink.send(rp.into_json()).await;
					}
				});
				Ok(())
			}
		}
	}

	/// frames that reached the peer of `c` since the last call (eager) — in order
	pub fn take_frames(&mut self, c: usize) -> Vec<String> {
		match &mut self.conns[c] {
			ConnImpl::Eager(p) => p.inbox.lock().unwrap().drain(..).collect(),
			ConnImpl::Manual(_) => vec![],
		}
	}

	/// manual mode: one writer step (pop the queue head)
	pub fn writer_step(&mut self, c: usize) -> Option<String> {
		match &mut self.conns[c] {
			ConnImpl::Manual(mc) => mc.rx.as_mut().and_then(|rx| rx.try_recv().ok()).map(|b| b.get().to_string()),
			ConnImpl::Eager(_) => None,
		}
	}

	/// free slots of the connection queue as the harness (connection task) sees them; manual only
	pub fn queue_room(&self, c: usize) -> Option<usize> {
		match &self.conns[c] {
			ConnImpl::Manual(mc) => mc.sink.as_ref().map(|s| s.capacity()),
			ConnImpl::Eager(_) => None,
		}
	}

	/// has the peer observed the end of the connection (eager), or has the harness closed it (manual)
	pub fn closed(&self, c: usize) -> bool {
		match &self.conns[c] {
			ConnImpl::Eager(p) => *p.closed_seen.lock().unwrap() || p.tx.is_none(),
			ConnImpl::Manual(mc) => mc.rx.is_none(),
		}
	}

	/// the peer goes away (`graceful`: WebSocket close frame first; otherwise the socket just drops)
	pub async fn conn_close(&mut self, c: usize, graceful: bool) {
		match &mut self.conns[c] {
			ConnImpl::Eager(p) => {
				if let Some(mut tx) = p.tx.take() {
					if graceful {
						let _ = tx.close().await;
					}
					drop(tx);
				}
				if !graceful {
					if let Some(r) = p.reader.take() {
						r.abort();
					}
				}
			}
			ConnImpl::Manual(mc) => {
				// ws.rs send_task: `rx.close()` then the receiver is dropped; the connection's sinks go too
				if let Some(mut rx) = mc.rx.take() {
					rx.close();
					drop(rx);
				}
				mc.sink = None;
			}
		}
	}

	pub fn stop(&mut self) {
		if let Some(h) = &self.server_handle {
			let _ = h.stop();
		}
	}
}

/// One scripted subscription as the harness tracks it (implementation side).
pub struct SubCtl {
	pub conn: usize,
	pub sid: u64,
	pub meth: usize,
	pub pending: Option<PendingSubscriptionSink>,
	pub sinks: Vec<SubscriptionSink>,
	pub ret_tx: Option<oneshot::Sender<Ret>>,
	pub gone: Arc<Mutex<bool>>,
}

impl SubCtl {
	pub fn from_handover(h: Handover) -> SubCtl {
		SubCtl { conn: h.conn, sid: h.sid, meth: h.meth, pending: h.pending, sinks: vec![], ret_tx: h.ret_tx, gone: h.gone }
	}
	pub fn handler_gone(&self) -> bool {
		*self.gone.lock().unwrap()
	}
}

/// Run `fut` in its own task, then wait for quiescence; `None` = the operation is parked.
pub async fn run_step<T: Send + 'static>(fut: impl std::future::Future<Output = T> + Send + 'static) -> Option<T> {
	let h = tokio::spawn(fut);
	barrier().await;
	if h.is_finished() {
		h.await.ok()
	} else {
		h.abort();
		None
	}
}

pub fn sub_request(meth: usize, rid: u64) -> String {
	format!("{{\"jsonrpc\":\"2.0\",\"id\":{rid},\"method\":\"{}\"}}", SUB_NAMES[meth])
}
pub fn unsub_request(meth: usize, rid: u64, x: u64) -> String {
	format!("{{\"jsonrpc\":\"2.0\",\"id\":{rid},\"method\":\"{}\",\"params\":[{x}]}}", UNSUB_NAMES[meth])
}

/// Canonical token of a frame (exact member sets are checked; anything else is shown raw).
pub fn canon_frame(text: &str) -> String {
	use serde_json::Value;
	let raw = || format!("raw:{}", crate::common::hexs(text));
	let Ok(Value::Object(o)) = serde_json::from_str::<Value>(text) else { return raw() };
	if o.get("jsonrpc") != Some(&Value::String("2.0".into())) {
		return raw();
	}
	if let Some(Value::String(m)) = o.get("method") {
		if o.len() != 3 {
			return raw();
		}
		let Some(Value::Object(p)) = o.get("params") else { return raw() };
		if p.len() != 2 {
			return raw();
		}
		let Some(sid) = p.get("subscription").and_then(|v| v.as_u64()) else { return raw() };
		if let Some(r) = p.get("result") {
			let Some(n) = r.as_u64() else { return raw() };
			return format!("ntf:{m}:{sid}:{n}");
		}
		if let Some(Value::String(e)) = p.get("error") {
			let Some(n) = e.strip_prefix('e').and_then(|x| x.parse::<u64>().ok()) else { return raw() };
			return format!("nerr:{m}:{sid}:{n}");
		}
		return raw();
	}
	let Some(rid) = o.get("id").and_then(|v| v.as_u64()) else { return raw() };
	if o.len() != 3 {
		return raw();
	}
	if let Some(r) = o.get("result") {
		return match r {
			Value::Bool(b) => format!("bool:{rid}:{}", *b as u8),
			Value::Number(n) if n.is_u64() => format!("resp:{rid}:{}", n.as_u64().unwrap()),
			_ => raw(),
		};
	}
	if let Some(Value::Object(e)) = o.get("error") {
		let Some(code) = e.get("code").and_then(|v| v.as_i64()) else { return raw() };
		return format!("err:{rid}:{code}");
	}
	raw()
}

pub fn reject_error(code: i32) -> ErrorObjectOwned {
	ErrorObjectOwned::owned(code, "rejected", None::<()>)
}

pub fn data_msg(p: u64) -> SubscriptionMessage {
	SubscriptionMessage::from(serde_json::value::to_raw_value(&p).unwrap())
}

#[allow(dead_code)]
fn _unused(_: Id<'static>) {}
