//! Environment of the server subscription family (C06, C04): drives the REAL per-connection
//! machinery of jsonrpsee-server in-process.
//!
//! * `eager` mode: a `TowerService` (the service `Server::start` builds for every accepted socket)
//!   is served over a `tokio::io::duplex` pair with `jsonrpsee_server::serve_with_graceful_shutdown`;
//!   the peer is a raw soketto client.  Permits (-32006), the subscriber tables, unsubscribe,
//!   connection close and server stop are the library's own code (middleware/rpc.rs, ws.rs,
//!   server.rs, subscription.rs, rpc_module.rs).
//! * `manual` mode: the harness owns the bounded connection queue (`mpsc::channel(qcap)` behind a
//!   `MethodSink`) and plays the connection task itself (permit acquisition as middleware/rpc.rs
//!   does, per-message task as ws.rs does), so that the writer can be stepped frame by frame and
//!   the queue bound is visible.  subscription.rs and rpc_module.rs are the library's own.
//!
//! The subscription handlers are scripted: the handler hands its `PendingSubscriptionSink` to the
//! harness and then waits for its `return` command, every sink operation (accept, reject, drop,
//! send, clone, drop of a clone, is_closed) is issued by the script one at a time, each followed
//! by a quiescence barrier (current-thread runtime, paused clock: `sleep(1ms)` returns when every
//! task is idle).
use std::collections::VecDeque;
use std::sync::{Arc, Mutex};
use std::time::Duration;

use futures_util::io::{BufReader, BufWriter};
use jsonrpsee_server::middleware::rpc::RpcServiceBuilder;
use jsonrpsee_server::{
	BoundedSubscriptions, ConnectionId, IdProvider, MethodCallback, MethodSink, Methods, PendingSubscriptionSink, RpcModule,
	Server, ServerConfig, ServerHandle, StopHandle, SubscriptionCloseResponse, SubscriptionMessage, SubscriptionSink,
	SubscriptionState, TowerServiceBuilder, serve_with_graceful_shutdown, stop_channel,
};
use jsonrpsee_types::{ErrorObjectOwned, Id, Params, SubscriptionId};
use serde_json::value::RawValue;
use tokio::sync::{mpsc, oneshot};
use tokio_util::compat::{Compat, TokioAsyncReadCompatExt};

/// Four subscription methods: A and B are `register_subscription` (async handler, closing
/// notification), C and D are `register_subscription_raw` (sync callback, no handler future, no closing
/// notification); D's notification name EQUALS its subscribe name, all others differ.  Every subscribe and
/// unsubscribe method also has an alias (`register_alias`), and an ordinary method `echo` and an
/// ordinary method whose name extends a subscribe name (`subA_info`) live in the same module.
pub const NMETH: usize = 4;
pub const SUB_NAMES: [&str; NMETH] = ["subA", "subB", "subC", "subD"];
/// every method's notification name differs from its subscribe name, except D's, which coincides
pub const NOTIF_NAMES: [&str; NMETH] = ["nA", "nB", "nC", "subD"];
pub const UNSUB_NAMES: [&str; NMETH] = ["unsubA", "unsubB", "unsubC", "unsubD"];
pub const SUB_ALIASES: [&str; NMETH] = ["al_subA", "subscribe_b", "subC2", "subD2"];
pub const UNSUB_ALIASES: [&str; NMETH] = ["al_unsubA", "unsubscribe_b", "unsubC2", "unsubD2"];
/// methods registered with `register_subscription_raw`
pub fn raw_meth(m: usize) -> bool {
	m >= 2
}

/// what a scripted handler returns — through every `IntoSubscriptionCloseResponse` impl of the library
pub enum HRet {
	Unit,
	Res(Result<(), jsonrpsee_core::SubscriptionError>),
	Plain(SubscriptionCloseResponse),
}
impl jsonrpsee_server::IntoSubscriptionCloseResponse for HRet {
	fn into_response(self) -> SubscriptionCloseResponse {
		match self {
			HRet::Unit => ().into_response(),
			HRet::Res(r) => r.into_response(),
			HRet::Plain(p) => p.into_response(),
		}
	}
}

/// Scripted subscription ids (one provider per server, as `ServerConfig::id_provider`): the id the
/// next admitted subscribe call gets is preset by the script (`ss sub c m rid <sid>`), so a case can
/// use a counter (1, 2, 3, …), re-use the id of a subscription that was unsubscribed / has ended
/// (ids need only be unique among the live subscriptions of a connection), use the same id on two
/// connections, or — deliberately undisciplined — hand out an id that is still registered.
///
/// Ids are TYPED (`SubscriptionId::Num` | `Str`): on the line protocol a decimal number is `Num n`,
/// `s<hex of the UTF-8 bytes>` is `Str` (`s-` = empty string); `Num 5` and `Str "5"` are different ids.
#[derive(Debug)]
pub struct CounterIds(pub Mutex<SubscriptionId<'static>>);
impl Default for CounterIds {
	fn default() -> Self {
		CounterIds(Mutex::new(SubscriptionId::Num(0)))
	}
}
impl IdProvider for CounterIds {
	fn next_id(&self) -> SubscriptionId<'static> {
		self.0.lock().unwrap().clone()
	}
}
impl CounterIds {
	pub fn preset(&self, sid: SubscriptionId<'static>) {
		*self.0.lock().unwrap() = sid;
	}
}

/// typed id -> line-protocol token
pub fn sid_token(id: &SubscriptionId<'_>) -> String {
	match id {
		SubscriptionId::Num(n) => n.to_string(),
		SubscriptionId::Str(s) => format!("s{}", crate::common::hexs(s)),
	}
}
/// line-protocol token -> typed id
pub fn parse_sid_token(w: &str) -> Option<SubscriptionId<'static>> {
	if let Some(h) = w.strip_prefix('s') {
		if h != "-" && (h.len() % 2 != 0 || !h.chars().all(|c| c.is_ascii_hexdigit())) {
			return None;
		}
		String::from_utf8(crate::common::unhex(h)).ok().map(|s| SubscriptionId::Str(s.into()))
	} else {
		w.parse::<u64>().ok().map(SubscriptionId::Num)
	}
}
/// JSON spelling of a typed id
pub fn sid_json(id: &SubscriptionId<'_>) -> String {
	serde_json::to_string(id).unwrap()
}
#[derive(Debug, Clone)]
pub struct SharedIds(pub Arc<CounterIds>);
impl IdProvider for SharedIds {
	fn next_id(&self) -> SubscriptionId<'static> {
		self.0.next_id()
	}
}

/// What the scripted handler returns.
#[derive(Debug, Clone)]
pub enum Ret {
	None,
	Notif(u64),
	Err(u64),
}

/// A handler invocation handed over to the harness.
pub struct Handover {
	pub conn: usize,
	pub sid: String,
	pub meth: usize,
	pub pending: Option<PendingSubscriptionSink>,
	pub ret_tx: Option<oneshot::Sender<Ret>>,
	/// set by the handler future's drop guard when it is dropped/cancelled or has returned
	pub gone: Arc<Mutex<bool>>,
}

#[derive(Default)]
pub struct Shared {
	pub handovers: Mutex<Vec<Handover>>,
}

struct GoneGuard(Arc<Mutex<bool>>);
impl Drop for GoneGuard {
	fn drop(&mut self) {
		*self.0.lock().unwrap() = true;
	}
}

pub fn err_msg(e: u64) -> String {
	format!("e{e}")
}

pub fn build_module(shared: Arc<Shared>) -> RpcModule<Arc<Shared>> {
	let mut module = RpcModule::new(shared);
	for m in 0..NMETH {
		if raw_meth(m) {
			module
				.register_subscription_raw(SUB_NAMES[m], NOTIF_NAMES[m], UNSUB_NAMES[m], move |_params, pending, ctx, _ext| {
					let sid = sid_token(&pending.subscription_id());
					let conn = pending.connection_id().0;
					// no handler future: "returned" from the start
					ctx.handovers.lock().unwrap().push(Handover { conn, sid, meth: m, pending: Some(pending), ret_tx: None, gone: Arc::new(Mutex::new(true)) });
				})
				.unwrap();
		} else {
			module
				.register_subscription(SUB_NAMES[m], NOTIF_NAMES[m], UNSUB_NAMES[m], move |_params, pending, ctx, _ext| async move {
					let (ret_tx, ret_rx) = oneshot::channel::<Ret>();
					let gone = Arc::new(Mutex::new(false));
					let _guard = GoneGuard(gone.clone());
					let sid = sid_token(&pending.subscription_id());
					let conn = pending.connection_id().0;
					ctx.handovers.lock().unwrap().push(Handover { conn, sid, meth: m, pending: Some(pending), ret_tx: Some(ret_tx), gone });
					// the closing value goes through all three `IntoSubscriptionCloseResponse` impls
					// (`()`, `Result<(), SubscriptionError>`, `SubscriptionCloseResponse`), picked by its parity
					match ret_rx.await {
						Err(_) => HRet::Unit,
						Ok(Ret::None) => {
							if m == 0 {
								HRet::Unit
							} else {
								HRet::Res(Ok(()))
							}
						}
						Ok(Ret::Notif(p)) => {
							HRet::Plain(SubscriptionCloseResponse::Notif(SubscriptionMessage::from(serde_json::value::to_raw_value(&p).unwrap())))
						}
						Ok(Ret::Err(e)) => {
							if e % 2 == 0 {
								HRet::Res(Err(err_msg(e).into()))
							} else {
								HRet::Plain(SubscriptionCloseResponse::NotifErr(err_msg(e).into()))
							}
						}
					}
				})
				.unwrap();
		}
		module.register_alias(SUB_ALIASES[m], SUB_NAMES[m]).unwrap();
		module.register_alias(UNSUB_ALIASES[m], UNSUB_NAMES[m]).unwrap();
	}
	module.register_method("echo", |params, _, _| params.one::<u64>().unwrap_or(0)).unwrap();
	module.register_method("subA_info", |_, _, _| 1u64).unwrap();
	module.register_alias("unsubA_all", "echo").unwrap();
	module
}

/// quiescence barrier: with the paused clock the timer only fires once every task is idle
pub async fn barrier() {
	tokio::time::sleep(Duration::from_millis(1)).await;
}

type WsTx = soketto::Sender<BufReader<BufWriter<Compat<tokio::io::DuplexStream>>>>;

/// peer side of one eager (real transport) connection
pub struct Peer {
	pub tx: Option<WsTx>,
	pub inbox: Arc<Mutex<VecDeque<String>>>,
	pub closed_seen: Arc<Mutex<bool>>,
	pub reader: Option<tokio::task::JoinHandle<()>>,
}

/// harness side of one manual connection (the harness plays the connection task)
pub struct ManualConn {
	pub sink: Option<MethodSink>,
	pub rx: Option<mpsc::Receiver<Box<RawValue>>>,
	pub bounded: BoundedSubscriptions,
	pub conn_id: usize,
}

pub enum ConnImpl {
	Eager(Peer),
	Manual(ManualConn),
}

pub struct Env {
	pub shared: Arc<Shared>,
	pub ids: Arc<CounterIds>,
	pub methods: Methods,
	pub conns: Vec<ConnImpl>,
	pub server_handle: Option<ServerHandle>,
	pub stop_handle: Option<StopHandle>,
	pub cap: u32,
	pub qcap: u32,
	/// lowlevel mode: the tasks driving the connection futures `ws::connect` returned, by connection id
	pub conn_futs: Arc<Mutex<Vec<(u32, tokio::task::JoinHandle<()>)>>>,
	/// manual mode: the per-message task of the most recent admitted subscribe call (it owns the call's future)
	pub last_call: Option<tokio::task::JoinHandle<()>>,
}

fn server_cfg(cap: u32, qcap: u32, ids: Arc<CounterIds>) -> ServerConfig {
	ServerConfig::builder()
		.max_subscriptions_per_connection(cap)
		.set_message_buffer_capacity(qcap)
		.set_id_provider(SharedIds(ids))
		.max_connections(16)
		.build()
}

impl Env {
	/// `eager`: nconns real connections; `manual`: nconns harness-owned queues of capacity `qcap`
	pub async fn new(eager: bool, lowlevel: bool, nconns: usize, cap: u32, qcap: u32) -> Env {
		let shared = Arc::new(Shared::default());
		let ids = Arc::new(CounterIds::default());
		let module = build_module(shared.clone());
		let methods: Methods = module.into();
		let mut env = Env { shared, ids: ids.clone(), methods: methods.clone(), conns: vec![], server_handle: None, stop_handle: None, cap, qcap, conn_futs: Arc::new(Mutex::new(vec![])), last_call: None };
		if eager {
			let (stop_handle, server_handle) = stop_channel();
			let builder: TowerServiceBuilder<_, _> =
				Server::builder().set_config(server_cfg(cap, qcap, ids)).set_rpc_middleware(RpcServiceBuilder::new()).to_service_builder();
			for _ in 0..nconns {
				let (client_io, server_io) = tokio::io::duplex(1 << 16);
				let stopped = stop_handle.clone().shutdown();
				if lowlevel {
					// the low-level assembly: the application calls `ws::connect` itself for the upgrade request
					let cfg = server_cfg(cap, qcap, env.ids.clone());
					let (m2, sh2) = (methods.clone(), stop_handle.clone());
					let conn_id = env.conns.len() as u32;
					let guard = jsonrpsee_server::ConnectionGuard::new(4);
					let futs = env.conn_futs.clone();
					let svc = tower::service_fn(move |req: jsonrpsee_server::HttpRequest<hyper::body::Incoming>| {
						let (cfg, m2, sh2, guard, futs) = (cfg.clone(), m2.clone(), sh2.clone(), guard.clone(), futs.clone());
						async move {
							let permit = guard.try_acquire().expect("connection permit");
							let conn = jsonrpsee_server::ConnectionState::new(sh2, conn_id, permit);
							match jsonrpsee_server::ws::connect(req, cfg, m2, conn, RpcServiceBuilder::new()).await {
								Ok((rp, conn_fut)) => {
									futs.lock().unwrap().push((conn_id, tokio::spawn(conn_fut)));
									Ok::<_, std::convert::Infallible>(rp)
								}
								Err(rp) => Ok(rp),
							}
						}
					});
					tokio::spawn(async move {
						let _ = serve_with_graceful_shutdown(server_io, svc, stopped).await;
					});
				} else {
					// the two usual per-connection spellings take turns from case to case: the shared builder cloned as it
					// is, or cloned and given its rpc middleware again (examples/jsonrpsee_as_service.rs) — the connections
					// of one server get distinct ids either way
					let svc = if (cap as u64 + qcap as u64 + nconns as u64) % 2 == 0 {
						builder.clone().build(methods.clone(), stop_handle.clone())
					} else {
						builder.clone().set_rpc_middleware(RpcServiceBuilder::new()).build(methods.clone(), stop_handle.clone())
					};
					tokio::spawn(async move {
						let _ = serve_with_graceful_shutdown(server_io, svc, stopped).await;
					});
				}
				let mut client = soketto::handshake::Client::new(BufReader::new(BufWriter::new(client_io.compat())), "localhost", "/");
				match client.handshake().await {
					Ok(soketto::handshake::ServerResponse::Accepted { .. }) => {}
					other => panic!("ws handshake failed: {other:?}"),
				}
				let (tx, mut rx) = client.into_builder().finish();
				let inbox = Arc::new(Mutex::new(VecDeque::new()));
				let closed_seen = Arc::new(Mutex::new(false));
				let (ib, cs) = (inbox.clone(), closed_seen.clone());
				let reader = tokio::spawn(async move {
					loop {
						let mut data = Vec::new();
						match rx.receive_data(&mut data).await {
							Ok(_) => ib.lock().unwrap().push_back(String::from_utf8_lossy(&data).into_owned()),
							Err(_) => {
								*cs.lock().unwrap() = true;
								break;
							}
						}
					}
				});
				env.conns.push(ConnImpl::Eager(Peer { tx: Some(tx), inbox, closed_seen, reader: Some(reader) }));
			}
			env.server_handle = Some(server_handle);
			env.stop_handle = Some(stop_handle);
			barrier().await;
		} else {
			for i in 0..nconns {
				let (tx, rx) = mpsc::channel(qcap.max(1) as usize);
				env.conns.push(ConnImpl::Manual(ManualConn {
					sink: Some(MethodSink::new_with_limit(tx, 10 * 1024 * 1024)),
					rx: Some(rx),
					bounded: BoundedSubscriptions::new(cap),
					conn_id: i,
				}));
			}
		}
		env
	}

	/// Send a request text on eager connection `c`.  `Err` = the peer side is closed.
	pub async fn request(&mut self, c: usize, text: String) -> Result<(), ()> {
		match &mut self.conns[c] {
			ConnImpl::Eager(p) => {
				if *p.closed_seen.lock().unwrap() {
					return Err(());
				}
				let Some(tx) = p.tx.as_mut() else { return Err(()) };
				if tx.send_text(&text).await.is_err() || tx.flush().await.is_err() {
					return Err(());
				}
				Ok(())
			}
			ConnImpl::Manual(_) => Err(()),
		}
	}

	/// manual mode: what middleware/rpc.rs:107-132 and the per-message task of ws.rs:154-185 do for a
	/// subscribe call.  Returns `ignored` | `blocked` | `refused` | `called`.
	pub fn manual_subscribe(&mut self, c: usize, meth: usize, rid: u64) -> &'static str {
		let ConnImpl::Manual(mc) = &mut self.conns[c] else { return "bad" };
		let Some(sink) = mc.sink.clone() else { return "ignored" };
		let Some((_, MethodCallback::Subscription(cb))) = self.methods.method_with_name(SUB_NAMES[meth]) else { return "bad" };
		let cb = cb.clone();
		let id = Id::Number(rid);
		match mc.bounded.acquire() {
			None => {
				if sink.capacity() == 0 {
					return "blocked";
				}
				let rp = jsonrpsee_server::MethodResponse::error(id, jsonrpsee_types::error::reject_too_many_subscriptions(mc.bounded.max()));
				tokio::spawn(async move {
					if rp.is_method_call() {
						let _ = sink.send(rp.into_json()).await;
					}
				});
				"refused"
			}
			Some(p) => {
				let ids = SharedIds(self.ids.clone());
				let conn_id = ConnectionId(mc.conn_id);
				let call = tokio::spawn(async move {
					let st = SubscriptionState { conn_id, id_provider: &ids, subscription_permit: p };
					let rp = (cb)(id, Params::new(None), sink.clone(), st, Default::default()).await;
					if rp.is_method_call() {
						let _ = sink.send(rp.into_json()).await;
					}
				});
				self.last_call = Some(call);
				"called"
			}
		}
	}

	/// manual mode: unsubscribe call (middleware/rpc.rs:134-146 + per-message task); `Ok(answer)`
	pub fn manual_unsubscribe(&mut self, c: usize, meth: usize, rid: u64, params: Option<&str>) -> Result<Option<bool>, &'static str> {
		let ConnImpl::Manual(mc) = &mut self.conns[c] else { return Err("bad") };
		let Some(sink) = mc.sink.clone() else { return Err("ignored") };
		if sink.capacity() == 0 {
			return Err("blocked");
		}
		let Some((_, MethodCallback::Unsubscription(cb))) = self.methods.method_with_name(UNSUB_NAMES[meth]) else { return Err("bad") };
		let rp = (cb)(Id::Number(rid), Params::new(params), ConnectionId(mc.conn_id), usize::MAX, Default::default());
		let ans = canon_frame(rp.as_json().get()).strip_prefix(&format!("bool:{rid}:")).map(|b| b == "1");
		tokio::spawn(async move {
			if rp.is_method_call() {
				let _ = sink.send(rp.into_json()).await;
			}
		});
		Ok(ans)
	}

	/// frames that reached the peer of `c` since the last call (eager) — in order
	pub fn take_frames(&mut self, c: usize) -> Vec<String> {
		match &mut self.conns[c] {
			ConnImpl::Eager(p) => p.inbox.lock().unwrap().drain(..).collect(),
			ConnImpl::Manual(_) => vec![],
		}
	}

	/// manual mode: one writer step (pop the queue head)
	pub fn writer_step(&mut self, c: usize) -> Option<String> {
		match &mut self.conns[c] {
			ConnImpl::Manual(mc) => mc.rx.as_mut().and_then(|rx| rx.try_recv().ok()).map(|b| b.get().to_string()),
			ConnImpl::Eager(_) => None,
		}
	}

	/// free slots of the connection queue as the harness (connection task) sees them; manual only
	pub fn queue_room(&self, c: usize) -> Option<usize> {
		match &self.conns[c] {
			ConnImpl::Manual(mc) => mc.sink.as_ref().map(|s| s.capacity()),
			ConnImpl::Eager(_) => None,
		}
	}

	/// has the peer observed the end of the connection (eager), or has the harness closed it (manual)
	pub fn closed(&self, c: usize) -> bool {
		match &self.conns[c] {
			ConnImpl::Eager(p) => *p.closed_seen.lock().unwrap() || p.tx.is_none(),
			ConnImpl::Manual(mc) => mc.rx.is_none(),
		}
	}

	/// the peer goes away (`graceful`: WebSocket close frame first; otherwise the socket just drops)
	/// lowlevel mode: the application DROPS the connection future `ws::connect` returned (the documented
	/// `select!{ conn_fut, disconnect.recv() }` pattern) — the peer's socket stays as it is.  `false` =
	/// not a lowlevel connection.
	pub fn drop_conn_future(&mut self, c: usize) -> bool {
		let mut futs = self.conn_futs.lock().unwrap();
		let mut found = false;
		for (id, h) in futs.iter() {
			if *id as usize == c {
				h.abort();
				found = true;
			}
		}
		futs.retain(|(id, _)| *id as usize != c);
		found
	}

	pub async fn conn_close(&mut self, c: usize, graceful: bool) {
		match &mut self.conns[c] {
			ConnImpl::Eager(p) => {
				if let Some(mut tx) = p.tx.take() {
					if graceful {
						let _ = tx.close().await;
					}
					drop(tx);
				}
				if !graceful {
					if let Some(r) = p.reader.take() {
						r.abort();
					}
				}
			}
			ConnImpl::Manual(mc) => {
				// ws.rs send_task: `rx.close()` then the receiver is dropped; the connection's sinks go too
				if let Some(mut rx) = mc.rx.take() {
					rx.close();
					drop(rx);
				}
				mc.sink = None;
			}
		}
	}

	pub fn stop(&mut self) {
		if let Some(h) = &self.server_handle {
			let _ = h.stop();
		}
	}
}

/// One scripted subscription as the harness tracks it (implementation side).
pub struct SubCtl {
	pub conn: usize,
	pub sid: String,
	pub meth: usize,
	pub pending: Option<PendingSubscriptionSink>,
	pub sinks: Vec<SubscriptionSink>,
	pub ret_tx: Option<oneshot::Sender<Ret>>,
	pub gone: Arc<Mutex<bool>>,
	/// manual mode: the task that owns the subscribe call's future (`ss cancelcall` aborts it)
	pub call: Option<tokio::task::JoinHandle<()>>,
}

impl SubCtl {
	pub fn from_handover(h: Handover) -> SubCtl {
		SubCtl { conn: h.conn, sid: h.sid.clone(), meth: h.meth, pending: h.pending, sinks: vec![], ret_tx: h.ret_tx, gone: h.gone, call: None }
	}
	pub fn handler_gone(&self) -> bool {
		*self.gone.lock().unwrap()
	}
}

/// Run `fut` in its own task, then wait for quiescence; `None` = the operation is parked.
pub async fn run_step<T: Send + 'static>(fut: impl std::future::Future<Output = T> + Send + 'static) -> Option<T> {
	let h = tokio::spawn(fut);
	barrier().await;
	if h.is_finished() {
		h.await.ok()
	} else {
		h.abort();
		None
	}
}

/// Wire spelling of a subscribe request, chosen by the request id (every script cycles through all
/// of them): params missing / [] / null / {} / extra elements, the alias name, JSON escapes in member
/// names and interior whitespace, the request id as a string.  The handlers ignore the params.
pub const SUB_SPELLINGS: u64 = 8;
pub fn sub_request(meth: usize, rid: u64) -> String {
	let n = SUB_NAMES[meth];
	match rid % SUB_SPELLINGS {
		0 => format!("{{\"jsonrpc\":\"2.0\",\"id\":{rid},\"method\":\"{n}\"}}"),
		1 => format!("{{\"jsonrpc\":\"2.0\",\"id\":{rid},\"method\":\"{n}\",\"params\":[]}}"),
		2 => format!("{{\"jsonrpc\":\"2.0\",\"id\":{rid},\"method\":\"{n}\",\"params\":null}}"),
		3 => format!("{{\"jsonrpc\":\"2.0\",\"id\":{rid},\"method\":\"{n}\",\"params\":{{}}}}"),
		4 => format!("{{\"params\":[1,\"x\",{{\"a\":[2]}}],\"method\":\"{n}\",\"id\":{rid},\"jsonrpc\":\"2.0\"}}"),
		5 => format!("{{\"jsonrpc\":\"2.0\",\"id\":{rid},\"method\":\"{}\"}}", SUB_ALIASES[meth]),
		6 => format!(" {{ \"jsonrpc\" : \"2.0\" ,\n\t\"\\u0069d\" : {rid} , \"\\u006dethod\" : \"{n}\" , \"p\\u0061rams\" : [ ] }} "),
		_ => format!("{{\"jsonrpc\":\"2.0\",\"id\":\"{rid}\",\"method\":\"{n}\"}}"),
	}
}
/// `params`: the raw params text (`None` = member omitted)
pub const UNSUB_SPELLINGS: u64 = 4;
pub fn unsub_request(meth: usize, rid: u64, params: Option<&str>) -> String {
	// spelling by request id: plain / alias / escapes + whitespace + member order / string request id
	let name = if rid % UNSUB_SPELLINGS == 1 { UNSUB_ALIASES[meth] } else { UNSUB_NAMES[meth] };
	let id = if rid % UNSUB_SPELLINGS == 3 { format!("\"{rid}\"") } else { rid.to_string() };
	let ps = match params {
		Some(p) => format!(",\"params\":{p}"),
		None => String::new(),
	};
	if rid % UNSUB_SPELLINGS == 2 {
		let ps = match params {
			Some(p) => format!(" \"par\\u0061ms\" : {p} ,"),
			None => String::new(),
		};
		format!("\n{{{ps} \"m\\u0065thod\" : \"{name}\" , \"id\" : {id} , \"jsonrpc\" : \"2.0\" }}")
	} else {
		format!("{{\"jsonrpc\":\"2.0\",\"id\":{id},\"method\":\"{name}\"{ps}}}")
	}
}

/// The argument of an `ss unsub` line: a typed id token, or `j<hex>` = raw params text that is not
/// `[<subscription id>]` (`j-` = params omitted).  Returns (params text, the typed id it names if any).
/// JSON spelling of a string with escapes chosen by `style`: 0 = serde_json's (minimal), 1 = every
/// char as \uXXXX (surrogate pairs for astral chars), 2 = short escapes where they exist (`\/` too),
/// every other non-alphanumeric char as \uXXXX, 3 = alternating plain / \uXXXX
pub fn spell_json_string(t: &str, style: u64) -> String {
	if style == 0 {
		return serde_json::to_string(t).unwrap();
	}
	let mut o = String::from("\"");
	let u = |o: &mut String, c: char| {
		let mut b = [0u16; 2];
		for x in c.encode_utf16(&mut b) {
			o.push_str(&format!("\\u{:04x}", x));
		}
	};
	for (i, c) in t.chars().enumerate() {
		let must = matches!(c, '"' | '\\') || (c as u32) < 0x20;
		match style {
			1 => u(&mut o, c),
			2 => match c {
				'"' => o.push_str("\\\""),
				'\\' => o.push_str("\\\\"),
				'/' => o.push_str("\\/"),
				'\n' => o.push_str("\\n"),
				'\t' => o.push_str("\\t"),
				'\r' => o.push_str("\\r"),
				'\u{8}' => o.push_str("\\b"),
				'\u{c}' => o.push_str("\\f"),
				c if c.is_ascii_alphanumeric() => o.push(c),
				c => u(&mut o, c),
			},
			_ => {
				if must || i % 2 == 0 {
					u(&mut o, c)
				} else {
					o.push(c)
				}
			}
		}
	}
	o.push('"');
	o
}

pub fn unsub_arg_spelled(w: &str, rid: u64) -> Option<(Option<String>, Option<String>)> {
	match parse_sid_token(w) {
		Some(SubscriptionId::Str(t)) if !w.starts_with('j') => {
			// the id VALUE is spelled through the escape speller, style by request id
			Some((Some(format!("[{}]", spell_json_string(&t, (rid / UNSUB_SPELLINGS) % 4))), Some(sid_token(&SubscriptionId::Str(t)))))
		}
		_ => unsub_arg(w),
	}
}

pub fn unsub_arg(w: &str) -> Option<(Option<String>, Option<String>)> {
	if let Some(h) = w.strip_prefix('j') {
		let t = String::from_utf8(crate::common::unhex(h)).ok()?;
		return Some((if t.is_empty() { None } else { Some(t) }, None));
	}
	let id = parse_sid_token(w)?;
	Some((Some(format!("[{}]", sid_json(&id))), Some(sid_token(&id))))
}

/// Canonical token of a frame (exact member sets are checked; anything else is shown raw).
pub fn canon_frame(text: &str) -> String {
	use serde_json::Value;
	let raw = || format!("raw:{}", crate::common::hexs(text));
	let Ok(Value::Object(o)) = serde_json::from_str::<Value>(text) else { return raw() };
	if o.get("jsonrpc") != Some(&Value::String("2.0".into())) {
		return raw();
	}
	if let Some(Value::String(m)) = o.get("method") {
		if o.len() != 3 {
			return raw();
		}
		let Some(Value::Object(p)) = o.get("params") else { return raw() };
		if p.len() != 2 {
			return raw();
		}
		let sid = match p.get("subscription") {
			Some(Value::Number(n)) if n.is_u64() => n.as_u64().unwrap().to_string(),
			Some(Value::String(s)) => format!("s{}", crate::common::hexs(s)),
			_ => return raw(),
		};
		if let Some(r) = p.get("result") {
			let Some(n) = r.as_u64() else { return raw() };
			return format!("ntf:{m}:{sid}:{n}");
		}
		if let Some(Value::String(e)) = p.get("error") {
			let Some(n) = e.strip_prefix('e').and_then(|x| x.parse::<u64>().ok()) else { return raw() };
			return format!("nerr:{m}:{sid}:{n}");
		}
		return raw();
	}
	// (a request id sent as the string "107" comes back as that string)
	let rid = match o.get("id") {
		Some(Value::Number(n)) if n.is_u64() => n.as_u64().unwrap(),
		Some(Value::String(t)) if t.parse::<u64>().map(|n| n.to_string() == *t).unwrap_or(false) => t.parse::<u64>().unwrap(),
		_ => return raw(),
	};
	if o.len() != 3 {
		return raw();
	}
	if let Some(r) = o.get("result") {
		return match r {
			Value::Bool(b) => format!("bool:{rid}:{}", *b as u8),
			Value::Number(n) if n.is_u64() => format!("resp:{rid}:{}", n.as_u64().unwrap()),
			Value::String(s) => format!("resp:{rid}:s{}", crate::common::hexs(s)),
			_ => raw(),
		};
	}
	if let Some(Value::Object(e)) = o.get("error") {
		let Some(code) = e.get("code").and_then(|v| v.as_i64()) else { return raw() };
		return format!("err:{rid}:{code}");
	}
	raw()
}

/// error objects of different shapes: with / without data, empty / long / escaped messages
/// closing notifications: error notifications, and result notifications with a closing payload
pub fn is_closing_frame(f: &str) -> bool {
	let w: Vec<&str> = f.split(':').collect();
	match w[0] {
		"nerr" => true,
		"ntf" => w.last().and_then(|p| p.parse::<u64>().ok()).map(|p| p >= CLOSE_BASE).unwrap_or(false),
		_ => false,
	}
}

pub fn reject_error(code: i32) -> ErrorObjectOwned {
	match code.rem_euclid(4) {
		0 => ErrorObjectOwned::owned(code, "rejected", None::<()>),
		1 => ErrorObjectOwned::owned(code, "", Some("data")),
		2 => ErrorObjectOwned::owned(code, "re\"jected\n\u{1F600}", Some(vec![1, 2, 3])),
		_ => ErrorObjectOwned::owned(code, "x".repeat(300), Some(serde_json::json!({"a": {"b": null}}))),
	}
}

/// `<flavour><kind>`: s = send, t = send_timeout, y = try_send; c = Complete message, n = NeedsData
pub fn send_how(w: &str) -> bool {
	matches!(w, "sc" | "sn" | "tc" | "tn" | "zc" | "zn" | "uc" | "un" | "yc" | "yn")
}

pub fn data_msg(p: u64) -> SubscriptionMessage {
	SubscriptionMessage::from(serde_json::value::to_raw_value(&p).unwrap())
}


// ---------------------------------------------------------------------------------------------
// case runner: executes `ss …` op lines against the real code, keeps the harness's own
// bookkeeping (`Book`, independent of the Lean model) and evaluates the C06 / C04 oracles.
// ---------------------------------------------------------------------------------------------

/// payloads >= CLOSE_BASE are only used by closing notifications (`ret k notif:<p>`)
pub const CLOSE_BASE: u64 = 1000;

#[derive(Clone, Copy, PartialEq, Eq, Debug)]
pub enum BPhase {
	Pending,
	Accepted,
	Rejected,
	Dropped,
	AcceptFailed,
}

/// the harness's own record of one subscription (from the script and the observed results)
#[derive(Clone, Debug)]
pub struct BSub {
	pub conn: usize,
	pub meth: usize,
	pub sid: String,
	pub rid: u64,
	pub phase: BPhase,
	pub clones: u32,
	pub unsub: bool,
	/// a clone that was not the last live handle was dropped while the subscription was registered
	pub nonlast_drop: bool,
	pub returned: Option<Ret>,
	/// payloads of sends that returned Ok, in order
	pub sent_ok: Vec<u64>,
	/// observed on the peer, in order
	pub data_seen: Vec<u64>,
	pub close_seen: u32,
	pub resp_seen: bool,
	/// a send/is_closed told the script the subscription is closed
	pub closed_reported: bool,
	/// the id provider handed this id out again while this subscription was still registered and
	/// the newer one was accepted: the newer subscription has taken over the (connection, id) entry
	pub displaced: bool,
	/// the subscribe call was cancelled while the sink was pending: accept must fail, nothing may remain
	pub call_dead: bool,
}

impl BSub {
	/// registered under its (connection, method, id) key as far as the script can tell
	pub fn registered(&self) -> bool {
		self.phase == BPhase::Accepted && !self.unsub && self.clones > 0 && !self.displaced
	}
}

#[derive(Clone, Debug, Default)]
pub struct Book {
	pub subs: Vec<BSub>,
	pub peer_closed: Vec<bool>,
	pub stopped: bool,
	pub cap: u32,
}

impl Book {
	pub fn holding(&self, c: usize) -> u32 {
		self.subs.iter().filter(|s| s.conn == c && (s.phase == BPhase::Pending || s.clones > 0)).count() as u32
	}
	/// the newest subscription that was given this id (ids may be re-used)
	pub fn by_sid(&self, sid: &str) -> Option<usize> {
		self.subs.iter().rposition(|s| s.sid == sid)
	}
	/// the newest subscription under this (connection, id) whose accept response is expected on `c`
	pub fn by_conn_sid(&self, c: usize, sid: &str) -> Option<usize> {
		self.subs.iter().rposition(|s| s.sid == sid && s.conn == c).or_else(|| self.by_sid(sid))
	}
}

pub struct CaseRun {
	pub env: Env,
	pub subs: Vec<SubCtl>,
	pub book: Book,
	pub eager: bool,
	pub nconns: usize,
	pub check_c06: bool,
	pub check_c04: bool,
	/// every frame seen per connection (canonical tokens), for the C04 oracle
	pub streams: Vec<Vec<String>>,
	/// connection state (closed?) at the end of the previous line
	pub was_closed: Vec<bool>,
	/// handler tasks that await `pending.accept()` and then send (`ss parkacceptsend`)
	pub accept_tasks: Vec<AcceptTask>,
	/// sends left parked on a full queue (`ss parksend`), in parking order: (sub, payload, task)
	pub parked: Vec<(usize, u64, tokio::task::JoinHandle<bool>)>,
}

pub struct AcceptTask {
	pub k: usize,
	pub p: u64,
	/// set by the task as soon as `accept()` has returned
	pub accepted: Arc<Mutex<Option<bool>>>,
	pub reported: bool,
	pub handle: tokio::task::JoinHandle<Option<(SubscriptionSink, bool)>>,
}

pub struct LineResult {
	pub out: String,
	pub oracle: Result<(), String>,
	pub nontrivial: bool,
	pub kind: String,
}

pub fn parse_header(line: &str) -> Option<(bool, bool, u32, u32, usize)> {
	let w: Vec<&str> = line.split_whitespace().collect();
	if w.len() != 7 || w[0] != "case" || w[2] != "subs" {
		return None;
	}
	// eager = the TowerService a `Server` builds per socket; lowlevel = the application-side
	// `ws::connect` assembly (both real transports); manual = harness-owned bounded queue
	let (eager, lowlevel) = match w[3] {
		"mode=eager" => (true, false),
		"mode=lowlevel" => (true, true),
		"mode=manual" => (false, false),
		_ => return None,
	};
	let cap = w[4].strip_prefix("cap=")?.parse().ok()?;
	let qcap = w[5].strip_prefix("qcap=")?.parse().ok()?;
	let conns = w[6].strip_prefix("conns=")?.parse().ok()?;
	Some((eager, lowlevel, cap, qcap, conns))
}

pub fn parse_ret(w: &str) -> Option<Ret> {
	if w == "none" {
		Some(Ret::None)
	} else if let Some(p) = w.strip_prefix("notif:") {
		p.parse().ok().map(Ret::Notif)
	} else if let Some(e) = w.strip_prefix("err:") {
		e.parse().ok().map(Ret::Err)
	} else {
		None
	}
}

fn oracle_merge(acc: &mut Result<(), String>, r: Result<(), String>) {
	if let Err(e) = r {
		match acc {
			Ok(()) => *acc = Err(e),
			// a genuine failure outranks a known-finding attribution
			Err(prev) if prev.starts_with("KF ") && !e.starts_with("KF ") => *acc = Err(e),
			_ => {}
		}
	}
}

impl CaseRun {
	pub async fn new(header: &str, check_c06: bool, check_c04: bool) -> Option<CaseRun> {
		let (eager, lowlevel, cap, qcap, nconns) = parse_header(header)?;
		let env = Env::new(eager, lowlevel, nconns, cap, qcap).await;
		let book = Book { subs: vec![], peer_closed: vec![false; nconns], stopped: false, cap };
		Some(CaseRun { env, subs: vec![], book, eager, nconns, check_c06, check_c04, streams: vec![vec![]; nconns], was_closed: vec![false; nconns], accept_tasks: vec![], parked: vec![] })
	}

	fn conn_serving(&self, c: usize) -> bool {
		!self.book.peer_closed[c] && !self.env.closed(c)
	}

	/// expected "active" per the statement of C06, from the script alone
	fn expect_active(&self, k: usize) -> bool {
		let s = &self.book.subs[k];
		s.registered() && self.conn_serving(s.conn)
	}

	/// deviation of a closed/active observation from the statement.  (Finding F-13 — dropping a
	/// non-last clone of the sink removed the subscription — was fixed in /repo by 2bde692; the
	/// history is named in the message so that a regression is recognisable.)
	fn deviation(&self, k: usize, what: String) -> Result<(), String> {
		let s = &self.book.subs[k];
		if s.nonlast_drop && s.phase == BPhase::Accepted && !s.unsub && s.clones > 0 {
			Err(format!("{what} (sub {} on conn {}: a clone of the sink was dropped earlier while {} handle(s) remain — regression of fix 2bde692 / finding F-13?)", s.sid, s.conn, s.clones))
		} else if self.book.subs.iter().enumerate().any(|(j, o)| j != k && o.conn == s.conn && o.meth == s.meth && o.sid == s.sid) {
			Err(format!("{what} (id {} was handed out more than once on conn {}: did the late sink release / unsubscribe of an older subscription with this id remove the entry of the newer one?)", s.sid, s.conn))
		} else {
			Err(what)
		}
	}

	fn collect_handovers(&mut self) -> Vec<usize> {
		let hs: Vec<Handover> = self.env.shared.handovers.lock().unwrap().drain(..).collect();
		let mut new = vec![];
		for h in hs {
			new.push(self.subs.len());
			self.subs.push(SubCtl::from_handover(h));
		}
		new
	}

	/// parked sends that completed since the last line, in parking order: `sub:payload:ok|err`
	async fn collect_parked(&mut self, orc: &mut Result<(), String>) -> Vec<String> {
		let mut done = vec![];
		let mut still = vec![];
		let parked: Vec<_> = self.parked.drain(..).collect();
		for (k, p, h) in parked {
			if !h.is_finished() {
				still.push((k, p, h));
				continue;
			}
			let ok = match h.await {
				Ok(b) => b,
				Err(e) => {
					if e.is_panic() {
						oracle_merge(orc, Err(format!("the parked send {p} of sub {} panicked", self.book.subs[k].sid)));
					}
					false
				}
			};
			// the blocked call has returned: its handle of the sink is gone
			let serving = self.conn_serving(self.book.subs[k].conn);
			let b = &mut self.book.subs[k];
			if b.clones > 1 && !b.unsub {
				b.nonlast_drop = true;
			}
			b.clones -= 1;
			if ok {
				b.sent_ok.push(p);
			} else if serving {
				// a send that started while the subscription was active and waited for room may only fail
				// because the connection went away
				oracle_merge(orc, Err(format!("parked send {p} on sub {} failed although connection {} is still open", b.sid, b.conn)));
			}
			done.push(format!("{k}:{p}:{}", if ok { "ok" } else { "err" }));
		}
		self.parked = still;
		// handler tasks blocked in `pending.accept().await` (then sending)
		let mut still = vec![];
		let tasks: Vec<_> = self.accept_tasks.drain(..).collect();
		for mut t in tasks {
			let acc = *t.accepted.lock().unwrap();
			if let (Some(a), false) = (acc, t.reported) {
				t.reported = true;
				let k = t.k;
				if a {
					// the newer subscription takes over an entry that is still registered under its key
					let (kc, km, ks) = (self.book.subs[k].conn, self.book.subs[k].meth, self.book.subs[k].sid.clone());
					for (j, b) in self.book.subs.iter_mut().enumerate() {
						if j != k && b.conn == kc && b.meth == km && b.sid == ks && b.registered() {
							b.displaced = true;
						}
					}
					self.book.subs[k].phase = BPhase::Accepted;
					self.book.subs[k].clones = 1;
				} else {
					self.book.subs[k].phase = BPhase::AcceptFailed;
				}
				done.push(format!("{k}:a:{}", if a { "ok" } else { "err" }));
			}
			if !t.handle.is_finished() {
				still.push(t);
				continue;
			}
			match t.handle.await {
				Ok(Some((sink, ok))) => {
					if ok {
						self.book.subs[t.k].sent_ok.push(t.p);
					}
					// the task hands its sink to the script
					self.subs[t.k].sinks.push(sink);
					done.push(format!("{}:{}:{}", t.k, t.p, if ok { "ok" } else { "err" }));
				}
				Ok(None) => {}
				Err(e) => {
					if e.is_panic() {
						oracle_merge(orc, Err(format!("the handler task of sub {} panicked in accept/send", self.book.subs[t.k].sid)));
					}
				}
			}
		}
		self.accept_tasks = still;
		done.sort();
		done
	}

	/// frames that arrived since the last line + the C04 stream oracle on them
	fn frames_part(&mut self, extra: Option<(usize, String)>, orc: &mut Result<(), String>) -> (String, Vec<Vec<String>>) {
		let mut parts = vec![];
		let mut all = vec![];
		for c in 0..self.nconns {
			let fs: Vec<String> = self.env.take_frames(c).iter().map(|f| canon_frame(f)).collect();
			// manual mode: the frame the harness's writer step took (shown as `w:<frame>` by both sides)
			let stepped: Vec<String> = extra.iter().filter(|(ec, _)| *ec == c).map(|(_, f)| f.clone()).collect();
			for f in fs.iter().chain(stepped.iter()) {
				let r = self.observe_frame(c, f);
				if self.check_c04 {
					oracle_merge(orc, r);
				}
				self.streams[c].push(f.clone());
			}
			// Left open by the properties (a scheduling race in the code): whether a closing notification
			// queued while the stopping server finishes this connection still reaches the peer.  When the
			// server is stopping and the connection went from open to closed within this line, closing
			// frames are not shown (the model driver hides them under the same condition); the oracle
			// above has checked them like any other frame.
			let finishing = self.book.stopped && !self.was_closed[c] && self.env.closed(c);
			let shown: Vec<String> = if finishing {
				fs.iter().filter(|f| !is_closing_frame(f)).cloned().collect()
			} else {
				fs.clone()
			};
			self.was_closed[c] = self.env.closed(c);
			parts.push(format!("c{c}={}", if shown.is_empty() { "-".to_string() } else { shown.join(",") }));
			all.push(fs);
		}
		let bits: String = (0..self.nconns).map(|c| if self.env.closed(c) { '0' } else { '1' }).collect();
		(format!("{};open={bits}", parts.join(";")), all)
	}

	/// C04 clauses 1-4 and 6 on one delivered frame (the frame streams are per connection, in order)
	fn observe_frame(&mut self, c: usize, f: &str) -> Result<(), String> {
		let w: Vec<&str> = f.split(':').collect();
		match w[0] {
			"resp" => {
				let sid: &str = w[2];
				let rid: u64 = w[1].parse().map_err(|_| format!("bad frame {f}"))?;
				let Some(k) = self.book.by_conn_sid(c, sid) else { return Err(format!("accept response for unknown subscription: {f}")) };
				let s = &mut self.book.subs[k];
				if s.conn != c || s.rid != rid {
					return Err(format!("accept response {f} on conn {c} does not belong to call {} on conn {}", s.rid, s.conn));
				}
				if s.resp_seen {
					return Err(format!("second accept response {f}"));
				}
				s.resp_seen = true;
				Ok(())
			}
			"ntf" | "nerr" => {
				let sid: &str = w[2];
				let p: u64 = w[3].parse().map_err(|_| format!("bad frame {f}"))?;
				let Some(k) = self.book.by_conn_sid(c, sid) else { return Err(format!("notification for unknown subscription id: {f}")) };
				let s = &mut self.book.subs[k];
				// 1. own id / method / connection
				if s.conn != c {
					return Err(format!("notification {f} delivered on conn {c}, subscription lives on conn {}", s.conn));
				}
				if w[1] != NOTIF_NAMES[s.meth] {
					return Err(format!("notification {f} carries method {}, subscription's is {}", w[1], NOTIF_NAMES[s.meth]));
				}
				// 4. never accepted => nothing
				if s.phase != BPhase::Accepted {
					return Err(format!("notification {f} for a subscription that was never accepted ({:?})", s.phase));
				}
				// 2. after the accepting response
				if !s.resp_seen {
					return Err(format!("notification {f} delivered before the response accepting the subscription"));
				}
				let is_close = w[0] == "nerr" || p >= CLOSE_BASE;
				if is_close {
					// 6. at most one closing notification, and it is the handler's return value
					s.close_seen += 1;
					if s.close_seen > 1 {
						return Err(format!("second closing notification {f}"));
					}
					let ok = match (&s.returned, w[0]) {
						(Some(Ret::Notif(q)), "ntf") => *q == p,
						(Some(Ret::Err(q)), "nerr") => *q == p,
						_ => false,
					};
					if !ok {
						return Err(format!("closing notification {f} is not what the handler returned ({:?})", s.returned));
					}
				} else {
					// 3. FIFO: the delivered data payloads are a prefix of the successful sends, in order
					let i = s.data_seen.len();
					if s.sent_ok.get(i) != Some(&p) {
						return Err(format!(
							"data notification {f} out of order / not produced: delivered so far {:?}, successful sends {:?}",
							s.data_seen, s.sent_ok
						));
					}
					s.data_seen.push(p);
				}
				Ok(())
			}
			"err" | "bool" => Ok(()),
			_ => Err(format!("unrecognised frame on conn {c}: {f}")),
		}
	}

	/// `PendingSubscriptionSink::accept` on scripted subscription `k`
	async fn op_accept(&mut self, k: usize, orc: &mut Result<(), String>, settle: bool) -> String {
		if k >= self.subs.len() || self.subs[k].pending.is_none() {
			"bad".into()
		} else {
			let c = self.subs[k].conn;
			let serving_before = self.conn_serving(c);
			let blocked = !self.env.closed(c) && self.subs[k].pending.as_ref().unwrap().capacity() == 0;
			if blocked {
				"blocked".into()
			} else {
				let p = self.subs[k].pending.take().unwrap();
				match tokio::time::timeout(Duration::from_millis(1), p.accept()).await {
					Ok(Ok(sink)) => {
						self.subs[k].sinks.push(sink);
						// an id handed out again while its previous holder was still registered: the newer
						// subscription takes over the (connection, method, id) entry
						let (kc, km, ks) = (self.book.subs[k].conn, self.book.subs[k].meth, self.book.subs[k].sid.clone());
						for (j, b) in self.book.subs.iter_mut().enumerate() {
							if j != k && b.conn == kc && b.meth == km && b.sid == ks && b.registered() {
								b.displaced = true;
							}
						}
						self.book.subs[k].phase = BPhase::Accepted;
						self.book.subs[k].clones = 1;
						if !serving_before {
							oracle_merge(orc, Err(format!("accept succeeded on closed connection {c}")));
						}
						if self.book.subs[k].call_dead {
							oracle_merge(orc, Err(format!("accept of sub {} succeeded although its subscribe call had been cancelled", self.book.subs[k].sid)));
						}
						if settle {
							barrier().await;
						}
						"ok".into()
					}
					Ok(Err(_)) => {
						self.book.subs[k].phase = BPhase::AcceptFailed;
						if serving_before && !self.book.subs[k].call_dead {
							oracle_merge(orc, Err(format!("accept failed although connection {c} is open")));
						}
						if settle {
							barrier().await;
						}
						"err".into()
					}
					Err(_) => "parked".into(),
				}
			}
		}
	}

	/// `SubscriptionSink::send` on the newest live handle of subscription `k`
	async fn op_send(&mut self, k: usize, p: u64, how: &str, orc: &mut Result<(), String>, settle: bool) -> String {
		if k >= self.subs.len() {
			"bad".into()
		} else if self.subs[k].sinks.is_empty() {
			"nosink".into()
		} else {
			let expect = self.expect_active(k);
			let meth = self.subs[k].meth;
			let sink = self.subs[k].sinks.last_mut().unwrap();
			if !sink.is_closed() && sink.capacity() == 0 {
				"blocked".into()
			} else {
				// message kind: `c` = already serialised (`SubscriptionMessage::new`, the sink must still
				// refuse it when closed), `n` = raw value, id and method filled in by the sink
				let msg = if how.ends_with('c') {
					SubscriptionMessage::new(NOTIF_NAMES[meth], sink.subscription_id(), &p).unwrap()
				} else {
					data_msg(p)
				};
				// flavour: send / send_timeout / try_send (never parks: room was checked above)
				let r: Result<Result<(), ()>, ()> = match how.as_bytes()[0] {
					b't' | b'z' | b'u' => {
						// send_timeout with a long / zero / 1µs timeout: with room in the queue all of them succeed
						let d = match how.as_bytes()[0] {
							b'z' => Duration::ZERO,
							b'u' => Duration::from_micros(1),
							_ => Duration::from_secs(3600),
						};
						tokio::time::timeout(Duration::from_millis(1), sink.send_timeout(msg, d)).await.map(|r| r.map_err(|_| ())).map_err(|_| ())
					}
					b'y' => Ok(sink.try_send(msg).map_err(|_| ())),
					_ => tokio::time::timeout(Duration::from_millis(1), sink.send(msg)).await.map(|r| r.map_err(|_| ())).map_err(|_| ()),
				};
				if settle {
						barrier().await;
					}
				match r {
					Ok(Ok(())) => {
						self.book.subs[k].sent_ok.push(p);
						if !expect {
							// C04.5: a send started after the subscription was closed must fail
							oracle_merge(orc, Err(format!("send on sub {} succeeded although the subscription is closed (unsubscribed / connection ended / stopped)", self.book.subs[k].sid)));
						}
						"ok".into()
					}
					Ok(Err(_)) => {
						self.book.subs[k].closed_reported = true;
						if expect {
							let d = self.deviation(k, format!("send on sub {} failed although it is active (accepted, not unsubscribed, connection open, sink held)", self.book.subs[k].sid));
							oracle_merge(orc, d);
						}
						"err".into()
					}
					Err(_) => "parked".into(),
				}
			}
		}
	}

	/// Execute one `ss …` line.
	pub async fn exec(&mut self, line: &str) -> LineResult {
		let w: Vec<&str> = line.split_whitespace().collect();
		let mut orc: Result<(), String> = Ok(());
		let mut extra: Option<(usize, String)> = None;
		let mut unsub_check: Option<(u64, usize, Option<usize>, bool, Option<bool>)> = None;
		let num = |i: usize| -> Option<u64> { w.get(i).and_then(|x| x.parse::<u64>().ok()) };
		let bad = |out: &str| LineResult { out: out.to_string(), oracle: Ok(()), nontrivial: false, kind: "bad-op".into() };
		if w.len() < 2 || w[0] != "ss" {
			return bad("bad-op");
		}
		let verb = w[1];
		let out: String = match verb {
			"sub" => {
				let (Some(c), Some(m), Some(rid), Some(sid_id)) = (num(2), num(3), num(4), w.get(5).and_then(|x| parse_sid_token(x))) else {
					return bad("bad-op");
				};
				let sid = sid_token(&sid_id);
				if Some(&sid.as_str()) != w.get(5) {
					// only canonical tokens (no leading zeros in numbers, lower-case hex)
					return bad("bad-op");
				}
				let (c, m) = (c as usize, m as usize);
				if c >= self.nconns || m >= NMETH {
					"bad".into()
				} else {
					// what the id provider hands out if this call gets a permit
					self.env.ids.preset(sid_id);
					let holding = self.book.holding(c);
					let serving = self.conn_serving(c) && !self.book.stopped;
					let res: String = if self.eager {
						match self.env.request(c, sub_request(m, rid)).await {
							Err(()) => "ignored".into(),
							Ok(()) => {
								barrier().await;
								"?".into()
							}
						}
					} else {
						let r = self.env.manual_subscribe(c, m, rid);
						barrier().await;
						if r == "called" { "?".into() } else { r.into() }
					};
					let new = self.collect_handovers();
					if let Some(&k) = new.first() {
						self.subs[k].call = self.env.last_call.take();
					}
					let res = if let Some(&k) = new.first() {
						let h = &self.subs[k];
						self.book.subs.push(BSub {
							conn: h.conn,
							meth: h.meth,
							sid: h.sid.clone(),
							rid,
							phase: BPhase::Pending,
							clones: 0,
							unsub: false,
							nonlast_drop: false,
							returned: None,
							sent_ok: vec![],
							data_seen: vec![],
							close_seen: 0,
							resp_seen: false,
							closed_reported: false,
							displaced: false,
							call_dead: false,
						});
						if h.sid != sid {
							oracle_merge(&mut orc, Err(format!("handler got subscription id {}, the id provider handed out {sid}", h.sid)));
						}
						if h.conn != c || h.meth != m {
							oracle_merge(&mut orc, Err(format!("handler invoked for conn {} method {}, call was on conn {c} method {m}", h.conn, h.meth)));
						}
						format!("pending:{}", h.sid)
					} else if res == "?" {
						// decided below from the frames (refused iff the -32006 error came back)
						"?".into()
					} else {
						res
					};
					// C06.2: never above the cap, refusal exactly at the cap
					if self.check_c06 && serving {
						let verdict = if res.starts_with("pending") {
							if holding >= self.book.cap {
								Err(format!("subscribe admitted although {holding} subscriptions (pending or with a live sink) exist on conn {c}, cap {}", self.book.cap))
							} else {
								Ok(())
							}
						} else if res == "refused" || res == "?" {
							if holding < self.book.cap {
								Err(format!("subscribe refused/unanswered although only {holding} subscriptions hold a slot on conn {c}, cap {}", self.book.cap))
							} else {
								Ok(())
							}
						} else {
							Ok(())
						};
						oracle_merge(&mut orc, verdict);
					}
					res
				}
			}
			"accept" => {
				let Some(k) = num(2) else { return bad("bad-op") };
				self.op_accept(k as usize, &mut orc, true).await
			}
			// accept immediately followed by a send, no yield in between (zero delay placement)
			"acceptsend" => {
				let (Some(k), Some(p), Some(how)) = (num(2), num(3), w.get(4).copied().filter(|h| send_how(h))) else { return bad("bad-op") };
				let r1 = self.op_accept(k as usize, &mut orc, false).await;
				let r2 = self.op_send(k as usize, p, how, &mut orc, false).await;
				barrier().await;
				format!("{r1}+{r2}")
			}
			// n sends in a row without yielding (payloads p, p+1, …): the queue really fills
			"burst" => {
				let (Some(k), Some(p), Some(n), Some(how)) = (num(2), num(3), num(4), w.get(5).copied().filter(|h| send_how(h))) else {
					return bad("bad-op");
				};
				if n == 0 || n > 16 {
					return bad("bad-op");
				}
				let mut rs = vec![];
				for i in 0..n {
					rs.push(self.op_send(k as usize, p + i, how, &mut orc, false).await);
				}
				barrier().await;
				rs.join(",")
			}
			"reject" | "droppending" => {
				let Some(k) = num(2) else { return bad("bad-op") };
				let k = k as usize;
				if k >= self.subs.len() || self.subs[k].pending.is_none() {
					"bad".into()
				} else {
					let c = self.subs[k].conn;
					// (a sink dropped after its call was cancelled writes nothing: nobody is left to answer the call)
					let writes = !(verb == "droppending" && self.book.subs[k].call_dead);
					let blocked = writes && !self.env.closed(c) && self.subs[k].pending.as_ref().unwrap().capacity() == 0;
					if blocked {
						"blocked".into()
					} else {
						let p = self.subs[k].pending.take().unwrap();
						if verb == "reject" {
							let Some(code) = w.get(3).and_then(|x| x.parse::<i32>().ok()) else { return bad("bad-op") };
							self.book.subs[k].phase = BPhase::Rejected;
							if tokio::time::timeout(Duration::from_millis(1), p.reject(reject_error(code))).await.is_err() {
								"parked".into()
							} else {
								barrier().await;
								"done".into()
							}
						} else {
							self.book.subs[k].phase = BPhase::Dropped;
							drop(p);
							barrier().await;
							"done".into()
						}
					}
				}
			}
			"send" => {
				let (Some(k), Some(p), Some(how)) = (num(2), num(3), w.get(4).copied().filter(|h| send_how(h))) else { return bad("bad-op") };
				self.op_send(k as usize, p, how, &mut orc, true).await
			}
			// a send that is left PARKED if the queue is full: the blocked call keeps a handle of the sink
			"parksend" => {
				let (Some(k), Some(p), Some(how)) = (num(2), num(3), w.get(4).copied().filter(|h| send_how(h))) else { return bad("bad-op") };
				let k = k as usize;
				if k >= self.subs.len() {
					"bad".into()
				} else if self.subs[k].sinks.is_empty() {
					"nosink".into()
				} else if self.subs[k].sinks.last().unwrap().is_closed() || self.subs[k].sinks.last().unwrap().capacity() > 0 {
					self.op_send(k, p, how, &mut orc, true).await
				} else {
					let meth = self.subs[k].meth;
					let held = self.subs[k].sinks.last().unwrap().clone();
					let msg = if how.ends_with('c') { SubscriptionMessage::new(NOTIF_NAMES[meth], held.subscription_id(), &p).unwrap() } else { data_msg(p) };
					let timed = how.starts_with('t');
					let h = tokio::spawn(async move {
						if timed { held.send_timeout(msg, Duration::from_secs(3600)).await.is_ok() } else { held.send(msg).await.is_ok() }
					});
					self.book.subs[k].clones += 1;
					self.parked.push((k, p, h));
					barrier().await;
					"parked".into()
				}
			}
			// the future of the subscribe call is dropped (a per-call timeout of a middleware, a cancelled
			// in-process call) while the handler still holds the pending sink
			"cancelcall" => {
				let Some(k) = num(2) else { return bad("bad-op") };
				let k = k as usize;
				if self.eager || k >= self.subs.len() || self.subs[k].pending.is_none() || self.subs[k].call.is_none() {
					"bad".into()
				} else {
					self.subs[k].call.take().unwrap().abort();
					self.book.subs[k].call_dead = true;
					barrier().await;
					"done".into()
				}
			}
			// a handler task: `let sink = pending.accept().await?; sink.send(p).await` — accept() itself is
			// called whatever the state of the queue (it waits there while the queue is full)
			"parkacceptsend" => {
				let (Some(k), Some(p), Some(how)) = (num(2), num(3), w.get(4).copied().filter(|h| send_how(h))) else { return bad("bad-op") };
				let k = k as usize;
				if k >= self.subs.len() || self.subs[k].pending.is_none() {
					"bad".into()
				} else {
					let pending = self.subs[k].pending.take().unwrap();
					let meth = self.subs[k].meth;
					let accepted = Arc::new(Mutex::new(None));
					let flag = accepted.clone();
					let complete = how.ends_with('c');
					let handle = tokio::spawn(async move {
						match pending.accept().await {
							Err(_) => {
								*flag.lock().unwrap() = Some(false);
								None
							}
							Ok(sink) => {
								*flag.lock().unwrap() = Some(true);
								let msg = if complete { SubscriptionMessage::new(NOTIF_NAMES[meth], sink.subscription_id(), &p).unwrap() } else { data_msg(p) };
								let ok = sink.send(msg).await.is_ok();
								Some((sink, ok))
							}
						}
					});
					self.accept_tasks.push(AcceptTask { k, p, accepted, reported: false, handle });
					barrier().await;
					"started".into()
				}
			}
			// `sink.closed().await`: resolves exactly when the sink reports closed
			"waitclosed" => {
				let Some(k) = num(2) else { return bad("bad-op") };
				let k = k as usize;
				if k >= self.subs.len() {
					"bad".into()
				} else if self.subs[k].sinks.is_empty() {
					"nosink".into()
				} else {
					let closed = tokio::time::timeout(Duration::from_millis(1), self.subs[k].sinks.last().unwrap().closed()).await.is_ok();
					let expect_closed = !self.expect_active(k);
					if closed != expect_closed {
						let d = if closed {
							self.deviation(k, format!("sink.closed() of sub {} resolved although the subscription is active", self.book.subs[k].sid))
						} else {
							Err(format!("sink.closed() of sub {} does not resolve although the subscription is closed", self.book.subs[k].sid))
						};
						oracle_merge(&mut orc, d);
					}
					format!("closed={}", closed as u8)
				}
			}
			// what the (pending) sink says about itself
			"ident" => {
				let Some(k) = num(2) else { return bad("bad-op") };
				let k = k as usize;
				if k >= self.subs.len() {
					"bad".into()
				} else {
					let got = if let Some(p) = &self.subs[k].pending {
						Some((sid_token(&p.subscription_id()), p.method_name().to_string(), p.connection_id().0))
					} else {
						self.subs[k].sinks.last().map(|s| (sid_token(&s.subscription_id()), s.method_name().to_string(), s.connection_id().0))
					};
					match got {
						None => "nosink".into(),
						Some((id, m, c)) => {
							let b = &self.book.subs[k];
							if id != b.sid || m != NOTIF_NAMES[b.meth] || c != b.conn {
								oracle_merge(&mut orc, Err(format!("sink of sub {} on conn {} (method {}) identifies itself as id {id} method {m} conn {c}", b.sid, b.conn, NOTIF_NAMES[b.meth])));
							}
							format!("id={id},m={m},c={c}")
						}
					}
				}
			}
			"clone" => {
				let Some(k) = num(2) else { return bad("bad-op") };
				let k = k as usize;
				if k >= self.subs.len() {
					"bad".into()
				} else if self.subs[k].sinks.is_empty() {
					"nosink".into()
				} else {
					let s = self.subs[k].sinks.last().unwrap().clone();
					self.subs[k].sinks.push(s);
					self.book.subs[k].clones += 1;
					"ok".into()
				}
			}
			"dropsink" => {
				let Some(k) = num(2) else { return bad("bad-op") };
				let k = k as usize;
				if k >= self.subs.len() {
					"bad".into()
				} else if self.subs[k].sinks.is_empty() {
					"nosink".into()
				} else {
					let b = &mut self.book.subs[k];
					if b.clones > 1 && !b.unsub {
						b.nonlast_drop = true;
					}
					b.clones -= 1;
					let s = self.subs[k].sinks.pop();
					drop(s);
					barrier().await;
					"ok".into()
				}
			}
			"isclosed" => {
				let Some(k) = num(2) else { return bad("bad-op") };
				let k = k as usize;
				if k >= self.subs.len() {
					"bad".into()
				} else if self.subs[k].sinks.is_empty() {
					"nosink".into()
				} else {
					let closed = self.subs[k].sinks.last().unwrap().is_closed();
					let expect_closed = !self.expect_active(k);
					if closed != expect_closed {
						let d = if closed {
							self.deviation(k, format!("sink of sub {} reports closed although the subscription is active", self.book.subs[k].sid))
						} else {
							Err(format!("sink of sub {} reports open although the subscription is closed", self.book.subs[k].sid))
						};
						oracle_merge(&mut orc, d);
					}
					if closed {
						self.book.subs[k].closed_reported = true;
					}
					format!("closed={}", closed as u8)
				}
			}
			"ret" => {
				let (Some(k), Some(r)) = (num(2), w.get(3).and_then(|x| parse_ret(x))) else { return bad("bad-op") };
				let k = k as usize;
				if k >= self.subs.len() {
					"bad".into()
				} else if self.subs[k].handler_gone() || self.subs[k].ret_tx.is_none() {
					"gone".into()
				} else {
					self.book.subs[k].returned = Some(r.clone());
					let _ = self.subs[k].ret_tx.take().unwrap().send(r);
					barrier().await;
					"done".into()
				}
			}
			"unsub" => {
				let (Some(c), Some(m), Some(rid)) = (num(2), num(3), num(5)) else { return bad("bad-op") };
				let Some((params, named)) = w.get(4).and_then(|x| unsub_arg_spelled(x, rid)) else {
					return bad("bad-op");
				};
				let (c, m) = (c as usize, m as usize);
				if c >= self.nconns || m >= NMETH {
					"bad".into()
				} else {
					// C06.1: the truth table, from the script alone: true iff an active subscription of this
					// connection has exactly that TYPED id (a parameter that is not an id names nothing)
					let x: String = named.clone().unwrap_or_else(|| "\u{0}not-an-id".into());
					// (ids may be re-used: the call names the subscription CURRENTLY registered under the id
					// on this connection; older holders of the id are only shown in messages)
					let target = self
						.book
						.subs
						.iter()
						.rposition(|s| s.conn == c && s.meth == m && s.sid == x && s.registered())
						.or_else(|| self.book.subs.iter().rposition(|s| s.conn == c && s.meth == m && s.sid == x));
					let expect = target.map(|k| self.expect_active(k)).unwrap_or(false);
					let mut known: Option<bool> = None;
					let res: String = if self.eager {
						match self.env.request(c, unsub_request(m, rid, params.as_deref())).await {
							Err(()) => "ignored".into(),
							Ok(()) => {
								barrier().await;
								"?".into()
							}
						}
					} else {
						let r = self.env.manual_unsubscribe(c, m, rid, params.as_deref());
						barrier().await;
						match r {
							Ok(a) => {
								known = a;
								if a.is_none() {
									oracle_merge(&mut orc, Err("unsubscribe callback did not produce a boolean response".into()));
								}
								"sent".into()
							}
							Err(e) => e.into(),
						}
					};
					// the answer: eager = the frame that comes back with this line; manual = the harness plays
					// the connection task and sees the response object before it is queued
					unsub_check = Some((rid, c, target, expect, known));
					res
				}
			}
			"connclose" => {
				let Some(c) = num(2) else { return bad("bad-op") };
				let c = c as usize;
				// graceful = peer sends a close frame; abrupt = peer's socket drops; dropfut = (lowlevel assembly)
				// the application drops the connection future, the peer does nothing (elsewhere = abrupt)
				let (graceful, dropfut) = match w.get(3) {
					Some(&"graceful") => (true, false),
					Some(&"abrupt") => (false, false),
					Some(&"dropfut") => (false, true),
					_ => return bad("bad-op"),
				};
				if c >= self.nconns {
					"bad".into()
				} else {
					if !(dropfut && self.env.drop_conn_future(c)) {
						self.env.conn_close(c, graceful).await;
					}
					self.book.peer_closed[c] = true;
					barrier().await;
					"done".into()
				}
			}
			"stop" => {
				if !self.eager {
					return bad("bad-op");
				}
				self.env.stop();
				self.book.stopped = true;
				barrier().await;
				"done".into()
			}
			"wstep" => {
				let Some(c) = num(2) else { return bad("bad-op") };
				let c = c as usize;
				if self.eager || c >= self.nconns {
					return bad("bad-op");
				}
				match self.env.writer_step(c) {
					Some(f) => {
						let cf = canon_frame(&f);
						extra = Some((c, cf.clone()));
						barrier().await;
						format!("w:{cf}")
					}
					None => "empty".into(),
				}
			}
			_ => return bad("bad-op"),
		};
		// late handovers cannot happen (every subscribe is followed by a barrier), but never lose one
		let late = self.collect_handovers();
		if !late.is_empty() && verb != "sub" {
			oracle_merge(&mut orc, Err("handler invoked outside a subscribe call".into()));
		}
		let done = self.collect_parked(&mut orc).await;
		let (fpart, frames) = self.frames_part(extra, &mut orc);
		// resolve `?` results from the frames that came back
		let mut out = out;
		if out == "?" {
			let rid = if verb == "sub" { num(4) } else { num(5) };
			let c = num(2).unwrap() as usize;
			let rid = rid.unwrap();
			if verb == "sub" {
				out = if frames[c].iter().any(|f| *f == format!("err:{rid}:-32006")) { "refused".into() } else { "ignored".into() };
				if self.check_c06 && out == "ignored" && self.conn_serving(c) && !self.book.stopped {
					oracle_merge(&mut orc, Err(format!("subscribe call {rid} on serving conn {c} got neither a handler invocation nor a refusal")));
				}
			} else {
				out = if frames[c].iter().any(|f| f.starts_with(&format!("bool:{rid}:"))) { "sent".into() } else { "ignored".into() };
			}
		}
		// C06.1: the unsubscribe answer against the truth table recomputed from the script
		if let Some((rid, c, target, expect, known)) = unsub_check {
			let ans = if self.eager {
				frames[c].iter().find_map(|f| f.strip_prefix(&format!("bool:{rid}:")).map(|b| b == "1"))
			} else {
				known
			};
			match ans {
				None => {
					if self.eager && self.check_c06 && self.conn_serving(c) && !self.book.stopped {
						oracle_merge(&mut orc, Err(format!("unsubscribe call {rid} on serving conn {c} was not answered")));
					}
				}
				Some(b) => {
					if b {
						if let Some(k) = target {
							self.book.subs[k].unsub = true;
						}
					}
					if self.check_c06 && b != expect {
						let what = format!(
							"unsubscribe(conn {c}, id {}) answered {b}, the script says {expect}",
							target.map(|k| self.book.subs[k].sid.to_string()).unwrap_or("unknown".into())
						);
						let d = match (target, b) {
							(Some(k), false) => self.deviation(k, what),
							_ => Err(what),
						};
						oracle_merge(&mut orc, d);
					}
				}
			}
		}
		let nontrivial = !matches!(out.as_str(), "bad" | "ignored" | "nosink" | "gone" | "empty" | "blocked" | "bad-op");
		let kind = if verb == "ident" && out.starts_with("id=") { "ident.ok".to_string() } else { format!("{verb}.{}", out.split(':').next().unwrap_or("")) };
		let dpart = if done.is_empty() { String::new() } else { format!(";done={}", done.join(",")) };
		LineResult { out: format!("{out};{fpart}{dpart}"), oracle: orc, nontrivial, kind }
	}
}

// ---------------------------------------------------------------------------------------------
// generators and case drivers shared by the c06 / c04 binaries
// ---------------------------------------------------------------------------------------------
use crate::common::{Out, Rng, fxhash};

/// generator weights / which oracle set is evaluated
pub struct Profile {
	pub check_c06: bool,
	pub check_c04: bool,
	pub w_accept: u64,
	pub w_send: u64,
	pub w_ret: u64,
	pub w_wstep: u64,
	/// compound steps without a yield in between: accept+send, bursts of sends
	pub w_burst: u64,
	/// how many subscribe calls in 10 get a re-used subscription id (0 = ids never repeat)
	pub reuse_ids: u64,
	/// how many fresh ids in 10 are strings (digit strings, boundary values, non-digit strings)
	pub typed_ids: u64,
	/// end every case with the refill-to-cap tail (C06) instead of draining the queues (C04)
	pub tail: bool,
}

/// manual mode: step the writer until every queue is empty so that everything enqueued is observed
pub fn drain_lines(run: &CaseRun) -> Vec<String> {
	let mut v = vec![];
	if run.eager {
		return v;
	}
	for c in 0..run.nconns {
		for _ in 0..run.env.qcap + 2 {
			v.push(format!("ss wstep {c}"));
		}
	}
	v
}

pub struct Gen {
	pub next_rid: u64,
	/// fresh subscription ids (counter)
	pub next_sid: u64,
	pub used_consts: Vec<String>,
	pub next_payload: u64,
	pub next_close: u64,
}

impl Gen {
	fn rid(&mut self) -> u64 {
		self.next_rid += 1;
		self.next_rid
	}
}

/// one state-aware random op line
/// The id the provider hands out for the next subscribe on (c, m): a fresh one (`SID` = counter),
/// or — `pf.reuse_ids` in 10 — a re-used one: mostly an id that is FREE on (c, m) (its previous
/// holder there was unsubscribed / rejected / has ended — possibly still holding its sink — or the id
/// is only in use on another connection / method), rarely (1 in 12 of the re-uses) an id that is
/// still pending or registered on (c, m) (an undisciplined provider: the newer accept takes over).
fn choose_sid(rng: &mut Rng, book: &Book, c: usize, m: usize, pf: &Profile, g: &mut Gen) -> String {
	if pf.reuse_ids == 0 || book.subs.is_empty() || !rng.chance(pf.reuse_ids, 10) {
		return fresh_sid(rng, pf, g);
	}
	let live_here = |sid: &str| book.subs.iter().any(|s| s.conn == c && s.meth == m && s.sid == sid && (s.phase == BPhase::Pending || s.registered()));
	let undisciplined = rng.chance(1, 12);
	// prefer ids whose previous holder on (c, m) still holds a sink (the late-release window)
	let mut cands: Vec<String> = vec![];
	for s in &book.subs {
		if undisciplined {
			if live_here(&s.sid) {
				cands.push(s.sid.clone());
			}
		} else if !live_here(&s.sid) {
			cands.push(s.sid.clone());
			if s.conn == c && s.meth == m && s.clones > 0 {
				cands.push(s.sid.clone());
				cands.push(s.sid.clone());
				cands.push(s.sid.clone());
			}
		}
	}
	if cands.is_empty() { fresh_sid(rng, pf, g) } else { rng.pick(&cands).clone() }
}

fn pick_how(rng: &mut Rng) -> &'static str {
	*rng.pick(&["sn", "sn", "sc", "sc", "tn", "tc", "zn", "zc", "un", "uc", "yn", "yc"])
}

fn str_token(s: &str) -> String {
	format!("s{}", crate::common::hexs(s))
}

/// A fresh typed id: `Num n` from the counter, or — `pf.typed_ids` in 10 — a string: the digits of
/// the counter ("7"), digits with leading zeros ("007"), the u64 boundary as strings, "0", or a
/// non-digit string ("a7", "0x7", "7 ", "+7", "-7", "")
fn fresh_sid(rng: &mut Rng, pf: &Profile, g: &mut Gen) -> String {
	g.next_sid += 1;
	let n = g.next_sid;
	if pf.typed_ids == 0 || !rng.chance(pf.typed_ids, 10) {
		return n.to_string();
	}
	match rng.below(15) {
		0..=4 => str_token(&n.to_string()),
		5 => str_token(&format!("00{n}")),
		6 => str_token(&format!("a{n}")),
		7 => str_token(&format!("0x{n}")),
		8 => {
			// boundary spellings — each at most once per case where ids must not repeat (C04)
			let c = *rng.pick(&["18446744073709551615", "18446744073709551616", "0", ""]);
			if pf.reuse_ids == 0 && g.used_consts.iter().any(|u| u == c) {
				str_token(&n.to_string())
			} else {
				g.used_consts.push(c.to_string());
				str_token(c)
			}
		}
		9 | 12 | 13 | 14 => str_token(&match rng.below(8) {
			// ids whose JSON spelling REQUIRES or invites escapes: quote, backslash, slash, control
			// chars, non-ASCII, astral
			0 => format!("a\"b{n}"),
			1 => format!("a\\b{n}"),
			2 => format!("sub/{n}"),
			3 => format!("l\n{n}\t"),
			4 => format!("\u{1}{n}"),
			5 => format!("é{n}ß"),
			6 => format!("\u{1F600}{n}"),
			_ => format!("{n} "),
		}),
		10 => str_token(&format!("+{n}")),
		_ => str_token(&format!("-{n}")),
	}
}

/// the same digits in the OTHER kind: `Num 7` <-> `Str "7"` (also `Str "007"` -> `Num 7`)
pub fn other_kind(tok: &str) -> Option<String> {
	match parse_sid_token(tok)? {
		SubscriptionId::Num(n) => Some(str_token(&n.to_string())),
		SubscriptionId::Str(s) => s.parse::<u64>().ok().map(|n| n.to_string()),
	}
}

/// params that are not `[<subscription id>]`
pub const BAD_UNSUB_PARAMS: [&str; 14] = [
	"[{}]", "[[1]]", "[true]", "[1.5]", "[-1]", "[null]", "[]", "[1,2]", "{\"id\":1}", "", "[18446744073709551616]", "[\"a\",\"b\"]", "[1e0]", "{}",
];

pub fn gen_line(rng: &mut Rng, run: &CaseRun, g: &mut Gen, pf: &Profile) -> String {
	let book = &run.book;
	let n = run.nconns as u64;
	let mut opts: Vec<(u64, String)> = vec![];
	// subscribe
	for c in 0..run.nconns {
		let w = if book.peer_closed[c] { 1 } else if book.holding(c) <= book.cap { 6 } else { 2 };
		let m = rng.below(NMETH as u64) as usize;
		let sid = choose_sid(rng, book, c, m, pf, g);
		opts.push((w, format!("ss sub {c} {m} RID {sid}")));
	}
	for (k, s) in run.subs.iter().enumerate() {
		let b = &book.subs[k];
		if s.pending.is_some() {
			opts.push((pf.w_accept, format!("ss accept {k}")));
			opts.push((pf.w_burst, format!("ss acceptsend {k} PAY {}", pick_how(rng))));
			opts.push((2, format!("ss reject {k} {}", *rng.pick(&[-32000i32, -1, 7, -32602, 2, 1, -32001]))));
			opts.push((1, format!("ss droppending {k}")));
			if !run.eager && s.call.is_some() {
				opts.push((2, format!("ss cancelcall {k}")));
			}
			// accept() called whatever the queue looks like, first send right behind it
			opts.push((if run.eager { 1 } else { pf.w_accept / 2 + 1 }, format!("ss parkacceptsend {k} PAY {}", *rng.pick(&["sn", "sc"]))));
			opts.push((1, format!("ss ident {k}")));
		}
		if !s.sinks.is_empty() {
			opts.push((pf.w_send, format!("ss send {k} PAY {}", pick_how(rng))));
			opts.push((pf.w_burst, format!("ss burst {k} PAYN {} {}", rng.range(2, 6), pick_how(rng))));
			opts.push((3, format!("ss clone {k}")));
			opts.push((1, format!("ss waitclosed {k}")));
			opts.push((1, format!("ss ident {k}")));
			if !run.eager {
				// leave a send blocked on the full queue (then: writer step, unsubscribe, connection close …)
				opts.push((pf.w_send, format!("ss parksend {k} PAY {}", *rng.pick(&["sn", "sc", "tn", "tc"]))));
			}
			opts.push((4, format!("ss dropsink {k}")));
			opts.push((3, format!("ss isclosed {k}")));
		}
		if b.returned.is_none() {
			let r = match rng.below(3) {
				0 => "none".to_string(),
				1 => "notif:CLOSE".to_string(),
				_ => "err:CLOSE".to_string(),
			};
			opts.push((pf.w_ret, format!("ss ret {k} {r}")));
		}
		// unsubscribe: own / other connection / other method
		let w = if b.phase == BPhase::Accepted && !b.unsub { 4 } else { 1 };
		opts.push((w, format!("ss unsub {} {} {} RID", b.conn, b.meth, b.sid)));
		if n > 1 {
			opts.push((1, format!("ss unsub {} {} {} RID", (b.conn as u64 + 1 + rng.below(n - 1)) % n, b.meth, b.sid)));
		}
		opts.push((1, format!("ss unsub {} {} {} RID", b.conn, (b.meth + 1) % NMETH, b.sid)));
		// the same digits in the other kind (Num 7 vs Str "7"): names nothing
		if let Some(o) = other_kind(&b.sid) {
			opts.push((if b.registered() { 3 } else { 1 }, format!("ss unsub {} {} {o} RID", b.conn, b.meth)));
		}
	}
	// a parameter that is not a subscription id
	opts.push((1, format!("ss unsub {} {} j{} RID", rng.below(n), rng.below(NMETH as u64), crate::common::hexs(*rng.pick(&BAD_UNSUB_PARAMS[..])))));
	// unknown id
	opts.push((1, format!("ss unsub {} {} {} RID", rng.below(n), rng.below(NMETH as u64), 900 + rng.below(5))));
	// faults
	for c in 0..run.nconns {
		if !book.peer_closed[c] {
			opts.push((1, format!("ss connclose {c} {}", *rng.pick(&["graceful", "abrupt", "dropfut"]))));
		}
	}
	if run.eager && !book.stopped && rng.chance(1, 3) {
		opts.push((1, "ss stop".into()));
	}
	// not enabled / nonsense
	let ns = run.subs.len() as u64 + 1;
	opts.push((1, format!("ss accept {}", rng.below(ns))));
	opts.push((1, format!("ss send {} PAY {}", rng.below(ns), pick_how(rng))));
	opts.push((1, format!("ss dropsink {}", rng.below(ns))));
	if !run.eager {
		for c in 0..run.nconns {
			opts.push((pf.w_wstep, format!("ss wstep {c}")));
		}
	}
	let total: u64 = opts.iter().map(|o| o.0).sum();
	let mut x = rng.below(total);
	let mut line = opts[0].1.clone();
	for (w, l) in &opts {
		if x < *w {
			line = l.clone();
			break;
		}
		x -= w;
	}
	fill(line, g)
}

pub fn fill(line: String, g: &mut Gen) -> String {
	let mut line = line;
	if line.contains("SID") {
		g.next_sid += 1;
		line = line.replace("SID", &g.next_sid.to_string());
	}
	if line.contains("RID") {
		line = line.replace("RID", &g.rid().to_string());
	}
	if line.contains("PAYN") {
		// a burst: reserve the whole payload range p .. p+n-1
		let n: u64 = line.split_whitespace().rev().nth(1).and_then(|x| x.parse().ok()).unwrap_or(1);
		line = line.replace("PAYN", &(g.next_payload + 1).to_string());
		g.next_payload += n;
	}
	if line.contains("PAY") {
		g.next_payload += 1;
		line = line.replace("PAY", &g.next_payload.to_string());
	}
	if line.contains("CLOSE") {
		g.next_close += 1;
		line = line.replace("CLOSE", &(CLOSE_BASE + g.next_close).to_string());
	}
	line
}

/// after the random part: on every connection that still serves, fill up to the cap (all must be
/// admitted) and ask for one more (must be refused)
pub fn tail_lines(run: &CaseRun, g: &mut Gen) -> Vec<String> {
	let mut v = vec![];
	if run.book.stopped {
		return v;
	}
	for c in 0..run.nconns {
		if run.book.peer_closed[c] || run.env.closed(c) {
			continue;
		}
		// (an "unlimited" cap is probed with a handful of extra subscribes, all of which must be admitted)
		let free = run.book.cap.saturating_sub(run.book.holding(c)).min(5);
		for _ in 0..free + 1 {
			g.next_sid += 1;
			v.push(format!("ss sub {c} 0 {} {}", g.rid(), g.next_sid));
		}
	}
	v
}

/// `ctx` = running hash of the case so far: the same op text in a different history is a different
/// evaluation (distinctness of non-trivial lines is by history prefix + line, not by the line alone)
pub fn record(out: &mut Out, ctx: &mut u64, line: String, r: LineResult) {
	out.count(&r.kind);
	count_axes(out, &line, &r.out);
	if let Err(e) = &r.oracle {
		out.count(if e.starts_with("KF ") { "oracle.known-finding" } else { "oracle.FAIL" });
	}
	*ctx = fxhash(format!("{ctx}|{line}|{}", r.out).as_bytes());
	if r.nontrivial {
		out.nontrivial.insert(*ctx);
	}
	out.line(line, r.out, r.oracle, false);
}

/// distribution counters of the input axes (evidence)
fn count_axes(out: &mut Out, line: &str, res: &str) {
	let w: Vec<&str> = line.split_whitespace().collect();
	if w.len() < 3 || w[0] != "ss" {
		return;
	}
	let head = res.split(';').next().unwrap_or("");
	match w[1] {
		"sub" if w.len() == 6 => {
			out.count(&format!("axis.sub-spelling.{}", w[4].parse::<u64>().unwrap_or(0) % SUB_SPELLINGS));
			out.count(&format!("axis.sub-method.{}", match w[3] { "0" => "register_subscription(A)", "1" => "register_subscription(B)", "2" => "register_subscription_raw(C)", _ => "register_subscription_raw(D,notif=sub-name)" }));
			let kind = match parse_sid_token(w[5]) {
				Some(SubscriptionId::Num(_)) => "num",
				Some(SubscriptionId::Str(s)) if s.parse::<u64>().is_ok() => "digit-string",
				Some(SubscriptionId::Str(s)) if s.chars().any(|c| matches!(c, '"' | '\\' | '/') || (c as u32) < 0x20 || !c.is_ascii()) => "string-with-escapable-chars",
				Some(SubscriptionId::Str(_)) => "other-string",
				None => "?",
			};
			out.count(&format!("axis.id-kind.{kind}"));
		}
		"unsub" if w.len() == 6 => {
			out.count(&format!("axis.unsub-spelling.{}", w[5].parse::<u64>().unwrap_or(0) % UNSUB_SPELLINGS));
			out.count(&format!("axis.unsub-arg.{}", if w[4].starts_with('j') { "not-an-id" } else if w[4].starts_with('s') { "string" } else { "number" }));
			if let Some(SubscriptionId::Str(t)) = parse_sid_token(w[4]).filter(|_| w[4].starts_with('s')) {
				let style = (w[5].parse::<u64>().unwrap_or(0) / UNSUB_SPELLINGS) % 4;
				let needs = t.chars().any(|c| matches!(c, '"' | '\\') || (c as u32) < 0x20);
				out.count(&format!("axis.unsub-id-escape-style.{style}{}", if needs { ".id-requires-escapes" } else if !t.is_ascii() { ".non-ascii" } else { "" }));
			}
		}
		"send" | "acceptsend" | "burst" | "parksend" | "parkacceptsend" => {
			if let Some(h) = w.last() {
				out.count(&format!("axis.send-how.{h}.{}", if head.contains("ok") { "ok" } else if head.contains("err") { "err" } else { "other" }));
			}
		}
		"reject" => {
			out.count(&format!("axis.reject-error-shape.{}", w.get(3).and_then(|c| c.parse::<i32>().ok()).map(|c| c.rem_euclid(4)).unwrap_or(9)));
		}
		"ret" => {
			out.count(&format!("axis.ret.{}", w.get(3).map(|r| r.split(':').next().unwrap_or("")).unwrap_or("")));
		}
		_ => {}
	}
	if res.contains(":a:ok") || res.contains(":a:err") {
		out.count(if w[1] == "parkacceptsend" { "axis.task-accept.completed-at-once" } else { "axis.task-accept.completed-after-waiting-on-full-queue" });
	}
	if res.contains(";done=") {
		out.count(if res.contains(":ok") { "axis.parked-send.completed-ok" } else { "axis.parked-send.failed-on-close" });
	}
}

/// messages of all panics so far (any thread / task); the hook keeps stderr quiet
pub static PANICS: Mutex<Vec<String>> = Mutex::new(Vec::new());

pub fn install_quiet_panic_hook() {
	std::panic::set_hook(Box::new(|info| {
		let msg = info.to_string().replace('\n', " ");
		if let Ok(mut p) = PANICS.lock() {
			p.push(msg.chars().take(300).collect());
		}
	}));
}

/// `exec` that survives a panic of the handler / the library: the panic becomes this line's oracle
/// failure (`true` = the case must be abandoned, its state is no longer trustworthy).  Panics of tasks
/// spawned by the library or the harness during the step are reported the same way.
pub async fn exec_caught(run: &mut CaseRun, line: &str) -> (LineResult, bool) {
	use futures_util::FutureExt;
	let n0 = PANICS.lock().map(|p| p.len()).unwrap_or(0);
	let r = std::panic::AssertUnwindSafe(run.exec(line)).catch_unwind().await;
	let msgs: Vec<String> = PANICS.lock().map(|p| p[n0.min(p.len())..].to_vec()).unwrap_or_default();
	match r {
		Err(_) => (
			LineResult {
				out: "panic".into(),
				oracle: Err(format!("the implementation panicked during this step: {}", msgs.join(" | "))),
				nontrivial: true,
				kind: "panic".into(),
			},
			true,
		),
		Ok(mut lr) => {
			if !msgs.is_empty() {
				let e = Err(format!("a task of the library / a handler panicked during this step: {}", msgs.join(" | ")));
				oracle_merge(&mut lr.oracle, e);
			}
			(lr, false)
		}
	}
}

pub fn rt() -> tokio::runtime::Runtime {
	tokio::runtime::Builder::new_current_thread().enable_all().start_paused(true).build().unwrap()
}

/// set a case up (server, connections, handshakes); a panic there is that case's failure.  Records the
/// header line.
async fn new_caught(out: &mut Out, header: &str, pf: &Profile) -> Option<CaseRun> {
	use futures_util::FutureExt;
	match std::panic::AssertUnwindSafe(CaseRun::new(header, pf.check_c06, pf.check_c04)).catch_unwind().await {
		Ok(Some(run)) => {
			out.line(header.to_string(), "case".into(), Ok(()), false);
			Some(run)
		}
		Ok(None) => {
			out.line(header.to_string(), "bad-op".into(), Ok(()), false);
			None
		}
		Err(_) => {
			let msg = PANICS.lock().ok().and_then(|p| p.last().cloned()).unwrap_or_default();
			out.line(header.to_string(), "panic".into(), Err(format!("setting the case up panicked: {msg}")), false);
			None
		}
	}
}

/// run a fixed list of lines (first = header)
pub fn run_fixed(out: &mut Out, lines: &[String], pf: &Profile) {
	if lines.is_empty() {
		return;
	}
	let rt = rt();
	rt.block_on(async {
		let Some(mut run) = new_caught(out, &lines[0], pf).await else { return };
		let mut ctx = fxhash(lines[0].split_whitespace().skip(2).collect::<Vec<_>>().join(" ").as_bytes());
		for l in &lines[1..] {
			let (r, dead) = exec_caught(&mut run, l).await;
			record(out, &mut ctx, l.clone(), r);
			if dead {
				break;
			}
		}
	});
}

/// generate + run one case online; returns the lines (for fault-injection variants)
/// configuration axes shared by both binaries: transport assembly, cap (0, 1, 2, 3, u32::MAX), queue
/// capacity (1 / 2 / many on the real transports, 1..4 on the harness-owned queue)
pub fn pick_config(rng: &mut Rng, manual_in: u64, caps: &[u32]) -> (&'static str, u32, u32) {
	let mode = if rng.chance(1, manual_in) { "manual" } else if rng.chance(1, 4) { "lowlevel" } else { "eager" };
	let cap = *rng.pick(caps);
	let qcap = if mode == "manual" { rng.range(1, 4) as u32 } else { *rng.pick(&[1u32, 2, 1024, 1024]) };
	(mode, cap, qcap)
}

#[allow(clippy::too_many_arguments)]
pub fn run_generated(out: &mut Out, rng: &mut Rng, caseno: u64, mode: &str, nconns: usize, cap: u32, qcap: u32, nops: u64, pf: &Profile) -> Vec<String> {
	let header = format!("case {caseno} subs mode={mode} cap={cap} qcap={qcap} conns={nconns}");
	let mut lines = vec![header.clone()];
	let rt = rt();
	rt.block_on(async {
		let Some(mut run) = new_caught(out, &header, pf).await else { return };
		let mut g = Gen { next_rid: 100, next_sid: 0, used_consts: vec![], next_payload: 0, next_close: 0 };
		let mut ctx = fxhash(header.split_whitespace().skip(2).collect::<Vec<_>>().join(" ").as_bytes());
		let mut dead = false;
		for _ in 0..nops {
			let l = gen_line(rng, &run, &mut g, pf);
			let (r, d) = exec_caught(&mut run, &l).await;
			record(out, &mut ctx, l.clone(), r);
			lines.push(l);
			if d {
				dead = true;
				break;
			}
		}
		let closing = if dead { vec![] } else if pf.tail { tail_lines(&run, &mut g) } else { drain_lines(&run) };
		for l in closing {
			let (r, d) = exec_caught(&mut run, &l).await;
			record(out, &mut ctx, l.clone(), r);
			lines.push(l);
			if d {
				break;
			}
		}
	});
	out.count(&format!("cfg.mode.{mode}"));
	out.count(&format!("cfg.cap.{cap}"));
	out.count(&format!("cfg.qcap.{qcap}"));
	out.count(&format!("cfg.conns.{nconns}"));
	lines
}

pub fn split_cases(lines: Vec<String>) -> Vec<Vec<String>> {
	let mut cases: Vec<Vec<String>> = vec![];
	for l in lines {
		if l.starts_with("case ") || cases.is_empty() {
			cases.push(vec![]);
		}
		cases.last_mut().unwrap().push(l);
	}
	cases
}

/// every script over a 9-op alphabet up to length `maxlen` (one connection, cap 1)
/// every script over a 9-op alphabet up to length `maxlen` (one connection, cap 1, ids never repeat)
pub fn exhaustive(out: &mut Out, maxlen: usize, caseno: &mut u64, pf: &Profile) {
	let alphabet = [
		"ss sub 0 0 RID SID",
		"ss accept 0",
		"ss reject 0 -1",
		"ss send 0 PAY sc",
		"ss clone 0",
		"ss dropsink 0",
		"ss unsub 0 0 1 RID",
		"ss ret 0 err:CLOSE",
		"ss connclose 0 abrupt",
	];
	exhaustive_over(out, &alphabet, 1, &["ss sub 0 0 RID SID"], maxlen, caseno, pf, "exhaustive.scripts");
}

/// every script over a 7-op alphabet in which the id provider hands out the SAME id (1) to every
/// subscribe call on one connection (cap 2): unsubscribe / late sink release of the first holder
/// against the second holder of the id, in every order; each script ends with the observations
/// is_closed of both, unsubscribe of the id, and one more subscribe
pub fn exhaustive_reuse(out: &mut Out, maxlen: usize, caseno: &mut u64, pf: &Profile) {
	let alphabet = [
		"ss sub 0 0 RID 1",
		"ss accept 0",
		"ss accept 1",
		"ss unsub 0 0 1 RID",
		"ss dropsink 0",
		"ss dropsink 1",
		"ss clone 0",
	];
	let tail = ["ss isclosed 0", "ss isclosed 1", "ss send 1 PAY sc", "ss unsub 0 0 1 RID", "ss sub 0 0 RID 1"];
	exhaustive_over(out, &alphabet, 2, &tail, maxlen, caseno, pf, "exhaustive.id-reuse-scripts");
}

#[allow(clippy::too_many_arguments)]
fn exhaustive_over(out: &mut Out, alphabet: &[&str], cap: u32, tail: &[&str], maxlen: usize, caseno: &mut u64, pf: &Profile, counter: &str) {
	let mut idx = vec![0usize; 0];
	loop {
		// next word in length-lexicographic order
		let mut i = idx.len();
		loop {
			if i == 0 {
				idx = vec![0; idx.len() + 1];
				break;
			}
			i -= 1;
			if idx[i] + 1 < alphabet.len() {
				idx[i] += 1;
				for j in i + 1..idx.len() {
					idx[j] = 0;
				}
				break;
			}
		}
		if idx.len() > maxlen {
			break;
		}
		// prune: scripts that do not start with a subscribe exercise nothing
		if idx[0] != 0 {
			continue;
		}
		*caseno += 1;
		let mut g = Gen { next_rid: 100, next_sid: 0, used_consts: vec![], next_payload: 0, next_close: 0 };
		let mut lines = vec![format!("case {caseno} subs mode=eager cap={cap} qcap=1024 conns=1")];
		for &a in &idx {
			lines.push(fill(alphabet[a].to_string(), &mut g));
		}
		for t in tail {
			lines.push(fill(t.to_string(), &mut g));
		}
		run_fixed(out, &lines, pf);
		out.count(counter);
	}
}
