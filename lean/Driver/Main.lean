/-
  jrpc_model — line-protocol driver of the executable model.
  One operation per input line, exactly one output line per operation (also for `case …` lines).
  Stateless verbs are dispatched family by family; stateful families keep their state in `St`
  (one field per family) and reset it on their own `case` header.
-/
import JrpcVerif.Driver.TextFamily
import JrpcVerif.Driver.RegistryFamily
import JrpcVerif.Driver.ParamsFamily
import JrpcVerif.Driver.BuildFamily
import JrpcVerif.Driver.MacroFamily
import JrpcVerif.Driver.ServerFamily
import JrpcVerif.Driver.HostFilterFamily
import JrpcVerif.Driver.ClientFamily
import JrpcVerif.Driver.ClientTasksFamily
import JrpcVerif.Driver.ConnFamily
import JrpcVerif.Driver.SubServerFamily
open Jrpc Jrpc.Driver

structure St where
  dummy : Nat := 0
  server : ServerSt := {}
  reg : RegistrySt := {}
  -- one field per stateful family, e.g.  reg : RegistrySt := {}
  conn : ConnSt := {}
  client : ClientSt := {}
  ctasks : CtSt := {}
  subs : SubSt := {}

def step (st : St) (line : String) : St × String :=
  let ws := (line.trimAscii.toString.splitOn " ").filter (· ≠ "")
  match textVerb ws with
  | some out => (st, out)
  | none =>
  match paramsVerb ws with
  | some out => (st, out)
  | none =>
  match buildVerb ws with
  | some out => (st, out)
  | none =>
  match macroVerb ws with
  | some out => (st, out)
  | none =>
  match serverVerb st.server ws with
  | some (s', out) => ({ st with server := s' }, out)
  | none =>
  match hostFilterVerb ws with
  | some out => (st, out)
  | none =>
  match clientVerb st.client ws with
  | some (s', out) => ({ st with client := s' }, out)
  | none =>
  match ctVerb st.ctasks ws with
  | some (s', out) => ({ st with ctasks := s' }, out)
  | none =>
  match connVerb st.conn ws with
  | some (s', out) => ({ st with conn := s' }, out)
  | none =>
  match subsVerb st.subs ws with
  | some (s', out) => ({ st with subs := s' }, out)
  | none =>
  match registryVerb st.reg ws with
  | some (s', out) => ({ st with reg := s' }, out)
  | none =>
  -- stateful families: add one arm each, e.g.
  --   match registryVerb st.reg ws with
  --   | some (s', out) => ({ st with reg := s' }, out)
  --   | none =>
  (st, "bad-op")

partial def loop (h : IO.FS.Stream) (out : IO.FS.Stream) (st : St) : IO Unit := do
  let line ← h.getLine
  if line.isEmpty then
    out.flush
    return ()
  let (st', o) := step st line
  out.putStrLn o
  loop h out st'

def main : IO Unit := do
  let stdin ← IO.getStdin
  let stdout ← IO.getStdout
  loop stdin stdout {}
