import JrpcVerif.Model.Text
import JrpcVerif.Model.JsonText
