/-
  Driver verbs for C20 (params builders).
    arr  <op>…            op = ok:<hex> | fail:<hex emitted prefix>
    obj  <name hex>=<op>… 
    tuple <hex>…          (whole-value serialisation of a tuple/slice of raw values)
    batchb <n>            (BatchRequestBuilder with n entries)
-/
import JrpcVerif.Driver.Codec
import JrpcVerif.Model.ParamsBuild
namespace Jrpc.Driver
open Jrpc

def parseSer (s : String) : Option Ser :=
  if s.startsWith "ok:" then (unhexText (s.drop 3).toString).map Ser.ok
  else if s.startsWith "fail:" then (unhexText (s.drop 5).toString).map Ser.fails
  else none

def runArr : List String → Builder → Option (List String × Builder)
  | [], b => some ([], b)
  | op :: rest, b =>
    match parseSer op with
    | none => none
    | some v =>
      let (b', okk) := b.insert v
      match runArr rest b' with
      | none => none
      | some (out, bf) => some ((if okk then "1" else "0") :: out, bf)

def runObj : List String → Builder → Option (List String × Builder)
  | [], b => some ([], b)
  | op :: rest, b =>
    match op.splitOn "=" with
    | [k, sv] =>
      match unhexText k, parseSer sv with
      | some name, some v =>
        let (b', okk) := b.insertNamed name v
        match runObj rest b' with
        | none => none
        | some (out, bf) => some ((if okk then "1" else "0") :: out, bf)
      | _, _ => none
    | _ => none

def buildVerb (ws : List String) : Option String :=
  match ws with
  | "arr" :: ops =>
    some (match runArr ops Builder.positional with
      | some (out, b) => String.intercalate " " ("r" :: out) ++ " | " ++ optHex b.build
      | none => "bad-op")
  | "obj" :: ops =>
    some (match runObj ops Builder.named with
      | some (out, b) => String.intercalate " " ("r" :: out) ++ " | " ++ optHex b.build
      | none => "bad-op")
  | "tuple" :: hs =>
    some (match hs.mapM unhexText with
      | some ts => hexText (91 :: joinElems ts ++ [93])
      | none => "bad-op")
  | ["batchb", n] =>
    some (match n.toNat? with
      | some k => (match batchBuild (List.replicate k ([], none)) with
        | some es => s!"ok {es.length}"
        | none => "empty")
      | none => "bad-op")
  | _ => none

end Jrpc.Driver
