/-
  Driver verbs of the stateful `client` family (C03 C05 C12 C18; C09 later).

  The driver owns only *scheduling*: which atomic `Step` of Model/ClientMgr.lean happens when.
  It mirrors the harness (harness/src/client_mock.rs): after every op the real client is run to
  quiescence, i.e. the send task handles the queued front-end messages in FIFO order until it
  blocks in `sender.send` behind a shut gate, and tasks draining an unsubscribed stream consume
  what is buffered.  All state changes go through `Jrpc.step`.

  case header:  case <n> client <num|str> <cap> <fcap> [<options>]   (options: request timeout / ping, which never
                fire in these histories and are ignored here)
  ops (every op line starts with the family tag `cl`):
                cl call [<method hex> [<params hex>]] | cl subscribe | cl batch <n> | cl regnotif <method hex>
                | cl tbatch <u64|str|bool|pt|optu64> <n>   (batch_request::<R>, see `tdecOf`)
                | cl subscribe <u64|str|bool|pt|optu64>   (subscribe::<Notif>: a typed stream, one item per notification:
                                                           the payload decoded with `tdecOf`, `item:bad` = `Some(Err(_))`)
                | cl deliver <hex> [for=<op>] [bin]       (`bin`: a binary frame; bytes that are not UTF-8 are no JSON text:
                                                           the read task gives the connection up as for any garbage)
                | cl notify | cl abandon <op> | cl deliver <text hex> | cl next <op> | cl drop <op>
                | cl unsub <op> | cl gate open|shut | cl sizes | cl connected | cl deliverx <text hex> (= deliver; the
                harness expects the text to be rejected)
                after the read task has given up the connection: front-end operations fail with RestartNeeded(<cause>)
  HTTP client:  case <n> httpc <num|str> ; hc batch <n> <reply hex> | hc call <reply hex>
                | hc tbatch <ty> <n> <reply hex> | hc notify | hc subscribe | hc batchx / tbatchx / callx (= the plain verbs)
  pure verbs:   wsbatch <num|str> <start> <n> <array hex> | httpbatch <num|str> <start> <n> <array hex>
-/
import JrpcVerif.Driver.Codec
import JrpcVerif.Model.ClientMgr
import JrpcVerif.Model.ClientTyped
import JrpcVerif.Model.BatchAccessors
import JrpcVerif.Model.ParamsSeq
namespace Jrpc.Driver
open Jrpc Jrpc.Client

structure ClientSt where
  st : St := St.init 1 false
  gateOpen : Bool := true
  stuck : Bool := false              -- the send task sits in `sender.send` behind the shut gate
  held : List Text := []             -- what it is trying to send
  fcap : Nat := 64                   -- capacity of the front-to-back channel
  halted : Bool := false             -- a fatal error ended the read task
  cause : String := ""               -- … this one (as `fatal_class` prints it)
  -- the HTTP client (`case <n> httpc <num|str>`): only the id allocator is state
  httpActive : Bool := false
  httpNext : Nat := 0
  httpStr : Bool := false
  -- streams being consumed by `Subscription::unsubscribe`, with the sequence number of the message the call has to get
  -- into the front channel first (`to_back.send(msg).await`, then `while rx.next().await.is_some() {}`): while the
  -- channel is full the caller waits for room and the stream is **not** drained yet
  draining : List (ChanId × Nat) := []
  consumed : Nat := 0                -- messages the send task has taken out of the front channel so far
  btypes : List (Nat × String) := [] -- result type of the typed batches (`cl tbatch`), by op
  stypes : List (Nat × String) := [] -- item type of the typed streams (`cl subscribe <ty>`), by op
  active : Bool := false

def errObjRepr (e : ErrObj) : String :=
  s!"err:{e.code}:{hexText e.message}:{optHex e.data}"

def payloadRepr : Payload → String
  | .result v => s!"ok:{hexText v}"
  | .error e => errObjRepr e

def idText : Id → Text
  | .null => tNull
  | .num n => encodeNat n
  | .str s => s

def okViewRepr : OkView → String
  | .ok k => s!"ok{k}"
  | .err k => s!"err{k}"

/-- `<into_ok>-<ok>-<len><E|N>` (harness: `client_mock::batch_view`); `into_ok` and `ok` have one body -/
def viewRepr (v : OkView) (len : Nat) (empty : Bool) : String :=
  okViewRepr v ++ "-" ++ okViewRepr v ++ s!"-{len}" ++ (if empty then "E" else "N")

def outcomeRepr : Outcome → String
  | .response r => payloadRepr r.payload
  | .batch rs =>
    let b := wsEntries rs
    s!"batch:{b.successes}:{b.failures}:{viewRepr b.okView b.entries.length b.isEmpty}:" ++ String.intercalate "," (b.entries.map payloadRepr)
  | .subscribed _ s => s!"sub:{subIdRepr s}"
  | .registered _ => "reg"
  | .callErr e => errObjRepr e
  | .badSubId => "E:parse"
  | .invalidSubId => "E:invalidsubid"
  | .occupied => "E:occupied"
  | .alreadyRegistered => "E:already"

/-! typed batches: the result types the harness instantiates `batch_request::<R>` with -/

/-- a decoded `R`, as the text the harness prints for it (`TypedR::show`) -/
inductive TVal where
  | u (n : Nat) | s (t : Text) | b (v : Bool) | pt (x y : Nat) | opt (o : Option Nat)

def TVal.text : TVal → Text
  | .u n => encodeNat n
  | .s t => t
  | .b v => if v then tTrue else tFalse
  | .pt x y => encodeNat x ++ [44] ++ encodeNat y
  | .opt none => lit "none"
  | .opt (some n) => lit "some:" ++ encodeNat n

/-- `#[derive(Deserialize)] struct Pt { x: u64, y: u64 }`: object by name or array by position -/
def decPt (raw : Text) : Option TVal :=
  match structFields [[120], [121]] false raw with
  | some [some a, some b] =>
    (match decodeU64 a, decodeU64 b with
     | some x, some y => some (.pt x y)
     | _, _ => none)
  | _ => none

/-- `std::str::from_utf8` on the bytes of a binary frame: well-formed UTF-8 only (no overlong forms, no encoded
surrogates, nothing above U+10FFFF, no truncated or stray continuation bytes).  `utf8Decode` (Model/Utf8.lean) is the
inverse of `utf8Encode` on valid input and does not check this. -/
def utf8Valid : List Nat → Bool
  | [] => true
  | b :: r =>
    let cont (x : Nat) : Bool := 0x80 ≤ x && x ≤ 0xBF
    if b < 0x80 then utf8Valid r
    else if 0xC2 ≤ b && b ≤ 0xDF then
      match r with
      | b1 :: r1 => cont b1 && utf8Valid r1
      | _ => false
    else if 0xE0 ≤ b && b ≤ 0xEF then
      match r with
      | b1 :: b2 :: r2 =>
        (if b == 0xE0 then 0xA0 ≤ b1 && b1 ≤ 0xBF else if b == 0xED then 0x80 ≤ b1 && b1 ≤ 0x9F else cont b1)
          && cont b2 && utf8Valid r2
      | _ => false
    else if 0xF0 ≤ b && b ≤ 0xF4 then
      match r with
      | b1 :: b2 :: b3 :: r3 =>
        (if b == 0xF0 then 0x90 ≤ b1 && b1 ≤ 0xBF else if b == 0xF4 then 0x80 ≤ b1 && b1 ≤ 0x8F else cont b1)
          && cont b2 && cont b3 && utf8Valid r3
      | _ => false
    else false

-- `{"r":"caf<bytes>!"}` with the byte sequences the harness damages strings with, and two well-formed ones
example : utf8Valid [0x63, 0xFF, 0x21] = false ∧ utf8Valid [0x63, 0xC3, 0x21] = false ∧ utf8Valid [0x63, 0xE2, 0x82, 0x21] = false ∧
    utf8Valid [0x63, 0xC0, 0xAF, 0x21] = false ∧ utf8Valid [0x63, 0xA9, 0x21] = false ∧ utf8Valid [0x63, 0xED, 0xA0, 0x80, 0x21] = false ∧
    utf8Valid [0x63, 0xF8, 0x88, 0x80, 0x80, 0x80, 0x21] = false ∧ utf8Valid [0x63, 0xF4, 0x90, 0x80, 0x80] = false ∧
    utf8Valid [0x63, 0xC3, 0xA9, 0x21] = true ∧ utf8Valid [0xE2, 0x82, 0xAC, 0xF0, 0x9F, 0x98, 0x80, 0xED, 0x9F, 0xBF, 0xF4, 0x8F, 0xBF, 0xBF] = true := by
  decide

/-- the text of a delivered frame, if its bytes are UTF-8 -/
def frameText (h : String) : Option Text :=
  if h == "-" then some [] else
  match unhexBytes h.toList with
  | some bs => if utf8Valid bs then utf8Decode bs else none
  | none => none

def tdecOf (ty : String) : Option (Text → Option TVal) :=
  match ty with
  | "u64" => some (fun r => (decodeU64 r).map TVal.u)
  | "str" => some (fun r => (decodeString r).map TVal.s)
  | "bool" => some (fun r => (decBool r).map TVal.b)
  | "pt" => some decPt
  | "optu64" => some (fun r => (optDec decodeU64 r).map TVal.opt)
  | _ => none

def tentryRepr : TEntry TVal → String
  | .ok v => s!"ok:{hexText v.text}"
  | .err e => errObjRepr e

def bErrRepr : BErr → String
  | .invalidId id => s!"invalid:{hexText (idText id)}"
  | .invalidNum n => s!"invalid:{hexText (encodeNat n)}"
  | .notPendingId id => s!"notpending:{hexText (idText id)}"
  | .notPendingNum n => s!"notpending:{hexText (encodeNat n)}"
  | .notPendingRange lo hi => s!"notpending:{hexText (encodeNat lo ++ [46, 46] ++ encodeNat hi)}"
  | .empty => "emptybatch"

def fatalRepr : Fatal → String
  | .unparseable => "fatal:unparseable"
  | .batch e => s!"fatal:{bErrRepr e}"
  | .notPending id => s!"fatal:notpending:{hexText (idText id)}"

def tresRepr (fatal : Bool) : TRes (TBatchResult TVal) → String
  | .err e => (if fatal then "fatal:" else "E:") ++ bErrRepr e
  | .parse => "E:parse"
  | .ok b => s!"batch:{b.successes}:{b.failures}:{viewRepr b.okView b.entries.length b.isEmpty}:" ++ String.intercalate "," (b.entries.map tentryRepr)

def wiresOf : List Effect → List Text
  | [] => []
  | .wire t :: r => t :: wiresOf r
  | _ :: r => wiresOf r

def completionsOf : List Effect → List (Nat × String)
  | [] => []
  | .complete t o :: r => (t.op, outcomeRepr o) :: completionsOf r
  | _ :: r => completionsOf r

/-- completions, the batches of typed ops rendered through their decoder (mod.rs:586-603) -/
def completionsOfT (tys : List (Nat × String)) : List Effect → List (Nat × String)
  | [] => []
  | .complete t o :: r =>
    (t.op, match o, (tys.lookup t.op).bind tdecOf with
           | .batch rs, some δ => tresRepr false (wsTyped δ rs)
           | _, _ => outcomeRepr o) :: completionsOfT tys r
  | _ :: r => completionsOfT tys r

def insertSorted (x : Nat × String) : List (Nat × String) → List (Nat × String)
  | [] => [x]
  | y :: r => if x.1 < y.1 then x :: y :: r else y :: insertSorted x r

def sortByOp (l : List (Nat × String)) : List (Nat × String) := l.foldl (fun acc x => insertSorted x acc) []

/-- what one op line reports -/
structure Acc where
  wires : List Text := []
  comps : List (Nat × String) := []
  extra : List String := []

def Acc.render (a : Acc) : String :=
  let parts := a.wires.map (fun w => s!"w:{hexText w}") ++ (sortByOp a.comps).map (fun c => s!"t{c.1}={c.2}") ++ a.extra
  if parts.isEmpty then "-" else String.intercalate " " parts

/-- the send task: handle queued messages in FIFO order until the queue is empty or it blocks -/
def sendLoop : Nat → ClientSt → Acc → ClientSt × Acc
  | 0, cs, a => (cs, a)
  | fuel + 1, cs, a =>
    if cs.stuck || cs.st.pool.isEmpty then (cs, a) else
    let r := step cs.st (.sendTask 0)
    let ws := wiresOf r.effs
    let a1 := { a with comps := a.comps ++ completionsOfT cs.btypes r.effs }
    if ws.isEmpty then sendLoop fuel { cs with st := r.st, consumed := cs.consumed + 1 } a1
    else if cs.gateOpen then sendLoop fuel { cs with st := r.st, consumed := cs.consumed + 1 } { a1 with wires := a1.wires ++ ws }
    else ({ cs with st := r.st, consumed := cs.consumed + 1, stuck := true, held := ws }, a1)

/-- a task inside `Subscription::unsubscribe` consumes the stream until it ends, then drops it -/
def drainOne : Nat → St → ChanId → St × Bool
  | 0, st, _ => (st, false)
  | fuel + 1, st, c =>
    let r := step st (.next c)
    match r.out with
    | .item _ => drainOne fuel r.st c
    | .ended _ => ((step r.st (.dropStream c false)).st, true)
    | _ => (r.st, false)

def drainAll (cs : ClientSt) : ClientSt :=
  cs.draining.foldl (fun acc (c, seq) =>
    -- the message is in the channel (or already taken out of it) once fewer than `fcap` messages are ahead of it
    if seq ≥ acc.consumed + acc.fcap then acc else
    let (st', done) := drainOne ((acc.st.core.chans[c]?.map (·.buf.length)).getD 0 + 2) acc.st c
    { acc with st := st', draining := if done then acc.draining.filter (·.1 != c) else acc.draining }) cs

def settle (cs : ClientSt) (a : Acc) : ClientSt × Acc :=
  let (cs1, a1) := sendLoop (cs.st.pool.length + 1) cs a
  (drainAll cs1, a1)

def chanOfOp (st : St) (op : Nat) : Option ChanId :=
  st.core.chans.findIdx? (fun ch => ch.op == op)

/-- what a typed stream yields for one raw item: the front-end `Stream` impl decodes **every** buffered payload and
yields the outcome, `Ok` or `Err` — exactly one stream item per notification (`Jrpc.Client.typedItems`) -/
def itemRepr (δ : Option (Text → Option TVal)) (p : Text) : String :=
  match δ with
  | none => s!"item:{hexText p}"
  | some d =>
    match Jrpc.Client.typedItem d p with
    | some v => s!"item:{hexText v.text}"
    | none => "item:bad"

def applyStep (cs : ClientSt) (s : Step) (δ : Option (Text → Option TVal) := none) : ClientSt × String :=
  let r := step cs.st s
  let a : Acc := { comps := completionsOfT cs.btypes r.effs }
  match r.fatal with
  | some f => ({ cs with st := r.st, halted := true, cause := ((fatalRepr f).drop 6).toString }, fatalRepr f)
  | none =>
    let (cs', a') := settle { cs with st := r.st } a
    let extra := match r.out with
      | .none => []
      | .item p => [itemRepr δ p]
      | .pending => ["pending"]
      | .ended l => [if l then "end:lagged" else "end:closed"]
    (cs', ({ a' with extra := extra }).render)

def tSub : Text := lit "sub"
def tUnsub : Text := lit "unsub"

def parseArr (kind start n h : String) : Option (Bool × Nat × Nat × List Response) :=
  match start.toNat?, n.toNat?, unhexText h with
  | some s, some k, some t =>
    if kind != "num" && kind != "str" then none else
    (match elements t with
     | none => none
     | some es =>
       let rs := es.filterMap decodeResponse
       if rs.length == es.length then some (kind == "str", s, k, rs) else none)
  | _, _, _ => none

def batchResRepr : BRes BatchResult → String
  | .err e => s!"E:{bErrRepr e}"
  | .ok b => s!"batch:{b.successes}:{b.failures}:{viewRepr b.okView b.entries.length b.isEmpty}:" ++ String.intercalate "," (b.entries.map payloadRepr)

def clientVerbCore (cs : ClientSt) (ws : List String) : Option (ClientSt × String) :=
  match ws with
  | ["case", _, "client", kind, cap, fcap] =>
    some (match cap.toNat?, fcap.toNat? with
      | some c, some f =>
        if kind != "num" && kind != "str" then (cs, "bad-op") else
        ({ st := St.init c (kind == "str"), fcap := f, active := true }, "case")
      | _, _ => (cs, "bad-op"))
  | ["cl", "connected"] => some (if !cs.active then (cs, "bad-op") else (cs, s!"connected {!cs.halted}"))
  | ["case", _, "httpc", kind] =>
    some (if kind != "num" && kind != "str" then (cs, "bad-op")
          else ({ httpActive := true, httpStr := kind == "str" }, "case"))
  | "case" :: _ => none
  | ["hc", "batch", n, h] =>
    some (if !cs.httpActive then (cs, "bad-op") else
      match n.toNat?, unhexText h with
      | some k, some t =>
        if k == 0 then (cs, "bad-op") else
        -- rpc_service.rs: `from_slice::<Vec<Response<_>>>`; any failure is `Error::ParseError`
        (match elements t with
         | none => ({ cs with httpNext := cs.httpNext + k }, "E:parse")
         | some es =>
           if (es.filterMap decodeResponse).length != es.length then ({ cs with httpNext := cs.httpNext + k }, "E:parse")
           else ({ cs with httpNext := cs.httpNext + k }, batchResRepr (httpBatch cs.httpNext k (es.filterMap decodeResponse))))
      | _, _ => (cs, "bad-op"))
  | ["hc", "tbatch", ty, n, h] =>
    some (if !cs.httpActive then (cs, "bad-op") else
      match tdecOf ty, n.toNat?, unhexText h with
      | some δ, some k, some t =>
        if k == 0 then (cs, "bad-op") else
        (match elements t with
         | none => ({ cs with httpNext := cs.httpNext + k }, "E:parse")
         | some es =>
           if (es.filterMap decodeResponse).length != es.length then ({ cs with httpNext := cs.httpNext + k }, "E:parse")
           else ({ cs with httpNext := cs.httpNext + k }, tresRepr false (httpBatchT δ cs.httpNext k (es.filterMap decodeResponse))))
      | _, _, _ => (cs, "bad-op"))
  -- client.rs:413-428: a notification takes no id; subscriptions are not implemented over HTTP
  | ["hc", "notify"] => some (if !cs.httpActive then (cs, "bad-op") else (cs, "-"))
  | ["hc", "subscribe"] => some (if !cs.httpActive then (cs, "bad-op") else (cs, "E:http-not-implemented"))
  | ["hc", "call", h] =>
    some (if !cs.httpActive then (cs, "bad-op") else
      match unhexText h with
      | some t =>
        -- client.rs:441-454
        (match decodeResponse t with
         | none => ({ cs with httpNext := cs.httpNext + 1 }, "E:parse")
         | some r =>
           match r.payload with
           | .error e => ({ cs with httpNext := cs.httpNext + 1 }, errObjRepr e)
           | .result v =>
             if r.id == mkId cs.httpStr cs.httpNext then ({ cs with httpNext := cs.httpNext + 1 }, s!"ok:{hexText v}")
             else ({ cs with httpNext := cs.httpNext + 1 }, s!"E:notpending:{hexText (idText r.id)}"))
      | none => (cs, "bad-op"))
  | ["wsbatch", kind, start, n, h] =>
    some (cs, match parseArr kind start n h with
      | some (_, s, k, rs) => batchResRepr (wsBatch s k rs)
      | none => "bad-op")
  | ["httpbatch", kind, start, n, h] =>
    some (cs, match parseArr kind start n h with
      | some (_, s, k, rs) => batchResRepr (httpBatch s k rs)
      | none => "bad-op")
  | "cl" :: verb :: args =>
    if !cs.active then some (cs, "bad-op")
    else if cs.halted then
      -- `to_back` is closed: every front-end operation fails at once with the recorded cause
      some (match verb with
        | "call" | "batch" | "tbatch" | "subscribe" | "regnotif" =>
          ({ cs with st := { cs.st with nextOp := cs.st.nextOp + 1 } }, s!"t{cs.st.nextOp}=E:restart({cs.cause})")
        | "notify" => (cs, "-")
        | _ => (cs, "dead"))
    else
    some (match verb, args with
      | "call", [] => applyStep cs (.newCall tM none)
      | "call", [m] =>
        (match unhexText m with
         | some meth => applyStep cs (.newCall meth none)
         | none => (cs, "bad-op"))
      | "call", [m, p] =>
        (match unhexText m, unhexText p with
         | some meth, some ps => applyStep cs (.newCall meth (some ps))
         | _, _ => (cs, "bad-op"))
      | "subscribe", [] => applyStep cs (.newSubscribe tSub tUnsub)
      | "subscribe", [ty] =>
        (match tdecOf ty with
         | some _ => applyStep { cs with stypes := (cs.st.nextOp, ty) :: cs.stypes } (.newSubscribe tSub tUnsub)
         | none => (cs, "bad-op"))
      | "batch", [n] =>
        (match n.toNat? with
         | some k => if k == 0 then (cs, "bad-op") else applyStep cs (.newBatch tM k)
         | none => (cs, "bad-op"))
      | "tbatch", [ty, n] =>
        (match tdecOf ty, n.toNat? with
         | some _, some k =>
           if k == 0 then (cs, "bad-op")
           else applyStep { cs with btypes := (cs.st.nextOp, ty) :: cs.btypes } (.newBatch tM k)
         | _, _ => (cs, "bad-op"))
      | "regnotif", [m] =>
        (match unhexText m with
         | some meth => applyStep cs (.newRegister meth)
         | none => (cs, "bad-op"))
      | "notify", [] =>
        applyStep cs (.newNotification (encodeNotif { method := tM, params := none }))
      | "abandon", [o] =>
        (match o.toNat? with
         | some op => applyStep cs (.abandon op)
         | none => (cs, "bad-op"))
      | "deliver", [h] =>
        (match frameText h with
         | some t => applyStep cs (.recv t)
         | none =>
           -- bytes (of a binary frame) that are not UTF-8: not a JSON text, hence no message of any kind — the same
           -- outcome as `.recv` of a text that is garbage (`handleBack`: state unchanged, `Fatal.unparseable`)
           match unhexBytes h.toList with
           | some _ => ({ cs with halted := true, cause := "unparseable" }, fatalRepr .unparseable)
           | none => (cs, "bad-op"))
      | "next", [o] =>
        (match o.toNat?.bind (chanOfOp cs.st) with
         | some c => applyStep cs (.next c) ((o.toNat?.bind (fun op => cs.stypes.lookup op)).bind tdecOf)
         | none => (cs, "bad-op"))
      | "drop", [o] =>
        (match o.toNat?.bind (chanOfOp cs.st) with
         | some c => applyStep cs (.dropStream c (decide (cs.st.pool.length < cs.fcap)))
         | none => (cs, "bad-op"))
      | "unsub", [o] =>
        (match o.toNat?.bind (chanOfOp cs.st) with
         | some c =>
           let queued := (step cs.st (.unsubscribeStream c)).st.pool.length > cs.st.pool.length
           applyStep { cs with draining := cs.draining ++ [(c, if queued then cs.consumed + cs.st.pool.length else 0)] }
             (.unsubscribeStream c)
         | none => (cs, "bad-op"))
      | "gate", ["shut"] => ({ cs with gateOpen := false }, "-")
      | "gate", ["open"] =>
        let a : Acc := { wires := cs.held }
        let (cs', a') := settle { cs with gateOpen := true, stuck := false, held := [] } a
        (cs', a'.render)
      | "sizes", [] =>
        let (r, s, b, h) := cs.st.core.mgr.sizes
        (cs, s!"sizes {r} {s} {b} {h}")
      | _, _ => (cs, "bad-op"))
  | _ => none

/-- alias spellings of op lines: the options word of the header is ignored; the `x` verbs are the plain verbs (the
harness additionally expects the text to be rejected) -/
def clientAlias : List String → List String
  | ["case", n, "client", kind, cap, fcap, _] => ["case", n, "client", kind, cap, fcap]
  | ["case", n, "httpc", kind, _] => ["case", n, "httpc", kind]
  | ["hc", "batchx", n, h] => ["hc", "batch", n, h]
  | ["hc", "tbatchx", ty, n, h] => ["hc", "tbatch", ty, n, h]
  | ["hc", "callx", h] => ["hc", "call", h]
  | ["cl", "deliverx", h] => ["cl", "deliver", h]
  | ["cl", "deliver", h, _] => ["cl", "deliver", h]      -- `for=<op>`: whom the mock server answers (oracle only); `bin`: binary frame
  | ["cl", "deliverx", h, _] => ["cl", "deliver", h]
  | ["cl", "deliver", h, _, _] => ["cl", "deliver", h]
  | ["cl", "deliverx", h, _, _] => ["cl", "deliver", h]
  | ws => ws

def clientVerb (cs : ClientSt) (ws : List String) : Option (ClientSt × String) := clientVerbCore cs (clientAlias ws)

end Jrpc.Driver
