/-
  Driver verbs of the stateful `ctasks` family (C09).

  The driver composes Layer A (`Jrpc.Client.step`: what a message does to the manager, which
  future it answers, which wire text a front-end message becomes) with Layer B
  (`Jrpc.ClientTasks.step repoExitOrder`: the shutdown protocol of the background tasks) and owns
  only *scheduling*: it mirrors the harness (harness/src/client_faults.rs), where after every op
  line the real client runs until every task is idle.  `round` lets each actor (watcher, send task,
  read task, front-end futures by ticket, stream-draining tasks) run until it has to wait, as the
  current-thread runtime does, and rounds repeat until nothing moves; what is held behind a shut
  gate (transport `send`, transport `close`, `receive`) is not enabled.

  case header:  case <n> ctasks <num|str> <cap>          (front channel capacity 64: never full)
                case <n> ctasksx …                        (outside the model: every line answered `-`)
  ops:          ct call | ct subscribe | ct batch <n> | ct notify | ct drop <ticket> | ct unsub <ticket> | ct deliver <hex>
                | ct fault send_err <k> | ct fault recv_err <k> | ct fault peer_close | ct fault garbage <hex>
                | ct gate send|close|recv|all open|shut | ct probe | ct end | ct regnotif <hex> | ct ondisc | ct pong
                | ct fault close_err | ct dropclient | ct advance <ms> | ct fault ping_err <k>   (the last three: `-` from there on)
                | ct deliverbytes <hex> | ct deepdeliver <depth>     (outside the text model: `-` from there on)
                rt <scenario> <ms>                         (real-time test of the harness: answered `rt`)
  output:       <events> | conn=<0|1> disc=<pending|E:…> tc=<0|1>
-/
import JrpcVerif.Driver.ClientFamily
import JrpcVerif.Model.ClientTasks
namespace Jrpc.Driver
open Jrpc Jrpc.Client Jrpc.ClientTasks

inductive InItem where
  | text (t : Text)
  | err (k : Nat)

structure CtSt where
  active : Bool := false
  skip : Bool := false
  a : Client.St := Client.St.init 1 false          -- Layer A
  b : ClientTasks.State := {}                       -- Layer B
  sendGate : Bool := true
  closeGate : Bool := true
  recvGate : Bool := true
  sendFail : Option Nat := none                     -- the next transport send fails with `s<k>`
  inbox : List InItem := []                         -- injected into the mock receiver, not yet received
  peerClosed : Bool := false
  held : List Text := []                            -- what the send task is handing to the transport
  tickets : List (Option Nat) := []                 -- ticket → Layer A operation number (`none`: notification)
  answers : List (Nat × String) := []               -- ticket → what the server's answer resolved it with
  wiresOut : List Text := []                        -- wire texts produced by the current op line
  gone : List Nat := []                             -- subscribe tickets whose stream the application dropped
  unsubbed : List Nat := []                         -- subscribe tickets handed to `Subscription::unsubscribe()`
  draining : List ChanId := []                      -- streams consumed by a task inside `Subscription::unsubscribe`

def causeRepr : Cause → String
  | .sendFailed k => s!"transport(mock:s{k})"
  | .recvFailed k => s!"transport(mock:r{k})"
  | .peerClosed => "transport(mock:peer closed)"
  | .inactive => "transport(WebSocket ping/pong inactive)"
  | .fatal f => ((fatalRepr f).drop 6).toString

def fresRepr (cs : CtSt) (i : Nat) : FRes → String
  | .ok =>
    (match cs.tickets[i]? with
     | some none => "sent"
     | _ => (cs.answers.find? (·.1 == i)).map (·.2) |>.getD "ok")
  | .restart c => s!"E:restart({causeRepr c})"
  | .placeholder => "E:placeholder"
  | .timeout => "E:timeout"

def isResolved : FPhase → Bool
  | .resolved _ => true
  | _ => false

def ticketOfAOp (cs : CtSt) (aop : Nat) : Option Nat := cs.tickets.findIdx? (· == some aop)

def bstep (cs : CtSt) (op : ClientTasks.Op) : CtSt := { cs with b := ClientTasks.step repoExitOrder cs.b op }

/-- the first front-end future that can make a step -/
def frontEnabled (b : ClientTasks.State) : Nat → Nat → Option ClientTasks.Op
  | _, 0 => none
  | i, fuel + 1 =>
    if i ≥ b.fronts.length then none else
    if senderDropped b i then some (.frontDrop i) else
    match b.fronts[i]? with
    | some .disconnected => if b.frontClosed then some (.frontReadError i) else frontEnabled b (i + 1) fuel
    | some .watching => if b.frontClosed then some (.frontReadError i) else frontEnabled b (i + 1) fuel
    | some (.blocked _) =>
      if b.frontClosed || b.queue.length < b.fcap then some (.frontRetry i) else frontEnabled b (i + 1) fuel
    | _ => frontEnabled b (i + 1) fuel

/-- the shutdown watcher -/
def stepWatcher (cs : CtSt) : Option CtSt :=
  if !cs.b.watcherDone && cs.b.closeBuf.isSome then some (bstep cs .watch) else none

/-- the send task -/
def stepSend (cs : CtSt) : Option CtSt :=
  let b := cs.b
  match b.sendP with
  | .idle =>
    if b.watcherDone then some (bstep cs .sendSeesClosed)
    else if b.queue.isEmpty then none
    else
      let r := Client.step cs.a (.sendTask 0)
      let ws := wiresOf r.effs
      let cs1 := bstep { cs with a := r.st } .sendTake
      -- what the send task answers itself (`subscribe_to_method`, a refused duplicate id)
      let cs2 := (completionsOf r.effs).foldl (fun acc (aop, str) =>
        match ticketOfAOp acc aop with
        | some t => bstep { acc with answers := acc.answers ++ [(t, str)] } (.taskAnswers t)
        | none => acc) cs1
      if ws.isEmpty then some (bstep cs2 .sendOk) else some { cs2 with held := ws }
  | .sending =>
    if !cs.sendGate then none else
    (match cs.sendFail with
     | some k => some (bstep { cs with sendFail := none, held := [] } (.sendErr k))
     | none => some (bstep { cs with wiresOut := cs.wiresOut ++ cs.held, held := [] } .sendOk))
  | .closingTransport _ => if cs.closeGate then some (bstep cs .sendTransportClosed) else none
  | .reporting _ => if b.watcherDone || b.closeBuf.isNone then some (bstep cs .sendReport) else none
  | .awaitWatcher => if b.watcherDone then some (bstep cs .sendWatcherGone) else none
  | .done => none

/-- the read task -/
def stepRead (cs : CtSt) : Option CtSt :=
  let b := cs.b
  match b.readP with
  | .idle =>
    if b.watcherDone then some (bstep cs .readSeesClosed)
    else if !cs.recvGate then none
    else
      (match cs.inbox with
       | .err k :: rest => some (bstep { cs with inbox := rest } (.readErr (.recvFailed k)))
       | .text t :: rest =>
         let r := Client.step cs.a (.recv t)
         (match r.fatal with
          | some f => some (bstep { cs with a := r.st, inbox := rest } (.readErr (.fatal f)))
          | none =>
            let comps := completionsOf r.effs
            let answered : Option (Nat × String) :=
              match comps with
              | (aop, s) :: _ => (ticketOfAOp cs aop).map (fun t => (t, s))
              | [] => none
            let cs1 := { cs with a := r.st, inbox := rest,
                                 answers := match answered with
                                   | some x => cs.answers ++ [x]
                                   | none => cs.answers }
            some (bstep cs1 (.readOk (answered.map (·.1)) (queuedMsgs r.effs).length)))
       | [] => if cs.peerClosed then some (bstep cs (.readErr .peerClosed)) else none)
  | .reporting _ => if b.watcherDone || b.closeBuf.isNone then some (bstep cs .readReport) else none
  | .done => none

/-- the front-end futures -/
def stepFront (cs : CtSt) : Option CtSt :=
  match frontEnabled cs.b 0 (cs.b.fronts.length + 1) with
  | some op => some (bstep cs op)
  | none => none

/-- a task that has been scheduled runs until it has to wait (`true` = it made at least one step) -/
def exhaust (f : CtSt → Option CtSt) : Nat → CtSt → Bool → CtSt × Bool
  | 0, cs, p => (cs, p)
  | fuel + 1, cs, p =>
    match f cs with
    | some cs' => exhaust f fuel cs' true
    | none => (cs, p)

/-- tasks inside `Subscription::unsubscribe` consume their stream until it ends, then drop it -/
def drainCt (cs : CtSt) : CtSt :=
  cs.draining.foldl (fun acc c =>
    let (st', done) := drainOne ((acc.a.core.chans[c]?.map (·.buf.length)).getD 0 + 2) acc.a c
    { acc with a := st', draining := if done then acc.draining.filter (· != c) else acc.draining }) cs

/-- one scheduling round of the current-thread runtime: watcher, send task, read task, front-end
futures, stream-draining tasks — each runs until it has to wait -/
def round (fuel : Nat) (cs : CtSt) : CtSt × Bool :=
  let (c1, p1) := exhaust stepWatcher fuel cs false
  let (c2, p2) := exhaust stepSend fuel c1 false
  let (c3, p3) := exhaust stepRead fuel c2 false
  let (c4, p4) := exhaust stepFront fuel c3 false
  (drainCt c4, p1 || p2 || p3 || p4)

/-- rounds until every task is idle -/
def settleCt : Nat → CtSt → CtSt
  | 0, cs => cs
  | fuel + 1, cs =>
    match round (fuel + 1) (drainCt cs) with
    | (cs', true) => settleCt fuel cs'
    | (cs', false) => cs'

def settleFuel (cs : CtSt) : Nat := 200 + 20 * (cs.inbox.length + cs.b.fronts.length + cs.b.queue.length)

/-- tickets that are resolved in `after` and were not in `before` -/
def newlyResolved (before after : List FPhase) : List (Nat × FRes) :=
  (List.range after.length).filterMap (fun i =>
    match after[i]? with
    | some (FPhase.resolved r) =>
      (match before[i]? with
       | some (FPhase.resolved _) => none
       | _ => some (i, r))
    | _ => none)

def discRepr (cs : CtSt) : String :=
  match onDisconnect cs.b with
  | none => "pending"
  | some .ok => "ok"
  | some (.restart c) => s!"E:restart({causeRepr c})"
  | some .placeholder => "E:placeholder"
  | some .timeout => "E:timeout"

def tailRepr (cs : CtSt) : String :=
  s!" | conn={if isConnected cs.b then 1 else 0} disc={discRepr cs} tc={if cs.b.transportClosed then 1 else 0}"

def eventsRepr (cs : CtSt) (before : List FPhase) (extra : List String) : String :=
  let parts := cs.wiresOut.map (fun w => s!"w:{hexText w}") ++
    (newlyResolved before cs.b.fronts).map (fun (i, r) => s!"t{i}={fresRepr cs i r}") ++ extra
  if parts.isEmpty then "-" else String.intercalate " " parts

/-- run to quiescence and report -/
def finishOp (cs : CtSt) (before : List FPhase) : CtSt × String :=
  let cs1 := settleCt (settleFuel cs) cs
  ({ cs1 with wiresOut := [] }, eventsRepr cs1 before [] ++ tailRepr cs1)

def frontOp (cs : CtSt) (s : Client.Step) (reply : Bool) : CtSt × String :=
  let before := cs.b.fronts
  let aop := cs.a.nextOp
  let r := Client.step cs.a s
  let cs1 := { cs with a := r.st, tickets := cs.tickets ++ [if reply then some aop else none] }
  finishOp (bstep cs1 (.frontNew reply)) before

/-- the stream of a subscribe ticket has ended: its sink is gone (closed by the server, lagged and
unsubscribed, or the manager was dropped) -/
def streamEnded (cs : CtSt) (t : Nat) : Bool :=
  let dropped := cs.b.sendP == .done && cs.b.readP == .done
  match cs.tickets[t]? with
  | some (some aop) =>
    (match chanOfOp cs.a aop with
     | some c =>
       (match cs.a.core.chans[c]? with
        | some ch => dropped || !ch.senderAlive
        | none => dropped)
     | none => dropped)
  | _ => dropped

def streamTickets (cs : CtSt) : List Nat :=
  (List.range cs.tickets.length).filter (fun t =>
    !cs.gone.contains t &&
    match cs.answers.find? (·.1 == t) with
    | some (_, s) => s.startsWith "sub:" || s == "reg"
    | none => false)

/-- the application lets go of the stream of ticket `t`: `Drop` (`unsub = false`) or
`Subscription::unsubscribe()`; the message for the send task gets into the front channel only while
it is open -/
def consumerOp (cs : CtSt) (t : Nat) (unsub : Bool) : CtSt × String :=
  if !(streamTickets cs).contains t || cs.unsubbed.contains t then (cs, "bad-op") else
  match cs.tickets[t]?.join.bind (chanOfOp cs.a) with
  | none => (cs, "bad-op")
  | some c =>
    let before := cs.b.fronts
    let room := !cs.b.frontClosed && decide (cs.b.queue.length < cs.b.fcap)
    let r := Client.step cs.a (if unsub then .unsubscribeStream c else .dropStream c room)
    let queued := decide (r.st.pool.length > cs.a.pool.length) && !cs.b.frontClosed
    -- a message that cannot enter the closed channel is lost
    let a' := if cs.b.frontClosed then { r.st with pool := cs.a.pool } else r.st
    let cs1 := { cs with a := a', gone := if unsub then cs.gone else cs.gone ++ [t],
                         unsubbed := if unsub then cs.unsubbed ++ [t] else cs.unsubbed,
                         draining := if unsub then cs.draining ++ [c] else cs.draining }
    finishOp (if queued then bstep cs1 .consumerMsg else cs1) before

/-- `end` polls every stream the application still holds until it yields nothing more -/
def consumeBuffered : Nat → Client.St → ChanId → Client.St
  | 0, st, _ => st
  | fuel + 1, st, c =>
    let r := Client.step st (.next c)
    match r.out with
    | .item _ => consumeBuffered fuel r.st c
    | _ => r.st

def unresolvedTickets (cs : CtSt) : List Nat :=
  (List.range cs.b.fronts.length).filter (fun i =>
    match cs.b.fronts[i]? with
    | some .watching => false
    | some p => !isResolved p
    | none => false)

def watchingTickets (cs : CtSt) : List Nat :=
  (List.range cs.b.fronts.length).filter (fun i => cs.b.fronts[i]? == some FPhase.watching)

/-- items still buffered in the stream of ticket `t` -/
def bufferedOf (cs : CtSt) (t : Nat) : Nat :=
  match cs.tickets[t]?.join.bind (chanOfOp cs.a) with
  | some c => (cs.a.core.chans[c]?.map (·.buf.length)).getD 0
  | none => 0

def ctVerb (cs : CtSt) (ws : List String) : Option (CtSt × String) :=
  match ws with
  | ["case", _, "ctasks", kind, cap] =>
    some (match cap.toNat? with
      | some c =>
        if (kind != "num" && kind != "str") || c == 0 then ({}, "bad-op") else
        ({ active := true, a := Client.St.init c (kind == "str"), b := ClientTasks.init 64 }, "case")
      | none => ({}, "bad-op"))
  | ["case", _, "ctasks", kind, cap, _opts] =>
    -- options (request timeout, idle pings) do not change what the compared histories show
    some (match cap.toNat? with
      | some c =>
        if (kind != "num" && kind != "str") || c == 0 then ({}, "bad-op") else
        ({ active := true, a := Client.St.init c (kind == "str"), b := ClientTasks.init 64 }, "case")
      | none => ({}, "bad-op"))
  | "case" :: _ :: "ctasksx" :: _ => some ({ active := true, skip := true }, "case")
  | "case" :: _ => none
  | "rt" :: _ => some (cs, "rt")
  | "ct" :: verb :: args =>
    if !cs.active then some (cs, "bad-op")
    else if cs.skip then some (cs, "-")
    else
    some (match verb, args with
      | "call", [] => frontOp cs (.newCall tM none) true
      | "subscribe", [] => frontOp cs (.newSubscribe tSub tUnsub) true
      | "batch", [n] =>
        (match n.toNat? with
         | some k => if k == 0 || k > 64 then (cs, "bad-op") else frontOp cs (.newBatch tM k) true
         | none => (cs, "bad-op"))
      | "drop", [k] =>
        (match k.toNat? with
         | some t => consumerOp cs t false
         | none => (cs, "bad-op"))
      | "unsub", [k] =>
        (match k.toNat? with
         | some t => consumerOp cs t true
         | none => (cs, "bad-op"))
      | "regnotif", [m] =>
        (match unhexText m with
         | some meth => frontOp cs (.newRegister meth) true
         | none => (cs, "bad-op"))
      | "ondisc", [] =>
        let before := cs.b.fronts
        finishOp (bstep { cs with tickets := cs.tickets ++ [none] } .frontWatch) before
      | "pong", [] => finishOp cs cs.b.fronts
      | "fault", ["close_err"] => finishOp cs cs.b.fronts
      | "notify", [] => frontOp cs (.newNotification (encodeNotif { method := tM, params := none })) false
      | "deliver", [h] =>
        (match unhexText h with
         | some t => finishOp (if cs.peerClosed then cs else { cs with inbox := cs.inbox ++ [.text t] }) cs.b.fronts
         | none => (cs, "bad-op"))
      | "fault", ["garbage", h] =>
        (match unhexText h with
         | some t => finishOp (if cs.peerClosed then cs else { cs with inbox := cs.inbox ++ [.text t] }) cs.b.fronts
         | none => (cs, "bad-op"))
      | "fault", ["send_err", k] =>
        (match k.toNat? with
         | some n => finishOp { cs with sendFail := some n } cs.b.fronts
         | none => (cs, "bad-op"))
      | "fault", ["recv_err", k] =>
        (match k.toNat? with
         | some n => finishOp (if cs.peerClosed then cs else { cs with inbox := cs.inbox ++ [.err n] }) cs.b.fronts
         | none => (cs, "bad-op"))
      | "fault", ["peer_close"] => finishOp { cs with peerClosed := true } cs.b.fronts
      | "gate", [which, state] =>
        if state != "open" && state != "shut" then (cs, "bad-op") else
        let v := state == "open"
        if which == "send" then finishOp { cs with sendGate := v } cs.b.fronts
        else if which == "close" then finishOp { cs with closeGate := v } cs.b.fronts
        else if which == "recv" then finishOp { cs with recvGate := v } cs.b.fronts
        else if which == "all" then finishOp { cs with sendGate := v, recvGate := v, closeGate := v } cs.b.fronts
        else (cs, "bad-op")
      | "probe", [] => finishOp cs cs.b.fronts
      | "end", [] =>
        let before := cs.b.fronts
        let c1 := settleCt (settleFuel cs) { cs with sendGate := true }
        let c2 := settleCt (settleFuel c1) { c1 with closeGate := true }
        let c3 := settleCt (settleFuel c2) { c2 with recvGate := true }
        let un := unresolvedTickets c3
        let wp := watchingTickets c3
        let extra := [s!"unres={if un.isEmpty then "-" else String.intercalate "," (un.map toString)}"] ++
          (if wp.isEmpty then [] else [s!"wp={String.intercalate "," (wp.map toString)}"]) ++
          (streamTickets c3).map (fun t =>
            let st := if streamEnded c3 t then "end" else "open"
            if c3.unsubbed.contains t then s!"s{t}={st}" else s!"s{t}={st}/{bufferedOf c3 t}")
        let a' := (streamTickets c3).foldl (fun acc t =>
          if c3.unsubbed.contains t then acc else
          match c3.tickets[t]?.join.bind (chanOfOp acc) with
          | some c => consumeBuffered (bufferedOf c3 t + 1) acc c
          | none => acc) c3.a
        ({ c3 with wiresOut := [], a := a' }, eventsRepr c3 before extra ++ tailRepr c3)
      | "deliverbytes", [h] =>
        -- a binary frame goes through the same handler as text
        (match unhexText h with
         | some t => finishOp (if cs.peerClosed then cs else { cs with inbox := cs.inbox ++ [.text t] }) cs.b.fronts
         | none => ({ cs with skip := true }, "-"))
      | "fault", ["garbageb", h] =>
        (match unhexText h with
         | some t => finishOp (if cs.peerClosed then cs else { cs with inbox := cs.inbox ++ [.text t] }) cs.b.fronts
         | none => ({ cs with skip := true }, "-"))
      | "dropclient", [] => ({ cs with skip := true }, "-")
      | "advance", [_] => ({ cs with skip := true }, "-")
      | "fault", ["ping_err", _] => ({ cs with skip := true }, "-")
      | "deepdeliver", [_] => ({ cs with skip := true }, "-")
      | _, _ => (cs, "bad-op"))
  | _ => none

end Jrpc.Driver
