/-
  Line-protocol helpers for the model driver: hex <-> bytes <-> code points, tokens.
  Payloads that may contain spaces/arbitrary text travel as hex of their UTF-8 bytes; `-` is the
  empty string.  (Harness side: /verif/harness/src/common.rs `hex`/`unhex`.)
-/
import JrpcVerif.Model.Wire
import JrpcVerif.Model.Utf8
namespace Jrpc.Driver
open Jrpc

def hexNibble (c : Char) : Option Nat :=
  if '0' ≤ c && c ≤ '9' then some (c.toNat - 48)
  else if 'a' ≤ c && c ≤ 'f' then some (c.toNat - 87)
  else if 'A' ≤ c && c ≤ 'F' then some (c.toNat - 55)
  else none

def unhexBytes : List Char → Option (List Nat)
  | [] => some []
  | [_] => none
  | a :: b :: r =>
    match hexNibble a, hexNibble b, unhexBytes r with
    | some x, some y, some rest => some ((x * 16 + y) :: rest)
    | _, _, _ => none

/-- hex token -> text (code points) -/
def unhexText (s : String) : Option Text :=
  if s == "-" then some [] else
  match unhexBytes s.toList with
  | some bs => utf8Decode bs
  | none => none

def nib (n : Nat) : Char := if n < 10 then Char.ofNat (48 + n) else Char.ofNat (87 + n)

def hexOfBytes (bs : List Nat) : String :=
  if bs.isEmpty then "-" else String.ofList (bs.flatMap (fun b => [nib (b / 16), nib (b % 16)]))

/-- text -> hex token -/
def hexText (t : Text) : String := hexOfBytes (utf8Encode t)

def optHex (o : Option Text) : String :=
  match o with
  | some t => hexText t
  | none => "none"

def unOptHex (s : String) : Option (Option Text) :=
  if s == "none" then some none else (unhexText s).map some

def idRepr : Id → String
  | .null => "null"
  | .num n => s!"n:{n}"
  | .str s => s!"s:{hexText s}"

def parseId (s : String) : Option Id :=
  if s == "null" then some .null
  else if s.startsWith "n:" then (s.drop 2).toString.toNat?.map Id.num
  else if s.startsWith "s:" then (unhexText (s.drop 2).toString).map Id.str
  else none

def subIdRepr : SubId → String
  | .num n => s!"n:{n}"
  | .str s => s!"s:{hexText s}"

def parseSubId (s : String) : Option SubId :=
  if s.startsWith "n:" then (s.drop 2).toString.toNat?.map SubId.num
  else if s.startsWith "s:" then (unhexText (s.drop 2).toString).map SubId.str
  else none

def parseInt (s : String) : Option Int :=
  if s.startsWith "-" then (s.drop 1).toString.toNat?.map (fun n => - (n : Int))
  else s.toNat?.map (fun n => (n : Int))

end Jrpc.Driver
