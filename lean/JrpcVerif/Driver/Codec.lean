/-
  Line-protocol helpers for the model driver: hex <-> bytes <-> code points, tokens.
  Payloads that may contain spaces/arbitrary text travel as hex of their UTF-8 bytes; `-` is the
  empty string.  (Harness side: /verif/harness/src/common.rs `hex`/`unhex`.)
-/
import JrpcVerif.Model.Wire
import JrpcVerif.Model.Utf8
namespace Jrpc.Driver
open Jrpc

def hexNibble (c : Char) : Option Nat :=
  if '0' ≤ c && c ≤ '9' then some (c.toNat - 48)
  else if 'a' ≤ c && c ≤ 'f' then some (c.toNat - 87)
  else if 'A' ≤ c && c ≤ 'F' then some (c.toNat - 55)
  else none

def unhexBytes : List Char → Option (List Nat)
  | [] => some []
  | [_] => none
  | a :: b :: r =>
    match hexNibble a, hexNibble b, unhexBytes r with
    | some x, some y, some rest => some ((x * 16 + y) :: rest)
    | _, _, _ => none

/-- strict UTF-8 validity, as `std::str::from_utf8`: shortest forms only, no surrogates, nothing above
U+10FFFF, no truncated or stray continuation bytes (`utf8Decode` alone is lenient) -/
def utf8Strict : List Nat → Bool
  | [] => true
  | b :: r =>
    let cont (x : Nat) : Bool := 0x80 ≤ x && x ≤ 0xBF
    if b < 0x80 then utf8Strict r
    else if 0xC2 ≤ b && b ≤ 0xDF then
      match r with
      | b1 :: r1 => cont b1 && utf8Strict r1
      | _ => false
    else if 0xE0 ≤ b && b ≤ 0xEF then
      match r with
      | b1 :: b2 :: r2 =>
        (if b == 0xE0 then 0xA0 ≤ b1 && b1 ≤ 0xBF else if b == 0xED then 0x80 ≤ b1 && b1 ≤ 0x9F else cont b1)
          && cont b2 && utf8Strict r2
      | _ => false
    else if 0xF0 ≤ b && b ≤ 0xF4 then
      match r with
      | b1 :: b2 :: b3 :: r3 =>
        (if b == 0xF0 then 0x90 ≤ b1 && b1 ≤ 0xBF else if b == 0xF4 then 0x80 ≤ b1 && b1 ≤ 0x8F else cont b1)
          && cont b2 && cont b3 && utf8Strict r3
      | _ => false
    else false

/-- hex token -> text; `none` unless the bytes are (strictly) valid UTF-8 — what is no `str` for the
implementation is no text for the model either (such lines are skipped by the comparison, and they
must not move the model's state) -/
def unhexText (s : String) : Option Text :=
  if s == "-" then some [] else
  match unhexBytes s.toList with
  | some bs => if utf8Strict bs then utf8Decode bs else none
  | none => none

def nib (n : Nat) : Char := if n < 10 then Char.ofNat (48 + n) else Char.ofNat (87 + n)

def hexOfBytes (bs : List Nat) : String :=
  if bs.isEmpty then "-" else String.ofList (bs.flatMap (fun b => [nib (b / 16), nib (b % 16)]))

/-- text -> hex token -/
def hexText (t : Text) : String := hexOfBytes (utf8Encode t)

def optHex (o : Option Text) : String :=
  match o with
  | some t => hexText t
  | none => "none"

def unOptHex (s : String) : Option (Option Text) :=
  if s == "none" then some none else (unhexText s).map some

def idRepr : Id → String
  | .null => "null"
  | .num n => s!"n:{n}"
  | .str s => s!"s:{hexText s}"

def parseId (s : String) : Option Id :=
  if s == "null" then some .null
  else if s.startsWith "n:" then (s.drop 2).toString.toNat?.map Id.num
  else if s.startsWith "s:" then (unhexText (s.drop 2).toString).map Id.str
  else none

def subIdRepr : SubId → String
  | .num n => s!"n:{n}"
  | .str s => s!"s:{hexText s}"

def parseSubId (s : String) : Option SubId :=
  if s.startsWith "n:" then (s.drop 2).toString.toNat?.map SubId.num
  else if s.startsWith "s:" then (unhexText (s.drop 2).toString).map SubId.str
  else none

def parseInt (s : String) : Option Int :=
  if s.startsWith "-" then (s.drop 1).toString.toNat?.map (fun n => - (n : Int))
  else s.toNat?.map (fun n => (n : Int))

end Jrpc.Driver
