/-
  Driver verbs of the server connection-lifecycle family (stateful).

  C11 (`ConnGuard`):
    case <n> conn max=<m> http=<0|1> ws=<0|1> obs=<0|1> path=<server|tower|towerset|towermw|towerclone|lowlevel|lowserve>   -> case
    cg harrive <c> <new|reuse|close|batch> | cg hdone <c> | cg habort <c> <fin|rst> | cg idle <c>
    cg wstart <c> <handshakeOk 0|1> | cg wdone <c> | cg wfail <c> <drop|reset>
    cg wclose <c> <close|closecall|halfcall|reset|resetcall|proto|ping|pingcall|stop>
  (the extra tokens say HOW the harness produces the event on the wire: fresh / kept-alive
   TCP connection, FIN / RST, 101 dropped by a middleware / peer reset, … — the guard does not
   distinguish them, which is part of what the correspondence checks)
    cg end
  answers: `<kind> a=<available_connections>`; with `obs=0` (the harness cannot read the guard:
  limit 0, no handler ever runs) the number is printed as `-`.
-/
import JrpcVerif.Driver.Codec
import JrpcVerif.Model.ConnGuard
import JrpcVerif.Model.Stop
namespace Jrpc.Driver
open Jrpc

structure ConnSt where
  cg : ConnGuard.State := ConnGuard.init { max := 0 }
  obs : Bool := true
  stop : Stop.State := Stop.init 16
  /-- C10: calls whose answer the client has been seen to receive (`st resp k`) -/
  stopSeen : List Nat := []

def cnKv (key : String) (tok : String) : Option String :=
  if tok.startsWith (key ++ "=") then some (tok.drop (key.length + 1)).toString else none

def cnKvNat (key : String) (tok : String) : Option Nat := (cnKv key tok).bind (·.toNat?)

def cnKvBool (key : String) (tok : String) : Option Bool :=
  match cnKv key tok with
  | some "0" => some false
  | some "1" => some true
  | _ => none

def availRepr (obs : Bool) (a : Nat) : String := if obs then s!"a={a}" else "a=-"

def cgOutRepr (obs : Bool) : ConnGuard.Out → String
  | .started a => s!"started {availRepr obs a}"
  | .refused a => s!"refused {availRepr obs a}"
  | .denied a => s!"denied {availRepr obs a}"
  | .rejected a => s!"rejected {availRepr obs a}"
  | .upgraded a => s!"upgraded {availRepr obs a}"
  | .released a => s!"released {availRepr obs a}"
  | .noop => "noop"

def parseCloseHow (s : String) : Option ConnGuard.CloseHow :=
  if s == "close" then some .peerClose
  else if s == "closecall" then some .peerClose
  else if s == "reset" then some .peerReset
  else if s == "resetcall" then some .peerReset
  else if s == "proto" then some .serverClose
  else if s == "ping" then some .serverClose
  else if s == "pingcall" then some .serverClose
  else if s == "halfcall" then some .peerClose
  else if s == "stop" then some .stopped
  else none

def parseCgOp (ws : List String) : Option ConnGuard.Op :=
  match ws with
  | ["harrive", c, mode] =>
    if mode == "new" || mode == "reuse" || mode == "close" || mode == "batch" then c.toNat?.map .httpArrive else none
  | ["hdone", c] => c.toNat?.map .httpDone
  | ["habort", c, mode] => if mode == "fin" || mode == "rst" then c.toNat?.map .httpAbort else none
  | ["wstart", c, ok] =>
    match c.toNat?, ok with
    | some n, "1" => some (.wsUpgradeStart n true)
    | some n, "0" => some (.wsUpgradeStart n false)
    | _, _ => none
  | ["wdone", c] => c.toNat?.map .wsUpgradeDone
  | ["wfail", c, mode] => if mode == "drop" || mode == "reset" then c.toNat?.map .wsUpgradeFail else none
  | ["wclose", c, how] =>
    match c.toNat?, parseCloseHow how with
    | some n, some h => some (.wsClose n h)
    | _, _ => none
  | _ => none

def validPath (tok : String) : Bool :=
  match cnKv "path" tok with
  | some p => p == "server" || p == "tower" || p == "towerset" || p == "towermw" || p == "towerclone" ||
      p == "lowlevel" || p == "lowserve"
  | none => false

/-! ### C10: trace checker

The harness reports the VISIBLE events of a run of the real server in their logical order; the
checker answers, event by event, whether the machine of Model/Stop.lean can produce it — after
the invisible steps the event presupposes (`Stop.flushOps`, `Stop.windDownOps`,
`Stop.windDownAllOps`).  `ok` = possible, `impossible` = the implementation did something the
model cannot (a model/implementation disagreement).

    case <n> stop cap=<B> path=<server|tower|lowlevel> [opts=<ping|closehdr|-,…>]
    st open <c> <http|ws> <ok|refused>     st send <c> <k>        st sub <c> <k>
    st start <k>   st ret <k>   st cancel <k>   st resp <k>   st gone <c>   st eof <c>
    st stop <ok|already>   st drop   st resolved   st end
    harness-only (answered `ok`, no step): st rel <k> | relall | yield | wsub <k> |
      wstart|wfin|wresp <k> <yes|no> | weof <c> <yes|no> | wres <yes|no>
-/

def stopCallConn (s : Stop.State) (k : Nat) : Option Stop.Conn :=
  match s.calls.find? (fun y => y.id == k) with
  | some y => s.conns.find? (fun x => x.id == y.conn)
  | none => none

def stopCallPhase (s : Stop.State) (k : Nat) : Option Stop.CPhase :=
  (s.calls.find? (fun y => y.id == k)).map (·.phase)

def cnNatList (l : List Nat) : String := ",".intercalate (l.map toString)

def cnInsertSorted (n : Nat) : List Nat → List Nat
  | [] => [n]
  | m :: r => if n ≤ m then n :: m :: r else m :: cnInsertSorted n r

def cnSortNats (l : List Nat) : List Nat := l.foldl (fun acc n => cnInsertSorted n acc) []

/-- calls on connections whose client stayed connected, selected by phase -/
def stopCallsWhere (s : Stop.State) (p : Stop.CPhase → Bool) : List Nat :=
  cnSortNats ((s.calls.filter (fun y => p y.phase && !(s.conns.any (fun x => x.id == y.conn && x.peerGone)))).map (·.id))

def cnOkIf (b : Bool) : String := if b then "ok" else "impossible"

def stopVerb (s : Stop.State) (ws : List String) : Option (Stop.State × String) :=
  match ws with
  | ["open", c, tr, res] =>
    match c.toNat?, (if tr == "http" then some Stop.Tr.http else if tr == "ws" then some Stop.Tr.ws else none) with
    | some c, some tr =>
      if res == "ok" then
        let r := Stop.step s (.connOpen c tr)
        some (r.1, cnOkIf (r.2 == .ok))
      else if res == "refused" then
        -- the listener is gone: the accept loop has exited
        let s1 := (Stop.step s .acceptExit).1
        some (s1, cnOkIf (!Stop.enabled s1 (.connOpen c tr)))
      else none
    | _, _ => none
  | ["send", c, k] =>
    match c.toNat?, k.toNat? with
    | some c, some k =>
      -- bytes written into a socket that is no connection of the machine (see `popen`) go nowhere
      if !Stop.hasConn s c then some (s, "ok") else
      let r := Stop.step s (.callSend c k)
      some (r.1, cnOkIf (r.2 == .ok))
    | _, _ => none
  | ["send", c, k, kind] =>
    -- block / blockpanic: a blocking handler (one that panics after its release is answered with an
    -- error object by the library: still an answer); batch: ONE message carrying the calls k and k+1000
    match c.toNat?, k.toNat? with
    | some c, some k =>
      if kind == "block" || kind == "blockpanic" || kind == "big" then
        let r := Stop.step s (.callSend c k)
        some (r.1, cnOkIf (r.2 == .ok))
      else if kind == "batch" then
        let r1 := Stop.step s (.callSend c k)
        let r2 := Stop.step r1.1 (.callSend c (k + 1000))
        some (r2.1, cnOkIf (r1.2 == .ok && r2.2 == .ok))
      else none
    | _, _ => none
  | ["sub", c, k] =>
    match c.toNat?, k.toNat? with
    | some _, some _ => some (s, "ok")
    | _, _ => none
  | ["sub", c, k, "chatty"] =>
    match c.toNat?, k.toNat? with
    | some _, some _ => some (s, "ok")
    | _, _ => none
  | ["popen", c, res] =>
    -- a plain TCP connect during the wind-down (nothing verified by the harness)
    match c.toNat? with
    | some c =>
      if res == "ok" then
        -- the TCP handshake is completed by the kernel from the listen backlog; if the accept loop is
        -- gone nobody will ever serve it: then it is no connection of the machine at all (a call
        -- STARTING on it would be `impossible` below, its call being unknown)
        some ((Stop.step s (.connOpen c .http)).1, "ok")
      else if res == "refused" then
        let s1 := (Stop.step s .acceptExit).1
        some (s1, cnOkIf (!Stop.enabled s1 (.connOpen c .http)))
      else none
    | none => none
  | ["isstopped", r] =>
    -- `is_stopped()` = no `StopHandle` is left
    if r == "1" then
      let s1 := Stop.run s (Stop.windDownAllOps s)
      some (s1, cnOkIf (Stop.noReceivers s1))
    else if r == "0" then some (s, cnOkIf (!Stop.noReceivers s))
    else none
  | ["hclone"] => some (s, "ok")
  | ["hdropc"] => some (s, "ok")
  | ["gone", c, "half"] =>
    c.toNat?.map fun c =>
      let r := Stop.step s (.peerGone c)
      (r.1, cnOkIf (r.2 == .ok))
  | ["start", k] =>
    k.toNat?.map fun k =>
      match stopCallConn s k with
      | some x =>
        -- a client that went away: what the server still does with its buffered input is outside
        -- every claim and cannot be ordered by the harness; accepted without a step
        if x.peerGone then (s, "ok") else
        if x.tr == .ws then
          let s1 := (Stop.step s (.wsRead k)).1
          let r := Stop.step s1 (.callStart k)
          (r.1, cnOkIf (r.2 == .ok))
        else
          let r := Stop.step s (.httpRead k)
          (r.1, cnOkIf (r.2 == .ok))
      | none => (s, "impossible")
  | ["ret", k] =>
    k.toNat?.map fun k =>
      if (stopCallConn s k).any (·.peerGone) then (s, "ok") else
      let r := Stop.step s (.handlerReturn k)
      (Stop.run r.1 (Stop.flushOps k), cnOkIf (r.2 == .ok))
  | ["cancel", k] =>
    k.toNat?.map fun k =>
      match stopCallConn s k with
      | some x =>
        if stopCallPhase s k != some .started && stopCallPhase s k != some .answered then (s, cnOkIf x.peerGone) else
        let s1 := (Stop.step s (.httpClose x.id)).1
        (s1, cnOkIf (stopCallPhase s1 k == some .dropped))
      | none => (s, "impossible")
  | ["resp", k] =>
    k.toNat?.map fun k =>
      if (stopCallConn s k).any (·.peerGone) then (s, "ok") else (s, cnOkIf (stopCallPhase s k == some .onWire))
  | ["gone", c] =>
    c.toNat?.map fun c =>
      let r := Stop.step s (.peerGone c)
      (r.1, cnOkIf (r.2 == .ok))
  | ["eof", c] =>
    c.toNat?.map fun c =>
      if !Stop.hasConn s c then (s, "ok") else
      let s1 := Stop.run s (Stop.windDownOps c)
      (s1, cnOkIf (s1.conns.any (fun x => x.id == c && x.phase == .closed)))
  | ["stop", res] =>
    if res == "ok" then
      let r := Stop.step s .stop
      some (r.1, cnOkIf (r.2 == .ok))
    else if res == "already" then
      -- `Err(AlreadyStopped)`: no receiver is left, i.e. everything has wound down
      let s1 := Stop.run s (Stop.windDownAllOps s)
      let r := Stop.step s1 .stop
      some (r.1, cnOkIf (r.2 == .alreadyStopped))
    else none
  | ["drop"] => some ((Stop.step s .dropHandles).1, "ok")
  -- harness-only lines (gates and wait points): no step of the machine
  | ["relall"] => some (s, "ok")
  | ["yield"] => some (s, "ok")
  | ["rel", k] => k.toNat?.map fun _ => (s, "ok")
  | ["sleep", ms] => ms.toNat?.map fun _ => (s, "ok")
  -- an oversized message: refused with an error that answers no call, or discarded while draining —
  -- no step of the machine (in particular NOT a `peerGone`: it does not end the connection's drain)
  | ["junk", c] => c.toNat?.map fun _ => (s, "ok")
  | ["wsub", k] => k.toNat?.map fun _ => (s, "ok")
  | ["wres", r] => if r == "yes" || r == "no" then some (s, "ok") else none
  | [w, k, r] =>
    if (w == "wstart" || w == "wfin" || w == "wresp" || w == "weof") && (r == "yes" || r == "no") then
      k.toNat?.map fun _ => (s, "ok")
    else none
  | ["resolved"] =>
    let s1 := Stop.run s (Stop.windDownAllOps s)
    let r := Stop.step s1 .resolve
    some (r.1, cnOkIf (r.2 == .ok))
  | ["end"] =>
    some (s, s!"end resolved={if s.resolved then 1 else 0} started={cnNatList (stopCallsWhere s (fun p => p != .sent && p != .received))} onwire={cnNatList (stopCallsWhere s (fun p => p == .onWire))}")
  | _ => none

def validStopPath (tok : String) : Bool :=
  match cnKv "path" tok with
  | some p => p == "server" || p == "tower" || p == "lowlevel"
  | none => false

def connVerb (st : ConnSt) (ws : List String) : Option (ConnSt × String) :=
  match ws with
  | ["case", _, "stop", cap, p] =>
    match cnKvNat "cap" cap, validStopPath p with
    | some cap, true => some ({ st with stop := Stop.init cap, stopSeen := [] }, "case")
    | _, _ => some (st, "bad-op")
  | ["case", _, "stop", cap, p, o] =>
    -- opts=<ping|closehdr|-,…>: harness-side configuration the machine does not depend on
    match cnKvNat "cap" cap, validStopPath p, cnKv "opts" o with
    | some cap, true, some _ => some ({ st with stop := Stop.init cap, stopSeen := [] }, "case")
    | _, _, _ => some (st, "bad-op")
  | "case" :: _ :: "stop" :: _ => some (st, "bad-op")
  | "st" :: rest =>
    match stopVerb st.stop rest with
    | some (s', out) =>
      match rest with
      | ["resp", k] => some ({ st with stop := s', stopSeen := (k.toNat?.getD 0) :: st.stopSeen }, out)
      | ["eof", c] =>
        -- TCP delivers what was written before the close: an answer the machine has on the wire
        -- when the connection task ends must have reached the (connected) client before its EOF
        let cN := c.toNat?.getD 0
        let undelivered := s'.calls.any (fun y => y.conn == cN && y.phase == .onWire && !st.stopSeen.contains y.id)
        let connected := s'.conns.any (fun x => x.id == cN && !x.peerGone)
        some ({ st with stop := s' }, if out == "ok" && connected && undelivered then "impossible" else out)
      | _ => some ({ st with stop := s' }, out)
    | none => some (st, "bad-op")
  | ["case", _, "conn", m, h, w, o, p] =>
    match cnKvNat "max" m, cnKvBool "http" h, cnKvBool "ws" w, cnKvBool "obs" o, validPath p with
    | some max, some eh, some ew, some obs, true =>
      some ({ st with cg := ConnGuard.init { max := max, enableHttp := eh, enableWs := ew }, obs := obs }, "case")
    | _, _, _, _, _ => some (st, "bad-op")
  | "case" :: _ :: "conn" :: _ => some (st, "bad-op")
  | ["cg", "idle", c] =>
    -- a TCP connection on which nothing is sent: no request reaches `call`, the guard is untouched
    match c.toNat? with
    | some _ => some (st, s!"idle {availRepr st.obs st.cg.avail}")
    | none => some (st, "bad-op")
  | ["cg", "end"] =>
    some (st, s!"final {availRepr st.obs st.cg.avail} active={ConnGuard.active st.cg}")
  | "cg" :: rest =>
    match parseCgOp rest with
    | some op =>
      let r := ConnGuard.step st.cg op
      some ({ st with cg := r.1 }, cgOutRepr st.obs r.2)
    | none => some (st, "bad-op")
  | _ => none

end Jrpc.Driver
