/-
  Driver verbs of the server connection-lifecycle family (stateful).

  C11 (`ConnGuard`):
    case <n> conn max=<m> http=<0|1> ws=<0|1> obs=<0|1> path=<server|tower|towerset>   -> case
    cg harrive <c> <new|reuse> | cg hdone <c> | cg habort <c> <fin|rst>
    cg wstart <c> <handshakeOk 0|1> | cg wdone <c> | cg wfail <c> <drop|reset>
    cg wclose <c> <close|closecall|reset|resetcall|proto|ping|stop>
  (the extra tokens say HOW the harness produces the event on the wire: fresh / kept-alive
   TCP connection, FIN / RST, 101 dropped by a middleware / peer reset, … — the guard does not
   distinguish them, which is part of what the correspondence checks)
    cg end
  answers: `<kind> a=<available_connections>`; with `obs=0` (the harness cannot read the guard:
  limit 0, no handler ever runs) the number is printed as `-`.
-/
import JrpcVerif.Driver.Codec
import JrpcVerif.Model.ConnGuard
namespace Jrpc.Driver
open Jrpc

structure ConnSt where
  cg : ConnGuard.State := ConnGuard.init { max := 0 }
  obs : Bool := true

def kv (key : String) (tok : String) : Option String :=
  if tok.startsWith (key ++ "=") then some (tok.drop (key.length + 1)).toString else none

def kvNat (key : String) (tok : String) : Option Nat := (kv key tok).bind (·.toNat?)

def kvBool (key : String) (tok : String) : Option Bool :=
  match kv key tok with
  | some "0" => some false
  | some "1" => some true
  | _ => none

def availRepr (obs : Bool) (a : Nat) : String := if obs then s!"a={a}" else "a=-"

def cgOutRepr (obs : Bool) : ConnGuard.Out → String
  | .started a => s!"started {availRepr obs a}"
  | .refused a => s!"refused {availRepr obs a}"
  | .denied a => s!"denied {availRepr obs a}"
  | .rejected a => s!"rejected {availRepr obs a}"
  | .upgraded a => s!"upgraded {availRepr obs a}"
  | .released a => s!"released {availRepr obs a}"
  | .noop => "noop"

def parseCloseHow (s : String) : Option ConnGuard.CloseHow :=
  if s == "close" then some .peerClose
  else if s == "closecall" then some .peerClose
  else if s == "reset" then some .peerReset
  else if s == "resetcall" then some .peerReset
  else if s == "proto" then some .serverClose
  else if s == "ping" then some .serverClose
  else if s == "stop" then some .stopped
  else none

def parseCgOp (ws : List String) : Option ConnGuard.Op :=
  match ws with
  | ["harrive", c, mode] => if mode == "new" || mode == "reuse" then c.toNat?.map .httpArrive else none
  | ["hdone", c] => c.toNat?.map .httpDone
  | ["habort", c, mode] => if mode == "fin" || mode == "rst" then c.toNat?.map .httpAbort else none
  | ["wstart", c, ok] =>
    match c.toNat?, ok with
    | some n, "1" => some (.wsUpgradeStart n true)
    | some n, "0" => some (.wsUpgradeStart n false)
    | _, _ => none
  | ["wdone", c] => c.toNat?.map .wsUpgradeDone
  | ["wfail", c, mode] => if mode == "drop" || mode == "reset" then c.toNat?.map .wsUpgradeFail else none
  | ["wclose", c, how] =>
    match c.toNat?, parseCloseHow how with
    | some n, some h => some (.wsClose n h)
    | _, _ => none
  | _ => none

def validPath (tok : String) : Bool :=
  match kv "path" tok with
  | some p => p == "server" || p == "tower" || p == "towerset"
  | none => false

def connVerb (st : ConnSt) (ws : List String) : Option (ConnSt × String) :=
  match ws with
  | ["case", _, "conn", m, h, w, o, p] =>
    match kvNat "max" m, kvBool "http" h, kvBool "ws" w, kvBool "obs" o, validPath p with
    | some max, some eh, some ew, some obs, true =>
      some ({ st with cg := ConnGuard.init { max := max, enableHttp := eh, enableWs := ew }, obs := obs }, "case")
    | _, _, _, _, _ => some (st, "bad-op")
  | "case" :: _ :: "conn" :: _ => some (st, "bad-op")
  | ["cg", "end"] =>
    some (st, s!"final {availRepr st.obs st.cg.avail} active={ConnGuard.active st.cg}")
  | "cg" :: rest =>
    match parseCgOp rest with
    | some op =>
      let r := ConnGuard.step st.cg op
      some ({ st with cg := r.1 }, cgOutRepr st.obs r.2)
    | none => some (st, "bad-op")
  | _ => none

end Jrpc.Driver
