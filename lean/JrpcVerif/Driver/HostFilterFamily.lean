/-
  Driver verbs for C14 (stateless; every op line carries the allow-list and the request).

  tokens
    src  := <rawhex>,E | <rawhex>,N | <rawhex>,P,<schemehex|none>,<authorityhex>,<hosthex>
            (verdict of the real `http` crate on the raw string: invalid / no authority / parts)
    hdr  := b:<hex>  (HeaderValue::to_str fails)  |  src
  verbs
    auth <src>                                   -> ok <hosthex> <port> | err
    hf (D | A <n> <src>*n) H <k> <hdr>*k U <rawurihex|none> <src|none>
                                                 -> cfgerr | fwd calls=1 | 403 calls=0 | 400 calls=0
    rr <n> <routehex>*n <pathhex>                -> none | h=<index of the add whose handler is returned>
  port := default | any | f:<n>
-/
import JrpcVerif.Driver.Codec
import JrpcVerif.Model.HostFilter
namespace Jrpc.Driver
open Jrpc

def parseSrc (s : String) : Option UriParse :=
  match s.splitOn "," with
  | [_, "E"] => some .invalid
  | [_, "N"] => some .noAuthority
  | [_, "P", sc, au, ho] =>
    (match unOptHex sc, unhexText au, unhexText ho with
     | some sc', some au', some ho' => some (.ok { scheme := sc', authority := au', host := ho' })
     | _, _, _ => none)
  | _ => none

def parseHdr (s : String) : Option HeaderVal :=
  if s.startsWith "b:" then some .opaque else (parseSrc s).map HeaderVal.text

def takeN (n : Nat) (ws : List String) : Option (List String × List String) :=
  if ws.length < n then none else some (ws.take n, ws.drop n)

def portRepr : Port → String
  | .default => "default"
  | .any => "any"
  | .fixed n => s!"f:{n}"

/-- `D` | `A <n> <src>*n`, returns the rest of the line -/
def parseFilter (ws : List String) : Option (Option (List UriParse) × List String) :=
  match ws with
  | "D" :: r => some (none, r)
  | "A" :: n :: r =>
    (match n.toNat? with
     | some k =>
       (match takeN k r with
        | some (xs, r') => (xs.mapM parseSrc).map (fun l => (some l, r'))
        | none => none)
     | none => none)
  | _ => none

/-- `H <k> <hdr>*k`, returns the rest of the line -/
def parseHeaders (ws : List String) : Option (List HeaderVal × List String) :=
  match ws with
  | "H" :: n :: r =>
    (match n.toNat? with
     | some k =>
       (match takeN k r with
        | some (xs, r') => (xs.mapM parseHdr).map (fun l => (l, r'))
        | none => none)
     | none => none)
  | _ => none

def parseUri (ws : List String) : Option (Option UriParse) :=
  match ws with
  | ["U", _, u] => if u == "none" then some none else (parseSrc u).map some
  | _ => none

def serveRepr (r : Option Nat × Nat) : String :=
  match r.1 with
  | none => s!"fwd calls={r.2}"
  | some st => s!"{st} calls={r.2}"

def hfLine (ws : List String) : String :=
  match parseFilter ws with
  | none => "bad-op"
  | some (flt, r1) =>
    match parseHeaders r1 with
    | none => "bad-op"
    | some (hs, r2) =>
      match parseUri r2 with
      | none => "bad-op"
      | some u =>
        let req : HttpReq := { hostHeaders := hs, uriAuthority := u }
        match flt with
        | none => serveRepr (serve none req)
        | some srcs =>
          match layerNew srcs with
          | none => "cfgerr"
          | some allow => serveRepr (serve (some allow) req)

def addIndexed (rt : Router Nat) (rs : List Text) (i : Nat) : Router Nat :=
  match rs with
  | [] => rt
  | r :: rest => addIndexed (rt.add r i) rest (i + 1)

def rrLine (n : String) (r : List String) : String :=
  match n.toNat? with
  | none => "bad-op"
  | some k =>
    match takeN k r with
    | some (xs, [p]) =>
      (match xs.mapM unhexText, unhexText p with
       | some routes, some path =>
         (match (addIndexed [] routes 0).recognize path with
          | some i => s!"h={i}"
          | none => "none")
       | _, _ => "bad-op")
    | _ => "bad-op"

/-- `some line` if the verb belongs to this family -/
def hostFilterVerb (ws : List String) : Option String :=
  match ws with
  | ["auth", s] =>
    some (match parseSrc s with
      | some u => (match authorityOf u with
        | some a => s!"ok {hexText a.host} {portRepr a.port}"
        | none => "err")
      | none => "bad-op")
  | "hf" :: r => some (hfLine r)
  | "rr" :: n :: r => some (rrLine n r)
  | _ => none

end Jrpc.Driver
