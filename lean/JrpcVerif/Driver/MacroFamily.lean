/-
  Driver verbs for C17 (generated APIs).
    mcall <key> <kind a|m> <desc> <arg hex|none>…     -> p=<params hex|none> r=<received args|E> ret=<returned hex>
    mraw  <key> <kind> <desc> <alias idx> <params hex|none> -> r=<received args | E:-32602>
  desc = `-` or `name:snake:camel:opt:ty,…`
-/
import JrpcVerif.Driver.Codec
import JrpcVerif.Model.MacroApi
import JrpcVerif.Model.MacroNames
namespace Jrpc.Driver
open Jrpc Jrpc.Macro

def parseParamDesc (s : String) : Option ParamDesc :=
  match s.splitOn ":" with
  | [n, sn, cm, opt, ty] =>
    (ty.toNat?).map (fun t => { name := lit n, snake := lit sn, camel := lit cm, optional := opt == "1", ty := t })
  | _ => none

def parseDesc (kind desc : String) : Option MethodDesc :=
  let k := if kind == "m" then Kind.map else Kind.array
  if desc == "-" then some ⟨[], k⟩
  else ((desc.splitOn ",").mapM parseParamDesc).map (fun ps => ⟨ps, k⟩)

def argsRepr (as : List (Option Text)) : String :=
  if as.isEmpty then "-" else String.intercalate "," (as.map optHex)

def hexList (s : String) : Option (List Text) :=
  if s == "-" then some [] else (s.splitOn ",").mapM unhexText

def targetName : Target → String
  | .method => "method"
  | .subscribe => "subscribe"
  | .unsubscribe => "unsubscribe"

/-- `mres <key> <idx> <ns|none> <sep|none> <isSub> <name> <aliases|-> <unsub|-> <unsubAliases|->`:
the idx-th wire name of the item (registration order) and what it resolves to -/
def mresVerb (idx ns sep isSub name aliases unsub unsubAliases : String) : String :=
  match idx.toNat?, unOptHex ns, unOptHex sep, unhexText name, hexList aliases, hexList unsubAliases with
  | some i, some nsT, some sepT, some nm, some al, some ual =>
    let nsp : Option (Text × Text) := match nsT, sepT with
      | some a, some b => some (a, b)
      | _, _ => none
    let un : Text := if unsub == "-" then [] else (unhexText unsub).getD []
    let d : ItemDesc := ⟨isSub == "1", nm, al, un, ual⟩
    let names := wireNames nsp d
    (match names[i % names.length]? with
     | some n =>
       (match resolve nsp d n with
        | some t => s!"n={hexText n} t={targetName t}"
        | none => s!"n={hexText n} t=none")
     | none => "bad-op")
  | _, _, _, _, _, _ => "bad-op"

def macroVerb (ws : List String) : Option String :=
  match ws with
  | ["mres", _, idx, ns, sep, isSub, name, aliases, unsub, unsubAliases] =>
    some (mresVerb idx ns sep isSub name aliases unsub unsubAliases)
  | "mcall" :: key :: kind :: desc :: args =>
    some (match parseDesc kind desc, args.mapM unOptHex with
      | some d, some as =>
        let p := clientEncode d as
        (match serverDecode d p with
         | some got =>
           if key == "fail_with" then
             -- the method answers with the error object (code, message, data) built from its arguments
             (match got with
              | [some c, some m, dat] =>
                (match decodeString m with
                 | some ms => s!"p={optHex p} r={argsRepr got} ret=CALL:{String.ofList (c.map Char.ofNat)}:{hexText ms}:{optHex dat}"
                 | none => s!"p={optHex p} r={argsRepr got} ret=ERR")
              | _ => s!"p={optHex p} r={argsRepr got} ret=ERR")
           else
           let ret := 91 :: joinElems (got.map argText) ++ [93]
           -- a subscription stub: the dropped stream is unsubscribed through the registered unsubscribe name
           let unsub := if key.startsWith "sub" then " unsub=ok" else ""
           s!"p={optHex p} r={argsRepr got} ret={hexText ret}{unsub}"
         | none => s!"p={optHex p} r=E ret=ERR")
      | _, _ => "bad-op")
  | ["mraw", _, kind, desc, _, params] =>
    some (match parseDesc kind desc, unOptHex params with
      | some d, some p =>
        (match serverDecode d p with
         | some got => s!"r={argsRepr got}"
         | none => "r=E:-32602")
      | _, _ => "bad-op")
  | _ => none

end Jrpc.Driver
