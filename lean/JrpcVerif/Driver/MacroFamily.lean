/-
  Driver verbs for C17 (generated APIs).
    mcall <key> <kind a|m> <desc> <arg hex|none>…     -> p=<params hex|none> r=<received args|E> ret=<returned hex>
    mraw  <key> <kind> <desc> <alias idx> <params hex|none> -> r=<received args | E:-32602>
  desc = `-` or `name:snake:camel:opt:ty,…`
-/
import JrpcVerif.Driver.Codec
import JrpcVerif.Model.MacroApi
namespace Jrpc.Driver
open Jrpc Jrpc.Macro

def parseParamDesc (s : String) : Option ParamDesc :=
  match s.splitOn ":" with
  | [n, sn, cm, opt, ty] =>
    (ty.toNat?).map (fun t => { name := lit n, snake := lit sn, camel := lit cm, optional := opt == "1", ty := t })
  | _ => none

def parseDesc (kind desc : String) : Option MethodDesc :=
  let k := if kind == "m" then Kind.map else Kind.array
  if desc == "-" then some ⟨[], k⟩
  else ((desc.splitOn ",").mapM parseParamDesc).map (fun ps => ⟨ps, k⟩)

def argsRepr (as : List (Option Text)) : String :=
  if as.isEmpty then "-" else String.intercalate "," (as.map optHex)

def macroVerb (ws : List String) : Option String :=
  match ws with
  | "mcall" :: _ :: kind :: desc :: args =>
    some (match parseDesc kind desc, args.mapM unOptHex with
      | some d, some as =>
        let p := clientEncode d as
        (match serverDecode d p with
         | some got =>
           let ret := 91 :: joinElems (got.map argText) ++ [93]
           s!"p={optHex p} r={argsRepr got} ret={hexText ret}"
         | none => s!"p={optHex p} r=E ret=ERR")
      | _, _ => "bad-op")
  | ["mraw", _, kind, desc, _, params] =>
    some (match parseDesc kind desc, unOptHex params with
      | some d, some p =>
        (match serverDecode d p with
         | some got => s!"r={argsRepr got}"
         | none => "r=E:-32602")
      | _, _ => "bad-op")
  | _ => none

end Jrpc.Driver
