/-
  Driver verbs for C16 (params reader).  One line = one params text + one typed read script.
-/
import JrpcVerif.Driver.Codec
import JrpcVerif.Model.ParamsSeq
namespace Jrpc.Driver
open Jrpc

/-- value representation shared with the harness -/
inductive PVal where
  | u (n : Nat) | i (n : Int) | s (t : Text) | b (v : Bool) | any (raw : Text) | vec (es : List Text)

def PVal.repr : PVal → String
  | .u n => s!"{n}"
  | .i n => s!"{n}"
  | .s t => hexText t
  | .b v => if v then "true" else "false"
  | .any r => hexText r
  | .vec es => "[" ++ String.intercalate "," (es.map hexText) ++ "]"

/-- a signed integer literal as serde_json reads it into an integer type with the given bounds
(`-0` is a float for serde_json ⇒ rejected) -/
def decodeSigned (lo hi : Int) (t : Text) : Option Int :=
  match t with
  | c :: r =>
    if c == 45 then
      match decodeNat r with
      | some n => if n == 0 then none else if lo ≤ - (n : Int) then some (- (n : Int)) else none
      | none => none
    else
      match decodeNat t with
      | some n => if (n : Int) ≤ hi then some (n : Int) else none
      | none => none
  | [] => none

def decOf (ty : String) : Option (Text → Option PVal) :=
  match ty with
  | "u64" => some (fun r => (decodeU64 r).map PVal.u)
  | "u8" => some (fun r => ((decodeNat r).bind (fun n => if n < 256 then some n else none)).map PVal.u)
  | "i64" => some (fun r => (decodeSigned (-9223372036854775808) 9223372036854775807 r).map PVal.i)
  | "i32" => some (fun r => (decodeSigned (-2147483648) 2147483647 r).map PVal.i)
  | "str" => some (fun r => (decodeString r).map PVal.s)
  | "bool" => some (fun r => (decBool r).map PVal.b)
  | "any" => some (fun r => (decAny r).map PVal.any)
  | "vec" => some (fun r => (decVec r).map PVal.vec)
  | _ => none

def gotRepr : Got PVal → String
  | .val v => "v:" ++ v.repr
  | .absent => "abs"
  | .invalidParams => "E:-32602"

def runScript : List String → Text → Option (List String)
  | [], _ => some []
  | op :: rest, s =>
    let optional := op.startsWith "o:"
    match decOf (op.drop 2).toString with
    | none => none
    | some δ =>
      let (g, s') := if optional then seqOptNext δ s else seqNext δ s
      match runScript rest s' with
      | none => none
      | some out => some (gotRepr g :: out)

def paramsOf (h : String) : Option Params :=
  if h == "none" then some (Params.new none) else (unhexText h).map (fun t => Params.new (some t))

def paramsVerb (ws : List String) : Option String :=
  match ws with
  | "seq" :: h :: script =>
    some (match paramsOf h with
      | some p => (match runScript script p.sequence with
        | some out => String.intercalate " " ("r" :: out)
        | none => "bad-op")
      | none => "bad-op")
  | ["parse", h, ty] =>
    some (match paramsOf h, decOf ty with
      | some p, some δ => gotRepr (p.parse δ)
      | _, _ => "bad-op")
  | ["optparse", h, ty] =>
    some (match paramsOf h, decOf ty with
      | some p, some δ => (match p.parse (optDec δ) with
        | .val (some v) => gotRepr (.val v)
        | .val none => "abs"
        | .absent => "abs"
        | .invalidParams => "E:-32602")
      | _, _ => "bad-op")
  | ["one", h, ty] =>
    some (match paramsOf h, decOf ty with
      | some p, some δ => gotRepr (p.one δ)
      | _, _ => "bad-op")
  | ["isobj", h] =>
    some (match paramsOf h with
      | some p => if p.isObject then "1" else "0"
      | none => "bad-op")
  | _ => none

end Jrpc.Driver
