/-
  Driver verbs for the method-registry model (C13).  Stateful family:

    case <n> registry                     -> case          (resets the state)
    R.new mod|methods                     -> h:<i>
    R.reg|R.regasync|R.regblocking <h> <name> <tag>   -> ok | E:already:<name> | dead | unsupported
    R.regsub <h> <sub> <unsub> <tag>      -> ok | E:subconflict:<n> | E:already:<n> | dead | unsupported
    R.alias <h> <alias> <existing>        -> ok | E:already:<n> | E:notfound:<n> | dead | unsupported
    R.merge <dst> <src>                   -> ok | E:already:* | dead | self
                                             (which shared name is reported depends on hash order: `*`)
    R.remove <h> <name>                   -> removed:<Kind>:<tag> | removed:none | dead | unsupported
    R.clone <h> | R.clonem <h>            -> h:<i> | dead
    R.drop <h>                            -> ok | dead
    R.call <h> <name>                     -> called:<Kind>:<tag> | E:-32601 | dead
    R.names <h>                           -> names:<sorted, comma separated> | dead

  Names are tokens without `:` `,` `*`; they are mapped injectively to the model's `Nat` names.
-/
import JrpcVerif.Model.Registry
import JrpcVerif.Driver.Codec
namespace Jrpc.Driver.RegistryFam
open Jrpc Jrpc.Driver Jrpc.Registry

structure RegistrySt where
  s : Registry.State := {}

def nameBase : Nat := 1114113

/-- injective: positional code over (code point + 1) -/
def encodeName (t : String) : Nat :=
  t.toList.foldl (fun acc c => acc * nameBase + (c.toNat + 1)) 0

def decodeNameAux : Nat → Nat → List Char → List Char
  | 0, _, acc => acc
  | fuel + 1, n, acc =>
    if n = 0 then acc else decodeNameAux fuel (n / nameBase) (Char.ofNat (n % nameBase - 1) :: acc)

def decodeName (n : Nat) : String := String.ofList (decodeNameAux 4096 n [])

def validName (t : String) : Bool :=
  !t.isEmpty && t.toList.all (fun c => c != ':' && c != ',' && c != '*' && c != ' ')

def parseName (t : String) : Option Nat := if validName t then some (encodeName t) else none

def insertSorted (x : String) : List String → List String
  | [] => [x]
  | y :: r => if x < y then x :: y :: r else y :: insertSorted x r

def sortStrings (l : List String) : List String := l.foldl (fun acc x => insertSorted x acc) []

def kindRepr : CbKind → String
  | .sync => "Sync"
  | .async => "Async"
  | .sub => "Subscription"
  | .unsub => "Unsubscription"

def cbRepr (c : Cb) : String := s!"{kindRepr c.kind}:{c.tag}"

def errRepr' (hideName : Bool) : Registry.Err → String
  | .already n => if hideName then "E:already:*" else s!"E:already:{decodeName n}"
  | .subConflict n => s!"E:subconflict:{decodeName n}"
  | .notFound n => s!"E:notfound:{decodeName n}"

def outRepr (hideName : Bool) : Registry.Out → String
  | .ok => "ok"
  | .err e => errRepr' hideName e
  | .handle i => s!"h:{i}"
  | .called cb => s!"called:{cbRepr cb}"
  | .methodNotFound => "E:-32601"
  | .removed (some cb) => s!"removed:{cbRepr cb}"
  | .removed none => "removed:none"
  | .names ns => "names:" ++ ",".intercalate (sortStrings (ns.map decodeName))
  | .dead => "dead"
  | .unsupported => "unsupported"
  | .selfMerge => "self"

def parseRegOp (ws : List String) : Option Op :=
  match ws with
  | ["R.new", "mod"] => some (.new true)
  | ["R.new", "methods"] => some (.new false)
  | ["R.reg", h, n, t] =>
    match h.toNat?, parseName n, t.toNat? with
    | some h, some n, some t => some (.reg .sync h n t)
    | _, _, _ => none
  | ["R.regasync", h, n, t] =>
    match h.toNat?, parseName n, t.toNat? with
    | some h, some n, some t => some (.reg .async h n t)
    | _, _, _ => none
  | ["R.regblocking", h, n, t] =>
    match h.toNat?, parseName n, t.toNat? with
    | some h, some n, some t => some (.reg .blocking h n t)
    | _, _, _ => none
  | ["R.regsub", h, a, b, t] =>
    match h.toNat?, parseName a, parseName b, t.toNat? with
    | some h, some a, some b, some t => some (.regsub h a b t)
    | _, _, _, _ => none
  | ["R.alias", h, a, b] =>
    match h.toNat?, parseName a, parseName b with
    | some h, some a, some b => some (.alias h a b)
    | _, _, _ => none
  | ["R.merge", d, s] =>
    match d.toNat?, s.toNat? with
    | some d, some s => some (.merge d s)
    | _, _ => none
  | ["R.remove", h, n] =>
    match h.toNat?, parseName n with
    | some h, some n => some (.remove h n)
    | _, _ => none
  | ["R.clone", h] => h.toNat?.map (fun h => .clone h false)
  | ["R.clonem", h] => h.toNat?.map (fun h => .clone h true)
  | ["R.drop", h] => h.toNat?.map .drop
  | ["R.call", h, n] =>
    match h.toNat?, parseName n with
    | some h, some n => some (.call h n)
    | _, _ => none
  | ["R.names", h] => h.toNat?.map .names
  | _ => none

def isMerge : Op → Bool
  | .merge _ _ => true
  | _ => false

end Jrpc.Driver.RegistryFam
namespace Jrpc.Driver
open Jrpc.Driver.RegistryFam

abbrev RegistrySt := RegistryFam.RegistrySt

/-- `none` = not a verb of this family -/
def registryVerb (st : RegistrySt) (ws : List String) : Option (RegistrySt × String) :=
  match ws with
  | ["case", _, "registry"] => some ({}, "case")
  | v :: _ =>
    if v.startsWith "R." then
      match parseRegOp ws with
      | some op =>
        let r := Registry.step st.s op
        some ({ s := r.1 }, outRepr (isMerge op) r.2)
      | none => some (st, "bad-op")
    else none
  | [] => none

end Jrpc.Driver
