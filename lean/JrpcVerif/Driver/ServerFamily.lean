/-
  Driver verbs for the `server` family (C01 C02 C07 C08 C19).  Stateful: configuration and the
  subscription-id counter of the current case.
-/
import JrpcVerif.Driver.Codec
import JrpcVerif.Model.ServerMsg
import JrpcVerif.Model.ReadBodyBytes
namespace Jrpc.Driver
open Jrpc Jrpc.Srv

structure ServerSt where
  cfg : Cfg := ⟨100000, 100000, .unlimited⟩
  sub : Nat := 0

def parseBatchCfg (s : String) : Option BatchCfg :=
  if s == "d" then some .disabled
  else if s == "u" then some .unlimited
  else if s.startsWith "l:" then (s.drop 2).toString.toNat?.map BatchCfg.limit
  else none

def invRepr (inv : List Invocation) : String :=
  if inv.isEmpty then "-" else String.intercalate "," (inv.map (fun i => hexText i.1 ++ ":" ++ hexText i.2))

def wsRepr (o : WsOut) : String :=
  String.intercalate ":" (s!"w:{o.frames.length}" :: o.frames.map hexText)

def httpRepr (o : HttpOut) : String := s!"h:{o.status}:{hexText o.body}"

def ctOf (s : String) : Option (Option Text) :=
  if s == "none" then some none
  else match s.splitOn "," with
    | first :: _ => (unhexText first).map some     -- `HeaderMap::get` returns the first value
    | [] => none

/-- Rust `str::parse::<u32>`: an optional leading `+`, then one or more ASCII digits, value < 2^32 -/
def parseU32 (s : String) : Option Nat :=
  let cs := s.toList
  let ds := match cs with
    | '+' :: r => r
    | r => r
  if ds.isEmpty || !ds.all (fun c => '0' ≤ c && c ≤ '9') then none
  else
    let n := ds.foldl (fun a c => a * 10 + (c.toNat - 48)) 0
    if n < 4294967296 then some n else none

/-- `read_header_content_length`: exactly one Content-Length value that parses as u32, else ignored
(several values travel comma-separated on the op line) -/
def clOf (s : String) : Option (Option Nat) :=
  if s == "none" then some none
  else if s.contains ',' then some none
  else some (parseU32 s)

def sortStrings (l : List String) : List String := (l.toArray.qsort (fun a b => a < b)).toList

def unhexFrame (s : String) : Option Bytes :=
  if s == "-" then some [] else unhexBytes s.toList

def serverVerb (st : ServerSt) (ws : List String) : Option (ServerSt × String) :=
  match ws with
  | ["case", _, "srv", mr, mp, b] =>
    (match mr.toNat?, mp.toNat?, parseBatchCfg b with
     | some a, some c, some bc => some ({ cfg := ⟨a, c, bc⟩, sub := 0 }, "case")
     | _, _, _ => none)
  | ["msg", h] =>
    some (match unhexText h with
      | none => (st, "bad-op")
      | some t =>
        let ho := httpCall st.cfg tPOST (some (lit "application/json")) none [t]
        let wo := wsMessage st.cfg st.sub t
        ({ st with sub := wo.nextSub },
         s!"{httpRepr ho} {wsRepr wo} | {invRepr ho.invoked} | {invRepr wo.invoked}"))
  | ["ws", h] =>
    some (match unhexText h with
      | none => (st, "bad-op")
      | some t =>
        let wo := wsMessage st.cfg st.sub t
        ({ st with sub := wo.nextSub }, s!"{wsRepr wo} | {invRepr wo.invoked}"))
  | "burst" :: _mb :: _dup :: msgs =>
    -- pipelined messages on a fresh connection (no subscription calls): the frames and the
    -- invocations as multisets (sorted), whatever the send-queue capacity
    some (match msgs.mapM unhexText with
      | none => (st, "bad-op")
      | some ts =>
        let outs := ts.map (fun t => wsMessage st.cfg 0 t)
        let frames := sortStrings ((outs.map (fun o => o.frames)).flatten.map hexText)
        let invs := sortStrings ((outs.map (fun o => o.invoked)).flatten.map (fun i => hexText i.1 ++ ":" ++ hexText i.2))
        let invS := if invs.isEmpty then "-" else String.intercalate "," invs
        (st, s!"b:{frames.length}:{String.intercalate ":" frames} | {invS}"))
  | "http" :: m :: ct :: cl :: chunks =>
    -- byte level: frame boundaries may fall inside a multi-byte character
    some (match ctOf ct, clOf cl, chunks.mapM unhexFrame with
      | some c, some l, some cs =>
        (match httpCallB st.cfg (lit m) c l cs with
         | some ho => (st, s!"{httpRepr ho} | {invRepr ho.invoked}")
         | none => (st, "non-utf8-body"))
      | _, _, _ => (st, "bad-op"))
  | _ => none

end Jrpc.Driver
