/-
  Driver verbs of the server subscription family (C04, C06).  Stateful; the header

      case <n> subs mode=<eager|manual> cap=<c> qcap=<q> conns=<k>

  resets the state.  Every op line `ss <verb> …` is answered by one line

      <out>;c0=<frames>;c1=<frames>;…;open=<bits>

  where the frames are those the writer moved to the wire while the system settled after the
  operation.  The harness waits for quiescence after every operation, so the driver runs the
  internal steps that are enabled to completion in the order the real tasks do:
  every `taskStep` (tasks parked on a full queue first, in parking order — tokio's channel is fair),
  then (mode `eager`: the real writer task) `writerStep` until the queues are empty, then `connFinish`.
  One outcome is deliberately left open: a closing notification queued in the same settling in which
  a stopping server finishes the connection may or may not reach the peer (see `settle`).  In mode `manual` the harness owns the queue and steps the writer
  explicitly (`ss wstep c`).
-/
import JrpcVerif.Driver.Codec
import JrpcVerif.Model.SubServer
namespace Jrpc.Driver
open Jrpc Jrpc.SubServer

/-- senders parked on a full connection queue, in parking order (tokio's bounded channel admits
waiting senders first-come first-served): the task of subscription `k` wanting to send its closing
notification, or a `send k p` of the script that was left parked (`ss parksend`) -/
inductive Wait where
  | task (k : Nat)
  | send (k p : Nat)
  /-- a handler task blocked in `pending.accept().await` that will `send p` right after (`ss parkacceptsend`) -/
  | acceptSend (k p : Nat)
  /-- the send of such a task, parked in its turn; the task owns the (only) handle and hands it to the
  script when it is done -/
  | sendKeep (k p : Nat)
  deriving DecidableEq

structure SubSt where
  st : State := { conns := [] }
  eager : Bool := true
  /-- subscription tasks parked on a full queue (closing notification), in the order they parked:
  tokio's bounded channel admits waiting senders first-come first-served -/
  waiting : List Wait := []

namespace Subs

/-- notification method names of the harness module: nA, nB, nC, and — the raw-registered method
whose notification name equals its subscribe name — subD -/
def methName (m : Nat) : String :=
  if m == 3 then "subD" else "n" ++ String.singleton (Char.ofNat (65 + m))

/-! typed subscription ids on the line protocol: a decimal number is `Num n`, `s<hex>` is `Str`
(`s-` = the empty string); the model works with `idKey` of the typed id -/

def parseSid (w : String) : Option Nat :=
  if w.startsWith "s" then (unhexText (w.drop 1).toString).map (fun t => idKey (.str t))
  else w.toNat?.map (fun n => idKey (.num n))

/-- inverse of `codeText` (number of trailing zero bits = first code point) -/
partial def decodeCode (k : Nat) : Text :=
  if k == 0 then []
  else
    -- lowest set bit (code points go up to 0x10FFFF: no bit-by-bit loop)
    let c := (k &&& (k ^^^ (k - 1))).log2
    let odd := k >>> c
    c :: decodeCode (odd / 2)

def keyRepr (k : Nat) : String :=
  if k % 2 == 0 then s!"{k / 2}" else "s" ++ hexText (decodeCode (k / 2))

def frameRepr : Frame → String
  | .resp rid sid => s!"resp:{rid}:{keyRepr sid}"
  | .respDead rid sid => s!"resp:{rid}:{keyRepr sid}"
  | .err rid code => s!"err:{rid}:{code}"
  | .unsub rid b => s!"bool:{rid}:{if b then 1 else 0}"
  | .data m sid p => s!"ntf:{methName m}:{keyRepr sid}:{p}"
  | .closeOk m sid p => s!"ntf:{methName m}:{keyRepr sid}:{p}"
  | .closeErr m sid e => s!"nerr:{methName m}:{keyRepr sid}:{e}"

def outRepr : Out → String
  | .bad => "bad"
  | .ignored => "ignored"
  | .blocked => "blocked"
  | .refused => "refused"
  | .pending sid => s!"pending:{keyRepr sid}"
  | .ok => "ok"
  | .err => "err"
  | .nosink => "nosink"
  | .done => "done"
  | .gone => "gone"
  | .idle => "idle"
  | .empty => "empty"
  | .bool _ => "sent"
  | .frame f => s!"w:{frameRepr f}"

def isClosedRepr : Out → String
  | .bool b => if b then "closed=1" else "closed=0"
  | o => outRepr o

/-- One pass: the parked senders in parking order, then every other enabled `taskStep`.  A parked
send that completes (ok / err) also lets go of the handle its blocked `send` call was holding.
Returns the new parking order and the completions `k:p:result`. -/
def settlePass (st : State) (waiting : List Wait) : State × List Wait × List String :=
  let fresh := (List.range st.subs.length).filter (fun k => !(waiting.contains (.task k)))
  -- already parked items keep their place; a task that parks only now queues up behind them
  let order := waiting.map (fun w => (w, true)) ++ fresh.map (fun k => (Wait.task k, false))
  -- acc = (state, still parked in their old order, newly parked (they queue up behind), completions)
  let r := order.foldl
    (fun (acc : State × List Wait × List Wait × List String) (wo : Wait × Bool) =>
      let (st, kept, late, done) := acc
      let w := wo.1
      match w with
      | .task k =>
        (match step st (.taskStep k) with
          | (s', .blocked) => if wo.2 then (s', kept ++ [w], late, done) else (s', kept, late ++ [w], done)
          | (s', _) => (s', kept, late, done))
      | .send k p =>
        (match step st (.sendResume k p) with
          | (s', .blocked) => (s', kept ++ [w], late, done)
          | (s', o) => ((step s' (.dropSink k)).1, kept, late, done ++ [s!"{k}:{p}:{outRepr o}"]))
      | .sendKeep k p =>
        (match step st (.sendResume k p) with
          | (s', .blocked) => (s', kept ++ [w], late, done)
          | (s', o) => (s', kept, late, done ++ [s!"{k}:{p}:{outRepr o}"]))
      | .acceptSend k p =>
        (match step st (.accept k) with
          | (s', .blocked) => (s', kept ++ [w], late, done)
          | (s', .ok) =>
            -- accept() has returned (its response is queued): the task sends at once
            (match step s' (.send k p) with
              | (s'', .blocked) => (s'', kept, late ++ [.sendKeep k p], done ++ [s!"{k}:a:ok"])
              | (s'', o) => (s'', kept, late, done ++ [s!"{k}:a:ok", s!"{k}:{p}:{outRepr o}"]))
          | (s', o) => (s', kept, late, done ++ [s!"{k}:a:{outRepr o}"])))
    (st, [], [], [])
  (r.1, r.2.1 ++ r.2.2.1, r.2.2.2)

/-- writer steps on connection `c` until nothing moves (fuel = queue length + 1) -/
def drainConn (st : State) (c : Nat) : Nat → State × List Frame
  | 0 => (st, [])
  | fuel + 1 =>
    match step st (.writerStep c) with
    | (st', .frame f) =>
      let (st'', fs) := drainConn st' c fuel
      (st'', f :: fs)
    | (st', _) => (st', [])

def drainAll (st : State) : State × List (List Frame) :=
  (List.range st.conns.length).foldl
    (fun (acc : State × List (List Frame)) c =>
      let qlen := match acc.1.conns[c]? with
        | some cn => cn.queue.length + 1
        | none => 0
      let (s', fs) := drainConn acc.1 c qlen
      (s', acc.2 ++ [fs]))
    (st, [])

def finishAll (st : State) : State :=
  (List.range st.conns.length).foldl (fun s c => (step s (.connFinish c)).1) st

def zipAppend (a b : List (List Frame)) : List (List Frame) :=
  match a, b with
  | x :: xs, y :: ys => (x ++ y) :: zipAppend xs ys
  | [], ys => ys
  | xs, [] => xs

/-- eager mode: parked senders and the writer alternate until nothing moves -/
def settleLoop : Nat → State → List Wait → List (List Frame) → List String →
    State × List (List Frame) × List Wait × List String
  | 0, st, w, fs, d => (st, fs, w, d)
  | fuel + 1, st, w, fs, d =>
    let (st1, w1, d1) := settlePass st w
    let (st2, fs2) := drainAll st1
    let moved := fs2.any (fun l => !l.isEmpty)
    if w1.isEmpty || !moved then (st2, zipAppend fs fs2, w1, d ++ d1)
    else settleLoop fuel st2 w1 (zipAppend fs fs2) (d ++ d1)

def settle (eager : Bool) (st : State) (waiting : List Wait) :
    State × List (List Frame) × List Wait × List String :=
  if eager then
    let (st2, fs, w, d) := settleLoop (st.subs.length + waiting.length + 2) st waiting [] []
    let st3 := finishAll st2
    -- Unspecified by the properties (and a scheduling race in the code): whether a closing notification
    -- that a subscription task queues in the very settling in which the stopping server finishes the
    -- connection still gets onto the wire.  Such frames are not shown (the harness hides them under the
    -- same condition: server stopping, connection open before the line and closed after it); the
    -- oracle still checks them if they do arrive.
    let fs' := (List.range fs.length).zip fs |>.map (fun (p : Nat × List Frame) =>
      let finishing := match st2.conns[p.1]?, st3.conns[p.1]? with
        | some a, some b => a.isOpen && !b.isOpen
        | _, _ => false
      if finishing then p.2.filter (fun f => match f with | .closeOk .. => false | .closeErr .. => false | _ => true)
      else p.2)
    (st3, fs', w, d)
  else
    let (st1, w1, d1) := settlePass st waiting
    (st1, st1.conns.map (fun _ => []), w1, d1)

def framesRepr (fs : List Frame) : String :=
  if fs.isEmpty then "-" else String.intercalate "," (fs.map frameRepr)

def lineRepr (out : String) (st : State) (fss : List (List Frame)) (done : List String := []) : String :=
  let cs := (List.range fss.length).zip fss |>.map (fun p => s!"c{p.1}={framesRepr p.2}")
  let bits := String.join (st.conns.map (fun cn => if cn.isOpen then "1" else "0"))
  -- completions of one line are shown sorted (their relative timing within the settling is not observable)
  let dn := if done.isEmpty then [] else ["done=" ++ String.intercalate "," (done.mergeSort (fun a b => a ≤ b))]
  String.intercalate ";" ([out] ++ cs ++ [s!"open={bits}"] ++ dn)

def kv (key : String) (w : String) : Option Nat :=
  if w.startsWith (key ++ "=") then (w.drop (key.length + 1)).toString.toNat? else none

def parseRet (w : String) : Option Ret :=
  if w == "none" then some .none
  else if w.startsWith "notif:" then (w.drop 6).toString.toNat?.map Ret.notif
  else if w.startsWith "err:" then (w.drop 4).toString.toNat?.map Ret.err
  else none

def runOp (s : SubSt) (op : Op) (repr : Out → String := outRepr) : SubSt × String :=
  let (st1, o) := step s.st op
  let (st2, fss, w, d) := settle s.eager st1 s.waiting
  ({ s with st := st2, waiting := w }, lineRepr (repr o) st2 fss d)

/-- several model steps with no settling in between (the script did not yield between them) -/
def runOps (s : SubSt) (ops : List Op) (sep : String) : SubSt × String :=
  let (st1, os) := ops.foldl
    (fun (acc : State × List String) op =>
      let (st', o) := step acc.1 op
      (st', acc.2 ++ [outRepr o]))
    (s.st, [])
  let (st2, fss, w, d) := settle s.eager st1 s.waiting
  ({ s with st := st2, waiting := w }, lineRepr (String.intercalate sep os) st2 fss d)

/-- handles of subscription `k` the script itself can use: the live handles minus those held by its
blocked (parked) send calls -/
def scriptHandles (s : SubSt) (k : Nat) : Nat :=
  match s.st.subs[k]? with
  | none => 0
  | some sb =>
    sb.clones - (s.waiting.filter
      (fun w => match w with | .send k' _ => k' == k | .sendKeep k' _ => k' == k | _ => false)).length

/-- an operation on the script's newest handle of `k`: `nosink` if every live handle is held by a
parked send -/
def withHandle (s : SubSt) (k : Nat) (run : SubSt → SubSt × String) (nos : String := "nosink") :
    SubSt × String :=
  match s.st.subs[k]? with
  | none => run s
  | some sb =>
    if sb.clones > 0 && scriptHandles s k == 0 then
      let (st2, fss, w, d) := settle s.eager s.st s.waiting
      ({ s with st := st2, waiting := w }, lineRepr nos st2 fss d)
    else run s

/-- `ss parksend k p how`: a send that is left parked if the queue is full (the blocked call keeps
holding a handle of the sink until it completes) -/
def runParkSend (s : SubSt) (k p : Nat) : SubSt × String :=
  match step s.st (.send k p) with
  | (_, .blocked) =>
    let st1 := (step s.st (.cloneSink k)).1
    let (st2, fss, w, d) := settle s.eager st1 (s.waiting ++ [.send k p])
    ({ s with st := st2, waiting := w }, lineRepr "parked" st2 fss d)
  | _ => runOp s (.send k p)

/-- the pending sink of `k` has been moved into a handler task blocked in `accept()` -/
def acceptParked (s : SubSt) (k : Nat) : Bool :=
  s.waiting.any (fun w => match w with | .acceptSend k' _ => k' == k | _ => false)

/-- an answer without a model step (the script cannot perform the operation) -/
def answer (s : SubSt) (out : String) : SubSt × String :=
  let (st2, fss, w, d) := settle s.eager s.st s.waiting
  ({ s with st := st2, waiting := w }, lineRepr out st2 fss d)

/-- `ss parkacceptsend k p how`: a handler task that awaits `pending.accept()` — parked while the
queue is full — and sends `p` as soon as accept has returned -/
def runParkAcceptSend (s : SubSt) (k p : Nat) : SubSt × String :=
  match s.st.subs[k]? with
  | none => answer s "bad"
  | some sb =>
    if sb.phase != .pending || acceptParked s k then answer s "bad"
    else
      let (st2, fss, w, d) := settle s.eager s.st (s.waiting ++ [.acceptSend k p])
      ({ s with st := st2, waiting := w }, lineRepr "started" st2 fss d)

/-- `ss ident k`: what the pending sink / the sink says about itself -/
def identRepr (st : State) (k : Nat) : String :=
  match st.subs[k]? with
  | none => "bad"
  | some sb =>
    if sb.phase == .pending || sb.clones > 0 then s!"id={keyRepr sb.subId},m={methName sb.meth},c={sb.conn}"
    else "nosink"

/-- how a send is issued: flavour `s` (send) | `t` / `z` / `u` (send_timeout with a long / zero / 1µs timeout) | `y` (try_send), message kind `c`
(`SubscriptionMessage::new`, already serialised) | `n` (from a raw value, id/method filled in by the
sink).  The model is indifferent: all six are the one atomic step `Op.send` (closed check, then
enqueue). -/
def sendHow (w : String) : Bool :=
  ["sc", "sn", "tc", "tn", "zc", "zn", "uc", "un", "yc", "yn"].contains w

def nat3 (a b c : String) : Option (Nat × Nat × Nat) :=
  match a.toNat?, b.toNat?, c.toNat? with
  | some x, some y, some z => some (x, y, z)
  | _, _, _ => none

end Subs
open Subs

def subsVerb (s : SubSt) (ws : List String) : Option (SubSt × String) :=
  match ws with
  | ["case", _, "subs", mode, cap, qcap, conns] =>
    some (match kv "cap" cap, kv "qcap" qcap, kv "conns" conns with
      | some c, some q, some k =>
        if mode == "mode=eager" || mode == "mode=lowlevel" then
          -- lowlevel = the `ws::connect` assembly instead of the TowerService: same machine
          ({ st := init (List.replicate k (c, q)), eager := true }, "case")
        else if mode == "mode=manual" then ({ st := init (List.replicate k (c, q)), eager := false }, "case")
        else (s, "bad-op")
      | _, _, _ => (s, "bad-op"))
  | "ss" :: rest =>
    some (match rest with
      | ["sub", c, m, rid, sid] =>
        -- `sid` = the id the harness's id provider will hand out if the call gets a permit
        (match nat3 c m rid, parseSid sid with
          | some (c, m, rid), some sid => runOp s (.subscribe c m rid sid)
          | _, _ => (s, "bad-op"))
      | ["accept", k] =>
        (match k.toNat? with
          | some k => if acceptParked s k then answer s "bad" else runOp s (.accept k)
          | none => (s, "bad-op"))
      | ["cancelcall", k] =>
        -- the subscribe call's future is dropped (only the harness-owned connection task can do that)
        (match k.toNat? with
          | some k => if s.eager || acceptParked s k then answer s "bad" else runOp s (.cancelCall k)
          | none => (s, "bad-op"))
      | ["parkacceptsend", k, p, how] =>
        (match k.toNat?, p.toNat? with
          | some k, some p => if sendHow how then runParkAcceptSend s k p else (s, "bad-op")
          | _, _ => (s, "bad-op"))
      | ["acceptsend", k, p, how] =>
        (match k.toNat?, p.toNat? with
          | some k, some p =>
            if !sendHow how then (s, "bad-op")
            else if acceptParked s k then answer s "bad+nosink"
            else runOps s [.accept k, .send k p] "+"
          | _, _ => (s, "bad-op"))
      | ["burst", k, p, n, how] =>
        (match nat3 k p n with
          | some (k, p, n) =>
            if n == 0 || n > 16 || !sendHow how then (s, "bad-op")
            else withHandle s k (fun s => runOps s ((List.range n).map (fun i => Op.send k (p + i))) ",")
              (String.intercalate "," (List.replicate n "nosink"))
          | none => (s, "bad-op"))
      | ["reject", k, code] =>
        (match k.toNat?, parseInt code with
          | some k, some code => if acceptParked s k then answer s "bad" else runOp s (.reject k code)
          | _, _ => (s, "bad-op"))
      | ["droppending", k] =>
        (match k.toNat? with
          | some k => if acceptParked s k then answer s "bad" else runOp s (.dropPending k)
          | none => (s, "bad-op"))
      | ["send", k, p, how] =>
        (match k.toNat?, p.toNat? with
          | some k, some p => if sendHow how then withHandle s k (fun s => runOp s (.send k p)) else (s, "bad-op")
          | _, _ => (s, "bad-op"))
      | ["parksend", k, p, how] =>
        (match k.toNat?, p.toNat? with
          | some k, some p => if sendHow how then withHandle s k (fun s => runParkSend s k p) else (s, "bad-op")
          | _, _ => (s, "bad-op"))
      | ["waitclosed", k] =>
        -- `sink.closed().await` resolves exactly when `is_closed()` is true
        (match k.toNat? with
          | some k => withHandle s k (fun s => runOp s (.isClosed k) isClosedRepr)
          | none => (s, "bad-op"))
      | ["ident", k] =>
        (match k.toNat? with
          | some k =>
            if acceptParked s k then answer s "nosink"
            else withHandle s k (fun s =>
              let (st2, fss, w, d) := settle s.eager s.st s.waiting
              ({ s with st := st2, waiting := w }, lineRepr (identRepr s.st k) st2 fss d))
          | none => (s, "bad-op"))
      | ["clone", k] =>
        (match k.toNat? with | some k => withHandle s k (fun s => runOp s (.cloneSink k)) | none => (s, "bad-op"))
      | ["dropsink", k] =>
        (match k.toNat? with | some k => withHandle s k (fun s => runOp s (.dropSink k)) | none => (s, "bad-op"))
      | ["isclosed", k] =>
        (match k.toNat? with
          | some k => withHandle s k (fun s => runOp s (.isClosed k) isClosedRepr)
          | none => (s, "bad-op"))
      | ["ret", k, r] =>
        (match k.toNat?, parseRet r with
          | some k, some r => runOp s (.handlerReturn k r)
          | _, _ => (s, "bad-op"))
      | ["unsub", c, m, x, rid] =>
        -- `x`: a typed id, or `j<hex of the raw params text>` for a parameter that is not a subscription id
        (match c.toNat?, m.toNat?, rid.toNat? with
          | some c, some m, some rid =>
            if x.startsWith "j" then
              (match unhexText (x.drop 1).toString with
                | some _ => runOp s (.unsubscribeBad c rid)
                | none => (s, "bad-op"))
            else
              (match parseSid x with
                | some x => runOp s (.unsubscribe c m x rid)
                | none => (s, "bad-op"))
          | _, _, _ => (s, "bad-op"))
      | ["connclose", c, how] =>
        -- `how` (graceful = WebSocket close frame first | abrupt = socket dropped | dropfut = the application
        -- drops the connection future of the `ws::connect` assembly) is one model step: the connection ends
        (match c.toNat? with
          | some c =>
            if how == "graceful" || how == "abrupt" || how == "dropfut" then runOp s (.connClose c) else (s, "bad-op")
          | none => (s, "bad-op"))
      | ["stop"] => runOp s .stop
      | ["wstep", c] =>
        (match c.toNat? with
          | some c => if s.eager then (s, "bad-op") else runOp s (.writerStep c)
          | none => (s, "bad-op"))
      | _ => (s, "bad-op"))
  | _ => none

end Jrpc.Driver
