/-
  Driver verbs for the pure "text" family: wire types (C15) — more verbs are added by the
  other families' files.  Every verb answers with exactly one line.
-/
import JrpcVerif.Driver.Codec
import JrpcVerif.Gen.ErrorCodes
namespace Jrpc.Driver
open Jrpc Jrpc.Gen

def kindByName (s : String) : Option ErrKind :=
  namedKinds.find? (fun k => kindName k == s)

def errRepr (e : ErrObj) : String :=
  s!"code={e.code} msg={hexText e.message} data={optHex e.data}"

def respRepr (r : Response) : String :=
  let j := if r.jsonrpc then "1" else "0"
  match r.payload with
  | .result v => s!"jsonrpc={j} id={idRepr r.id} result={hexText v}"
  | .error e => s!"jsonrpc={j} id={idRepr r.id} error {errRepr e}"

/-- `some line` if the verb belongs to this family -/
def textVerb (ws : List String) : Option String :=
  match ws with
  | ["code", c] =>
    some (match parseInt c with
      | some n => let k := kindOf n; s!"kind={kindName k} code={codeOf k}"
      | none => "bad-op")
  | ["kind", k] =>
    some (match kindByName k with
      | some kd => s!"code={codeOf kd} back={kindName (kindOf (codeOf kd))}"
      | none => "bad-op")
  | ["id_dec", h] =>
    some (match unhexText h with
      | some t => (match (docValue t).bind decodeId with | some i => idRepr i | none => "err")
      | none => "bad-op")
  | ["id_enc", i] =>
    some (match parseId i with
      | some id => hexText (encodeId id)
      | none => "bad-op")
  | ["subid_dec", h] =>
    some (match unhexText h with
      | some t => (match (docValue t).bind decodeSubId with | some i => subIdRepr i | none => "err")
      | none => "bad-op")
  | ["subid_enc", i] =>
    some (match parseSubId i with
      | some id => hexText (encodeSubId id)
      | none => "bad-op")
  | ["req_dec", h] =>
    some (match unhexText h with
      | some t => (match decodeRequest t with
        | some r => s!"id={idRepr r.id} method={hexText r.method} params={optHex r.params}"
        | none => "err")
      | none => "bad-op")
  | ["notif_dec", h] =>
    some (match unhexText h with
      | some t => (match decodeNotif t with
        | some r => s!"method={hexText r.method} params={optHex r.params}"
        | none => "err")
      | none => "bad-op")
  | ["inv_dec", h] =>
    some (match unhexText h with
      | some t => (match decodeInvalidRequest t with | some i => idRepr i | none => "err")
      | none => "bad-op")
  | ["err_dec", h] =>
    some (match unhexText h with
      | some t => (match decodeErrObj t with | some e => errRepr e | none => "err")
      | none => "bad-op")
  | ["resp_dec", h] =>
    some (match unhexText h with
      | some t => (match decodeResponse t with | some r => respRepr r | none => "err")
      | none => "bad-op")
  | ["resp_enc", j, i, "result", v] =>
    some (match parseId i, unhexText v with
      | some id, some t => hexText (encodeResponse { jsonrpc := j == "1", id := id, payload := .result t })
      | _, _ => "bad-op")
  | ["resp_enc", j, i, "error", c, m, d] =>
    some (match parseId i, parseInt c, unhexText m, unOptHex d with
      | some id, some code, some msg, some data =>
        hexText (encodeResponse { jsonrpc := j == "1", id := id,
                                  payload := .error { code := code, message := msg, data := data } })
      | _, _, _, _ => "bad-op")
  | ["err_enc", c, m, d] =>
    some (match parseInt c, unhexText m, unOptHex d with
      | some code, some msg, some data => hexText (encodeErrObj { code := code, message := msg, data := data })
      | _, _, _ => "bad-op")
  | ["req_enc", i, m, p] =>
    some (match parseId i, unhexText m, unOptHex p with
      | some id, some meth, some ps => hexText (encodeRequest { id := id, method := meth, params := ps })
      | _, _, _ => "bad-op")
  | ["notif_enc", m, p] =>
    some (match unhexText m, unOptHex p with
      | some meth, some ps => hexText (encodeNotif { method := meth, params := ps })
      | _, _ => "bad-op")
  | ["valid", h] =>
    some (match unhexText h with
      | some t => if validJsonB t then "1" else "0"
      | none => "bad-op")
  | ["elements", h] =>
    some (match unhexText h with
      | some t => (match elements t with
        | some es => String.intercalate " " (s!"{es.length}" :: es.map hexText)
        | none => "err")
      | none => "bad-op")
  | ["members", h] =>
    some (match unhexText h with
      | some t => (match (members t).bind decodeKeys with
        | some ms => String.intercalate " " (s!"{ms.length}" :: ms.map (fun kv => hexText kv.1 ++ ":" ++ hexText kv.2))
        | none => "err")
      | none => "bad-op")
  | _ => none

end Jrpc.Driver
