/-
  C14 — authority extraction (server/src/middleware/http/authority.rs).

  `http::Uri` parsing is an EXTERNAL parameter: for every string the code hands to
  `str::parse::<Uri>()` the harness asks the real `http` crate and passes the outcome on the op line
  (`UriParse`): invalid / no authority / (scheme_str?, authority.as_str(), authority.host()).
  `HeaderValue::to_str` is external in the same way (`HeaderVal.opaque` = `to_str` failed).

  Transcribed exactly (jsonrpsee-specific part):
    * `Authority::inner_from_str` (authority.rs:70-95): `host_start = rfind('@') + 1 or 0`,
      `maybe_port = authority[host_start + host.len()..]`,
      `split_once(':')`, `"*"` ⇒ `Port::Any`, `str::parse::<u16>` or `InvalidPort`, folding of the
      scheme's default port (table GENERATED from `fn default_port`, Gen/DefaultPorts.lean).
    * `http_helpers::read_header_value` (core/src/http_helpers.rs:203-211): exactly one value.
    * `Authority::from_http_request` (authority.rs:99-118): the four-way match.
-/
import JrpcVerif.Model.Text
import JrpcVerif.Gen.DefaultPorts
namespace Jrpc

/-- `enum Port` -/
inductive Port where
  | default
  | any
  | fixed (n : Nat)
  deriving DecidableEq, Repr

/-- `struct Authority { host, port }` -/
structure Authority where
  host : Text
  port : Port
  deriving DecidableEq, Repr

/-- what the `http` crate reports for a successfully parsed URI that has an authority -/
structure UriParts where
  /-- `uri.scheme_str()` -/
  scheme : Option Text
  /-- `uri.authority().as_str()` -/
  authority : Text
  /-- `uri.authority().host()` -/
  host : Text
  deriving DecidableEq, Repr

/-- outcome of `value.parse::<Uri>()` followed by `uri.authority()` -/
inductive UriParse where
  /-- `Err(InvalidUri)` -/
  | invalid
  /-- parsed, but `uri.authority()` is `None` (`AuthorityError::MissingHost`) -/
  | noAuthority
  | ok (p : UriParts)
  deriving DecidableEq, Repr

/-- second component of `str::split_once(':')`: the text after the first colon -/
def afterColon : Text → Option Text
  | [] => none
  | c :: r => if c == 58 then some r else afterColon r

/-- value of a decimal digit string (leading zeros allowed) -/
def decVal (t : Text) : Nat := t.foldl (fun a c => a * 10 + (c - 48)) 0

/-- `core::num` `from_str_radix` for an unsigned type: a single leading `+` is dropped unless the
whole input is that sign; a leading `-` is not accepted (it stays and fails the digit test). -/
def stripPlus : Text → Text
  | 43 :: c :: r => c :: r
  | t => t

/-- `str::parse::<u16>()`; `none` = any `ParseIntError` (Empty, InvalidDigit, PosOverflow) -/
def parseU16 (t : Text) : Option Nat :=
  let d := stripPlus t
  if d.isEmpty then none
  else if d.all isDigit then (if decVal d < 65536 then some (decVal d) else none)
  else none

/-- authority.rs:76-91: the port from the text that follows the host inside the authority.
`none` = `AuthorityError::InvalidPort`. -/
def portOfText (scheme : Option Text) (maybePort : Text) : Option Port :=
  match afterColon maybePort with
  | none => some .default
  | some p =>
    if p == [42] then some .any
    else
      match parseU16 p with
      | none => none
      | some n => if Gen.defaultPort scheme == some n then some .default else some (.fixed n)

/-- scan for `str::rfind('@').map_or(0, |i| i + 1)`: `i` = index of the next character,
`best` = result so far -/
def hostStartAux : Text → Nat → Nat → Nat
  | [], _, best => best
  | c :: r, i, best => hostStartAux r (i + 1) (if c == 64 then i + 1 else best)

/-- `authority.as_str().rfind('@').map_or(0, |i| i + 1)`: where the host starts, i.e. just past
the userinfo (`user:password@`) if there is one -/
def hostStart (authority : Text) : Nat := hostStartAux authority 0 0

/-- `&authority.as_str()[host_start + host.len()..]`: the text that follows the host -/
def maybePortText (u : UriParts) : Text := u.authority.drop (hostStart u.authority + u.host.length)

/-- `Authority::inner_from_str` after the URI has been parsed -/
def authorityOfParts (u : UriParts) : Option Authority :=
  match portOfText u.scheme (maybePortText u) with
  | some p => some { host := u.host, port := p }
  | none => none

/-- `Authority::try_from(&str)` given the `http` crate's verdict on the string; `none` = any `AuthorityError` -/
def authorityOf : UriParse → Option Authority
  | .ok u => authorityOfParts u
  | .invalid => none
  | .noAuthority => none

/-- one `Host` header value -/
inductive HeaderVal where
  /-- `HeaderValue::to_str` fails (bytes outside visible ASCII / tab) -/
  | opaque
  /-- `to_str` succeeds; the payload is the `Uri` verdict on that text -/
  | text (u : UriParse)
  deriving DecidableEq, Repr

/-- the part of an `http::Request` the host filter looks at -/
structure HttpReq where
  /-- all values of the `Host` header, in order -/
  hostHeaders : List HeaderVal
  /-- `request.uri().authority()` re-parsed from `as_str()` (authority.rs:104) -/
  uriAuthority : Option UriParse
  deriving DecidableEq, Repr

/-- `read_header_value`: `Some` only when there is exactly one value and it is a `str` -/
def readHeaderValue : List HeaderVal → Option UriParse
  | [.text u] => some u
  | _ => none

/-- the four-way match of `from_http_request` on the two optional results -/
def combineSources : Option (Option Authority) → Option (Option Authority) → Option Authority
  | some (some a1), some (some a2) => if a1 = a2 then some a1 else none
  | some (some a), _ => some a
  | _, some (some a) => some a
  | _, _ => none

/-- `Authority::from_http_request` -/
def fromHttpRequest (r : HttpReq) : Option Authority :=
  combineSources ((readHeaderValue r.hostHeaders).map authorityOf) (r.uriAuthority.map authorityOf)

/-- the sources `from_http_request` consults: the single textual Host header, the URI authority -/
def consulted (r : HttpReq) : List UriParse :=
  (readHeaderValue r.hostHeaders).toList ++ r.uriAuthority.toList

end Jrpc
