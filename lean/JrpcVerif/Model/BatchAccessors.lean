/-
  C12 — the remaining accessors of `BatchResponse` (core/src/client/mod.rs):

    len()        = responses.len()            is_empty() = responses.len() == 0
    into_ok()/ok() : if failed_calls > 0 { Err(the error objects) } else { Ok(the values) }

  The caller sees, besides the entries and the two counters, which variant `into_ok` / `ok` answer
  and how many items it yields; that is what `OkView` records (both spellings have the same body).
-/
import JrpcVerif.Model.BatchClient
namespace Jrpc.Client

inductive OkView where
  | ok (n : Nat)     -- `Ok(iterator)` yielding `n` values
  | err (n : Nat)    -- `Err(iterator)` yielding `n` error objects
  deriving DecidableEq, Repr

/-- `filter_map(|r| r.err()).count()` -/
def countErrors : List Payload → Nat
  | [] => 0
  | p :: r => (if isResult p then 0 else 1) + countErrors r

/-- `into_ok` / `ok`: the branch is chosen by the *counter*, the items come from the *entries* -/
def BatchResult.okView (b : BatchResult) : OkView :=
  if b.failures > 0 then .err (countErrors b.entries) else .ok (countResults b.entries)

def BatchResult.isEmpty (b : BatchResult) : Bool := b.entries.length == 0

def countErrT {ρ : Type} : List (TEntry ρ) → Nat
  | [] => 0
  | e :: r => (if e.isOk then 0 else 1) + countErrT r

def TBatchResult.okView {ρ : Type} (b : TBatchResult ρ) : OkView :=
  if b.failures > 0 then .err (countErrT b.entries) else .ok (countOk b.entries)

def TBatchResult.isEmpty {ρ : Type} (b : TBatchResult ρ) : Bool := b.entries.length == 0

end Jrpc.Client
