/-
  F5 — client batch paths as pure functions `(start, n, replies) → Ok … | Err …`.

  WS client  : core/src/client/async_client/mod.rs:727-769 (range tracking over the reply array,
               `checked_add(1)`), helpers.rs:52-88 (`process_batch_response`: exact-range lookup,
               `n` placeholders, fill by `id - start`), mod.rs:564-581 (entries + counters).
  HTTP client: client/http-client/src/client.rs:489-523 (placeholders sized from the request's id
               range, fill by `id - start`, counters per entry).

  Replies are already-decoded `Response`s (Model/Wire.lean) in the order the server wrote them.
-/
import JrpcVerif.Model.Wire
namespace Jrpc.Client

def u64Max : Nat := 18446744073709551615

/-- drop one leading `+` (Rust integer `from_str` accepts it) -/
def stripPlus : Text → Text
  | [] => []
  | c :: r => if c == 43 then r else c :: r

/-- Rust `str::parse::<u64>()`: optional single `+`, then one or more ASCII digits (leading zeros
allowed), value below 2^64 -/
def parseU64Str (s : Text) : Option Nat :=
  if (stripPlus s).isEmpty then none else
  match digitsVal (stripPlus s) 0 with
  | some n => if n < 18446744073709551616 then some n else none
  | none => none

/-- `Id::try_parse_inner_as_number` (types/src/params.rs:398-404) -/
def idNum : Id → Option Nat
  | .null => none
  | .num n => some n
  | .str s => parseU64Str s

/-- why a batch reply is rejected (the whole call fails / the client abandons the connection) -/
inductive BErr where
  | invalidId (id : Id)              -- `InvalidRequestId::Invalid(<id as text>)`: id is null or a non-numeric string
  | invalidNum (n : Nat)             -- `InvalidRequestId::Invalid(range.end)`: `max + 1` does not fit u64
  | notPendingId (id : Id)           -- `NotPendingRequest(<id>)`: slot outside the batch (WS fill loop)
  | notPendingNum (n : Nat)          -- `NotPendingRequest(<n>)`: slot outside the batch (HTTP)
  | notPendingRange (lo hi : Nat)    -- `NotPendingRequest("lo..hi")`: no pending batch has exactly this range
  | empty                            -- no response entry at all
  deriving DecidableEq, Repr

inductive BRes (α : Type) where
  | ok (a : α)
  | err (e : BErr)
  deriving DecidableEq, Repr

def placeholderErr : ErrObj := { code := 0, message := [], data := none }

/-- `Response::new(ResponsePayload::error(ErrorObject::borrowed(0, "", None)), Id::Null)` -/
def placeholder : Response := { jsonrpc := true, id := .null, payload := .error placeholderErr }

/-- `slots.get_mut(i)` followed by `*elem = a`; `none` when out of bounds -/
def setAt : List α → Nat → α → Option (List α)
  | [], _, _ => none
  | _ :: xs, 0, a => some (a :: xs)
  | x :: xs, i + 1, a =>
    match setAt xs i a with
    | some r => some (x :: r)
    | none => none

/-! ### WS path -/

/-- one step of the min/max tracking (`range.get_or_insert(id..id)`, then widen), mod.rs:735-743 -/
def widen (r : Option (Nat × Nat)) (id : Nat) : Nat × Nat :=
  match r with
  | none => (id, id)
  | some (lo, hi) => (if id < lo then id else lo, if id > hi then id else hi)

/-- ids of the response entries of a reply array folded into `(min, max)`;
first unparsable id ⇒ `invalidId` -/
def replyRange : Option (Nat × Nat) → List Response → BRes (Option (Nat × Nat))
  | acc, [] => .ok acc
  | acc, rp :: rest =>
    match idNum rp.id with
    | none => .err (.invalidId rp.id)
    | some id => replyRange (some (widen acc id)) rest

/-- the fill loop of `process_batch_response` (helpers.rs:74-84) -/
def fillSlots (start : Nat) : List Response → List Response → BRes (List Response)
  | slots, [] => .ok slots
  | slots, rp :: rest =>
    match idNum rp.id with
    | none => .err (.invalidId rp.id)
    | some id =>
      if id < start then .err (.notPendingId rp.id)
      else
        match setAt slots (id - start) rp with
        | none => .err (.notPendingId rp.id)
        | some slots' => fillSlots start slots' rest

/-- exclusive end of the reply's id range: `range.end.checked_add(1)` (mod.rs:762-765) -/
def rangeEnd (hi : Nat) : BRes Nat :=
  if hi = u64Max then .err (.invalidNum hi) else .ok (hi + 1)

/-- the raw responses handed to the waiting `batch_request` future when exactly one batch with ids
`[start, start+n)` is pending -/
def wsBatchRaw (start n : Nat) (replies : List Response) : BRes (List Response) :=
  match replyRange none replies with
  | .err e => .err e
  | .ok none => .err .empty
  | .ok (some (lo, hi)) =>
    match rangeEnd hi with
    | .err e => .err e
    | .ok hi1 =>
      if lo = start ∧ hi1 = start + n then fillSlots lo (List.replicate (hi1 - lo) placeholder) replies
      else .err (.notPendingRange lo hi1)

/-- what `batch_request` returns: entries in request order plus the two counters -/
structure BatchResult where
  entries : List Payload
  successes : Nat
  failures : Nat
  deriving DecidableEq, Repr

def isResult : Payload → Bool
  | .result _ => true
  | .error _ => false

def countResults : List Payload → Nat
  | [] => 0
  | p :: r => (if isResult p then 1 else 0) + countResults r

/-- mod.rs:564-581 with `R = Box<RawValue>` (deserialising the result cannot fail) -/
def wsEntries (rs : List Response) : BatchResult :=
  { entries := rs.map (·.payload),
    successes := countResults (rs.map (·.payload)),
    failures := (rs.map (·.payload)).length - countResults (rs.map (·.payload)) }

def wsBatch (start n : Nat) (replies : List Response) : BRes BatchResult :=
  match wsBatchRaw start n replies with
  | .err e => .err e
  | .ok rs => .ok (wsEntries rs)

/-! ### HTTP path -/

/-- client.rs:496-517 -/
def httpFill (start : Nat) : List Payload → List Response → BRes (List Payload)
  | slots, [] => .ok slots
  | slots, rp :: rest =>
    match idNum rp.id with
    | none => .err (.invalidId rp.id)
    | some id =>
      if id < start then .err (.notPendingNum id)
      else
        match setAt slots (id - start) rp.payload with
        | none => .err (.notPendingNum id)
        | some slots' => httpFill start slots' rest

/-- client.rs:489-523 -/
def httpBatch (start n : Nat) (replies : List Response) : BRes BatchResult :=
  match httpFill start (List.replicate n (Payload.error placeholderErr)) replies with
  | .err e => .err e
  | .ok slots =>
    .ok { entries := slots, successes := countResults slots, failures := slots.length - countResults slots }

/-! ### specification side: which reply belongs in slot `k` -/

/-- the last reply whose id reads as the number `k` -/
def lastWith (k : Nat) : List Response → Option Response
  | [] => none
  | rp :: rest =>
    match lastWith k rest with
    | some r => some r
    | none => if idNum rp.id = some k then some rp else none

end Jrpc.Client
