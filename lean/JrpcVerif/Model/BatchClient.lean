/-
  F5 — client batch paths as pure functions `(start, n, replies) → Ok … | Err …`.

  WS client  : core/src/client/async_client/mod.rs:727-769 (range tracking over the reply array,
               `checked_add(1)`), helpers.rs:52-88 (`process_batch_response`: exact-range lookup,
               `n` placeholders, fill by `id - start`), mod.rs:564-581 (entries + counters).
  HTTP client: client/http-client/src/client.rs:489-523 (placeholders sized from the request's id
               range, fill by `id - start`, counters per entry).

  Typed variants (`wsBatchT`, `httpBatchT`): the caller's result type enters as a decoder `δ`.
  Replies are already-decoded `Response`s (Model/Wire.lean) in the order the server wrote them.
-/
import JrpcVerif.Model.Wire
namespace Jrpc.Client

def u64Max : Nat := 18446744073709551615

/-- drop one leading `+` (Rust integer `from_str` accepts it) -/
def stripPlus : Text → Text
  | [] => []
  | c :: r => if c == 43 then r else c :: r

/-- Rust `str::parse::<u64>()`: optional single `+`, then one or more ASCII digits (leading zeros
allowed), value below 2^64 -/
def parseU64Str (s : Text) : Option Nat :=
  if (stripPlus s).isEmpty then none else
  match digitsVal (stripPlus s) 0 with
  | some n => if n < 18446744073709551616 then some n else none
  | none => none

/-- `Id::try_parse_inner_as_number` (types/src/params.rs:398-404) -/
def idNum : Id → Option Nat
  | .null => none
  | .num n => some n
  | .str s => parseU64Str s

/-- why a batch reply is rejected (the whole call fails / the client abandons the connection) -/
inductive BErr where
  | invalidId (id : Id)              -- `InvalidRequestId::Invalid(<id as text>)`: id is null or a non-numeric string
  | invalidNum (n : Nat)             -- `InvalidRequestId::Invalid(range.end)`: `max + 1` does not fit u64
  | notPendingId (id : Id)           -- `NotPendingRequest(<id>)`: slot outside the batch (WS fill loop)
  | notPendingNum (n : Nat)          -- `NotPendingRequest(<n>)`: slot outside the batch (HTTP)
  | notPendingRange (lo hi : Nat)    -- `NotPendingRequest("lo..hi")`: no pending batch has exactly this range
  | empty                            -- no response entry at all
  deriving DecidableEq, Repr

inductive BRes (α : Type) where
  | ok (a : α)
  | err (e : BErr)
  deriving DecidableEq, Repr

def placeholderErr : ErrObj := { code := 0, message := [], data := none }

/-- `Response::new(ResponsePayload::error(ErrorObject::borrowed(0, "", None)), Id::Null)` -/
def placeholder : Response := { jsonrpc := true, id := .null, payload := .error placeholderErr }

/-- `slots.get_mut(i)` followed by `*elem = a`; `none` when out of bounds -/
def setAt : List α → Nat → α → Option (List α)
  | [], _, _ => none
  | _ :: xs, 0, a => some (a :: xs)
  | x :: xs, i + 1, a =>
    match setAt xs i a with
    | some r => some (x :: r)
    | none => none

/-! ### WS path -/

/-- one step of the min/max tracking (`range.get_or_insert(id..id)`, then widen), mod.rs:735-743 -/
def widen (r : Option (Nat × Nat)) (id : Nat) : Nat × Nat :=
  match r with
  | none => (id, id)
  | some (lo, hi) => (if id < lo then id else lo, if id > hi then id else hi)

/-- ids of the response entries of a reply array folded into `(min, max)`;
first unparsable id ⇒ `invalidId` -/
def replyRange : Option (Nat × Nat) → List Response → BRes (Option (Nat × Nat))
  | acc, [] => .ok acc
  | acc, rp :: rest =>
    match idNum rp.id with
    | none => .err (.invalidId rp.id)
    | some id => replyRange (some (widen acc id)) rest

/-- the fill loop of `process_batch_response` (helpers.rs:74-84) -/
def fillSlots (start : Nat) : List Response → List Response → BRes (List Response)
  | slots, [] => .ok slots
  | slots, rp :: rest =>
    match idNum rp.id with
    | none => .err (.invalidId rp.id)
    | some id =>
      if id < start then .err (.notPendingId rp.id)
      else
        match setAt slots (id - start) rp with
        | none => .err (.notPendingId rp.id)
        | some slots' => fillSlots start slots' rest

/-- exclusive end of the reply's id range: `range.end.checked_add(1)` (mod.rs:762-765) -/
def rangeEnd (hi : Nat) : BRes Nat :=
  if hi = u64Max then .err (.invalidNum hi) else .ok (hi + 1)

/-- the raw responses handed to the waiting `batch_request` future when exactly one batch with ids
`[start, start+n)` is pending -/
def wsBatchRaw (start n : Nat) (replies : List Response) : BRes (List Response) :=
  match replyRange none replies with
  | .err e => .err e
  | .ok none => .err .empty
  | .ok (some (lo, hi)) =>
    match rangeEnd hi with
    | .err e => .err e
    | .ok hi1 =>
      if lo = start ∧ hi1 = start + n then fillSlots lo (List.replicate (hi1 - lo) placeholder) replies
      else .err (.notPendingRange lo hi1)

/-- what `batch_request` returns: entries in request order plus the two counters -/
structure BatchResult where
  entries : List Payload
  successes : Nat
  failures : Nat
  deriving DecidableEq, Repr

def isResult : Payload → Bool
  | .result _ => true
  | .error _ => false

def countResults : List Payload → Nat
  | [] => 0
  | p :: r => (if isResult p then 1 else 0) + countResults r

/-- mod.rs:564-581 with `R = Box<RawValue>` (deserialising the result cannot fail) -/
def wsEntries (rs : List Response) : BatchResult :=
  { entries := rs.map (·.payload),
    successes := countResults (rs.map (·.payload)),
    failures := (rs.map (·.payload)).length - countResults (rs.map (·.payload)) }

def wsBatch (start n : Nat) (replies : List Response) : BRes BatchResult :=
  match wsBatchRaw start n replies with
  | .err e => .err e
  | .ok rs => .ok (wsEntries rs)

/-! ### HTTP path -/

/-- client.rs:496-517 -/
def httpFill (start : Nat) : List Payload → List Response → BRes (List Payload)
  | slots, [] => .ok slots
  | slots, rp :: rest =>
    match idNum rp.id with
    | none => .err (.invalidId rp.id)
    | some id =>
      if id < start then .err (.notPendingNum id)
      else
        match setAt slots (id - start) rp.payload with
        | none => .err (.notPendingNum id)
        | some slots' => httpFill start slots' rest

/-- client.rs:489-523 -/
def httpBatch (start n : Nat) (replies : List Response) : BRes BatchResult :=
  match httpFill start (List.replicate n (Payload.error placeholderErr)) replies with
  | .err e => .err e
  | .ok slots =>
    .ok { entries := slots, successes := countResults slots, failures := slots.length - countResults slots }

/-! ### typed results: every `result` is decoded into the caller's type `R`

`δ` stands for `serde_json::from_str::<R>` on the raw text of one `result` (`none` = it cannot be
decoded).  WS: mod.rs:586-602 (loop over the positional raw responses, `map_err(ParseError)?`);
HTTP: client.rs:496-517 (decoded inside the fill loop, before the slot is looked up). -/

inductive TEntry (ρ : Type) where
  | ok (v : ρ)
  | err (e : ErrObj)
  deriving DecidableEq, Repr

/-- `BatchResponse<R>` -/
structure TBatchResult (ρ : Type) where
  entries : List (TEntry ρ)
  successes : Nat
  failures : Nat
  deriving DecidableEq, Repr

/-- outcome of a typed `batch_request` -/
inductive TRes (α : Type) where
  | ok (a : α)
  | err (e : BErr)
  | parse                       -- `Error::ParseError`: some `result` is not an `R`
  deriving DecidableEq, Repr

def decodePayload {ρ : Type} (δ : Text → Option ρ) : Payload → Option (TEntry ρ)
  | .result v => (δ v).map .ok
  | .error e => some (.err e)

/-- all entries decoded, or `none` as soon as one cannot be (`?` inside the loop) -/
def decodeEntries {ρ : Type} (δ : Text → Option ρ) : List Payload → Option (List (TEntry ρ))
  | [] => some []
  | p :: r =>
    match decodePayload δ p with
    | none => none
    | some e =>
      match decodeEntries δ r with
      | none => none
      | some es => some (e :: es)

def TEntry.isOk {ρ : Type} : TEntry ρ → Bool
  | .ok _ => true
  | .err _ => false

def countOk {ρ : Type} : List (TEntry ρ) → Nat
  | [] => 0
  | e :: r => (if e.isOk then 1 else 0) + countOk r

/-- mod.rs:586-603 on the raw responses handed over by the background task -/
def wsTyped {ρ : Type} (δ : Text → Option ρ) (rs : List Response) : TRes (TBatchResult ρ) :=
  match decodeEntries δ (rs.map (·.payload)) with
  | none => .parse
  | some es => .ok { entries := es, successes := countOk es, failures := es.length - countOk es }

def wsBatchT {ρ : Type} (δ : Text → Option ρ) (start n : Nat) (replies : List Response) : TRes (TBatchResult ρ) :=
  match wsBatchRaw start n replies with
  | .err e => .err e
  | .ok rs => wsTyped δ rs

/-- client.rs:496-517 with a fallible decoder: id, then `from_str::<R>`, then the slot -/
def httpFillT {ρ : Type} (δ : Text → Option ρ) (start : Nat) : List (TEntry ρ) → List Response → TRes (List (TEntry ρ))
  | slots, [] => .ok slots
  | slots, rp :: rest =>
    match idNum rp.id with
    | none => .err (.invalidId rp.id)
    | some id =>
      match decodePayload δ rp.payload with
      | none => .parse
      | some e =>
        if id < start then .err (.notPendingNum id)
        else
          match setAt slots (id - start) e with
          | none => .err (.notPendingNum id)
          | some slots' => httpFillT δ start slots' rest

def httpBatchT {ρ : Type} (δ : Text → Option ρ) (start n : Nat) (replies : List Response) : TRes (TBatchResult ρ) :=
  match httpFillT δ start (List.replicate n (TEntry.err placeholderErr)) replies with
  | .err e => .err e
  | .parse => .parse
  | .ok slots => .ok { entries := slots, successes := countOk slots, failures := slots.length - countOk slots }

/-! ### specification side: which reply belongs in slot `k` -/

/-- the last reply whose id reads as the number `k` -/
def lastWith (k : Nat) : List Response → Option Response
  | [] => none
  | rp :: rest =>
    match lastWith k rest with
    | some r => some r
    | none => if idNum rp.id = some k then some rp else none

end Jrpc.Client
